(* Real-number lemmas about M_polyline_length.v *)
From Coq Require Import ZArith Reals Lra Psatz List Bool Lia Arith.
From PW Require Import Num NumR Vec NpList Result.
From PW.model Require Import M_polyline_base M_segment M_polyline_nearest M_polyline_length M_polyline_length_spec.
From PW.proofs Require Import P_vec P_nplist P_segment.
Import ListNotations.
Local Open Scope R_scope.

(* rows of a flattened k x 3 array *)
Fixpoint group3 (l : list R) : list (vec3 R) :=
  match l with x :: y :: z :: r => V3 x y z :: group3 r | _ => [] end.

(* ---- f = 1: the end of the path (the first vertex again when closed), whatever the last segments look like ---- *)
Lemma point_along_f1 pl : point_along_one ROps pl 1 = path_end pl.
Proof.
  unfold point_along_one. rops. rewrite Rmult_1_r.
  destruct (Rleb_spec (total_length ROps pl) (total_length ROps pl)); [reflexivity|lra].
Qed.

(* ---- sums ---- *)
Lemma fold_plus_acc l : forall a, fold_left Rplus l a = a + fold_left Rplus l 0.
Proof.
  induction l as [|x r IH]; intros a; cbn [fold_left]; [lra|].
  rewrite (IH (a + x)), (IH (0 + x)). lra.
Qed.
Lemma nsum_cons x l : nsum ROps (x :: l) = x + nsum ROps l.
Proof. unfold nsum. rops. cbn [fold_left]. rewrite fold_plus_acc. lra. Qed.
Lemma nsum_nil : nsum ROps [] = 0.
Proof. reflexivity. Qed.

Lemma seg_len_nonneg s : 0 <= seg_len ROps s.
Proof. unfold seg_len. apply vnorm_nonneg. Qed.
Lemma lens_sum_nonneg segs : 0 <= nsum ROps (map (seg_len ROps) segs).
Proof.
  induction segs as [|s r IH]; [cbn [map]; rewrite nsum_nil; lra|].
  cbn [map]. rewrite nsum_cons. pose proof (seg_len_nonneg s). lra.
Qed.

(* ---- lengths, total, centroid ---- *)
Lemma lengths_sum_centroid pl :
  (forall k, nth_error (segment_lengths ROps pl) k =
             option_map (fun s => vnorm ROps (vsub ROps (snd s) (fst s))) (nth_error (pl_segments pl) k)) /\
  total_length ROps pl = nsum ROps (segment_lengths ROps pl) /\
  0 <= total_length ROps pl /\
  (forall c, path_centroid ROps pl = Ok c ->
     total_length ROps pl <> 0 /\
     vscale ROps (total_length ROps pl) c =
       vsum ROps (map (fun s => vscale ROps (seg_len ROps s) (vscale ROps (1 / 2) (vadd ROps (fst s) (snd s)))) (pl_segments pl))) /\
  (total_length ROps pl = 0 -> path_centroid ROps pl = Raise ZeroDivisionError).
Proof.
  split; [intros k; unfold segment_lengths; apply nth_error_map|].
  split; [reflexivity|]. split; [apply lens_sum_nonneg|].
  unfold path_centroid, path_centroid_segs, total_length. rops. unfold n0. rops. split.
  - intros c H. destruct (Reqb_spec (nsum ROps (map (seg_len ROps) (pl_segments pl))) 0) as [E|E]; [discriminate|].
    injection H as <-. split; [exact E|].
    set (w := nsum ROps (map (seg_len ROps) (pl_segments pl))) in *.
    replace (map (fun s => vscale ROps (seg_len ROps s) (vscale ROps (1 / 2) (vadd ROps (fst s) (snd s)))) (pl_segments pl))
      with (map (fun s => vscale ROps (seg_len ROps s) (seg_mid ROps s)) (pl_segments pl)).
    + set (S := vsum ROps _). destruct S as [x y z]. vec_eq; field; exact E.
    + apply map_ext. intros [a b]. unfold seg_mid. destruct a, b. cbn [fst snd]. vec_eq; unfold n2; rops; field.
  - intros E. destruct (Reqb_spec (nsum ROps (map (seg_len ROps) (pl_segments pl))) 0); [reflexivity|contradiction].
Qed.

(* ---- the arc-length specification (DESIGN appendix A, over (start, end) segments) ---- *)
Lemma walk_past_end segs : forall dflt l, nsum ROps (map (seg_len ROps) segs) <= l -> walk dflt segs l = segs_end dflt segs.
Proof.
  induction segs as [|s r IH]; intros dflt l H; [reflexivity|].
  cbn [map] in H. rewrite nsum_cons in H. cbn [walk segs_end fold_left].
  pose proof (lens_sum_nonneg r).
  destruct (Rltb_spec l (seg_len ROps s)); [lra|]. apply IH. lra.
Qed.

Lemma pap_walk_is_walk segs : forall cum desired dflt p, cum <= desired ->
  pap_walk ROps segs cum desired = Some p -> p = walk dflt segs (desired - cum).
Proof.
  induction segs as [|s r IH]; intros cum desired dflt p Hc H; [discriminate|].
  cbn [pap_walk walk] in *. rops.
  destruct (Rltb_spec desired (cum + seg_len ROps s)) as [Hlt|Hge].
  - injection H as <-. destruct (Rltb_spec (desired - cum) (seg_len ROps s)); [|lra].
    f_equal. unfold seg_vector, seg_len in *. set (v := vsub ROps (snd s) (fst s)) in *.
    assert (Hp : 0 < vnorm ROps v) by lra. unfold vnormalize.
    set (n := vnorm ROps v) in *. clearbody n. destruct v as [x y z]. vec_eq; field; lra.
  - destruct (Rltb_spec (desired - cum) (seg_len ROps s)); [lra|].
    replace (desired - cum - seg_len ROps s) with (desired - (cum + seg_len ROps s)) by lra.
    apply IH; [lra|exact H].
Qed.

Lemma pap_walk_some segs : forall cum desired, cum <= desired -> desired < cum + nsum ROps (map (seg_len ROps) segs) ->
  exists p, pap_walk ROps segs cum desired = Some p.
Proof.
  induction segs as [|s r IH]; intros cum desired Hc H.
  - cbn [map] in H. rewrite nsum_nil in H. lra.
  - cbn [map] in H. rewrite nsum_cons in H. cbn [pap_walk]. rops.
    destruct (Rltb_spec desired (cum + seg_len ROps s)); [eauto|]. apply IH; lra.
Qed.

(* where the path ends: the first vertex again when closed, the last vertex when open *)
Lemma last_default_irrelevant {A} (l : list A) : l <> [] -> forall d d', last l d = last l d'.
Proof.
  induction l as [|x r IH]; intros H d d'; [congruence|].
  destruct r as [|y r]; [reflexivity|]. cbn [last]. apply IH. discriminate.
Qed.
Lemma open_chain_end : forall t h, segs_end h (zip (h :: t) t) = last t h.
Proof.
  unfold segs_end. induction t as [|x t IH]; intros h; [reflexivity|].
  change (zip (h :: x :: t) (x :: t)) with ((h, x) :: zip (x :: t) t).
  cbn [fold_left snd]. rewrite IH. destruct t as [|y t]; [reflexivity|].
  change (last (x :: y :: t) h) with (last (y :: t) h). apply last_default_irrelevant. discriminate.
Qed.
Lemma path_end_is_segs_end pl h t : pv pl = h :: t -> path_end pl = Some (segs_end h (pl_segments pl)).
Proof.
  intros E. unfold path_end, pl_segments. rewrite E. destruct (pclosed pl).
  - unfold segs_end. rewrite fold_left_app. reflexivity.
  - rewrite open_chain_end. reflexivity.
Qed.

(* point_along_path(f) is the point reached after travelling f x total length from the first vertex *)
Lemma point_along_path_spec pl h t f : pv pl = h :: t -> 0 <= f <= 1 -> 0 < total_length ROps pl ->
  point_along_one ROps pl f = Some (walk h (pl_segments pl) (total_length ROps pl * f)).
Proof.
  intros E Hf HL. unfold point_along_one. rops.
  set (L := total_length ROps pl) in *.
  destruct (Rleb_spec L (L * f)) as [Hend|Hin].
  - rewrite (path_end_is_segs_end pl h t E). f_equal. symmetry. apply walk_past_end. exact Hend.
  - destruct (pap_walk_some (pl_segments pl) 0 (L * f)) as [p Hp]; [nra | unfold L, total_length in *; unfold n0; rops; lra|].
    unfold n0. rops. rewrite Hp. f_equal.
    rewrite (pap_walk_is_walk (pl_segments pl) 0 (L * f) h p); [f_equal; lra| nra | exact Hp].
Qed.

Lemma point_along_stacked pl fs : pl_segments pl <> [] -> (forall x, In x fs -> 0 <= x <= 1) ->
  exists ps, point_along_path ROps pl fs = Ok ps /\ length ps = length fs /\
    forall k f p, nth_error fs k = Some f -> point_along_one ROps pl f = Some p -> nth_error ps k = Some p.
Proof.
  intros Hv Hr. unfold point_along_path.
  replace (existsb _ fs) with false.
  - destruct (pv pl) as [|h t] eqn:E; [exfalso; apply Hv; unfold pl_segments; rewrite E; reflexivity|].
    destruct fs as [|f0 fs']; [exists []; split; [reflexivity|]; split; [reflexivity|]; intros [|k] f p Hk; discriminate|].
    destruct (pl_segments pl) as [|s0 sr] eqn:Es; [congruence|].
    eexists. split; [reflexivity|]. split; [apply map_length|].
    intros k f p Hk Hp. rewrite nth_error_map, Hk. cbn. rewrite Hp. reflexivity.
  - symmetry. apply Bool.not_true_is_false. intros H. apply existsb_exists in H. destruct H as [x [Hin Hx]].
    specialize (Hr x Hin). unfold n0, n1 in Hx. rops. apply orb_true_iff in Hx.
    destruct Hx as [Hx|Hx]; apply Rltb_true in Hx; lra.
Qed.
(* without any segment (open polyline with one vertex) a non-empty fraction list is refused, as the code does *)
Lemma point_along_no_segment pl f fs : pl_segments pl = [] -> (forall x, In x (f :: fs) -> 0 <= x <= 1) ->
  point_along_path ROps pl (f :: fs) = Raise IndexError.
Proof.
  intros Hs Hr. unfold point_along_path.
  replace (existsb _ (f :: fs)) with false.
  - destruct (pv pl); [reflexivity|]. rewrite Hs. reflexivity.
  - symmetry. apply Bool.not_true_is_false. intros H. apply existsb_exists in H. destruct H as [x [Hin Hx]].
    specialize (Hr x Hin). unfold n0, n1 in Hx. rops. apply orb_true_iff in Hx.
    destruct Hx as [Hx|Hx]; apply Rltb_true in Hx; lra.
Qed.
(* f = 1 through the public entry point: the end of the path, whenever there is a segment *)
Lemma point_along_path_f1 pl h t : pv pl = h :: t -> pl_segments pl <> [] ->
  point_along_path ROps pl [1] = Ok [if pclosed pl then h else last t h].
Proof.
  intros E Hs. unfold point_along_path. cbn [existsb]. unfold n0, n1. rops.
  destruct (Rltb_spec 1 0); [lra|]. destruct (Rltb_spec 1 1); [lra|]. cbn [orb]. rewrite E.
  destruct (pl_segments pl) eqn:Es; [congruence|]. cbn [map]. rewrite point_along_f1. unfold path_end. rewrite E. reflexivity.
Qed.

Lemma point_along_out_of_range pl fs x : In x fs -> (x < 0 \/ 1 < x) -> point_along_path ROps pl fs = Raise ValueError.
Proof.
  intros Hin Hx. unfold point_along_path.
  replace (existsb _ fs) with true; [reflexivity|]. symmetry. apply existsb_exists. exists x. split; [exact Hin|].
  unfold n0, n1. rops. apply orb_true_iff. destruct Hx; [left|right]; apply Rltb_true; assumption.
Qed.

(* ---- ceiling ---- *)
Lemma Rceil_bounds x : x <= IZR (Rceil x) < x + 1.
Proof.
  unfold Rceil. rewrite opp_IZR. destruct (base_Int_part (- x)) as [H1 H2]. lra.
Qed.
Lemma Rceil_least x (m : Z) : x <= IZR m -> (Rceil x <= m)%Z.
Proof.
  intros H. destruct (Rceil_bounds x) as [_ H2].
  assert (IZR (Rceil x) < IZR (m + 1)) by (rewrite plus_IZR; lra).
  apply lt_IZR in H0. lia.
Qed.

(* the number of parts is the least n with  length <= n * max_length  (i.e. parts of length len/n <= max_length) *)
Lemma parts_needed_minimal mx s : 0 < mx ->
  seg_len ROps s <= IZR (parts_needed ROps mx s) * mx /\
  forall m : Z, seg_len ROps s <= IZR m * mx -> (parts_needed ROps mx s <= m)%Z.
Proof.
  intros Hm. unfold parts_needed. rops. unfold n0. rops.
  destruct (Rleb_spec mx 0); [lra|]. split.
  - destruct (Rceil_bounds (seg_len ROps s / mx)) as [H1 _].
    apply (Rmult_le_compat_r mx) in H1; [|lra]. replace (seg_len ROps s / mx * mx) with (seg_len ROps s) in H1 by (field; lra). exact H1.
  - intros m H. apply Rceil_least. apply (Rmult_le_reg_r mx); [lra|].
    replace (seg_len ROps s / mx * mx) with (seg_len ROps s) by (field; lra). exact H.
Qed.

(* inserted points are evenly spaced on their own segment: the j-th of n parts sits at parameter j/n *)
Lemma inserted_on_nth (n : Z) s j : (1 < n)%Z -> (j < Z.to_nat n - 1)%nat ->
  nth_error (inserted_on ROps n s) j =
  Some (vadd ROps (vscale ROps (IZR (Z.of_nat (S j)) / IZR n) (vsub ROps (snd s) (fst s))) (fst s)).
Proof.
  intros Hn Hj. unfold inserted_on. rewrite nth_error_map.
  replace (nth_error (seq 1 (Z.to_nat n - 1)) j) with (Some (S j)).
  - cbn [option_map]. f_equal. unfold lin_t, seg_vector. rops. unfold n1. rops.
    assert (IZR n <> 0) by (apply not_0_IZR; lia).
    destruct (vsub ROps (snd s) (fst s)) as [x y z], (fst s) as [a b c]. vec_eq; field; assumption.
  - symmetry. rewrite nth_error_nth' with (d := 0%nat) by (rewrite seq_length; exact Hj).
    rewrite seq_nth by exact Hj. reflexivity.
Qed.
Lemma inserted_on_length (n : Z) s : length (inserted_on ROps n s) = (Z.to_nat n - 1)%nat.
Proof. unfold inserted_on. rewrite map_length, seq_length. reflexivity. Qed.

(* which edges are cut, and into how many parts *)
Lemma edge_inserts_cases mx sel s :
  (sel = false \/ (parts_needed ROps mx s <= 1)%Z -> edge_inserts ROps mx sel s = []) /\
  (sel = true -> (1 < parts_needed ROps mx s)%Z -> edge_inserts ROps mx sel s = inserted_on ROps (parts_needed ROps mx s) s).
Proof.
  unfold edge_inserts. split.
  - intros [->|H]; [reflexivity|]. destruct sel; [|reflexivity]. cbn [andb].
    destruct (Z.ltb_spec 1 (parts_needed ROps mx s)); [lia|reflexivity].
  - intros -> H. cbn [andb]. destruct (Z.ltb_spec 1 (parts_needed ROps mx s)); [reflexivity|lia].
Qed.

(* ---- interleaving: original vertices stay, in order, at the reported indices; the points inserted on the edge
   leaving vertex k follow it directly ---- *)
Lemma interleave_spec : forall (vs : list (vec3 R)) ins pre k v il,
  nth_error vs k = Some v -> nth_error ins k = Some il ->
  exists i, nth_error (index_map_from (length pre) ins) k = Some i /\
    nth_error (pre ++ interleave vs ins) i = Some v /\
    (forall j p, nth_error il j = Some p -> nth_error (pre ++ interleave vs ins) (S (i + j)) = Some p) /\
    (length pre <= i)%nat.
Proof.
  induction vs as [|v0 vs IH]; intros ins pre k v il Hv Hi; [destruct k; discriminate|].
  destruct ins as [|i0 ins]; [destruct k; discriminate|].
  unfold interleave. cbn [zip flat_map fst snd]. fold (interleave vs ins).
  destruct k as [|k]; cbn [nth_error] in Hv, Hi.
  - injection Hv as <-. injection Hi as <-. exists (length pre).
    split; [reflexivity|]. split; [rewrite nth_error_app2 by lia; rewrite Nat.sub_diag; reflexivity|]. split; [|lia].
    cbn [app].
    intros j p Hj. rewrite nth_error_app2 by lia. replace (S (length pre + j) - length pre)%nat with (S j) by lia.
    cbn [app nth_error]. rewrite nth_error_app1 by (apply nth_error_Some; congruence). exact Hj.
  - specialize (IH ins (pre ++ v0 :: i0) k v il Hv Hi). destruct IH as [i [H1 [H2 [H3 H4]]]].
    rewrite app_length in H1, H4. cbn [length] in H1, H4. exists i. cbn [index_map_from nth_error].
    replace (S (length pre + length i0)) with (length pre + S (length i0))%nat by lia.
    split; [exact H1|]. rewrite <- app_assoc in H2, H3. cbn [app] in H2, H3.
    split; [exact H2|]. split; [exact H3|lia].
Qed.

Lemma index_map_increasing : forall (ins : list (list (vec3 R))) pos k i j,
  nth_error (index_map_from pos ins) k = Some i -> nth_error (index_map_from pos ins) (S k) = Some j -> (i < j)%nat.
Proof.
  induction ins as [|i0 ins IH]; intros pos k i j Hi Hj; [destruct k; discriminate|].
  destruct k as [|k]; cbn [index_map_from nth_error] in Hi, Hj.
  - injection Hi as <-. destruct ins as [|i1 ins]; [discriminate|]. cbn in Hj. injection Hj as <-. lia.
  - eapply IH; eassumption.
Qed.

(* bisecting no segment at all gives the polyline back (after the repair; the unrepaired code raises) *)
Lemma insert_multi_none : forall (vs : list (vec3 R)) k, insert_multi_from k vs [] = vs.
Proof. induction vs as [|v r IH]; intros k; cbn; [reflexivity|]. rewrite IH. reflexivity. Qed.
Lemma bisect_empty pl : exists o, bisect ROps pl [] = Ok (pl, o, []).
Proof.
  unfold bisect. cbn [existsb map]. rewrite insert_multi_none. destruct pl. cbn. eauto.
Qed.
Lemma bisect_closedness pl idx r : bisect ROps pl idx = Ok r -> pclosed (fst (fst r)) = pclosed pl.
Proof. unfold bisect. destruct (existsb _ idx); [discriminate|]. intros H; injection H as <-. reflexivity. Qed.

(* subdivide_segment: num points, the k-th at parameter k/(num-1) (endpoint) or k/num, first = p1, last = p2 *)
Lemma subdivide_segment_spec p1 p2 (num : Z) endpoint : (2 <= num)%Z ->
  exists pts, subdivide_segment ROps p1 p2 num endpoint = Ok pts /\ length pts = Z.to_nat num /\
    forall k, (k < Z.to_nat num)%nat ->
      exists p, nth_error pts k = Some p /\
        p = vadd ROps (vscale ROps (IZR (Z.of_nat k) / IZR (if endpoint then num - 1 else num)) (vsub ROps p2 p1)) p1.
Proof.
  intros Hn. unfold subdivide_segment. destruct (Z.ltb_spec num 2); [lia|].
  assert (Hn0 : IZR num <> 0) by (apply not_0_IZR; lia).
  assert (Hn1 : IZR (num - 1) <> 0) by (apply not_0_IZR; lia).
  destruct endpoint; eexists; (split; [reflexivity|]).
  - split; [rewrite app_length, map_length, seq_length; cbn; lia|].
    intros k Hk. destruct (Nat.eq_dec k (Z.to_nat num - 1)) as [->|Hne].
    + rewrite nth_error_app2 by (rewrite map_length, seq_length; lia).
      rewrite map_length, seq_length, Nat.sub_diag. eexists; split; [reflexivity|].
      replace (Z.of_nat (Z.to_nat num - 1)) with (num - 1)%Z by lia.
      unfold n1. rops. destruct (vsub ROps p2 p1), p1. vec_eq; field; assumption.
    + rewrite nth_error_app1 by (rewrite map_length, seq_length; lia).
      rewrite nth_error_map. rewrite nth_error_nth' with (d := 0%nat) by (rewrite seq_length; lia).
      rewrite seq_nth by lia. cbn [option_map Nat.add]. eexists; split; [reflexivity|].
      unfold lin_t, n1. rops. destruct (vsub ROps p2 p1), p1. vec_eq; field; assumption.
  - split; [rewrite map_length, seq_length; reflexivity|].
    intros k Hk. rewrite nth_error_map. rewrite nth_error_nth' with (d := 0%nat) by (rewrite seq_length; lia).
    rewrite seq_nth by lia. cbn [option_map Nat.add]. eexists; split; [reflexivity|].
    unfold lin_t, n1. rops. destruct (vsub ROps p2 p1), p1. vec_eq; field; assumption.
Qed.
Lemma subdivide_segment_refuses p1 p2 num endpoint : (num < 2)%Z -> subdivide_segment ROps p1 p2 num endpoint = Raise ValueError.
Proof. intros H. unfold subdivide_segment. destruct (Z.ltb_spec num 2); [reflexivity|lia]. Qed.

(* subdivide_segments: a zero-length segment gives NaN rows (None) — the evenly-spaced clause fails there *)
Lemma subdivide_segments_zero_length_refuted :
  exists vs num k, nth_error (subdivide_segments ROps vs num) k = Some None.
Proof.
  exists [V3 0 0 0; V3 0 0 0; V3 1 0 0], 2%nat, 0%nat.
  unfold subdivide_segments, open_segments. cbn [zip flat_map app].
  unfold subdiv_seg_rows at 1. unfold seg_vector, vnorm, vnorm2. cbn [fst snd]. vunf.
  replace ((0 - 0) * (0 - 0) + (0 - 0) * (0 - 0) + (0 - 0) * (0 - 0)) with 0 by ring. rewrite sqrt_0.
  destruct (Reqb_spec 0 0); [reflexivity|congruence].
Qed.
(* on a segment of positive length the rows are the evenly spaced points a + (k/num)(b - a) *)
Lemma subdiv_seg_rows_spec num a b k : a <> b -> (k < num)%nat ->
  nth_error (subdiv_seg_rows ROps num (a, b)) k =
  Some (Some (vadd ROps a (vscale ROps (IZR (Z.of_nat k) / IZR (Z.of_nat num)) (vsub ROps b a)))).
Proof.
  intros Hab Hk. unfold subdiv_seg_rows, seg_vector. cbn [fst snd]. rops. unfold n0. rops.
  assert (Hd : vsub ROps b a <> V3 0 0 0).
  { intros H. apply Hab. destruct a, b. vunf_in H. injection H as H1 H2 H3. f_equal; lra. }
  pose proof (vnorm_pos _ Hd) as Hp.
  destruct (Reqb_spec (vnorm ROps (vsub ROps b a)) 0); [lra|].
  rewrite nth_error_map. rewrite nth_error_nth' with (d := 0%nat) by (rewrite seq_length; lia).
  rewrite seq_nth by lia. cbn [option_map Nat.add]. f_equal. f_equal. f_equal.
  assert (Hn : IZR (Z.of_nat num) <> 0) by (apply not_0_IZR; lia).
  set (nn := vnorm ROps (vsub ROps b a)) in *. clearbody nn.
  destruct (vsub ROps b a) as [x y z]. vec_eq; field; split; assumption.
Qed.
