(* C01 ceiling: coverage, area, idempotence and complement of the per-face kernel (snapped distances). *)
From Coq Require Import ZArith Reals Lra Psatz List Bool Lia Arith.
From PW Require Import Num NumR Vec NpList Result.
From PW.model Require Import M_slicing M_slicing_spec.
From PW.proofs Require Import P_vec P_nplist P_slicing P_slicing_face.
Import ListNotations.
Local Open Scope R_scope.

Ltac d3 t := let A := fresh "A" in let B := fresh "B" in let C := fresh "C" in
  destruct t as [[A B] C]; destruct A as [? ? ?]; destruct B as [? ? ?]; destruct C as [? ? ?].

Lemma in_tri_nn_unrot t ds k x : (k < 3)%nat -> in_tri_nn t ds x -> in_tri_nn (rot3 t k) (rotd ds k) x.
Proof.
  intros Hk. destruct t as [[a b] c]. destruct ds as [[da db] dc]. unfold in_tri_nn, wdot.
  destruct k as [|[|[|k]]]; try lia; unfold rot3, rotd; cbn [tget dget fst snd Nat.add Nat.modulo Nat.divmod Nat.sub];
    intros (w0 & w1 & w2 & H0 & H1 & H2 & Hs & -> & Hd).
  - exists w0, w1, w2. repeat split; auto.
  - exists w1, w2, w0. repeat split; auto; [lra| |lra]. dvec. tunf. apply V3_ext; ring.
  - exists w2, w0, w1. repeat split; auto; [lra| |lra]. dvec. tunf. apply V3_ext; ring.
Qed.

(* one corner in front (a > 0 >= b, c): the cut triangle covers every point whose interpolated distance is >= 0 *)
Lemma tri0_cover eps ds t x : 0 < dget ds 0 -> dget ds 1 <= 0 -> dget ds 2 <= 0 ->
  in_tri_nn t ds x -> exists t', In t' (tri0 eps ds t) /\ in_tri t' x.
Proof.
  intros Ha Hb Hc (al & be & ga & H0 & H1 & H2 & Hs & -> & Hx).
  rewrite tri0_lerp by lra. eexists. split; [left; reflexivity|].
  unfold wdot in Hx. destruct ds as [[a b] c]. cbn [dget fst snd] in *.
  assert (Eal : al = 1 - be - ga) by lra. subst al.
  exists (1 - be * (a - b) / a - ga * (a - c) / a), (be * (a - b) / a), (ga * (a - c) / a).
  repeat split.
  - replace (1 - be * (a - b) / a - ga * (a - c) / a) with (((1 - be - ga) * a + be * b + ga * c) / a) by (field; lra).
    apply Rmult_le_pos; [lra|]. left. apply Rinv_0_lt_compat. lra.
  - unfold Rdiv. apply Rmult_le_pos; [apply Rmult_le_pos; lra|]. left. apply Rinv_0_lt_compat. lra.
  - unfold Rdiv. apply Rmult_le_pos; [apply Rmult_le_pos; lra|]. left. apply Rinv_0_lt_compat. lra.
  - field. lra.
  - d3 t. tunf. apply V3_ext; field; lra.
Qed.

(* two corners in front (a < 0 < b, c): the two triangles of the quad cover every point with interpolated distance >= 0 *)
Lemma quad0_cover eps ds t x : dget ds 0 < 0 -> 0 < dget ds 1 -> 0 < dget ds 2 ->
  in_tri_nn t ds x -> exists t', In t' (quad0 eps ds t) /\ in_tri t' x.
Proof.
  intros Ha Hb Hc (al & be & ga & H0 & H1 & H2 & Hs & -> & Hx).
  rewrite quad0_lerp by lra. cbv zeta.
  unfold wdot in Hx. destruct ds as [[a b] c]. cbn [dget fst snd] in *.
  destruct (Rle_dec 0 (ga * c + al * a)) as [Hcase|Hcase].
  - eexists. split; [left; reflexivity|].
    exists be, ((ga * c + al * a) / c), (al * (c - a) / c). repeat split.
    + exact H1.
    + apply Rmult_le_pos; [lra|]. left. apply Rinv_0_lt_compat. lra.
    + unfold Rdiv. apply Rmult_le_pos; [apply Rmult_le_pos; lra|]. left. apply Rinv_0_lt_compat. lra.
    + transitivity (al + be + ga); [field; lra|exact Hs].
    + d3 t. tunf. apply V3_ext; field; lra.
  - assert (Hneg : al * a + ga * c < 0) by lra.
    eexists. split; [right; left; reflexivity|].
    exists ((al * a + be * b + ga * c) / b), (ga * (c - a) / (- a)), ((al * a + ga * c) * (a - b) / (- a * b)).
    repeat split.
    + apply Rmult_le_pos; [lra|]. left. apply Rinv_0_lt_compat. lra.
    + unfold Rdiv. apply Rmult_le_pos; [apply Rmult_le_pos; lra|]. left. apply Rinv_0_lt_compat. lra.
    + unfold Rdiv. apply Rmult_le_pos.
      * replace ((al * a + ga * c) * (a - b)) with ((- (al * a + ga * c)) * (b - a)) by ring.
        apply Rmult_le_pos; lra.
      * left. apply Rinv_0_lt_compat. replace (- a * b) with ((- a) * b) by ring. apply Rmult_lt_0_compat; lra.
    + transitivity (al + be + ga); [field; lra|exact Hs].
    + d3 t. tunf. apply V3_ext; field; lra.
Qed.

(* coverage on the distances the kernel uses: a point of the face with positive interpolated distance lies in an output *)
Theorem slice_face_signs_cover tol eps ds m t w0 w1 w2 : 0 <= tol -> snapped3 tol ds ->
  0 <= w0 -> 0 <= w1 -> 0 <= w2 -> w0 + w1 + w2 = 1 -> 0 < wdot ds w0 w1 w2 ->
  exists t', In t' (slice_face_signs ROps eps ds (signs3 ROps tol ds) m t) /\ in_tri t' (bary t w0 w1 w2).
Proof.
  intros Ht HS H0 H1 H2 Hs Hpos. unfold slice_face_signs.
  assert (Hnn : in_tri_nn t ds (bary t w0 w1 w2)) by (exists w0, w1, w2; repeat split; auto; lra).
  pose proof (face_case_facts tol ds m Ht) as Hf.
  destruct (face_case (signs3 ROps tol ds) m) as [| |k|k].
  - exists t. split; [left; reflexivity|]. exists w0, w1, w2. auto.
  - exfalso. destruct Hf as [_ Hf]. unfold wdot in Hpos.
    pose proof (snapped_nonpos tol ds 0 Ht HS ltac:(lia) (Hf 0%nat ltac:(lia))).
    pose proof (snapped_nonpos tol ds 1 Ht HS ltac:(lia) (Hf 1%nat ltac:(lia))).
    pose proof (snapped_nonpos tol ds 2 Ht HS ltac:(lia) (Hf 2%nat ltac:(lia))). nra.
  - destruct Hf as (Hm & Hk & Ha & Hb & Hc). rewrite quad_tris_rot by exact Hk.
    apply quad0_cover; try (unfold rotd; cbn [dget fst snd]; lra). apply in_tri_nn_unrot; assumption.
  - destruct Hf as (Hm & Hk & Ha & Hb & Hc). rewrite cut_tris_rot by exact Hk. destruct (mod3_lt k) as [Hk1 Hk2].
    apply tri0_cover; try (unfold rotd; cbn [dget fst snd]).
    + lra.
    + apply (snapped_nonpos tol ds _ Ht HS Hk1 Hb).
    + apply (snapped_nonpos tol ds _ Ht HS Hk2 Hc).
    + apply in_tri_nn_unrot; assumption.
Qed.
(* coverage in true distances: every point of the input face further than tol in front of the plane lies in some output *)
Theorem slice_face_cover tol eps n o m t x : 0 <= tol ->
  in_tri t x -> tol < pd n o x -> exists t', In t' (slice_face ROps tol eps n o m t) /\ in_tri t' x.
Proof.
  intros Ht (w0 & w1 & w2 & H0 & H1 & H2 & Hs & ->) Hx. unfold slice_face, tri_signs.
  apply (slice_face_signs_cover tol eps _ m t w0 w1 w2 Ht (tri_dists_snapped tol n o t Ht) H0 H1 H2 Hs).
  pose proof (wdot_close tol n o t w0 w1 w2 Ht H0 H1 H2 Hs). lra.
Qed.

(* ---- area: explicit fraction of the face's vector area that is kept ------------------------------------------ *)
Lemma area_frac_rot t k l f : (k < 3)%nat -> area_frac (rot3 t k) l f -> area_frac t l f.
Proof. intros Hk [H1 H2]. split; [exact H1|]. rewrite H2, tri_normal_rot by exact Hk. reflexivity. Qed.

Theorem slice_face_signs_area tol eps ds m t : 0 <= tol -> snapped3 tol ds ->
  area_frac t (slice_face_signs ROps eps ds (signs3 ROps tol ds) m t) (frac_case (face_case (signs3 ROps tol ds) m) ds).
Proof.
  intros Ht HS. unfold slice_face_signs.
  pose proof (face_case_facts tol ds m Ht) as Hf.
  destruct (face_case (signs3 ROps tol ds) m) as [| |k|k]; cbn [frac_case].
  - split; [lra|]. unfold vsum_normals. cbn [fold_right]. destruct (tri_normal t). vunf. apply V3_ext; ring.
  - split; [lra|]. unfold vsum_normals. cbn [fold_right]. destruct (tri_normal t). vunf. apply V3_ext; ring.
  - destruct Hf as (Hm & Hk & Ha & Hb & Hc). rewrite quad_tris_rot by exact Hk.
    apply (area_frac_rot t k _ _ Hk).
    apply (quad0_orient_area eps (rotd ds k) (rot3 t k)); unfold rotd; cbn [dget fst snd]; lra.
  - destruct Hf as (Hm & Hk & Ha & Hb & Hc). rewrite cut_tris_rot by exact Hk. destruct (mod3_lt k) as [Hk1 Hk2].
    apply (area_frac_rot t k _ _ Hk).
    apply (tri0_area eps (rotd ds k) (rot3 t k)); unfold rotd; cbn [dget fst snd].
    + lra.
    + apply (snapped_nonpos tol ds _ Ht HS Hk1 Hb).
    + apply (snapped_nonpos tol ds _ Ht HS Hk2 Hc).
Qed.
Theorem slice_face_area tol eps n o m t : 0 <= tol ->
  exists f, area_frac t (slice_face ROps tol eps n o m t) f.
Proof. intros Ht. eexists. apply (slice_face_signs_area tol eps _ m t Ht (tri_dists_snapped tol n o t Ht)). Qed.

(* idempotence, face by face: every output triangle of a selected face is wholly on or in front (true distance >= -tol),
   so slicing it again with the same plane hands it back unchanged *)
Theorem slice_face_idempotent tol eps n o t t' : 0 <= tol ->
  In t' (slice_face ROps tol eps n o true t) -> forall m', slice_face ROps tol eps n o m' t' = [t'].
Proof.
  intros Ht Hin m'. apply slice_face_keep; [exact Ht|]. intros k Hk.
  destruct (slice_face_sound tol eps n o true t t' (tget t' k) Ht Hin (corner_in_tri t' k Hk)) as [_ Hd].
  exact (Hd eq_refl).
Qed.
