(* C01 ceiling: coverage and area of the per-face kernel. *)
From Coq Require Import ZArith Reals Lra Psatz List Bool Lia Arith.
From PW Require Import Num NumR Vec NpList Result.
From PW.model Require Import M_slicing.
From PW.proofs Require Import P_vec P_nplist P_slicing P_slicing_face.
Import ListNotations.
Local Open Scope R_scope.

Ltac d3 t := let A := fresh "A" in let B := fresh "B" in let C := fresh "C" in
  destruct t as [[A B] C]; destruct A as [? ? ?]; destruct B as [? ? ?]; destruct C as [? ? ?].

(* one corner in front (offset a > 0 >= b, c): the cut triangle covers everything of the face not behind the plane *)
Lemma tri0_cover eps n o t x : 0 < pd n o (tget t 0) -> pd n o (tget t 1) <= 0 -> pd n o (tget t 2) <= 0 ->
  in_tri t x -> 0 <= pd n o x -> exists t', In t' (tri0 eps n o t) /\ in_tri t' x.
Proof.
  intros Ha Hb Hc (al & be & ga & H0 & H1 & H2 & Hs & ->) Hx.
  unfold pd in *. rewrite plane_dot_bary in Hx by exact Hs.
  pose proof (tri0_lerp eps n o t) as E. unfold pd in E. rewrite E by lra. clear E.
  eexists. split; [left; reflexivity|].
  set (a := plane_dot ROps n o (tget t 0)) in *. set (b := plane_dot ROps n o (tget t 1)) in *.
  set (c := plane_dot ROps n o (tget t 2)) in *. clearbody a b c.
  assert (Eal : al = 1 - be - ga) by lra. subst al.
  exists (1 - be * (a - b) / a - ga * (a - c) / a), (be * (a - b) / a), (ga * (a - c) / a).
  repeat split.
  - replace (1 - be * (a - b) / a - ga * (a - c) / a) with (((1 - be - ga) * a + be * b + ga * c) / a) by (field; lra).
    apply Rmult_le_pos; [lra|]. left. apply Rinv_0_lt_compat. lra.
  - unfold Rdiv. apply Rmult_le_pos; [apply Rmult_le_pos; lra|]. left. apply Rinv_0_lt_compat. lra.
  - unfold Rdiv. apply Rmult_le_pos; [apply Rmult_le_pos; lra|]. left. apply Rinv_0_lt_compat. lra.
  - field. lra.
  - d3 t. tunf. apply V3_ext; field; lra.
Qed.

(* two corners in front (a < 0 < b, c): the two triangles of the quad cover everything not behind the plane *)
Lemma quad0_cover eps n o t x : pd n o (tget t 0) < 0 -> 0 < pd n o (tget t 1) -> 0 < pd n o (tget t 2) ->
  in_tri t x -> 0 <= pd n o x -> exists t', In t' (quad0 eps n o t) /\ in_tri t' x.
Proof.
  intros Ha Hb Hc (al & be & ga & H0 & H1 & H2 & Hs & ->) Hx.
  unfold pd in *. rewrite plane_dot_bary in Hx by exact Hs.
  pose proof (quad0_lerp eps n o t) as E. unfold pd in E. rewrite E by lra. clear E. cbv zeta.
  set (a := plane_dot ROps n o (tget t 0)) in *. set (b := plane_dot ROps n o (tget t 1)) in *.
  set (c := plane_dot ROps n o (tget t 2)) in *. clearbody a b c.
  destruct (Rle_dec 0 (ga * c + al * a)) as [Hcase|Hcase].
  - eexists. split; [left; reflexivity|].
    exists be, ((ga * c + al * a) / c), (al * (c - a) / c). repeat split.
    + exact H1.
    + apply Rmult_le_pos; [lra|]. left. apply Rinv_0_lt_compat. lra.
    + unfold Rdiv. apply Rmult_le_pos; [apply Rmult_le_pos; lra|]. left. apply Rinv_0_lt_compat. lra.
    + transitivity (al + be + ga); [field; lra|exact Hs].
    + d3 t. tunf. apply V3_ext; field; lra.
  - assert (Hneg : al * a + ga * c < 0) by lra.
    eexists. split; [right; left; reflexivity|].
    exists ((al * a + be * b + ga * c) / b), (ga * (c - a) / (- a)), ((al * a + ga * c) * (a - b) / (- a * b)).
    repeat split.
    + apply Rmult_le_pos; [lra|]. left. apply Rinv_0_lt_compat. lra.
    + unfold Rdiv. apply Rmult_le_pos; [apply Rmult_le_pos; lra|]. left. apply Rinv_0_lt_compat. lra.
    + unfold Rdiv. apply Rmult_le_pos.
      * replace ((al * a + ga * c) * (a - b)) with ((- (al * a + ga * c)) * (b - a)) by ring.
        apply Rmult_le_pos; lra.
      * left. apply Rinv_0_lt_compat. replace (- a * b) with ((- a) * b) by ring. apply Rmult_lt_0_compat; lra.
    + transitivity (al + be + ga); [field; lra|exact Hs].
    + d3 t. tunf. apply V3_ext; field; lra.
Qed.

(* coverage: every point of the input face strictly in front of the plane lies in some output triangle; so does every
   point on the plane unless the face is dropped (a dropped face meets the closed half-space in a corner or an edge) *)
Theorem slice_face_cover tol eps n o m t x : 0 <= tol -> H0 tol n o t ->
  in_tri t x -> 0 < pd n o x -> exists t', In t' (slice_face ROps tol eps n o m t) /\ in_tri t' x.
Proof.
  intros Ht HH Hin Hx. unfold slice_face, slice_face_signs.
  pose proof (face_case_facts tol n o t m Ht) as Hf.
  destruct (face_case (tri_signs ROps tol n o t) m) as [| |k|k].
  - exists t. split; [left; reflexivity|exact Hin].
  - exfalso. destruct Hf as [_ Hf]. destruct Hin as (al & be & ga & H0' & H1 & H2 & Hs & ->).
    unfold pd in *. rewrite plane_dot_bary in Hx by exact Hs.
    pose proof (H0_nonpos tol n o t 0 Ht HH ltac:(lia) (Hf 0%nat ltac:(lia))) as D0.
    pose proof (H0_nonpos tol n o t 1 Ht HH ltac:(lia) (Hf 1%nat ltac:(lia))) as D1.
    pose proof (H0_nonpos tol n o t 2 Ht HH ltac:(lia) (Hf 2%nat ltac:(lia))) as D2. unfold pd in *. nra.
  - destruct Hf as (Hm & Hk & Ha & Hb & Hc). rewrite quad_tris_rot by exact Hk.
    destruct (quad0_cover eps n o (rot3 t k) x) as (t' & Hin' & Hx'); try (unfold rot3; cbn [tget fst snd]; lra).
    + apply in_tri_rot; assumption.
    + exists t'. split; [exact Hin'|exact Hx'].
  - destruct Hf as (Hm & Hk & Ha & Hb & Hc). rewrite cut_tris_rot by exact Hk. destruct (mod3_lt k) as [Hk1 Hk2].
    destruct (tri0_cover eps n o (rot3 t k) x) as (t' & Hin' & Hx'); try (unfold rot3; cbn [tget fst snd]).
    + lra.
    + apply (H0_nonpos tol n o t _ Ht HH Hk1 Hb).
    + apply (H0_nonpos tol n o t _ Ht HH Hk2 Hc).
    + apply in_tri_rot; assumption.
    + lra.
    + exists t'. split; [exact Hin'|exact Hx'].
Qed.

(* area: the vector areas of the output triangles add up to a fraction f in [0,1] of the input face's *)
Lemma area_frac_rot t k l f : (k < 3)%nat -> area_frac (rot3 t k) l f -> area_frac t l f.
Proof. intros Hk [H1 H2]. split; [exact H1|]. rewrite H2, tri_normal_rot by exact Hk. reflexivity. Qed.

Theorem slice_face_area tol eps n o m t : 0 <= tol -> H0 tol n o t ->
  exists f, area_frac t (slice_face ROps tol eps n o m t) f.
Proof.
  intros Ht HH. unfold slice_face, slice_face_signs.
  pose proof (face_case_facts tol n o t m Ht) as Hf.
  destruct (face_case (tri_signs ROps tol n o t) m) as [| |k|k].
  - exists 1. split; [lra|]. unfold vsum_normals. cbn [fold_right]. destruct (tri_normal t). vunf. apply V3_ext; ring.
  - exists 0. split; [lra|]. unfold vsum_normals. cbn [fold_right]. destruct (tri_normal t). vunf. apply V3_ext; ring.
  - destruct Hf as (Hm & Hk & Ha & Hb & Hc). rewrite quad_tris_rot by exact Hk. eexists.
    apply (area_frac_rot t k _ _ Hk). apply quad0_orient_area; unfold rot3; cbn [tget fst snd]; lra.
  - destruct Hf as (Hm & Hk & Ha & Hb & Hc). rewrite cut_tris_rot by exact Hk. destruct (mod3_lt k) as [Hk1 Hk2]. eexists.
    apply (area_frac_rot t k _ _ Hk). apply tri0_area; unfold rot3; cbn [tget fst snd].
    + lra.
    + apply (H0_nonpos tol n o t _ Ht HH Hk1 Hb).
    + apply (H0_nonpos tol n o t _ Ht HH Hk2 Hc).
Qed.

(* idempotence, face by face: every output triangle of a selected face is wholly on or in front, so slicing it again
   with the same plane hands it back unchanged *)
Theorem slice_face_idempotent tol eps n o t t' : 0 <= tol -> H0 tol n o t ->
  In t' (slice_face ROps tol eps n o true t) -> forall m', slice_face ROps tol eps n o m' t' = [t'].
Proof.
  intros Ht HH Hin m'. apply slice_face_keep. intros k Hk.
  destruct (slice_face_sound tol eps n o true t t' (tget t' k) Ht HH Hin (corner_in_tri t' k Hk)) as [_ Hd].
  specialize (Hd eq_refl). lra.
Qed.

(* without H0: how far outside its edge a cut point can be when the far corner sits inside the tolerance band *)
Lemma cut_param_band tol a b : 0 <= tol -> tol < a -> b <= tol -> 0 < a / (a - b) <= 1 + tol / (a - tol).
Proof.
  intros Ht Ha Hb. assert (H1 : 0 < a - tol) by lra. assert (H2 : a - tol <= a - b) by lra. split.
  - apply Rdiv_lt_0_compat; lra.
  - replace (1 + tol / (a - tol)) with (a / (a - tol)) by (field; lra).
    unfold Rdiv. apply Rmult_le_compat_l; [lra|]. apply Rinv_le_contravar; lra.
Qed.

(* WITHOUT H0 the cut point can leave its edge: a corner in front barely outside the band (offset a) and a corner inside
   the band on the same side (offset b, classified "on") give the parameter a/(a-b) > 1, i.e. a new vertex beyond the
   far corner, outside the input face.  Witness: tol = 1, a = 2, b = 1/2, parameter 4/3. *)
Lemma cut_param_exceeds_one :
  exists tol a b, 0 <= tol /\ tol < a /\ - tol <= b <= tol /\ 1 < a / (a - b).
Proof. exists 1, 2, (1/2). repeat split; lra. Qed.

(* the same on a whole face: corners with offsets 2 (front), 1/2 (on, tol = 1), -2 (behind); the output triangle has the
   corner (4/3, 0, 0), which is not in the input face *)
Lemma cut_vertex_outside_face :
  exists tol eps n o t t' v, 0 <= tol /\ In t' (slice_face ROps tol eps n o true t) /\ In v (tri_corners t') /\ ~ in_tri t v.
Proof.
  exists 1, 1, (V3 0 0 1), (V3 0 0 0), (V3 0 0 2, V3 1 0 (1/2), V3 0 1 (-2)).
  eexists. exists (V3 (4/3) 0 0). split; [lra|].
  assert (S0 : vsign ROps 1 (plane_dot ROps (V3 0 0 1) (V3 0 0 0) (V3 0 0 2)) = (-1)%Z).
  { unfold vsign, plane_dot; vunf.
    repeat match goal with |- context [Rltb ?a ?b] => destruct (Rltb_spec a b); try (exfalso; lra) end; reflexivity. }
  assert (S1 : vsign ROps 1 (plane_dot ROps (V3 0 0 1) (V3 0 0 0) (V3 1 0 (1/2))) = 0%Z).
  { unfold vsign, plane_dot; vunf.
    repeat match goal with |- context [Rltb ?a ?b] => destruct (Rltb_spec a b); try (exfalso; lra) end; reflexivity. }
  assert (S2 : vsign ROps 1 (plane_dot ROps (V3 0 0 1) (V3 0 0 0) (V3 0 1 (-2))) = 1%Z).
  { unfold vsign, plane_dot; vunf.
    repeat match goal with |- context [Rltb ?a ?b] => destruct (Rltb_spec a b); try (exfalso; lra) end; reflexivity. }
  split; [|split].
  - unfold slice_face, tri_signs. cbn [tget fst snd]. rewrite S0, S1, S2.
    unfold slice_face_signs. cbn [face_case inside is_quad is_tri onedge ssum sasum sget fst snd Z.add Z.abs Z.eqb Z.leb Z.ltb
      Z.compare Z.opp Pos.compare Pos.compare_cont Pos.add Pos.succ andb orb negb col_of cut_tris]. left. reflexivity.
  - change (col_of (-1) ((-1)%Z, 0%Z, 1%Z)) with 0%nat.
    unfold tri_corners. cbn [tget fst snd In]. right. left.
    unfold int_points. cbn [tget fst snd Nat.add Nat.modulo Nat.divmod Nat.sub].
    unfold int_point. vunf.
    match goal with |- context [Reqb ?a ?b] => destruct (Reqb_spec a b) as [E|E]; [exfalso; lra|] end.
    apply V3_ext; field; lra.
  - intros (w0 & w1 & w2 & H0' & H1 & H2 & Hs & E). unfold bary in E. cbn [tget fst snd] in E. vunf_in E.
    injection E as Ex Ey Ez. lra.
Qed.
