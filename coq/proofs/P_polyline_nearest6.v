(* C07, aligned_along_subsegment: the post-condition. Reversing the vertex list reverses the segments and exchanges
   their ends; a query whose nearest point is unique keeps it (segment index mirrored, parameter 1 - t); slicing
   commutes with reversal up to list reversal. *)
From Coq Require Import ZArith Reals Lra Psatz List Bool Lia Arith.
From PW Require Import Num NumR Vec NpList Result.
From PW.model Require Import M_polyline_base M_segment M_polyline_nearest M_polyline_nearest_spec.
From PW.proofs Require Import P_vec P_nplist P_segment P_polyline_nearest P_polyline_nearest2 P_polyline_nearest3
  P_polyline_nearest4 P_polyline_nearest5.
Import ListNotations.
Local Open Scope R_scope.

(* ---- list plumbing ---- *)
Lemma nth_error_rev_lt {A} (l : list A) : forall k, (k < length l)%nat ->
  nth_error (rev l) k = nth_error l (length l - 1 - k).
Proof.
  induction l as [|x r IH]; intros k Hk; [cbn in Hk; lia|]. cbn [rev length] in *.
  destruct (Nat.eq_dec k (length r)) as [->|Hne].
  - rewrite nth_error_app2 by (rewrite rev_length; lia). rewrite rev_length, Nat.sub_diag.
    replace (S (length r) - 1 - length r)%nat with 0%nat by lia. reflexivity.
  - rewrite nth_error_app1 by (rewrite rev_length; lia). rewrite IH by lia.
    replace (S (length r) - 1 - k)%nat with (S (length r - 1 - k)) by lia. reflexivity.
Qed.
Lemma hd_rev {A} (l : list A) d : hd d (rev l) = last l d.
Proof.
  rewrite <- (rev_involutive l) at 2. destruct (rev l) as [|y r]; [reflexivity|].
  cbn [rev hd]. rewrite last_last. reflexivity.
Qed.
Lemma last_rev {A} (l : list A) d : last (rev l) d = hd d l.
Proof. destruct l as [|x r]; [reflexivity|]. cbn [rev hd]. apply last_last. Qed.

(* ---- the segments of the reversed polyline ---- *)

Lemma open_segments_snoc (l : list (vec3 R)) y d : l <> [] ->
  open_segments (l ++ [y]) = open_segments l ++ [(last l d, y)].
Proof.
  induction l as [|h r IH]; intros Hne; [congruence|]. destruct r as [|x r]; [reflexivity|].
  change ((h :: x :: r) ++ [y]) with (h :: x :: (r ++ [y])). rewrite !open_segments_cons.
  change (x :: r ++ [y]) with ((x :: r) ++ [y]). rewrite IH by discriminate. reflexivity.
Qed.
Lemma open_segments_rev (vs : list (vec3 R)) : open_segments (rev vs) = map swap_seg (rev (open_segments vs)).
Proof.
  induction vs as [|h t IH]; [reflexivity|]. destruct t as [|x t]; [reflexivity|].
  rewrite open_segments_cons. cbn [rev] in *. rewrite map_app. cbn [map swap_seg fst snd].
  rewrite <- IH. rewrite (open_segments_snoc (rev t ++ [x]) h h).
  - rewrite last_last. reflexivity.
  - intros H. apply app_eq_nil in H. destruct H; discriminate.
Qed.

Lemma open_pl_segments (pl : polyline R) : pclosed pl = false -> pl_segments pl = open_segments (pv pl).
Proof. intros H. unfold pl_segments, open_segments. rewrite H. reflexivity. Qed.

Lemma flipped_segments_open (pl : polyline R) : pclosed pl = false ->
  pl_segments (flipped pl) = map swap_seg (rev (pl_segments pl)).
Proof.
  intros H. rewrite (open_pl_segments pl H), (open_pl_segments (flipped pl)) by exact H.
  apply open_segments_rev.
Qed.
Lemma flipped_segments_closed (pl : polyline R) h t : pclosed pl = true -> pv pl = h :: t ->
  pl_segments (flipped pl) = map swap_seg (rev (open_segments (h :: t))) ++ [(h, last t h)].
Proof.
  intros Hc Hv. unfold flipped. rewrite Hc, Hv.
  rewrite (closed_segments_eq (rev (h :: t)) h).
  - rewrite open_segments_rev, last_rev, hd_rev. cbn [hd]. rewrite last_cons_default. reflexivity.
  - cbn [rev]. intros H. apply app_eq_nil in H. destruct H; discriminate.
Qed.

Lemma segments_count (pl : polyline R) :
  length (pl_segments pl) = (if pclosed pl then length (pv pl) else length (pv pl) - 1)%nat.
Proof. rewrite pl_segments_length. destruct (pv pl) as [|h t]; destruct (pclosed pl); cbn [length]; lia. Qed.
Lemma flipped_segments_count (pl : polyline R) : length (pl_segments (flipped pl)) = length (pl_segments pl).
Proof. rewrite !segments_count. unfold flipped. cbn [pv pclosed]. rewrite rev_length. reflexivity. Qed.

Lemma rev_seg_index_lt (pl : polyline R) k : (k < length (pl_segments pl))%nat ->
  (rev_seg_index pl k < length (pl_segments pl))%nat.
Proof.
  rewrite segments_count. unfold rev_seg_index. destruct (pclosed pl); cbn [andb]; [|lia].
  destruct (Nat.eqb_spec (S k) (length (pv pl))); lia.
Qed.
Lemma rev_seg_index_invol (pl : polyline R) k : (k < length (pl_segments pl))%nat ->
  rev_seg_index pl (rev_seg_index pl k) = k.
Proof.
  rewrite segments_count. unfold rev_seg_index. destruct (pclosed pl); cbn [andb]; [|lia].
  intros Hk. destruct (Nat.eqb_spec (S k) (length (pv pl))) as [E|E].
  - rewrite E, Nat.eqb_refl. reflexivity.
  - destruct (Nat.eqb_spec (S (length (pv pl) - 2 - k)) (length (pv pl))); lia.
Qed.

(* segment k of the polyline is segment rev_seg_index k of the reversed polyline, ends exchanged *)
Lemma flipped_segment_nth (pl : polyline R) k : (k < length (pl_segments pl))%nat ->
  nth_error (pl_segments (flipped pl)) (rev_seg_index pl k) = option_map swap_seg (nth_error (pl_segments pl) k).
Proof.
  intros Hk. pose proof Hk as Hk'. rewrite segments_count in Hk'. unfold rev_seg_index.
  destruct (pclosed pl) eqn:Hc; cbn [andb].
  - destruct (pv pl) as [|h t] eqn:Hv; [cbn [length] in Hk'; lia|]. cbn [length] in *.
    rewrite (flipped_segments_closed pl h t Hc Hv), (proj1 (closing_segment pl h t Hc Hv)).
    pose proof (open_segments_length (h :: t)) as Hl. cbn [length] in Hl.
    destruct (Nat.eqb_spec (S k) (S (length t))) as [E|E].
    + rewrite !nth_error_app2 by (rewrite ?map_length, ?rev_length, Hl; lia).
      rewrite map_length, rev_length, Hl. replace (k - (S (length t) - 1))%nat with 0%nat by lia. reflexivity.
    + rewrite !nth_error_app1 by (rewrite ?map_length, ?rev_length, Hl; lia).
      rewrite nth_error_map, nth_error_rev_lt by (rewrite Hl; lia). rewrite Hl. do 2 f_equal. lia.
  - rewrite (flipped_segments_open pl Hc). rewrite nth_error_map, nth_error_rev_lt by (rewrite segments_count, Hc; lia).
    rewrite segments_count, Hc. do 2 f_equal. lia.
Qed.

(* ---- the closest point of a segment does not depend on which end is called the start ---- *)
Lemma seg_at_swap a b s : seg_at b (vsub ROps a b) s = seg_at a (vsub ROps b a) (1 - s).
Proof. unfold seg_at. destruct a, b. vec_eq; ring. Qed.

Lemma hit_swap q a b :
  h_pt (seg_hit_of ROps q (b, a)) = h_pt (seg_hit_of ROps q (a, b)) /\
  h_d (seg_hit_of ROps q (b, a)) = h_d (seg_hit_of ROps q (a, b)) /\
  (vdot ROps (vsub ROps b a) (vsub ROps b a) <> 0 -> h_t (seg_hit_of ROps q (b, a)) = 1 - h_t (seg_hit_of ROps q (a, b))).
Proof.
  unfold seg_hit_of, seg_vector. cbn [fst snd h_pt h_d h_t].
  set (t := closest_t ROps q a (vsub ROps b a)). set (t' := closest_t ROps q b (vsub ROps a b)).
  pose proof (closest_t_range q a (vsub ROps b a)) as Ht. fold t in Ht.
  pose proof (closest_t_range q b (vsub ROps a b)) as Ht'. fold t' in Ht'.
  destruct (Req_dec (vdot ROps (vsub ROps b a) (vsub ROps b a)) 0) as [Hz|Hnz].
  - apply vdot_self_zero in Hz.
    assert (Hab : b = a). { destruct a, b. unfold vsub in Hz. rops. cbn in Hz. injection Hz as H1 H2 H3. f_equal; lra. }
    subst b. split; [|split]; [| |intros H; exfalso; apply H; rewrite Hz; vunf; ring].
    + rewrite !closest_point_is_seg_at. rewrite Hz. unfold seg_at. destruct a. vec_eq; ring.
    + rewrite !closest_point_is_seg_at. rewrite Hz. reflexivity.
  - assert (Heq : t' = 1 - t).
    { destruct (Req_dec (1 - t') t) as [E|Hne]; [lra|exfalso].
      pose proof (closest_point_strict q a (vsub ROps b a) (1 - t') Hnz ltac:(lra) Hne) as Hs.
      pose proof (closest_point_optimal q b (vsub ROps a b) (1 - t) ltac:(lra)) as Ho.
      rewrite closest_point_is_seg_at in Ho. fold t' in Ho. rewrite (seg_at_swap a b t'), (seg_at_swap a b (1 - t)) in Ho.
      replace (1 - (1 - t)) with t in Ho by ring.
      rewrite closest_point_is_seg_at in Hs. fold t in Hs. lra. }
    assert (Hp : closest_point ROps q b (vsub ROps a b) = closest_point ROps q a (vsub ROps b a)).
    { rewrite !closest_point_is_seg_at. fold t t'. rewrite seg_at_swap, Heq. f_equal. ring. }
    split; [exact Hp|]. split; [rewrite Hp; reflexivity|]. intros _. exact Heq.
Qed.
Lemma hit_swap_d q s : h_d (seg_hit_of ROps q (swap_seg s)) = h_d (seg_hit_of ROps q s).
Proof. destruct s as [a b]. exact (proj1 (proj2 (hit_swap q a b))). Qed.

(* ---- nearest on the reversed polyline ---- *)

Lemma nearest_flipped (pl : polyline R) q r : nearest_one ROps pl q = Ok r -> unique_nearest pl q r ->
  exists t', let r' := Near (n_pt r) (rev_seg_index pl (n_idx r)) (n_d r) t' in
    nearest_one ROps (flipped pl) q = Ok r' /\ unique_nearest (flipped pl) q r' /\
    (forall A B, nth_error (pl_segments pl) (n_idx r) = Some (A, B) ->
       vdot ROps (vsub ROps B A) (vsub ROps B A) <> 0 -> t' = 1 - n_t r).
Proof.
  intros Hr Hu. destruct (nearest_one_inv _ _ _ Hr) as [hh [Ham [Hp [Hd Ht]]]].
  destruct (amin_by_spec h_d _ _ _ Ham) as [Hn _]. rewrite hits_nth in Hn.
  destruct (nth_error (pl_segments pl) (n_idx r)) as [[A B]|] eqn:Es; [|discriminate]. cbn [option_map] in Hn.
  injection Hn as Hh.
  assert (Hk : (n_idx r < length (pl_segments pl))%nat) by (apply nth_error_Some; congruence).
  pose proof (flipped_segment_nth pl (n_idx r) Hk) as Hf. rewrite Es in Hf. cbn [option_map swap_seg fst snd] in Hf.
  destruct (hit_swap q A B) as [Ep [Ed Et]].
  assert (Hu' : forall j s, j <> rev_seg_index pl (n_idx r) -> nth_error (pl_segments (flipped pl)) j = Some s ->
                            n_d r < h_d (seg_hit_of ROps q s)).
  { intros j s Hj Hs.
    assert (Hjl : (j < length (pl_segments pl))%nat) by (rewrite <- flipped_segments_count; apply nth_error_Some; congruence).
    pose proof (flipped_segment_nth pl (rev_seg_index pl j) (rev_seg_index_lt pl j Hjl)) as Hfj.
    rewrite (rev_seg_index_invol pl j Hjl), Hs in Hfj.
    destruct (nth_error (pl_segments pl) (rev_seg_index pl j)) as [s0|] eqn:E0; [|discriminate].
    cbn [option_map] in Hfj. injection Hfj as ->. rewrite hit_swap_d. apply (Hu (rev_seg_index pl j) s0); [|exact E0].
    intros E. apply Hj. rewrite <- E. symmetry. apply rev_seg_index_invol. exact Hjl. }
  exists (h_t (seg_hit_of ROps q (B, A))). cbn zeta. split; [|split].
  - unfold nearest_one. rewrite (amin_by_unique h_d _ (rev_seg_index pl (n_idx r)) (seg_hit_of ROps q (B, A))).
    + rewrite Ep, Ed, Hp, Hd, <- Hh. reflexivity.
    + rewrite hits_nth, Hf. reflexivity.
    + intros m y Hm Hy. rewrite hits_nth in Hy.
      destruct (nth_error (pl_segments (flipped pl)) m) as [s|] eqn:E1; [|discriminate]. cbn [option_map] in Hy.
      injection Hy as <-. rewrite Ed. replace (h_d (seg_hit_of ROps q (A, B))) with (n_d r) by (rewrite Hd, <- Hh; reflexivity).
      apply (Hu' m s Hm E1).
  - exact Hu'.
  - intros A' B' E Hnz. injection E as <- <-. rewrite (Et Hnz), Ht, <- Hh. reflexivity.
Qed.

(* ---- index_of_vertex does not depend on the vertex order when it fails ---- *)
Lemma index_of_vertex_rev vs p : index_of_vertex ROps vs p = None -> index_of_vertex ROps (rev vs) p = None.
Proof. rewrite !index_of_vertex_none. apply Forall_rev. Qed.
Lemma near_vertex_sym p v : near_vertex ROps p v = near_vertex ROps v p.
Proof. unfold near_vertex. rops. rewrite (Rabs_minus_sym (vx v)), (Rabs_minus_sym (vy v)), (Rabs_minus_sym (vz v)). reflexivity. Qed.
Lemma near_vertex_refl p : near_vertex ROps p p = true.
Proof.
  unfold near_vertex, atol8, nfrac. rops. rewrite !Rminus_diag_eq, Rabs_R0 by reflexivity.
  destruct (Rleb_spec 0 (1 / 100000000)); [reflexivity|lra].
Qed.

(* every segment starts at the vertex with its own index *)
Lemma segment_start_vertex (pl : polyline R) k A B : nth_error (pl_segments pl) k = Some (A, B) ->
  nth_error (pv pl) k = Some A.
Proof.
  intros Hs. assert (Hk : (k < length (pl_segments pl))%nat) by (apply nth_error_Some; congruence).
  rewrite segments_count in Hk. destruct (pclosed pl) eqn:Hc.
  - destruct (Nat.eq_dec (S k) (length (pv pl))) as [E|E].
    + destruct (pv pl) as [|h t] eqn:Hv; [cbn [length] in E; lia|]. cbn [length] in E. injection E as ->.
      rewrite (proj2 (closing_segment pl h t Hc Hv)) in Hs. injection Hs as <- _. apply nth_error_last.
    + apply (segment_vertices pl k A B ltac:(lia) Hs).
  - apply (segment_vertices pl k A B ltac:(lia) Hs).
Qed.
Lemma nearest_nondegenerate (pl : polyline R) q r A B : nearest_one ROps pl q = Ok r ->
  index_of_vertex ROps (pv pl) (n_pt r) = None -> nth_error (pl_segments pl) (n_idx r) = Some (A, B) ->
  vdot ROps (vsub ROps B A) (vsub ROps B A) <> 0.
Proof. intros Hr Hv Hs. exact (segment_nondegenerate pl q r A B Hr Hv (segment_start_vertex pl _ A B Hs) Hs). Qed.

(* the reversed polyline answers with the same point and distance, the mirrored segment index and parameter 1 - t *)
Lemma nearest_on_flipped (pl : polyline R) q r : nearest_one ROps pl q = Ok r -> unique_nearest pl q r ->
  index_of_vertex ROps (pv pl) (n_pt r) = None ->
  nearest_one ROps (flipped pl) q = Ok (flipped_near pl r) /\ unique_nearest (flipped pl) q (flipped_near pl r) /\
  index_of_vertex ROps (pv (flipped pl)) (n_pt (flipped_near pl r)) = None.
Proof.
  intros Hr Hu Hv. destruct (nearest_flipped pl q r Hr Hu) as [t' [H1 [H2 H3]]].
  destruct (nearest_outputs_consistent _ _ _ Hr) as [A [B [Hs _]]].
  rewrite (H3 A B Hs (nearest_nondegenerate pl q r A B Hr Hv Hs)) in H1, H2.
  split; [exact H1|]. split; [exact H2|]. cbn [flipped pv flipped_near n_pt]. apply index_of_vertex_rev. exact Hv.
Qed.

(* two nearest points that are not within the vertex tolerance of each other are ordered along the polyline *)
Lemma before_on_total (pl : polyline R) p1 p2 r1 r2 :
  nearest_one ROps pl p1 = Ok r1 -> nearest_one ROps pl p2 = Ok r2 ->
  near_vertex ROps (n_pt r2) (n_pt r1) = false -> before_on r1 r2 \/ before_on r2 r1.
Proof.
  intros H1 H2 Hfar. unfold before_on.
  destruct (lt_eq_lt_dec (n_idx r1) (n_idx r2)) as [[Hlt|He]|Hgt]; [left; left; exact Hlt| |right; left; exact Hgt].
  destruct (Rtotal_order (n_t r1) (n_t r2)) as [Hlt|[Het|Hgt]];
    [left; right; split; assumption| |right; right; split; [symmetry; exact He|exact Hgt]].
  exfalso. destruct (nearest_outputs_consistent _ _ _ H1) as [A [B [Hs1 [Hp1 _]]]].
  destruct (nearest_outputs_consistent _ _ _ H2) as [A' [B' [Hs2 [Hp2 _]]]].
  rewrite <- He, Hs1 in Hs2. injection Hs2 as <- <-. rewrite <- Het, <- Hp1 in Hp2.
  rewrite Hp2, near_vertex_refl in Hfar. discriminate.
Qed.
Lemma before_on_asym r1 r2 : before_on r1 r2 -> before_on r2 r1 -> False.
Proof. unfold before_on. intros [H|[H H']] [K|[K K']]; try lia; lra. Qed.

(* ---- aligned_along_subsegment on an OPEN polyline: afterwards the sub-path from nearest(p1) to nearest(p2) runs forward,
   so sliced_at_points on the result does not refuse ---- *)
Section AlignedOpen.
  Context (pl : polyline R) (p1 p2 : vec3 R) (r1 r2 : near R).
  Context (Hopen : pclosed pl = false).
  Context (H1 : nearest_one ROps pl p1 = Ok r1) (H2 : nearest_one ROps pl p2 = Ok r2).
  Context (Hv1 : index_of_vertex ROps (pv pl) (n_pt r1) = None) (Hv2 : index_of_vertex ROps (pv pl) (n_pt r2) = None).
  Context (Hfar : near_vertex ROps (n_pt r2) (n_pt r1) = false).
  Context (Hu1 : unique_nearest pl p1 r1) (Hu2 : unique_nearest pl p2 r2).

  Lemma aligned_open_runs_forward : exists res r1' r2',
    aligned_along_subsegment ROps pl p1 p2 = Ok res /\
    (before_on r1 r2 -> res = pl) /\ (before_on r2 r1 -> res = flipped pl) /\
    nearest_one ROps res p1 = Ok r1' /\ nearest_one ROps res p2 = Ok r2' /\
    n_pt r1' = n_pt r1 /\ n_pt r2' = n_pt r2 /\ before_on r1' r2' /\
    sliced_at_points ROps res p1 p2 =
      Ok (MkPolyline (n_pt r1 :: firstn (n_idx r2' - n_idx r1') (skipn (S (n_idx r1')) (pv res)) ++ [n_pt r2]) false).
  Proof.
    destruct (aligned_open_decision pl p1 p2 r1 r2 Hopen H1 H2) as [f [Hf Hiff]].
    unfold aligned_along_subsegment. rewrite Hf. cbn [rmap].
    destruct (before_on_total pl p1 p2 r1 r2 H1 H2 Hfar) as [Hbo|Hbo].
    - assert (f = false).
      { destruct f; [|reflexivity]. exfalso. apply (before_on_asym r1 r2 Hbo). unfold before_on.
        destruct (proj1 Hiff eq_refl) as [K|[K K']]; [left; exact K|right; split; [symmetry; exact K|exact K']]. }
      subst f. exists pl, r1, r2. split; [reflexivity|]. split; [reflexivity|].
      split; [intros K; exfalso; exact (before_on_asym _ _ Hbo K)|].
      repeat (split; [assumption || reflexivity|]).
      exact (proj1 (sliced_at_points_open_spec pl p1 p2 r1 r2 Hopen H1 H2 Hv1 Hv2 Hfar Hu2) Hbo).
    - assert (f = true).
      { apply Hiff. destruct Hbo as [K|[K K']]; [left; exact K|right; split; [symmetry; exact K|exact K']]. }
      subst f. destruct (nearest_on_flipped pl p1 r1 H1 Hu1 Hv1) as [F1 [_ G1]].
      destruct (nearest_on_flipped pl p2 r2 H2 Hu2 Hv2) as [F2 [U2 G2]].
      assert (Hbo' : before_on (flipped_near pl r1) (flipped_near pl r2)).
      { assert (K1 : (n_idx r1 < length (pl_segments pl))%nat).
        { destruct (nearest_outputs_consistent _ _ _ H1) as [A [B [Hs _]]]. apply nth_error_Some. congruence. }
        rewrite segments_count, Hopen in K1.
        unfold before_on, flipped_near, rev_seg_index. cbn [n_idx n_t]. rewrite Hopen. cbn [andb].
        destruct Hbo as [K|[K K']]; [left; lia|right; split; [rewrite K; reflexivity|lra]]. }
      exists (flipped pl), (flipped_near pl r1), (flipped_near pl r2). split; [reflexivity|].
      split; [intros K; exfalso; exact (before_on_asym _ _ K Hbo)|]. split; [reflexivity|].
      split; [exact F1|]. split; [exact F2|]. split; [reflexivity|]. split; [reflexivity|]. split; [exact Hbo'|].
      exact (proj1 (sliced_at_points_open_spec (flipped pl) p1 p2 _ _ Hopen F1 F2 G1 G2 Hfar U2) Hbo').
  Qed.
End AlignedOpen.

(* ---- lengths: an open polyline and its reversal are equally long ---- *)
Lemma fold_plus_acc (l : list R) : forall x, fold_left Rplus l x = x + fold_left Rplus l 0.
Proof.
  induction l as [|y r IH]; intros x; cbn [fold_left]; [ring|]. rewrite (IH (x + y)), (IH (0 + y)). ring.
Qed.
Lemma nsum_cons x (l : list R) : nsum ROps (x :: l) = x + nsum ROps l.
Proof. unfold nsum. rops. cbn [fold_left]. rewrite (fold_plus_acc l (0 + x)). ring. Qed.
Lemma nsum_app (l1 l2 : list R) : nsum ROps (l1 ++ l2) = nsum ROps l1 + nsum ROps l2.
Proof.
  induction l1 as [|x r IH]; cbn [app]; [unfold nsum at 2; rops; cbn [fold_left]; ring|].
  rewrite !nsum_cons, IH. ring.
Qed.
Lemma nsum_rev (l : list R) : nsum ROps (rev l) = nsum ROps l.
Proof.
  induction l as [|x r IH]; [reflexivity|]. cbn [rev]. rewrite nsum_app, IH, !nsum_cons.
  unfold nsum at 2. rops. cbn [fold_left]. ring.
Qed.
Lemma seg_len_swap s : seg_len ROps (swap_seg s) = seg_len ROps s.
Proof.
  destruct s as [a b]. unfold seg_len, swap_seg, vnorm. cbn [fst snd]. rops. f_equal. destruct a, b. vunf. ring.
Qed.
Lemma total_length_rev (L : list (vec3 R)) :
  total_length ROps (MkPolyline (rev L) false) = total_length ROps (MkPolyline L false).
Proof.
  unfold total_length. rewrite !open_pl_segments by reflexivity. cbn [pv].
  rewrite open_segments_rev, map_map, (map_ext _ _ seg_len_swap), map_rev. apply nsum_rev.
Qed.

(* ---- a cyclic run of the reversed vertex list is the reversal of the complementary-start cyclic run ---- *)
Lemma cyclic_from_rev {A} (vs : list A) i i' m :
  (i <= length vs)%nat -> (i' <= length vs)%nat -> (m <= length vs)%nat ->
  (m = 0 \/ i + m + i' = length vs \/ i + m + i' = 2 * length vs)%nat ->
  cyclic_from (rev vs) i' m = rev (cyclic_from vs i m).
Proof.
  intros Hi Hi' Hm Hc. unfold cyclic_from. set (n := length vs) in *.
  destruct Hc as [->|[Hc|Hc]]; [reflexivity| |].
  - rewrite !firstn_app_le by (rewrite skipn_length, ?rev_length; fold n; lia).
    rewrite skipn_rev, firstn_rev. fold n. rewrite firstn_length, Nat.min_l by (fold n; lia).
    rewrite skipn_firstn_comm. replace (n - i' - (n - i' - m))%nat with m by lia.
    replace (n - i' - m)%nat with i by lia. reflexivity.
  - replace m with (length (skipn i' (rev vs)) + (i' + m - n))%nat at 1 by (rewrite skipn_length, rev_length; fold n; lia).
    rewrite firstn_app_2. rewrite firstn_firstn, Nat.min_l by lia.
    replace m with (length (skipn i vs) + (i + m - n))%nat at 2 by (rewrite skipn_length; fold n; lia).
    rewrite firstn_app_2. rewrite firstn_firstn, Nat.min_l by lia.
    rewrite rev_app_distr, skipn_rev, firstn_rev. fold n.
    replace (n - i')%nat with (i + m - n)%nat by lia. replace (n - (i' + m - n))%nat with i by lia. reflexivity.
Qed.

(* ---- slicing commutes with reversal (closed polylines): the sub-path from nearest(a) to nearest(b) on the reversed
   polyline is the reversal of the sub-path from nearest(b) to nearest(a) on the polyline itself ---- *)
Lemma edge_end_closed_val (pl : polyline R) k : pclosed pl = true ->
  edge_end pl k = if Nat.eqb (S k) (length (pv pl)) then 0%nat else S k.
Proof. intros Hc. unfold edge_end. rewrite Hc. reflexivity. Qed.
Lemma rev_seg_index_closed_val (pl : polyline R) k : pclosed pl = true ->
  rev_seg_index pl k = if Nat.eqb (S k) (length (pv pl)) then k else (length (pv pl) - 2 - k)%nat.
Proof. intros Hc. unfold rev_seg_index. rewrite Hc. reflexivity. Qed.

Lemma sliced_eq_finish (vs : list (vec3 R)) na nb i i' m m' :
  (i <= length vs)%nat -> (i' <= length vs)%nat -> (m <= length vs)%nat ->
  (m = 0 \/ i + m + i' = length vs \/ i + m + i' = 2 * length vs)%nat -> m' = m ->
  @Ok (polyline R) (MkPolyline (na :: cyclic_from (rev vs) i' m' ++ [nb]) false) =
  Ok (MkPolyline (na :: rev (cyclic_from vs i m) ++ [nb]) false).
Proof. intros Hi Hi' Hm Hc ->. rewrite (cyclic_from_rev vs i i' m Hi Hi' Hm Hc). reflexivity. Qed.

Section FlipCommute.
  Context (pl : polyline R) (a b : vec3 R) (ra rb : near R).
  Context (Hclosed : pclosed pl = true).
  Context (Ha : nearest_one ROps pl a = Ok ra) (Hb : nearest_one ROps pl b = Ok rb).
  Context (Hva : index_of_vertex ROps (pv pl) (n_pt ra) = None) (Hvb : index_of_vertex ROps (pv pl) (n_pt rb) = None).
  Context (Hfar : near_vertex ROps (n_pt rb) (n_pt ra) = false).
  Context (Hua : unique_nearest pl a ra) (Hub : unique_nearest pl b rb).

  Lemma sliced_flipped_is_reversed : exists C,
    sliced_at_points ROps pl b a = Ok (MkPolyline (n_pt rb :: C ++ [n_pt ra]) false) /\
    sliced_at_points ROps (flipped pl) a b = Ok (MkPolyline (n_pt ra :: rev C ++ [n_pt rb]) false).
  Proof.
    assert (Hfar' : near_vertex ROps (n_pt ra) (n_pt rb) = false) by (rewrite near_vertex_sym; exact Hfar).
    destruct (sliced_at_points_closed_cyclic pl b a rb ra Hclosed Hb Ha Hvb Hva Hfar' Hua) as [HP1 HP2].
    destruct (nearest_on_flipped pl a ra Ha Hua Hva) as [Fa [_ Ga]].
    destruct (nearest_on_flipped pl b rb Hb Hub Hvb) as [Fb [Ub Gb]].
    destruct (sliced_at_points_closed_cyclic (flipped pl) a b _ _ Hclosed Fa Fb Ga Gb Hfar Ub) as [HF1 HF2].
    pose proof (closed_idx_bound pl a ra Hclosed Ha) as Bka. pose proof (closed_idx_bound pl b rb Hclosed Hb) as Bkb.
    unfold before_on in HF1, HF2. cbn [flipped_near n_idx n_pt n_t] in HF1, HF2.
    rewrite (edge_end_closed_val (flipped pl) _ Hclosed) in HF1, HF2.
    change (pv (flipped pl)) with (rev (pv pl)) in HF1, HF2. rewrite rev_length in HF1, HF2.
    rewrite !(rev_seg_index_closed_val pl _ Hclosed) in HF1, HF2.
    rewrite (edge_end_closed_val pl _ Hclosed) in HP1, HP2.
    set (n := length (pv pl)) in *. set (ka := n_idx ra) in *. set (kb := n_idx rb) in *.
    destruct (before_on_total pl a b ra rb Ha Hb Hfar) as [Hbo|Hbo].
    - (* nearest(a) before nearest(b) on pl: the sub-path from b to a wraps *)
      eexists. split; [exact (HP2 Hbo)|]. unfold before_on in Hbo. fold ka kb in Hbo.
      destruct (Nat.eqb_spec (S ka) n) as [Ea|Ea]; destruct (Nat.eqb_spec (S kb) n) as [Eb|Eb];
        destruct Hbo as [K|[K K']]; try lia.
      + rewrite HF2 by (right; split; [lia|lra]).
        destruct (Nat.eqb_spec (S ka) n); [|lia]. apply sliced_eq_finish; lia.
      + rewrite HF1 by (left; lia).
        destruct (Nat.eqb_spec (S (n - 2 - ka)) n); [lia|]. apply sliced_eq_finish; lia.
      + rewrite HF2 by (left; lia).
        destruct (Nat.eqb_spec (S (n - 2 - ka)) n); [lia|]. apply sliced_eq_finish; lia.
      + rewrite HF2 by (right; split; [lia|lra]).
        destruct (Nat.eqb_spec (S (n - 2 - ka)) n); [lia|]. apply sliced_eq_finish; lia.
    - (* nearest(b) before nearest(a) on pl: the sub-path from b to a runs forward *)
      eexists. split; [exact (HP1 Hbo)|]. unfold before_on in Hbo. fold ka kb in Hbo.
      destruct (Nat.eqb_spec (S ka) n) as [Ea|Ea]; destruct (Nat.eqb_spec (S kb) n) as [Eb|Eb];
        destruct Hbo as [K|[K K']]; try lia.
      + rewrite HF1 by (right; split; [lia|lra]).
        destruct (Nat.eqb_spec (S ka) n); [|lia]. apply sliced_eq_finish; lia.
      + rewrite HF2 by (left; lia).
        destruct (Nat.eqb_spec (S ka) n); [|lia]. apply sliced_eq_finish; lia.
      + rewrite HF1 by (left; lia).
        destruct (Nat.eqb_spec (S (n - 2 - ka)) n); [lia|]. apply sliced_eq_finish; lia.
      + rewrite HF1 by (right; split; [lia|lra]).
        destruct (Nat.eqb_spec (S (n - 2 - ka)) n); [lia|]. apply sliced_eq_finish; lia.
  Qed.
End FlipCommute.

(* ---- aligned_along_subsegment on a CLOSED polyline: afterwards the sub-path from nearest(p1) to nearest(p2) is the
   shorter way round (not longer than the complementary sub-path from nearest(p2) to nearest(p1)) ---- *)
Lemma rev_path {A} (x y : A) C : rev (x :: C ++ [y]) = y :: rev C ++ [x].
Proof. cbn [rev]. rewrite rev_app_distr. reflexivity. Qed.

Section AlignedClosed.
  Context (pl : polyline R) (p1 p2 : vec3 R) (r1 r2 : near R).
  Context (Hclosed : pclosed pl = true).
  Context (H1 : nearest_one ROps pl p1 = Ok r1) (H2 : nearest_one ROps pl p2 = Ok r2).
  Context (Hv1 : index_of_vertex ROps (pv pl) (n_pt r1) = None) (Hv2 : index_of_vertex ROps (pv pl) (n_pt r2) = None).
  Context (Hfar : near_vertex ROps (n_pt r2) (n_pt r1) = false).
  Context (Hu1 : unique_nearest pl p1 r1) (Hu2 : unique_nearest pl p2 r2).

  Lemma aligned_closed_shorter_way : exists res fwd back mid,
    aligned_along_subsegment ROps pl p1 p2 = Ok res /\ (res = pl \/ res = flipped pl) /\
    sliced_at_points ROps res p1 p2 = Ok fwd /\ sliced_at_points ROps res p2 p1 = Ok back /\
    pv fwd = n_pt r1 :: mid ++ [n_pt r2] /\
    total_length ROps fwd <= total_length ROps back.
  Proof.
    assert (Hfar' : near_vertex ROps (n_pt r1) (n_pt r2) = false) by (rewrite near_vertex_sym; exact Hfar).
    destruct (sliced_flipped_is_reversed pl p1 p2 r1 r2 Hclosed H1 H2 Hv1 Hv2 Hfar Hu1 Hu2) as [C1 [B0 F1]].
    destruct (sliced_flipped_is_reversed pl p2 p1 r2 r1 Hclosed H2 H1 Hv2 Hv1 Hfar' Hu2 Hu1) as [C2 [F0 B1]].
    unfold aligned_along_subsegment, aligned_flip. rewrite Hclosed, B0, F0. cbn [rmap]. rops.
    destruct (Rltb_spec (total_length ROps (MkPolyline (n_pt r2 :: C1 ++ [n_pt r1]) false))
                        (total_length ROps (MkPolyline (n_pt r1 :: C2 ++ [n_pt r2]) false))) as [Hlt|Hge].
    - exists (flipped pl), (MkPolyline (n_pt r1 :: rev C1 ++ [n_pt r2]) false),
             (MkPolyline (n_pt r2 :: rev C2 ++ [n_pt r1]) false), (rev C1).
      split; [reflexivity|]. split; [right; reflexivity|]. split; [exact F1|]. split; [exact B1|].
      split; [reflexivity|]. rewrite <- !rev_path, !total_length_rev. lra.
    - exists pl, (MkPolyline (n_pt r1 :: C2 ++ [n_pt r2]) false), (MkPolyline (n_pt r2 :: C1 ++ [n_pt r1]) false), C2.
      split; [reflexivity|]. split; [left; reflexivity|]. split; [exact F0|]. split; [exact B0|].
      split; [reflexivity|]. lra.
  Qed.
End AlignedClosed.

(* ---- non-vacuity of the hypotheses of the alignment theorems ---- *)
(* open, L-shaped: p1 = (5,2,0) projects to (4,2,0) on the second segment, p2 = (2,-1,0) to (2,0,0) on the first:
   nearest(p2) comes first, the polyline is flipped *)
Definition ex_L : polyline R := MkPolyline [V3 0 0 0; V3 4 0 0; V3 4 4 0] false.
Example aligned_open_post_inhabited : exists pl p1 p2 r1 r2,
  pclosed pl = false /\ nearest_one ROps pl p1 = Ok r1 /\ nearest_one ROps pl p2 = Ok r2 /\
  index_of_vertex ROps (pv pl) (n_pt r1) = None /\ index_of_vertex ROps (pv pl) (n_pt r2) = None /\
  near_vertex ROps (n_pt r2) (n_pt r1) = false /\
  unique_nearest pl p1 r1 /\ unique_nearest pl p2 r2 /\ before_on r2 r1.
Proof.
  exists ex_L, (V3 5 2 0), (V3 2 (-1) 0), (Near (V3 4 2 0) 1 1 (1 / 2)), (Near (V3 2 0 0) 0 1 (1 / 2)).
  split; [reflexivity|]. split; [unfold ex_L; eval_near|]. split; [unfold ex_L; eval_near|].
  split; [unfold ex_L; eval_model; reflexivity|]. split; [unfold ex_L; eval_model; reflexivity|].
  split; [eval_model; reflexivity|].
  split; [|split].
  - intros j s Hj Hs. cbn [n_idx n_d] in *. unfold ex_L, pl_segments in Hs. cbn [pv pclosed zip app last] in Hs.
    destruct j as [|[|j]]; cbn [nth_error] in Hs; try congruence; try (destruct j; discriminate);
      injection Hs as <-; far_seg.
  - intros j s Hj Hs. cbn [n_idx n_d] in *. unfold ex_L, pl_segments in Hs. cbn [pv pclosed zip app last] in Hs.
    destruct j as [|[|j]]; cbn [nth_error] in Hs; try congruence; try (destruct j; discriminate);
      injection Hs as <-; far_seg.
  - left. cbn. lia.
Qed.
(* closed triangle (0,0,0)-(4,0,0)-(4,3,0); p1 = (1,-1,0) and p2 = (3,-1,0) project onto the first edge *)
Example aligned_closed_post_inhabited : exists pl p1 p2 r1 r2,
  pclosed pl = true /\ nearest_one ROps pl p1 = Ok r1 /\ nearest_one ROps pl p2 = Ok r2 /\
  index_of_vertex ROps (pv pl) (n_pt r1) = None /\ index_of_vertex ROps (pv pl) (n_pt r2) = None /\
  near_vertex ROps (n_pt r2) (n_pt r1) = false /\
  unique_nearest pl p1 r1 /\ unique_nearest pl p2 r2.
Proof.
  exists ex_tri, (V3 1 (-1) 0), (V3 3 (-1) 0), (Near (V3 1 0 0) 0 1 (1 / 4)), (Near (V3 3 0 0) 0 1 (3 / 4)).
  split; [reflexivity|]. split; [unfold ex_tri; eval_near|]. split; [unfold ex_tri; eval_near|].
  split; [unfold ex_tri; eval_model; reflexivity|]. split; [unfold ex_tri; eval_model; reflexivity|].
  split; [eval_model; reflexivity|].
  split.
  - intros j s Hj Hs. cbn [n_idx n_d] in *. unfold ex_tri, pl_segments in Hs. cbn [pv pclosed zip app last] in Hs.
    destruct j as [|[|[|j]]]; cbn [nth_error] in Hs; try congruence; try (destruct j; discriminate);
      injection Hs as <-; far_seg.
  - intros j s Hj Hs. cbn [n_idx n_d] in *. unfold ex_tri, pl_segments in Hs. cbn [pv pclosed zip app last] in Hs.
    destruct j as [|[|[|j]]]; cbn [nth_error] in Hs; try congruence; try (destruct j; discriminate);
      injection Hs as <-; far_seg.
Qed.
