(* Real-number lemmas for M_box.v (C17). *)
From Coq Require Import ZArith Reals Lra Psatz List Bool Lia.
From PW Require Import Num NumR Vec NpList Result.
From PW.model Require Import M_plane M_box M_box_spec.
From PW.proofs Require Import P_vec P_nplist P_plane.
Import ListNotations.
Local Open Scope R_scope.

Ltac bunf :=
  unfold min_x, min_y, min_z, max_x, max_y, max_z, mid_x, mid_y, mid_z, width, height, depth, center_point,
    floor_point, volume, surface_area, half, nfrac, set_x, set_y, set_z, ex, ey, ez;
  cbn [borigin bsize]; vunf.

(* componentwise order *)
Definition cle (a b : vec3 R) : Prop := vx a <= vx b /\ vy a <= vy b /\ vz a <= vz b.

(* ---- constructor ------------------------------------------------------------------------------------ *)
Lemma box_ctor_ok o s : 0 <= vx s -> 0 <= vy s -> 0 <= vz s -> box_ctor ROps o s = Ok (MkBox o s).
Proof.
  intros. unfold box_ctor, n0; rops.
  destruct (Rltb_spec (vx s) 0); [lra|]. destruct (Rltb_spec (vy s) 0); [lra|]. destruct (Rltb_spec (vz s) 0); [lra|].
  reflexivity.
Qed.
Lemma negative_size_rejected o s :
  (vx s < 0 \/ vy s < 0 \/ vz s < 0 -> box_ctor ROps o s = Raise ValueError) /\
  (~ (vx s < 0 \/ vy s < 0 \/ vz s < 0) -> box_ctor ROps o s = Ok (MkBox o s)).
Proof.
  split.
  - intros H. unfold box_ctor, n0; rops.
    destruct (Rltb_spec (vx s) 0); [reflexivity|]. destruct (Rltb_spec (vy s) 0); [reflexivity|].
    destruct (Rltb_spec (vz s) 0); [reflexivity|]. lra.
  - intros H. apply box_ctor_ok; lra.
Qed.

(* ---- min / max folds ----------------------------------------------------------------------------------- *)
Lemma nmin_spec a b : nmin ROps a b <= a /\ nmin ROps a b <= b /\ (nmin ROps a b = a \/ nmin ROps a b = b).
Proof. unfold nmin; rops. destruct (Rleb_spec a b); lra. Qed.
Lemma nmax_spec a b : a <= nmax ROps a b /\ b <= nmax ROps a b /\ (nmax ROps a b = a \/ nmax ROps a b = b).
Proof. unfold nmax; rops. destruct (Rleb_spec a b); lra. Qed.

(* generic statement for one coordinate projection g and one of the two folds *)
Lemma fold_min_spec (g : vec3 R -> R) (Hg : forall a b, g (vmin ROps a b) = nmin ROps (g a) (g b)) r : forall acc,
  let m := fold_left (vmin ROps) r acc in
  g m <= g acc /\ Forall (fun q => g m <= g q) r /\ (g m = g acc \/ exists q, In q r /\ g q = g m).
Proof.
  induction r as [|p r IH]; intros acc; cbn [fold_left].
  - cbv zeta. split; [lra|]. split; [constructor|left; reflexivity].
  - specialize (IH (vmin ROps acc p)). cbv zeta in *. destruct IH as (A & B & C).
    rewrite Hg in A, C. destruct (nmin_spec (g acc) (g p)) as (M1 & M2 & M3).
    split; [lra|]. split; [constructor; [lra|exact B]|].
    destruct C as [C|(q & Hq & E)].
    + destruct M3 as [M|M]; [left; lra|right; exists p; split; [left; reflexivity|lra]].
    + right. exists q. split; [right; exact Hq|exact E].
Qed.
Lemma fold_max_spec (g : vec3 R -> R) (Hg : forall a b, g (vmax ROps a b) = nmax ROps (g a) (g b)) r : forall acc,
  let m := fold_left (vmax ROps) r acc in
  g acc <= g m /\ Forall (fun q => g q <= g m) r /\ (g m = g acc \/ exists q, In q r /\ g q = g m).
Proof.
  induction r as [|p r IH]; intros acc; cbn [fold_left].
  - cbv zeta. split; [lra|]. split; [constructor|left; reflexivity].
  - specialize (IH (vmax ROps acc p)). cbv zeta in *. destruct IH as (A & B & C).
    rewrite Hg in A, C. destruct (nmax_spec (g acc) (g p)) as (M1 & M2 & M3).
    split; [lra|]. split; [constructor; [lra|exact B]|].
    destruct C as [C|(q & Hq & E)].
    + destruct M3 as [M|M]; [left; lra|right; exists p; split; [left; reflexivity|lra]].
    + right. exists q. split; [right; exact Hq|exact E].
Qed.

(* lower / upper bound of every point, attained by some point, for one coordinate *)
Lemma points_min_coord (g : vec3 R -> R) (Hg : forall a b, g (vmin ROps a b) = nmin ROps (g a) (g b)) p r :
  (forall q, In q (p :: r) -> g (points_min ROps p r) <= g q) /\ exists q, In q (p :: r) /\ g q = g (points_min ROps p r).
Proof.
  destruct (fold_min_spec g Hg r p) as (A & B & C). fold (points_min ROps p r) in *. split.
  - intros q [<-|Hq]; [exact A|]. exact (proj1 (Forall_forall _ _) B q Hq).
  - destruct C as [C|(q & Hq & E)]; [exists p; split; [left; reflexivity|lra]|exists q; split; [right; exact Hq|exact E]].
Qed.
Lemma points_max_coord (g : vec3 R -> R) (Hg : forall a b, g (vmax ROps a b) = nmax ROps (g a) (g b)) p r :
  (forall q, In q (p :: r) -> g q <= g (points_max ROps p r)) /\ exists q, In q (p :: r) /\ g q = g (points_max ROps p r).
Proof.
  destruct (fold_max_spec g Hg r p) as (A & B & C). fold (points_max ROps p r) in *. split.
  - intros q [<-|Hq]; [exact A|]. exact (proj1 (Forall_forall _ _) B q Hq).
  - destruct C as [C|(q & Hq & E)]; [exists p; split; [left; reflexivity|lra]|exists q; split; [right; exact Hq|exact E]].
Qed.

Lemma from_points_tight ps : ps <> [] ->
  exists b, from_points ROps ps = Ok b /\ nonneg_size b /\
            tight_on vx b ps /\ tight_on vy b ps /\ tight_on vz b ps.
Proof.
  destruct ps as [|p r]; [contradiction|]. intros _. cbn [from_points].
  destruct (points_min_coord vx (fun a b => eq_refl) p r) as (Lx & Ax).
  destruct (points_min_coord vy (fun a b => eq_refl) p r) as (Ly & Ay).
  destruct (points_min_coord vz (fun a b => eq_refl) p r) as (Lz & Az).
  destruct (points_max_coord vx (fun a b => eq_refl) p r) as (Ux & Bx).
  destruct (points_max_coord vy (fun a b => eq_refl) p r) as (Uy & By).
  destruct (points_max_coord vz (fun a b => eq_refl) p r) as (Uz & Bz).
  set (mn := points_min ROps p r) in *. set (mx := points_max ROps p r) in *.
  assert (Hp : In p (p :: r)) by (left; reflexivity).
  pose proof (Lx p Hp). pose proof (Ly p Hp). pose proof (Lz p Hp). pose proof (Ux p Hp). pose proof (Uy p Hp). pose proof (Uz p Hp).
  exists (MkBox mn (vsub ROps mx mn)). split.
  - apply box_ctor_ok; vunf; lra.
  - assert (E : box_max (MkBox mn (vsub ROps mx mn)) = mx).
    { unfold box_max; cbn [borigin bsize]. destruct mn, mx. vunf. apply V3_ext; ring. }
    split; [unfold nonneg_size; cbn [bsize]; vunf; lra|].
    unfold tight_on. rewrite E. cbn [borigin].
    split; [|split]; (split; [|split; assumption]); intros q0 Hq0.
    + specialize (Lx q0 Hq0); specialize (Ux q0 Hq0); lra.
    + specialize (Ly q0 Hq0); specialize (Uy q0 Hq0); lra.
    + specialize (Lz q0 Hq0); specialize (Uz q0 Hq0); lra.
Qed.
Lemma from_points_empty : from_points ROps [] = Raise ValueError.
Proof. reflexivity. Qed.
Lemma bounding_box_spec vs :
  (vs = [] -> bounding_box ROps vs = None) /\ (vs <> [] -> bounding_box ROps vs = Some (from_points ROps vs)).
Proof. destruct vs; split; intros H; try reflexivity; try contradiction; discriminate. Qed.

(* ---- contains ------------------------------------------------------------------------------------------- *)
Lemma contains_spec b p atol :
  contains ROps b p atol = true <->
  (vx (borigin b) - atol <= vx p <= vx (box_max b) + atol) /\
  (vy (borigin b) - atol <= vy p <= vy (box_max b) + atol) /\
  (vz (borigin b) - atol <= vz p <= vz (box_max b) + atol).
Proof.
  unfold contains, box_max; rops. vunf. rewrite !andb_true_iff, !Rleb_true. tauto.
Qed.
(* every input point of from_points is contained (exact arithmetic, atol = 0) *)
Lemma from_points_contains_all ps b : from_points ROps ps = Ok b -> forall q, In q ps -> contains ROps b q 0 = true.
Proof.
  intros H q Hq. assert (Hne : ps <> []) by (intros ->; destruct Hq).
  destruct (from_points_tight ps Hne) as (b' & E & _ & (Tx & _) & (Ty & _) & (Tz & _)).
  rewrite E in H. injection H as <-. apply contains_spec.
  specialize (Tx q Hq). specialize (Ty q Hq). specialize (Tz q Hq). lra.
Qed.

(* ---- accessors ------------------------------------------------------------------------------------------ *)
Lemma accessor_identities b :
  max_x ROps b - min_x b = width b /\ max_y ROps b - min_y b = height b /\
  max_z ROps b - min_z b = depth b /\
  mid_x ROps b = (min_x b + max_x ROps b) / 2 /\ mid_y ROps b = (min_y b + max_y ROps b) / 2 /\
  mid_z ROps b = (min_z b + max_z ROps b) / 2 /\
  center_point ROps b = V3 (mid_x ROps b) (mid_y ROps b) (mid_z ROps b) /\
  floor_point ROps b = V3 (mid_x ROps b) (min_y b) (mid_z ROps b) /\
  volume ROps b = width b * height b * depth b /\
  surface_area ROps b = 2 * (width b * height b + height b * depth b + width b * depth b) /\
  V3 (max_x ROps b) (max_y ROps b) (max_z ROps b) = box_max b /\
  V3 (min_x b) (min_y b) (min_z b) = borigin b.
Proof.
  destruct b as [[ox oy oz] [sx sy sz]]. unfold box_max. bunf.
  repeat split; try (apply V3_ext); try field; try ring.
Qed.
Lemma ranges_spec b : nonneg_size b ->
  ranges ROps b = [(min_x b, max_x ROps b); (min_y b, max_y ROps b); (min_z b, max_z ROps b)].
Proof.
  destruct b as [[ox oy oz] [sx sy sz]]. unfold nonneg_size; cbn [bsize vx vy vz]. intros (Hx & Hy & Hz).
  unfold ranges, nmin, nmax. bunf.
  destruct (Rleb_spec ox (ox + sx)); [|lra]. destruct (Rleb_spec oy (oy + sy)); [|lra]. destruct (Rleb_spec oz (oz + sz)); [|lra].
  reflexivity.
Qed.
(* the eight corners are exactly the eight min/max combinations *)
Lemma corners_spec b :
  let x0 := min_x b in let x1 := max_x ROps b in let y0 := min_y b in let y1 := max_y ROps b in
  let z0 := min_z b in let z1 := max_z ROps b in
  corners ROps b = [V3 x0 y0 z0; V3 x1 y0 z0; V3 x0 y1 z0; V3 x0 y0 z1; V3 x1 y1 z0; V3 x0 y1 z1; V3 x1 y0 z1; V3 x1 y1 z1].
Proof.
  destruct b as [[ox oy oz] [sx sy sz]]. cbv zeta. unfold corners. bunf.
  repeat (f_equal; try (apply V3_ext; ring)).
Qed.

(* ---- face planes ----------------------------------------------------------------------------------------- *)
(* signed distance to each face plane = distance inside the box along that axis *)
Lemma plane_sd_faces b p :
  plane_sd ROps (min_x_plane ROps b) p = vx p - min_x b /\
  plane_sd ROps (min_y_plane ROps b) p = vy p - min_y b /\
  plane_sd ROps (min_z_plane ROps b) p = vz p - min_z b /\
  plane_sd ROps (max_x_plane ROps b) p = max_x ROps b - vx p /\
  plane_sd ROps (max_y_plane ROps b) p = max_y ROps b - vy p /\
  plane_sd ROps (max_z_plane ROps b) p = max_z ROps b - vz p.
Proof.
  destruct b as [[ox oy oz] [sx sy sz]], p as [px py pz].
  unfold min_x_plane, min_y_plane, min_z_plane, max_x_plane, max_y_plane, max_z_plane.
  unfold plane_sd, sd_eq, plane_equation, eq_normal; cbn [ea eb ec ed pref pnormal]. bunf.
  repeat split; field.
Qed.
(* each plane passes through the centre of its face (which lies in the closed face) with the inward axis as normal,
   and the box centre is on its non-negative side at distance size/2 *)
Lemma planes_inward_through_faces b : nonneg_size b ->
  pref (min_x_plane ROps b) = V3 (min_x b) (mid_y ROps b) (mid_z ROps b) /\ pnormal (min_x_plane ROps b) = V3 1 0 0 /\
  pref (min_y_plane ROps b) = V3 (mid_x ROps b) (min_y b) (mid_z ROps b) /\ pnormal (min_y_plane ROps b) = V3 0 1 0 /\
  pref (min_z_plane ROps b) = V3 (mid_x ROps b) (mid_y ROps b) (min_z b) /\ pnormal (min_z_plane ROps b) = V3 0 0 1 /\
  pref (max_x_plane ROps b) = V3 (max_x ROps b) (mid_y ROps b) (mid_z ROps b) /\ pnormal (max_x_plane ROps b) = V3 (-1) (-0) (-0) /\
  pref (max_y_plane ROps b) = V3 (mid_x ROps b) (max_y ROps b) (mid_z ROps b) /\ pnormal (max_y_plane ROps b) = V3 (-0) (-1) (-0) /\
  pref (max_z_plane ROps b) = V3 (mid_x ROps b) (mid_y ROps b) (max_z ROps b) /\ pnormal (max_z_plane ROps b) = V3 (-0) (-0) (-1) /\
  Forall (fun pl => 0 <= plane_sd ROps pl (center_point ROps b) /\ unit_normal pl) (six_planes ROps b) /\
  (min_y b <= mid_y ROps b <= max_y ROps b /\ min_z b <= mid_z ROps b <= max_z ROps b /\
   min_x b <= mid_x ROps b <= max_x ROps b).
Proof.
  intros (Hx & Hy & Hz). destruct b as [[ox oy oz] [sx sy sz]]. cbn [bsize vx vy vz] in *.
  unfold six_planes, min_x_plane, min_y_plane, min_z_plane, max_x_plane, max_y_plane, max_z_plane, unit_normal.
  cbn [pref pnormal]. 
  repeat (split; [bunf; try (apply V3_ext; field); reflexivity|]).
  split.
  - repeat (apply Forall_cons; [split|]); try apply Forall_nil;
      unfold plane_sd, sd_eq, plane_equation, eq_normal; cbn [ea eb ec ed pref pnormal]; bunf; lra.
  - bunf. lra.
Qed.

Lemma contains_iff_six_planes b p atol :
  contains ROps b p atol = true <-> Forall (fun pl => - atol <= plane_sd ROps pl p) (six_planes ROps b).
Proof.
  rewrite contains_spec. destruct (plane_sd_faces b p) as (A & B & C & D & E & G).
  assert (M : V3 (max_x ROps b) (max_y ROps b) (max_z ROps b) = box_max b) by apply accessor_identities.
  unfold six_planes. split.
  - intros (Hx & Hy & Hz). rewrite <- M in *. cbn [vx vy vz] in *. unfold min_x, min_y, min_z in *.
    repeat (apply Forall_cons; [|]); try apply Forall_nil; rewrite ?A, ?B, ?C, ?D, ?E, ?G; unfold min_x, min_y, min_z; lra.
  - intros H. repeat match goal with H : Forall _ (_ :: _) |- _ => inversion H; clear H; subst end.
    rewrite A, B, C, D, E, G in *. rewrite <- M. cbn [vx vy vz]. unfold min_x, min_y, min_z in *. lra.
Qed.

Lemma box_example : nonneg_size (MkBox (V3 1 2 3) (V3 1 (1/2) 0)).
Proof. unfold nonneg_size; cbn [bsize vx vy vz]. lra. Qed.
