(* Real-number lemmas for M_plane.v (C05). *)
From Coq Require Import ZArith Reals Lra Psatz List Bool Sorted Lia Nsatz.
From PW Require Import Num NumR Vec NpList.
From PW.model Require Import M_plane.
From PW.proofs Require Import P_vec P_nplist.
Import ListNotations.
Local Open Scope R_scope.

Ltac punf :=
  unfold plane_sd, plane_distance, plane_project, plane_mirror, project_eq, mirror_eq, translate_along,
    sd_eq, plane_equation, canonical_point, flipped, eq_normal;
  cbn [ea eb ec ed pref pnormal]; vunf.

Definition unit_normal (pl : plane R) : Prop := vnorm2 ROps (pnormal pl) = 1.

Lemma sd_is_dot pl p :
  plane_sd ROps pl p = vdot ROps (vsub ROps p (pref pl)) (pnormal pl).
Proof. destruct pl as [[rx ry rz] [a b c]], p as [x y z]. punf. ring. Qed.

Lemma sign_pos pl p : plane_sign ROps pl p = 1%Z <-> 0 < plane_sd ROps pl p.
Proof.
  unfold plane_sign, nsign; rops. destruct (Rltb_spec 0 (plane_sd ROps pl p)); [split; [intros _; assumption|reflexivity]|].
  destruct (Rltb_spec (plane_sd ROps pl p) 0); split; intros; try discriminate; lra.
Qed.
Lemma sign_neg pl p : plane_sign ROps pl p = (-1)%Z <-> plane_sd ROps pl p < 0.
Proof.
  unfold plane_sign, nsign; rops. destruct (Rltb_spec 0 (plane_sd ROps pl p)); [split; intros; [discriminate|lra]|].
  destruct (Rltb_spec (plane_sd ROps pl p) 0); split; intros; try discriminate; try reflexivity; lra.
Qed.
Lemma sign_zero pl p : plane_sign ROps pl p = 0%Z <-> plane_sd ROps pl p = 0.
Proof.
  unfold plane_sign, nsign; rops. destruct (Rltb_spec 0 (plane_sd ROps pl p)); [split; intros; [discriminate|lra]|].
  destruct (Rltb_spec (plane_sd ROps pl p) 0); split; intros; try discriminate; try reflexivity; lra.
Qed.
Lemma sign_range pl p : plane_sign ROps pl p = 1%Z \/ plane_sign ROps pl p = 0%Z \/ plane_sign ROps pl p = (-1)%Z.
Proof.
  unfold plane_sign, nsign; rops. destruct (Rltb 0 _); [left; reflexivity|]. destruct (Rltb _ 0); auto.
Qed.

Lemma distance_is_abs pl p : plane_distance ROps pl p = Rabs (plane_sd ROps pl p).
Proof. reflexivity. Qed.

(* ---- selection by sign: membership, order, partition -------------------------------------- *)
Lemma in_front_idx_spec pl inv ps k :
  In k (points_in_front_idx ROps pl inv ps) <->
  exists p, nth_error ps k = Some p /\ (if inv then plane_sd ROps pl p < 0 else 0 < plane_sd ROps pl p).
Proof.
  unfold points_in_front_idx, in_front_mask. rewrite flatnonzero_spec, nth_error_map.
  destruct (nth_error ps k) as [p|]; cbn [option_map]; [|split; [discriminate|intros (p & H & _); discriminate]].
  split.
  - intros H. injection H as H. exists p; split; [reflexivity|]. destruct inv.
    + apply Z.ltb_lt in H. apply sign_neg. destruct (sign_range pl p) as [E|[E|E]]; rewrite E in *; lia.
    + apply Z.ltb_lt in H. apply sign_pos. destruct (sign_range pl p) as [E|[E|E]]; rewrite E in *; lia.
  - intros (p' & E & H). injection E as <-. f_equal. destruct inv.
    + apply sign_neg in H. rewrite H. reflexivity.
    + apply sign_pos in H. rewrite H. reflexivity.
Qed.
Lemma on_or_in_front_idx_spec pl inv ps k :
  In k (points_on_or_in_front_idx ROps pl inv ps) <->
  exists p, nth_error ps k = Some p /\ (if inv then plane_sd ROps pl p <= 0 else 0 <= plane_sd ROps pl p).
Proof.
  unfold points_on_or_in_front_idx, on_or_in_front_mask. rewrite flatnonzero_spec, nth_error_map.
  destruct (nth_error ps k) as [p|]; cbn [option_map]; [|split; [discriminate|intros (p & H & _); discriminate]].
  split.
  - intros H. injection H as H. exists p; split; [reflexivity|].
    destruct inv; apply Z.leb_le in H; destruct (sign_range pl p) as [E|[E|E]]; rewrite E in H; try lia;
      try (apply sign_pos in E; lra); try (apply sign_zero in E; lra); try (apply sign_neg in E; lra).
  - intros (p' & E & H). injection E as <-. f_equal.
    destruct inv; apply Z.leb_le; destruct (sign_range pl p) as [E|[E|E]]; rewrite E; try lia;
      try (apply sign_pos in E; lra); try (apply sign_neg in E; lra).
Qed.

(* 'in front' and 'inverted on-or-in-front' partition every point set; so do 'on-or-in-front' and 'inverted in-front' *)
Lemma front_partition pl ps k : (k < length ps)%nat ->
  (In k (points_in_front_idx ROps pl false ps) <-> ~ In k (points_on_or_in_front_idx ROps pl true ps)).
Proof.
  intros Hk. rewrite in_front_idx_spec, on_or_in_front_idx_spec.
  destruct (nth_error ps k) as [p|] eqn:E; [|apply nth_error_None in E; lia].
  split.
  - intros (p1 & E1 & H1) (p2 & E2 & H2). injection E1 as <-. injection E2 as <-. lra.
  - intros H. exists p; split; [reflexivity|]. destruct (Rlt_dec 0 (plane_sd ROps pl p)); [assumption|].
    exfalso; apply H. exists p; split; [reflexivity|lra].
Qed.
Lemma on_or_front_partition pl ps k : (k < length ps)%nat ->
  (In k (points_on_or_in_front_idx ROps pl false ps) <-> ~ In k (points_in_front_idx ROps pl true ps)).
Proof.
  intros Hk. rewrite in_front_idx_spec, on_or_in_front_idx_spec.
  destruct (nth_error ps k) as [p|] eqn:E; [|apply nth_error_None in E; lia].
  split.
  - intros (p1 & E1 & H1) (p2 & E2 & H2). injection E1 as <-. injection E2 as <-. lra.
  - intros H. exists p; split; [reflexivity|]. destruct (Rle_dec 0 (plane_sd ROps pl p)); [assumption|].
    exfalso; apply H. exists p; split; [reflexivity|lra].
Qed.
Lemma idx_sorted_in_range pl inv ps :
  StronglySorted lt (points_in_front_idx ROps pl inv ps) /\
  StronglySorted lt (points_on_or_in_front_idx ROps pl inv ps) /\
  Forall (fun i => (i < length ps)%nat) (points_in_front_idx ROps pl inv ps) /\
  Forall (fun i => (i < length ps)%nat) (points_on_or_in_front_idx ROps pl inv ps).
Proof.
  repeat split; try apply flatnonzero_sorted; apply Forall_forall; intros k Hk;
    apply flatnonzero_lt in Hk; unfold in_front_mask, on_or_in_front_mask in Hk; rewrite map_length in Hk; exact Hk.
Qed.
Lemma points_are_take pl inv ps :
  map Some (points_in_front ROps pl inv ps) = map (nth_error ps) (points_in_front_idx ROps pl inv ps) /\
  map Some (points_on_or_in_front ROps pl inv ps) = map (nth_error ps) (points_on_or_in_front_idx ROps pl inv ps).
Proof. split; apply take_spec; apply idx_sorted_in_range. Qed.

(* ---- projection and mirroring ----------------------------------------------------------------- *)
Lemma project_moves_along_normal pl p :
  plane_project ROps pl p = vsub ROps p (vscale ROps (plane_sd ROps pl p) (pnormal pl)).
Proof. destruct pl as [[rx ry rz] [a b c]], p as [x y z]. punf. apply V3_ext; ring. Qed.

Lemma project_on_plane pl p : unit_normal pl -> plane_sd ROps pl (plane_project ROps pl p) = 0.
Proof.
  destruct pl as [[rx ry rz] [a b c]], p as [x y z]. unfold unit_normal. cbn [pnormal]. intros H. vunf_in H.
  punf. nsatz.
Qed.
(* hypothesis-free versions: the constructor accepts normals that are unit only to 1e-6; the laws hold up to the defect *)
Lemma project_sd_defect pl p :
  plane_sd ROps pl (plane_project ROps pl p) = plane_sd ROps pl p * (1 - vnorm2 ROps (pnormal pl)).
Proof. destruct pl as [[rx ry rz] [a b c]], p as [x y z]. punf. ring. Qed.
Lemma mirror_sd_defect pl p :
  plane_sd ROps pl (plane_mirror ROps pl p) = plane_sd ROps pl p * (1 - 2 * vnorm2 ROps (pnormal pl)).
Proof. destruct pl as [[rx ry rz] [a b c]], p as [x y z]. punf. ring. Qed.
Lemma project_twice_defect pl p :
  plane_project ROps pl (plane_project ROps pl p) =
  vsub ROps (plane_project ROps pl p)
       (vscale ROps (plane_sd ROps pl p * (1 - vnorm2 ROps (pnormal pl))) (pnormal pl)).
Proof. rewrite (project_moves_along_normal pl (plane_project ROps pl p)), project_sd_defect. reflexivity. Qed.

Lemma canonical_sd_defect pl :
  plane_sd ROps pl (canonical_point ROps pl) = vdot ROps (pref pl) (pnormal pl) * (vnorm2 ROps (pnormal pl) - 1).
Proof. destruct pl as [[rx ry rz] [a b c]]. punf. ring. Qed.
Lemma mirror_twice_defect pl p :
  plane_mirror ROps pl (plane_mirror ROps pl p) =
  vadd ROps p (vscale ROps (4 * plane_sd ROps pl p * (vnorm2 ROps (pnormal pl) - 1)) (pnormal pl)).
Proof. destruct pl as [[rx ry rz] [a b c]], p as [x y z]. punf. apply V3_ext; ring. Qed.

Lemma project_idempotent pl p : unit_normal pl ->
  plane_project ROps pl (plane_project ROps pl p) = plane_project ROps pl p.
Proof.
  intros H. rewrite (project_moves_along_normal pl (plane_project ROps pl p)), project_on_plane by assumption.
  destruct (plane_project ROps pl p) as [x y z], pl as [r [a b c]]. cbn [pnormal]. vunf. apply V3_ext; ring.
Qed.
Lemma mirror_negates pl p : unit_normal pl ->
  plane_sd ROps pl (plane_mirror ROps pl p) = - plane_sd ROps pl p.
Proof.
  destruct pl as [[rx ry rz] [a b c]], p as [x y z]. unfold unit_normal. cbn [pnormal]. intros H. vunf_in H.
  punf. nsatz.
Qed.
Lemma mirror_involution pl p : unit_normal pl -> plane_mirror ROps pl (plane_mirror ROps pl p) = p.
Proof.
  destruct pl as [[rx ry rz] [a b c]], p as [x y z]. unfold unit_normal. cbn [pnormal]. intros H. vunf_in H.
  punf. apply V3_ext; nsatz.
Qed.
Lemma mirror_midpoint_is_projection pl p :
  vscale ROps (1 / 2) (vadd ROps p (plane_mirror ROps pl p)) = plane_project ROps pl p.
Proof. destruct pl as [[rx ry rz] [a b c]], p as [x y z]. punf. apply V3_ext; field. Qed.

(* ---- flipped, equation, canonical point ----------------------------------------------------- *)
Lemma flipped_negates pl p : plane_sd ROps (flipped ROps pl) p = - plane_sd ROps pl p.
Proof. destruct pl as [[rx ry rz] [a b c]], p as [x y z]. punf. ring. Qed.
Lemma flipped_same_point_set pl p : plane_sd ROps (flipped ROps pl) p = 0 <-> plane_sd ROps pl p = 0.
Proof. rewrite flipped_negates. lra. Qed.
Lemma flipped_keeps_unit pl : unit_normal pl -> unit_normal (flipped ROps pl).
Proof. destruct pl as [r [a b c]]. unfold unit_normal, flipped. cbn [pnormal]. intros H. vunf_in H. vunf. lra. Qed.
Lemma canonical_point_on_plane pl : unit_normal pl -> plane_sd ROps pl (canonical_point ROps pl) = 0.
Proof.
  destruct pl as [[rx ry rz] [a b c]]. unfold unit_normal. cbn [pnormal]. intros H. vunf_in H. punf. nsatz.
Qed.
(* the equation's normal part is the normal, and the equation vanishes exactly on the plane through ref *)
Lemma equation_describes_plane pl p :
  sd_eq ROps p (plane_equation ROps pl) = vdot ROps (vsub ROps p (pref pl)) (pnormal pl) /\
  eq_normal (plane_equation ROps pl) = pnormal pl.
Proof. split; [apply sd_is_dot|]. destruct pl as [r [a b c]]. reflexivity. Qed.

(* ---- stacked forms are the single form row by row ------------------------------------------- *)
Lemma stacked_is_map_single ps e k :
  nth_error (sd_stack ROps ps e) k = option_map (fun p => sd_eq ROps p e) (nth_error ps k) /\
  nth_error (project_stack ROps ps e) k = option_map (fun p => project_eq ROps p e) (nth_error ps k) /\
  nth_error (mirror_stack ROps ps e) k = option_map (fun p => mirror_eq ROps p e) (nth_error ps k).
Proof. unfold sd_stack, project_stack, mirror_stack. rewrite !nth_error_map. auto. Qed.
Lemma pairs_is_map_single ps es k p e : nth_error ps k = Some p -> nth_error es k = Some e ->
  nth_error (sd_pairs ROps ps es) k = Some (sd_eq ROps p e) /\
  nth_error (project_pairs ROps ps es) k = Some (project_eq ROps p e) /\
  nth_error (mirror_pairs ROps ps es) k = Some (mirror_eq ROps p e).
Proof.
  intros Hp He. unfold sd_pairs, project_pairs, mirror_pairs. rewrite !nth_error_map2, Hp, He. auto.
Qed.

Lemma zip_length {A B} (l : list A) (l' : list B) : length l = length l' -> length (zip l l') = length l.
Proof. revert l'. induction l as [|a r IH]; intros [|b r'] H; cbn in *; try reflexivity; try discriminate. f_equal. apply IH. congruence. Qed.
Lemma pairs_length ps es : length ps = length es ->
  length (sd_pairs ROps ps es) = length ps /\ length (project_pairs ROps ps es) = length ps /\
  length (mirror_pairs ROps ps es) = length ps.
Proof. intros H. unfold sd_pairs, project_pairs, mirror_pairs, map2. rewrite !map_length, zip_length by exact H. auto. Qed.
