(* Tactics for the list-level tie lemmas (traced polyline kernels at fixed sizes): square roots are kept as atoms. *)
From Coq Require Import ZArith Reals Lra Psatz List Bool.
From PW Require Import Num NumR Vec NpList Result TraceTac.
Import ListNotations.
Local Open Scope R_scope.

(* name every square root (syntactically equal ones get the same name) ... *)
Ltac set_sqrts :=
  repeat match goal with
  | |- context [sqrt ?a] => let n := fresh "sq" in set (n := sqrt a) in *
  | H : context [sqrt ?a] |- _ => let n := fresh "sq" in set (n := sqrt a) in *
  end.
(* ... merge names whose arguments are equal as polynomials ... *)
Ltac merge_sqrts :=
  repeat match goal with
  | n1 := sqrt ?a, n2 := sqrt ?b |- _ =>
      tryif constr_eq n1 n2 then fail
      else (let E := fresh "E" in
            assert (E : n2 = n1) by (unfold n1, n2; f_equal; ring);
            clearbody n2; subst n2)
  end.
(* ... and forget what is under the square roots, keeping  0 <= sqrt _ *)
Ltac forget_sqrts :=
  repeat match goal with
  | n := sqrt ?a |- _ =>
      let Hn := fresh "Hn" in pose proof (sqrt_pos a) as Hn; change (sqrt a) with n in Hn; clearbody n
  end.
Ltac sqrt_atoms := set_sqrts; merge_sqrts; forget_sqrts.
