(* Tactic for the generated tie lemmas of C01/C02:  traced slice_faces_plane on one symbolic face = the model. *)
From Coq Require Import ZArith Reals Lra Psatz List Bool Arith.
From PW Require Import Num NumR Vec NpList Result TraceTac.
From PW.model Require Import M_slicing.
Import ListNotations.
Local Open Scope R_scope.

(* decide one vertex sign from the path facts (order facts between the traced offsets and +-tol) *)
Ltac sign_tac :=
  unfold vsign, plane_dot, merge_tol, nfrac, vdot, vsub; cbn [vx vy vz]; rops;
  repeat match goal with |- context [Rltb ?a ?b] => destruct (Rltb_spec a b); try (exfalso; lra) end;
  reflexivity.

Ltac elem_tac :=
  repeat match goal with |- context [Reqb ?a ?b] => destruct (Reqb_spec a b); [exfalso; lra|] end;
  first [ reflexivity | ring | (field; repeat split; intro; lra) ].

Ltac one_face_tie :=
  unfold slice_faces_plane;
  cbn [length Nat.eqb mask_of rbind repeat option_map map forallb Nat.ltb Nat.leb seq existsb orb andb];
  repeat match goal with |- context [vsign ROps ?t ?d] =>
    first [ replace (vsign ROps t d) with (-1)%Z by (symmetry; sign_tac)
          | replace (vsign ROps t d) with 0%Z by (symmetry; sign_tac)
          | replace (vsign ROps t d) with 1%Z by (symmetry; sign_tac) ] end;
  cbv -[Rplus Rminus Rmult Rdiv Ropp Rinv Reqb Rltb Rleb IZR];
  eexists; split; [reflexivity|];
  cbv [flat_map vlist app vx vy vz];
  list_eq elem_tac.
