(* Tactic for the generated tie lemmas of C01/C02:  traced slice_faces_plane on one symbolic face = the model. *)
From Coq Require Import ZArith Reals Lra Psatz List Bool Arith.
From PW Require Import Num NumR Vec NpList Result TraceTac.
From PW.model Require Import M_slicing M_slicing_spec.
Import ListNotations.
Local Open Scope R_scope.

Lemma Rabs_le_iv x y : Rabs x <= y -> - y <= x <= y.
Proof. unfold Rabs. destruct (Rcase_abs x); lra. Qed.
Lemma Rabs_gt_iv x y : y < Rabs x -> x < - y \/ y < x.
Proof. unfold Rabs. destruct (Rcase_abs x); lra. Qed.
Lemma snap_on tol d : - tol <= d <= tol -> snap ROps tol d = 0.
Proof. intros H. unfold snap, n0; rops. destruct (Rleb_spec (Rabs d) tol) as [|Hn]; [reflexivity|]. exfalso. apply Hn. unfold Rabs. destruct (Rcase_abs d); lra. Qed.
Lemma snap_off tol d : d < - tol \/ tol < d -> snap ROps tol d = d.
Proof. intros H. unfold snap, n0; rops. destruct (Rleb_spec (Rabs d) tol) as [Ha|]; [|reflexivity]. exfalso. apply Rabs_le_iv in Ha. lra. Qed.

(* the path facts speak about |d|: turn them into interval facts *)
Ltac abs_facts :=
  repeat match goal with
  | H : Rabs _ <= _ |- _ => apply Rabs_le_iv in H
  | H : _ < Rabs _ |- _ => apply Rabs_gt_iv in H
  end.

(* decide one snap from the path facts *)
Ltac snap_tac :=
  repeat match goal with |- context [snap ROps ?t ?d] =>
    first [ rewrite (snap_on t d) by (unfold plane_dot, merge_tol, nfrac, vdot, vsub; cbn [vx vy vz]; rops; lra)
          | rewrite (snap_off t d) by (unfold plane_dot, merge_tol, nfrac, vdot, vsub; cbn [vx vy vz]; rops;
                                        first [left; lra | right; lra]) ] end.

(* decide one vertex sign from the path facts (order facts between the traced offsets and +-tol) *)
Ltac sign_tac :=
  unfold vsign, plane_dot, merge_tol, nfrac, vdot, vsub; cbn [vx vy vz]; rops;
  repeat match goal with |- context [Rltb ?a ?b] => destruct (Rltb_spec a b); try (exfalso; lra) end;
  reflexivity.

Ltac elem_tac :=
  repeat match goal with |- context [Reqb ?a ?b] => destruct (Reqb_spec a b); [exfalso; lra|] end;
  first [ reflexivity | ring | (field; repeat split; intro; lra) ].

Ltac one_face_tie :=
  abs_facts;
  unfold slice_triangles_by_plane, slice_faces_plane;
  cbn [length Nat.eqb mask_of rbind repeat option_map flatnonzero nonzero_from map forallb Nat.ltb Nat.leb seq existsb orb andb];
  unfold snapped_dot; snap_tac;
  repeat match goal with |- context [vsign ROps ?t ?d] =>
    first [ replace (vsign ROps t d) with (-1)%Z by (symmetry; sign_tac)
          | replace (vsign ROps t d) with 0%Z by (symmetry; sign_tac)
          | replace (vsign ROps t d) with 1%Z by (symmetry; sign_tac) ] end;
  cbv -[Rplus Rminus Rmult Rdiv Ropp Rinv Reqb Rltb Rleb IZR];
  eexists; split; [reflexivity|];
  cbv [flat_map vlist app vx vy vz];
  list_eq elem_tac.
