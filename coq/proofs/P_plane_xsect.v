(* Real-number lemmas for M_plane_xsect.v (C14). *)
From Coq Require Import ZArith Reals Lra Psatz List Bool Sorted Lia.
From PW Require Import Num NumR Vec NpList TraceTac.
From PW.model Require Import M_plane M_polyline_base M_plane_xsect M_plane_xsect_spec.
From PW.proofs Require Import P_vec P_nplist P_plane.
Import ListNotations.
Local Open Scope R_scope.

Ltac dpl pl := destruct pl as [[r1 r2 r3] [n1 n2 n3]].
Ltac dv3 a a1 a2 a3 := destruct a as [a1 a2 a3].

(* ---- affine behaviour of the signed distance ---------------------------------------------------- *)
Lemma sd_seg_at pl a b t : sd pl (seg_at a b t) = sd pl a + t * (sd pl b - sd pl a).
Proof. dpl pl; dv3 a a1 a2 a3; dv3 b b1 b2 b3. unfold seg_at. punf. ring. Qed.
Lemma sd_line_at pl pt ray s : sd pl (line_at pt ray s) = sd pl pt + s * xs_denom ROps pl ray.
Proof. dpl pl; dv3 pt p1 p2 p3; dv3 ray q1 q2 q3. unfold line_at, xs_denom. punf. ring. Qed.
Lemma xs_denom_seg pl a b : xs_denom ROps pl (vsub ROps b a) = sd pl b - sd pl a.
Proof. dpl pl; dv3 a a1 a2 a3; dv3 b b1 b2 b3. unfold xs_denom. punf. ring. Qed.
Lemma xs_num pl a : vdot ROps (vsub ROps (pref pl) a) (pnormal pl) = - sd pl a.
Proof. dpl pl; dv3 a a1 a2 a3. punf. ring. Qed.
Lemma seg_at_0 a b : seg_at a b 0 = a.
Proof. unfold seg_at; vec_eq; ring. Qed.
Lemma seg_at_1 a b : seg_at a b 1 = b.
Proof. unfold seg_at; vec_eq; ring. Qed.
Lemma seg_at_is_line_at a b t : seg_at a b t = line_at a (vsub ROps b a) t.
Proof. reflexivity. Qed.

(* ---- the crossing point -------------------------------------------------------------------------- *)
Lemma crossing_param_range da db : da * db < 0 -> 0 < da / (da - db) < 1.
Proof.
  intros H. assert (Hd : da - db <> 0) by nra.
  set (t := da / (da - db)). assert (Ht : t * (da - db) = da) by (unfold t; field; exact Hd).
  clearbody t. split; nra.
Qed.

Lemma crossing_on_plane pl a b : sd pl a <> sd pl b -> sd pl (crossing pl a b) = 0.
Proof. intros H. unfold crossing. rewrite sd_seg_at. field. lra. Qed.

(* d_a d_b < 0: exactly one point of the segment has distance 0, the crossing point *)
Lemma crossing_point_unique pl a b : sd pl a * sd pl b < 0 ->
  sd pl (crossing pl a b) = 0 /\
  (exists t, 0 < t < 1 /\ crossing pl a b = seg_at a b t) /\
  (forall t, 0 <= t <= 1 -> sd pl (seg_at a b t) = 0 -> seg_at a b t = crossing pl a b).
Proof.
  intros H. assert (Hne : sd pl a <> sd pl b) by nra. split; [apply crossing_on_plane, Hne|]. split.
  - exists (sd pl a / (sd pl a - sd pl b)). split; [apply crossing_param_range, H|reflexivity].
  - intros t _ Ht. rewrite sd_seg_at in Ht. unfold crossing. f_equal.
    apply Rmult_eq_reg_r with (sd pl a - sd pl b); [|lra]. field_simplify; [|lra]. lra.
Qed.

(* ---- line_xsection -------------------------------------------------------------------------------- *)
Lemma line_xsection_some pl pt ray : xs_denom ROps pl ray <> 0 ->
  line_xsection ROps pl pt ray = Some (line_at pt ray (- sd pl pt / xs_denom ROps pl ray)).
Proof.
  intros H. unfold line_xsection. unfold n0; rops. apply Reqb_false in H. rewrite H.
  f_equal. unfold xs_point, xs_param, line_at. rewrite xs_num. rops. vec_eq; ring.
Qed.
Lemma line_xsection_none pl pt ray : xs_denom ROps pl ray = 0 -> line_xsection ROps pl pt ray = None.
Proof. intros H. unfold line_xsection. unfold n0; rops. apply Reqb_true in H. rewrite H. reflexivity. Qed.

Lemma line_xsection_unique_or_none pl pt ray :
  (xs_denom ROps pl ray <> 0 ->
     exists x, line_xsection ROps pl pt ray = Some x /\ sd pl x = 0 /\ (exists s, x = line_at pt ray s) /\
               forall s, sd pl (line_at pt ray s) = 0 -> line_at pt ray s = x) /\
  (xs_denom ROps pl ray = 0 ->
     line_xsection ROps pl pt ray = None /\ xsections_row ROps pl pt ray = (None, false)).
Proof.
  split.
  - intros H. exists (line_at pt ray (- sd pl pt / xs_denom ROps pl ray)). split; [apply line_xsection_some, H|].
    split; [rewrite sd_line_at; field; exact H|]. split; [eexists; reflexivity|].
    intros s Hs. rewrite sd_line_at in Hs. f_equal.
    apply Rmult_eq_reg_r with (xs_denom ROps pl ray); [|exact H]. field_simplify; [|exact H]. lra.
  - intros H. split; [apply line_xsection_none, H|]. unfold xsections_row. unfold n0; rops.
    apply Reqb_true in H. rewrite H. reflexivity.
Qed.

Lemma line_xsection_seg pl a b : sd pl a <> sd pl b ->
  line_xsection ROps pl a (vsub ROps b a) = Some (crossing pl a b).
Proof.
  intros H. rewrite line_xsection_some by (rewrite xs_denom_seg; lra). f_equal.
  rewrite xs_denom_seg. unfold crossing. rewrite seg_at_is_line_at. f_equal. field. lra.
Qed.
Lemma line_xsection_seg_par pl a b : sd pl a = sd pl b -> line_xsection ROps pl a (vsub ROps b a) = None.
Proof. intros H. apply line_xsection_none. rewrite xs_denom_seg. lra. Qed.

(* ---- the coordinate-wise bound test --------------------------------------------------------------- *)
Lemma coord_between x a b t : 0 <= t <= 1 -> x = a + t * (b - a) ->
  above_both ROps x a b = false /\ below_both ROps x a b = false.
Proof.
  intros Ht ->. unfold above_both, below_both; rops.
  assert (H1 : a <= b -> 0 <= t * (b - a) /\ 0 <= (1 - t) * (b - a)).
  { intros. split; apply Rmult_le_pos; lra. }
  assert (H2 : b <= a -> 0 <= t * (a - b) /\ 0 <= (1 - t) * (a - b)).
  { intros. split; apply Rmult_le_pos; lra. }
  split.
  - destruct (Rltb_spec a (a + t * (b - a))); [|reflexivity]. destruct (Rltb_spec b (a + t * (b - a))); [|reflexivity].
    exfalso. destruct (Rle_dec a b) as [Hab|Hab]; [destruct (H1 Hab)|destruct H2; [lra|]]; lra.
  - destruct (Rltb_spec (a + t * (b - a)) a); [|reflexivity]. destruct (Rltb_spec (a + t * (b - a)) b); [|reflexivity].
    exfalso. destruct (Rle_dec a b) as [Hab|Hab]; [destruct (H1 Hab)|destruct H2; [lra|]]; lra.
Qed.
Lemma coord_outside x a b t : a <> b -> t < 0 \/ 1 < t -> x = a + t * (b - a) ->
  above_both ROps x a b = true \/ below_both ROps x a b = true.
Proof.
  intros Hab Ht ->. unfold above_both, below_both; rops.
  destruct (Rtotal_order a b) as [Hlt|[He|Hgt]]; [|contradiction|]; destruct Ht as [Ht|Ht].
  - right. rewrite (proj2 (Rltb_true _ _)) by nra. rewrite (proj2 (Rltb_true _ _)) by nra. reflexivity.
  - left. rewrite (proj2 (Rltb_true _ _)) by nra. rewrite (proj2 (Rltb_true _ _)) by nra. reflexivity.
  - left. rewrite (proj2 (Rltb_true _ _)) by nra. rewrite (proj2 (Rltb_true _ _)) by nra. reflexivity.
  - right. rewrite (proj2 (Rltb_true _ _)) by nra. rewrite (proj2 (Rltb_true _ _)) by nra. reflexivity.
Qed.

Lemma in_bounds_inside a b t : 0 <= t <= 1 -> out_of_bounds ROps (seg_at a b t) a b = false.
Proof.
  intros Ht. dv3 a a1 a2 a3; dv3 b b1 b2 b3. unfold out_of_bounds, coord_any, seg_at. vunf.
  destruct (coord_between (a1 + t * (b1 - a1)) a1 b1 t Ht eq_refl) as [-> ->].
  destruct (coord_between (a2 + t * (b2 - a2)) a2 b2 t Ht eq_refl) as [-> ->].
  destruct (coord_between (a3 + t * (b3 - a3)) a3 b3 t Ht eq_refl) as [-> ->]. reflexivity.
Qed.
Lemma out_of_bounds_outside a b t : a <> b -> t < 0 \/ 1 < t -> out_of_bounds ROps (seg_at a b t) a b = true.
Proof.
  intros Hab Ht. dv3 a a1 a2 a3; dv3 b b1 b2 b3. unfold out_of_bounds, coord_any, seg_at. vunf.
  assert (Hc : a1 <> b1 \/ a2 <> b2 \/ a3 <> b3).
  { destruct (Req_dec a1 b1) as [E1|]; [|auto]. destruct (Req_dec a2 b2) as [E2|]; [|auto].
    destruct (Req_dec a3 b3) as [E3|]; [|auto]. exfalso; apply Hab; subst; reflexivity. }
  destruct Hc as [Hc|[Hc|Hc]];
    [destruct (coord_outside (a1 + t * (b1 - a1)) a1 b1 t Hc Ht eq_refl) as [E|E]
    |destruct (coord_outside (a2 + t * (b2 - a2)) a2 b2 t Hc Ht eq_refl) as [E|E]
    |destruct (coord_outside (a3 + t * (b3 - a3)) a3 b3 t Hc Ht eq_refl) as [E|E]];
    rewrite E; repeat rewrite orb_true_r; repeat rewrite orb_true_l; reflexivity.
Qed.

(* ---- Plane.line_segment_xsection ------------------------------------------------------------------- *)
Lemma same_side_param da db : 0 < da * db -> da <> db -> da / (da - db) < 0 \/ 1 < da / (da - db).
Proof.
  intros H Hne. assert (Hd : da - db <> 0) by lra.
  set (t := da / (da - db)). assert (Ht : t * (da - db) = da) by (unfold t; field; exact Hd). clearbody t.
  assert (Hda : da <> 0) by (intros ->; lra). assert (Hdb : db <> 0) by (intros ->; lra).
  assert (H1 : (t - 1) * (da - db) = db) by lra.
  destruct (Rlt_dec 0 da) as [Hp|Hn]; destruct (Rlt_dec 0 (da - db)) as [Hq|Hq].
  - right. assert (0 < db) by nra. nra.
  - left. nra.
  - left. nra.
  - right. assert (db < 0) by nra. nra.
Qed.

Lemma seg_xsection_cross pl a b : sd pl a * sd pl b < 0 ->
  line_segment_xsection ROps pl a b = Some (crossing pl a b).
Proof.
  intros H. unfold line_segment_xsection. rewrite line_xsection_seg by nra.
  unfold crossing. rewrite in_bounds_inside; [reflexivity|]. pose proof (crossing_param_range _ _ H). lra.
Qed.
Lemma seg_xsection_same_side pl a b : 0 < sd pl a * sd pl b -> line_segment_xsection ROps pl a b = None.
Proof.
  intros H. unfold line_segment_xsection. destruct (Req_dec (sd pl a) (sd pl b)) as [E|Hne].
  - rewrite line_xsection_seg_par by exact E. reflexivity.
  - rewrite line_xsection_seg by exact Hne. unfold crossing. rewrite out_of_bounds_outside; [reflexivity| |].
    + intros ->. apply Hne; reflexivity.
    + apply same_side_param; assumption.
Qed.
Lemma seg_xsection_endpoint_a pl a b : sd pl a = 0 -> sd pl b <> 0 -> line_segment_xsection ROps pl a b = Some a.
Proof.
  intros Ha Hb. unfold line_segment_xsection. rewrite line_xsection_seg by lra. unfold crossing.
  replace (sd pl a / (sd pl a - sd pl b)) with 0 by (rewrite Ha; field; lra).
  rewrite in_bounds_inside by lra. rewrite seg_at_0. reflexivity.
Qed.
Lemma seg_xsection_endpoint_b pl a b : sd pl b = 0 -> sd pl a <> 0 -> line_segment_xsection ROps pl a b = Some b.
Proof.
  intros Hb Ha. unfold line_segment_xsection. rewrite line_xsection_seg by lra. unfold crossing.
  replace (sd pl a / (sd pl a - sd pl b)) with 1 by (rewrite Hb; field; lra).
  rewrite in_bounds_inside by lra. rewrite seg_at_1. reflexivity.
Qed.

(* ---- stacked rows are the single forms ------------------------------------------------------------- *)
Lemma xsections_row_single pl pt ray :
  xsections_row ROps pl pt ray = (line_xsection ROps pl pt ray, is_some (line_xsection ROps pl pt ray)).
Proof. unfold xsections_row, line_xsection. destruct (neqb ROps _ _); reflexivity. Qed.
Lemma seg_xsections_row_single pl a b :
  seg_xsections_row ROps pl a b = (line_segment_xsection ROps pl a b, is_some (line_segment_xsection ROps pl a b)).
Proof.
  unfold seg_xsections_row, line_segment_xsection. rewrite xsections_row_single.
  destruct (line_xsection ROps pl a (vsub ROps b a)) as [p|]; cbn [is_some]; [|reflexivity].
  destruct (out_of_bounds ROps p a b); reflexivity.
Qed.

Lemma stacked_is_rowwise pl ps qs starts segvs pops nrms k :
  nth_error (fst (line_xsections ROps pl ps qs)) k = row2 (line_xsection ROps pl) (fun x => x) (nth_error ps k) (nth_error qs k) /\
  nth_error (snd (line_xsections ROps pl ps qs)) k = row2 (line_xsection ROps pl) is_some (nth_error ps k) (nth_error qs k) /\
  nth_error (fst (line_segment_xsections ROps pl ps qs)) k =
    row2 (line_segment_xsection ROps pl) (fun x => x) (nth_error ps k) (nth_error qs k) /\
  nth_error (snd (line_segment_xsections ROps pl ps qs)) k =
    row2 (line_segment_xsection ROps pl) is_some (nth_error ps k) (nth_error qs k) /\
  nth_error (intersect_segments_with_planes ROps starts segvs pops nrms) k =
    match nth_error starts k, nth_error segvs k, nth_error pops k, nth_error nrms k with
    | Some s, Some v, Some p, Some n => Some (intersect_segment_with_plane ROps s v p n)
    | _, _, _, _ => None
    end.
Proof.
  unfold line_xsections, line_segment_xsections, intersect_segments_with_planes, row2. cbn [fst snd].
  rewrite !nth_error_map, !nth_error_map2.
  repeat split.
  - destruct (nth_error ps k), (nth_error qs k); cbn [option_map]; rewrite ?xsections_row_single; reflexivity.
  - destruct (nth_error ps k), (nth_error qs k); cbn [option_map]; rewrite ?xsections_row_single; reflexivity.
  - destruct (nth_error ps k), (nth_error qs k); cbn [option_map]; rewrite ?seg_xsections_row_single; reflexivity.
  - destruct (nth_error ps k), (nth_error qs k); cbn [option_map]; rewrite ?seg_xsections_row_single; reflexivity.
  - assert (Hz : forall (A B : Type) (l : list A) (l' : list B) j,
        nth_error (zip l l') j = match nth_error l j, nth_error l' j with Some x, Some y => Some (x, y) | _, _ => None end).
    { intros A B l. induction l as [|x r IH]; intros [|y r'] [|j]; cbn; try reflexivity.
      - destruct (nth_error r j); reflexivity.
      - apply IH. }
    rewrite !Hz. destruct (nth_error starts k), (nth_error segvs k), (nth_error pops k), (nth_error nrms k); reflexivity.
Qed.

(* ---- intersect_segment_with_plane ------------------------------------------------------------------ *)
Lemma isp_num_sd pl a : isp_num ROps a (pref pl) (pnormal pl) = - sd pl a.
Proof. unfold isp_num. apply xs_num. Qed.
Lemma isp_den_sd pl a b : isp_den ROps (vsub ROps b a) (pnormal pl) = sd pl b - sd pl a.
Proof. unfold isp_den. apply xs_denom_seg. Qed.

Lemma isp_general pl a b : sd pl a <> sd pl b ->
  intersect_segment_with_plane ROps a (vsub ROps b a) (pref pl) (pnormal pl) =
  if Rltb (sd pl a / (sd pl a - sd pl b)) 0 then None
  else if Rltb 1 (sd pl a / (sd pl a - sd pl b)) then None else Some (crossing pl a b).
Proof.
  intros H. unfold intersect_segment_with_plane. rewrite isp_num_sd, isp_den_sd. unfold n0, n1; rops.
  rewrite (proj2 (Reqb_false _ _)) by lra.
  replace (- sd pl a / (sd pl b - sd pl a)) with (sd pl a / (sd pl a - sd pl b)) by (field; lra).
  reflexivity.
Qed.
Lemma isp_cross pl a b : sd pl a * sd pl b < 0 ->
  intersect_segment_with_plane ROps a (vsub ROps b a) (pref pl) (pnormal pl) = Some (crossing pl a b).
Proof.
  intros H. rewrite isp_general by nra. pose proof (crossing_param_range _ _ H).
  rewrite (proj2 (Rltb_false _ _)) by lra. rewrite (proj2 (Rltb_false _ _)) by lra. reflexivity.
Qed.
Lemma isp_same_side pl a b : 0 < sd pl a * sd pl b ->
  intersect_segment_with_plane ROps a (vsub ROps b a) (pref pl) (pnormal pl) = None.
Proof.
  intros H. destruct (Req_dec (sd pl a) (sd pl b)) as [E|Hne].
  - unfold intersect_segment_with_plane. rewrite isp_num_sd, isp_den_sd. unfold n0; rops.
    rewrite (proj2 (Reqb_true _ _)) by lra. rewrite (proj2 (Reqb_false _ _)) by nra. reflexivity.
  - rewrite isp_general by exact Hne. destruct (same_side_param _ _ H Hne).
    + rewrite (proj2 (Rltb_true _ _)) by assumption. reflexivity.
    + destruct (Rltb _ 0); [reflexivity|]. rewrite (proj2 (Rltb_true _ _)) by assumption. reflexivity.
Qed.
Lemma isp_endpoint_a pl a b : sd pl a = 0 -> sd pl b <> 0 ->
  intersect_segment_with_plane ROps a (vsub ROps b a) (pref pl) (pnormal pl) = Some a.
Proof.
  intros Ha Hb. rewrite isp_general by lra. unfold crossing.
  replace (sd pl a / (sd pl a - sd pl b)) with 0 by (rewrite Ha; field; lra).
  rewrite (proj2 (Rltb_false _ _)) by lra. rewrite (proj2 (Rltb_false _ _)) by lra. rewrite seg_at_0. reflexivity.
Qed.
Lemma isp_endpoint_b pl a b : sd pl b = 0 -> sd pl a <> 0 ->
  intersect_segment_with_plane ROps a (vsub ROps b a) (pref pl) (pnormal pl) = Some b.
Proof.
  intros Hb Ha. rewrite isp_general by lra. unfold crossing.
  replace (sd pl a / (sd pl a - sd pl b)) with 1 by (rewrite Hb; field; lra).
  rewrite (proj2 (Rltb_false _ _)) by lra. rewrite (proj2 (Rltb_false _ _)) by lra. rewrite seg_at_1. reflexivity.
Qed.

(* ---- Polyline.intersect_plane: one edge ------------------------------------------------------------- *)
Lemma opp_signs x y : x * y < 0 -> (0 < x /\ y < 0) \/ (x < 0 /\ 0 < y).
Proof.
  intros H. destruct (Rtotal_order x 0) as [Hx|[Hx|Hx]]; destruct (Rtotal_order y 0) as [Hy|[Hy|Hy]];
    try (subst; exfalso; lra); try (exfalso; nra); [right|left]; split; lra.
Qed.
Lemma same_signs x y : 0 < x * y -> (0 < x /\ 0 < y) \/ (x < 0 /\ y < 0).
Proof.
  intros H. destruct (Rtotal_order x 0) as [Hx|[Hx|Hx]]; destruct (Rtotal_order y 0) as [Hy|[Hy|Hy]];
    try (subst; exfalso; lra); try (exfalso; nra); [right|left]; split; lra.
Qed.

Lemma edge_cross pl a b : sd pl a * sd pl b < 0 ->
  edge_selected ROps pl a b = true /\ edge_point ROps pl a b = Some (crossing pl a b).
Proof.
  intros H. apply opp_signs in H. split.
  - unfold edge_selected. destruct H as [[Ha Hb]|[Ha Hb]].
    + rewrite (proj2 (sign_pos pl a)) by exact Ha. rewrite (proj2 (sign_neg pl b)) by exact Hb. reflexivity.
    + rewrite (proj2 (sign_neg pl a)) by exact Ha. rewrite (proj2 (sign_pos pl b)) by exact Hb. reflexivity.
  - unfold edge_point, crossing, seg_at. unfold n0, n1; rops.
    set (da := sd pl a) in *. set (db := sd pl b) in *. clearbody da db.
    destruct H as [[Ha Hb]|[Ha Hb]].
    + rewrite (Rabs_pos_eq da) by lra. rewrite (Rabs_left db) by lra.
      rewrite (proj2 (Reqb_false _ _)) by lra. f_equal. vec_eq; field; lra.
    + rewrite (Rabs_left da) by lra. rewrite (Rabs_pos_eq db) by lra.
      rewrite (proj2 (Reqb_false _ _)) by lra. f_equal. vec_eq; field; lra.
Qed.
Lemma edge_same_side pl a b : 0 < sd pl a * sd pl b -> edge_selected ROps pl a b = false.
Proof.
  intros H. apply same_signs in H. unfold edge_selected. destruct H as [[Ha Hb]|[Ha Hb]].
  - rewrite (proj2 (sign_pos pl a)) by exact Ha. rewrite (proj2 (sign_pos pl b)) by exact Hb. reflexivity.
  - rewrite (proj2 (sign_neg pl a)) by exact Ha. rewrite (proj2 (sign_neg pl b)) by exact Hb. reflexivity.
Qed.

Lemma hits_edgewise pl segs : forall i,
  Forall (fun ab => off_plane pl (fst ab) /\ off_plane pl (snd ab)) segs ->
  hits_from ROps pl i segs = edgewise_from pl i segs.
Proof.
  induction segs as [|[a b] r IH]; intros i HF; [reflexivity|].
  inversion HF as [|? ? [Ha Hb] Hr]; subst. cbn [hits_from edgewise_from fst snd] in *.
  rewrite IH by exact Hr. unfold cons_hit, cons_xhit, off_plane in *. cbn [fst snd] in *.
  destruct (Rlt_dec (sd pl a * sd pl b) 0) as [Hc|Hs].
  - destruct (edge_cross pl a b Hc) as [-> ->]. rewrite seg_xsection_cross by exact Hc. reflexivity.
  - assert (Hs' : 0 < sd pl a * sd pl b).
    { destruct (Rtotal_order (sd pl a * sd pl b) 0) as [?|[E|?]]; [lra| |lra].
      apply Rmult_integral in E. destruct E; contradiction. }
    rewrite edge_same_side, seg_xsection_same_side by exact Hs'. reflexivity.
Qed.

Lemma in_zip {A B} (l : list A) : forall (l' : list B) x y, In (x, y) (zip l l') -> In x l /\ In y l'.
Proof.
  induction l as [|a r IH]; intros [|b r'] x y H; cbn in H; try contradiction.
  destruct H as [E|H]; [injection E as <- <-; split; left; reflexivity|].
  destruct (IH _ _ _ H). split; right; assumption.
Qed.
Lemma in_tl {A} (l : list A) x : In x (tl l) -> In x l.
Proof. destruct l; cbn; auto. Qed.
Lemma last_in {A} (l : list A) d : l <> [] -> In (last l d) l.
Proof.
  induction l as [|a r IH]; intros H; [contradiction|]. destruct r as [|b r']; [left; reflexivity|].
  right. apply IH. discriminate.
Qed.

Lemma segments_off_plane pl poly : Forall (off_plane pl) (pv poly) ->
  Forall (fun ab => off_plane pl (fst ab) /\ off_plane pl (snd ab)) (segments poly).
Proof.
  intros H. rewrite Forall_forall in H. apply Forall_forall. intros [a b] Hin. unfold segments in Hin.
  apply in_app_or in Hin. cbn [fst snd]. destruct Hin as [Hin|Hin].
  - apply in_zip in Hin. destruct Hin as [Ha Hb]. split; apply H; [exact Ha|apply in_tl, Hb].
  - destruct (pclosed poly); [|contradiction]. unfold closing_segment in Hin.
    destruct (pv poly) as [|h t] eqn:E; [contradiction|]. destruct Hin as [Hin|[]].
    pose proof (last_in (h :: t) h) as HL. injection Hin as Ea Eb. subst a b.
    split; apply H; [apply HL; discriminate|left; reflexivity].
Qed.

(* no vertex on the plane: intersect_plane reports exactly the edges Plane.line_segment_xsection hits, with their
   indices, in order, and the same points *)
Lemma intersect_plane_edgewise pl poly : Forall (off_plane pl) (pv poly) ->
  intersect_plane_hits ROps pl poly = edgewise_from pl 0 (segments poly).
Proof. intros H. apply hits_edgewise, segments_off_plane, H. Qed.

(* the same, said directly: exactly the crossing edges, each with its crossing point *)
Lemma hits_crossings pl segs : forall i,
  Forall (fun ab => off_plane pl (fst ab) /\ off_plane pl (snd ab)) segs ->
  hits_from ROps pl i segs = crossings_from pl i segs.
Proof.
  induction segs as [|[a b] r IH]; intros i HF; [reflexivity|].
  inversion HF as [|? ? [Ha Hb] Hr]; subst. cbn [hits_from crossings_from fst snd] in *.
  rewrite IH by exact Hr. unfold cons_hit, cons_crossing, off_plane in *. cbn [fst snd] in *.
  destruct (Rltb_spec (sd pl a * sd pl b) 0) as [Hc|Hs].
  - destruct (edge_cross pl a b Hc) as [-> ->]. reflexivity.
  - assert (Hs' : 0 < sd pl a * sd pl b).
    { destruct (Rtotal_order (sd pl a * sd pl b) 0) as [?|[E|?]]; [lra| |lra].
      apply Rmult_integral in E. destruct E; contradiction. }
    rewrite edge_same_side by exact Hs'. reflexivity.
Qed.
Lemma intersect_plane_crossings pl poly : Forall (off_plane pl) (pv poly) ->
  intersect_plane_hits ROps pl poly = crossings_from pl 0 (segments poly).
Proof. intros H. apply hits_crossings, segments_off_plane, H. Qed.

(* edge indices ascend and are edge numbers, whatever the input *)
Lemma hits_from_lb pl segs : forall i k r, In (k, r) (hits_from ROps pl i segs) ->
  (i <= k)%nat /\ exists a b, nth_error segs (k - i) = Some (a, b) /\ edge_selected ROps pl a b = true /\ r = edge_point ROps pl a b.
Proof.
  induction segs as [|[a b] t IH]; intros i k r H; [contradiction|]. cbn [hits_from] in H. unfold cons_hit in H.
  cbn [fst snd] in H. destruct (edge_selected ROps pl a b) eqn:E.
  - destruct H as [H|H].
    + injection H as <- <-. split; [lia|]. rewrite Nat.sub_diag. exists a, b. auto.
    + destruct (IH _ _ _ H) as [Hle (a' & b' & Hn & Hs & Hr)]. split; [lia|]. exists a', b'.
      replace (k - i)%nat with (S (k - S i)) by lia. auto.
  - destruct (IH _ _ _ H) as [Hle (a' & b' & Hn & Hs & Hr)]. split; [lia|]. exists a', b'.
    replace (k - i)%nat with (S (k - S i)) by lia. auto.
Qed.
Lemma hits_from_sorted pl segs : forall i, StronglySorted lt (map fst (hits_from ROps pl i segs)).
Proof.
  induction segs as [|[a b] t IH]; intros i; [constructor|]. cbn [hits_from]. unfold cons_hit. cbn [fst snd].
  destruct (edge_selected ROps pl a b); [|apply IH]. cbn [map fst]. constructor; [apply IH|].
  apply Forall_forall. intros k Hk. apply in_map_iff in Hk. destruct Hk as [[k' r] [<- Hin]].
  apply hits_from_lb in Hin. cbn [fst]. lia.
Qed.
Lemma intersect_plane_indices pl poly :
  StronglySorted lt (snd (intersect_plane ROps pl poly)) /\
  forall k r, In (k, r) (intersect_plane_hits ROps pl poly) ->
    exists a b, nth_error (segments poly) k = Some (a, b) /\ edge_selected ROps pl a b = true /\ r = edge_point ROps pl a b.
Proof.
  split; [apply hits_from_sorted|]. intros k r H. apply hits_from_lb in H. rewrite Nat.sub_0_r in H. apply H.
Qed.

(* every selected edge is reported, whatever happens on the other edges *)
Lemma hits_from_complete pl segs : forall i k a b,
  nth_error segs k = Some (a, b) -> edge_selected ROps pl a b = true ->
  In ((i + k)%nat, edge_point ROps pl a b) (hits_from ROps pl i segs).
Proof.
  induction segs as [|[a' b'] t IH]; intros i k a b Hn Hs; [destruct k; discriminate|].
  cbn [hits_from]. unfold cons_hit. cbn [fst snd]. destruct k as [|k].
  - cbn in Hn. injection Hn as -> ->. rewrite Hs. rewrite Nat.add_0_r. left. reflexivity.
  - cbn in Hn. replace (i + S k)%nat with (S i + k)%nat by lia.
    destruct (edge_selected ROps pl a' b'); [right|]; apply IH; assumption.
Qed.
(* per edge, for every polyline (vertices of OTHER edges may lie on the plane): a strictly crossing edge is reported with
   its index and crossing point; an edge whose ends are strictly on the same side is not reported *)
Lemma intersect_plane_per_edge pl poly k a b : nth_error (segments poly) k = Some (a, b) ->
  (sd pl a * sd pl b < 0 -> In (k, Some (crossing pl a b)) (intersect_plane_hits ROps pl poly)) /\
  (0 < sd pl a * sd pl b -> forall r, ~ In (k, r) (intersect_plane_hits ROps pl poly)).
Proof.
  intros Hn. split.
  - intros H. destruct (edge_cross pl a b H) as [Hs Hp]. rewrite <- Hp.
    apply (hits_from_complete pl (segments poly) 0 k a b Hn Hs).
  - intros H r Hin. apply hits_from_lb in Hin. rewrite Nat.sub_0_r in Hin. destruct Hin as [_ (a' & b' & Hn' & Hs & _)].
    rewrite Hn in Hn'. injection Hn' as <- <-. rewrite edge_same_side in Hs by exact H. discriminate.
Qed.

(* ---- the four routines on one segment --------------------------------------------------------------- *)
Lemma four_routines_agree pl a b : sd pl a * sd pl b < 0 ->
  line_segment_xsection ROps pl a b = Some (crossing pl a b) /\
  line_segment_xsections ROps pl [a] [b] = ([Some (crossing pl a b)], [true]) /\
  intersect_segment_with_plane ROps a (vsub ROps b a) (pref pl) (pnormal pl) = Some (crossing pl a b) /\
  intersect_plane ROps pl (seg_poly a b) = ([Some (crossing pl a b)], [0%nat]).
Proof.
  intros H. split; [apply seg_xsection_cross, H|]. split; [|split; [apply isp_cross, H|]].
  - unfold line_segment_xsections, map2. cbn [zip map fst snd]. rewrite seg_xsections_row_single, seg_xsection_cross by exact H.
    reflexivity.
  - unfold intersect_plane, intersect_plane_hits, segments, seg_poly. cbn [pv pclosed tl zip app hits_from].
    unfold cons_hit. cbn [fst snd]. destruct (edge_cross pl a b H) as [-> ->]. reflexivity.
Qed.

Lemma same_side_reports_none pl a b : 0 < sd pl a * sd pl b ->
  line_segment_xsection ROps pl a b = None /\
  line_segment_xsections ROps pl [a] [b] = ([None], [false]) /\
  intersect_segment_with_plane ROps a (vsub ROps b a) (pref pl) (pnormal pl) = None /\
  intersect_plane ROps pl (seg_poly a b) = ([], []).
Proof.
  intros H. split; [apply seg_xsection_same_side, H|]. split; [|split; [apply isp_same_side, H|]].
  - unfold line_segment_xsections, map2. cbn [zip map fst snd].
    rewrite seg_xsections_row_single, seg_xsection_same_side by exact H. reflexivity.
  - unfold intersect_plane, intersect_plane_hits, segments, seg_poly. cbn [pv pclosed tl zip app hits_from].
    unfold cons_hit. cbn [fst snd]. rewrite edge_same_side by exact H. reflexivity.
Qed.

Lemma endpoint_on_plane_returns_it pl a b :
  (sd pl a = 0 -> sd pl b <> 0 ->
     line_segment_xsection ROps pl a b = Some a /\
     line_segment_xsections ROps pl [a] [b] = ([Some a], [true]) /\
     intersect_segment_with_plane ROps a (vsub ROps b a) (pref pl) (pnormal pl) = Some a) /\
  (sd pl b = 0 -> sd pl a <> 0 ->
     line_segment_xsection ROps pl a b = Some b /\
     line_segment_xsections ROps pl [a] [b] = ([Some b], [true]) /\
     intersect_segment_with_plane ROps a (vsub ROps b a) (pref pl) (pnormal pl) = Some b).
Proof.
  split; intros H0 H1.
  - split; [apply seg_xsection_endpoint_a; assumption|]. split; [|apply isp_endpoint_a; assumption].
    unfold line_segment_xsections, map2. cbn [zip map fst snd].
    rewrite seg_xsections_row_single, seg_xsection_endpoint_a by assumption. reflexivity.
  - split; [apply seg_xsection_endpoint_b; assumption|]. split; [|apply isp_endpoint_b; assumption].
    unfold line_segment_xsections, map2. cbn [zip map fst snd].
    rewrite seg_xsections_row_single, seg_xsection_endpoint_b by assumption. reflexivity.
Qed.

(* ---- tactics for the traced-kernel tie lemmas (build/C14/Traced_*.v) ------------------------------------ *)
(* close a branch that contradicts the path facts *)
Ltac path_contra :=
  exfalso; first [ lra | match goal with H : _ <> _ |- _ => apply H; lra end ].
(* decide every comparison of the model with the path facts (a branch the path excludes must be refutable) *)
Ltac decide_ifs_raw :=
  repeat match goal with
  | |- context [Reqb ?a ?b] => destruct (Reqb_spec a b); try path_contra
  | |- context [Rltb ?a ?b] => destruct (Rltb_spec a b); try path_contra
  | |- context [Rleb ?a ?b] => destruct (Rleb_spec a b); try path_contra
  end.
(* quotients are named first, so that lra sees `(b - a) * t` and `t * (b - a)` as the same monomials *)
Ltac abstract_quotients :=
  repeat match goal with |- context [?x / ?y] => let t := fresh "quo" in set (t := x / y) in * end.
Ltac restore_quotients := repeat match goal with t := _ / _ |- _ => subst t end.
(* a branch contradicts a path fact about a ring-equal (not syntactically equal) pair of expressions, e.g.
   `a + (b - a) * t` against `t * (b - a) + a`: link the two by an equation proved by `ring`, then lra *)
Ltac link_contra H :=
  lazymatch type of H with
  | ?a < ?b =>
      match goal with
      | Hp : ?c <= ?d |- _ => assert (a - b = d - c) by ring; lra
      | Hp : ?c < ?d |- _ => assert (a - b = d - c) by ring; lra
      end
  | ~ ?a < ?b => match goal with Hp : ?c < ?d |- _ => assert (a - b = c - d) by ring; lra end
  | ?a <= ?b => match goal with Hp : ?c < ?d |- _ => assert (a - b = d - c) by ring; lra end
  | ~ ?a <= ?b => match goal with Hp : ?c <= ?d |- _ => assert (a - b = c - d) by ring; lra end
  | @eq R ?a ?b =>
      match goal with Hp : ?c <> ?d |- _ =>
        first [ assert (a - b = c - d) by ring | assert (a - b = d - c) by ring ]; apply Hp; lra end
  | ?a <> ?b =>
      match goal with Hp : @eq R ?c ?d |- _ =>
        first [ assert (a - b = c - d) by ring | assert (a - b = d - c) by ring ]; apply H; lra end
  end.
Ltac path_contra2 H := exfalso; first [ lra | match goal with H' : _ <> _ |- _ => apply H'; lra end | link_contra H ].
Ltac decide_ifs_raw2 :=
  repeat match goal with
  | |- context [Reqb ?a ?b] =>
      let H := fresh "Hd" in destruct (Reqb_spec a b) as [H|H]; cbv beta iota in *; try path_contra2 H
  | |- context [Rltb ?a ?b] =>
      let H := fresh "Hd" in destruct (Rltb_spec a b) as [H|H]; cbv beta iota in *; try path_contra2 H
  | |- context [Rleb ?a ?b] =>
      let H := fresh "Hd" in destruct (Rleb_spec a b) as [H|H]; cbv beta iota in *; try path_contra2 H
  end.
Ltac decide_ifs := abstract_quotients; decide_ifs_raw2; restore_quotients.
(* a non-zero side condition of `field` from a path fact about a ring-equal expression *)
Ltac nonzero_from_path :=
  repeat split;
  first [ assumption | lra | match goal with H : _ <> _ |- _ <> _ => let E := fresh in intro E; apply H; lra end ].
Ltac list_eq_field_path := list_eq ltac:(first [ reflexivity | ring | field; nonzero_from_path ]).
(* model value list = traced value list *)
Ltac same_values := first [ reflexivity | cbv beta iota delta [andb orb negb]; first [ reflexivity | f_equal; list_eq_field_path ] ].
(* |x| with the sign of x known from the path facts *)
Ltac abs_by_path :=
  repeat match goal with
  | |- context [Rabs ?x] => first [ rewrite (Rabs_pos_eq x) by lra | rewrite (Rabs_left x) by lra ]
  end.
Ltac xunf :=
  cbv [line_xsection line_segment_xsection xs_point xs_param xs_denom out_of_bounds coord_any above_both below_both
       xsections_row line_xsections seg_xsections_row line_segment_xsections
       intersect_segment_with_plane isp_num isp_den isp_at isp_row intersect_segments_with_planes
       segments closing_segment edge_selected edge_point cons_hit hits_from intersect_plane_hits intersect_plane
       plane_sign plane_sd nsign sd_eq plane_equation eq_normal ea eb ec ed pref pnormal pv pclosed
       map2 zip map fst snd tl last app flat_map option_map
       vlist vadd vsub vscale vdot vx vy vz n0 n1]; rops.
