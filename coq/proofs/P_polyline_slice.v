(* Lemmas for M_polyline_slice.v (C06). *)
From Coq Require Import ZArith Reals Lra Psatz List Bool Lia Arith.
From PW Require Import Num NumR Vec NpList Result.
From PW.model Require Import M_plane M_polyline_base M_polyline_slice M_polyline_slice_spec.
From PW.proofs Require Import P_vec P_nplist P_plane.
Import ListNotations.

(* ---- olast ------------------------------------------------------------------------------------- *)
Lemma olast_cons_ne {A} (x : A) r : r <> [] -> olast (x :: r) = olast r.
Proof. destruct r; [congruence|reflexivity]. Qed.
Lemma olast_app_ne {A} (a b : list A) : b <> [] -> olast (a ++ b) = olast b.
Proof.
  intros Hb. induction a as [|x a IH]; [reflexivity|].
  cbn [app]. rewrite olast_cons_ne; [exact IH|]. destruct a; [exact Hb|discriminate].
Qed.
Lemma olast_app3 {A} (a b c : list A) : c <> [] -> olast (a ++ b ++ c) = olast c.
Proof. intros H. rewrite app_assoc. apply olast_app_ne. exact H. Qed.
Lemma olast_app_one {A} (a : list A) x : olast (a ++ [x]) = Some x.
Proof. rewrite olast_app_ne by discriminate. reflexivity. Qed.
Lemma olast_none {A} (l : list A) : olast l = None -> l = [].
Proof.
  induction l as [|x r IH]; [reflexivity|]. destruct r; [discriminate|].
  intros H. rewrite olast_cons_ne in H by discriminate. apply IH in H. discriminate.
Qed.
Lemma olast_some_ne {A} (l : list A) x : olast l = Some x -> l <> [].
Proof. intros H ->. discriminate. Qed.
Lemma olast_split {A} (l : list A) x : olast l = Some x -> exists l', l = l' ++ [x].
Proof.
  intros H. destruct (exists_last (olast_some_ne _ _ H)) as (l' & y & ->).
  rewrite olast_app_one in H. injection H as ->. exists l'; reflexivity.
Qed.
Lemma ne_olast {A} (l : list A) : l <> [] -> exists l' x, l = l' ++ [x].
Proof. intros H. destruct (exists_last H) as (l' & y & ->). eauto. Qed.
Lemma olast_map {A B} (f : A -> B) l : olast (map f l) = option_map f (olast l).
Proof.
  induction l as [|x r IH]; [reflexivity|]. destruct r; [reflexivity|].
  cbn [map] in *. rewrite !olast_cons_ne by discriminate. exact IH.
Qed.
Lemma nth_error_olast {A} (a b : list A) k : length a = S k -> nth_error (a ++ b) k = olast a.
Proof.
  intros H. destruct (ne_olast a) as (a' & x & ->); [destruct a; [discriminate|discriminate]|].
  rewrite app_length in H; cbn in H. rewrite olast_app_one, <- app_assoc.
  rewrite nth_error_app2 by lia. replace (k - length a')%nat with 0%nat by lia. reflexivity.
Qed.

(* ---- flatnonzero ------------------------------------------------------------------------------- *)
Lemma nonzero_from_app m1 : forall i m2,
  nonzero_from i (m1 ++ m2) = nonzero_from i m1 ++ nonzero_from (i + length m1) m2.
Proof.
  induction m1 as [|b r IH]; intros i m2; cbn [app nonzero_from length].
  - rewrite Nat.add_0_r. reflexivity.
  - rewrite IH. replace (S i + length r)%nat with (i + S (length r))%nat by lia. destruct b; reflexivity.
Qed.
Lemma nonzero_from_false m : forall i, Forall (fun b => b = false) m -> nonzero_from i m = [].
Proof. induction m as [|b r IH]; intros i H; [reflexivity|]. inversion H; subst. cbn. apply IH; assumption. Qed.
Lemma nonzero_from_true m : forall i, Forall (fun b => b = true) m -> nonzero_from i m = seq i (length m).
Proof.
  induction m as [|b r IH]; intros i H; [reflexivity|]. inversion H; subst. cbn. f_equal. apply IH; assumption.
Qed.
Lemma nonzero_from_nil_inv m : forall i, nonzero_from i m = [] -> Forall (fun b => b = false) m.
Proof.
  induction m as [|b r IH]; intros i H; [constructor|]. cbn in H. destruct b; [discriminate|].
  constructor; [reflexivity|]. eapply IH; eassumption.
Qed.
Lemma nonzero_from_single_inv m : forall i k, nonzero_from i m = [k] ->
  exists m1 m2, m = m1 ++ true :: m2 /\ (i + length m1 = k)%nat /\
                Forall (fun b => b = false) m1 /\ Forall (fun b => b = false) m2.
Proof.
  induction m as [|b r IH]; intros i k H; [discriminate|]. cbn in H. destruct b.
  - injection H as <- H. exists [], r. repeat split; [cbn; lia|constructor|]. eapply nonzero_from_nil_inv; eassumption.
  - destruct (IH _ _ H) as (m1 & m2 & -> & Hk & H1 & H2). exists (false :: m1), m2.
    repeat split; [cbn; lia|constructor; auto|assumption].
Qed.
Lemma Forall_map_iff {A B} (f : A -> B) (P : B -> Prop) l : Forall P (map f l) <-> Forall (fun x => P (f x)) l.
Proof. apply Forall_map. Qed.

(* ---- run-length grouping ------------------------------------------------------------------------ *)
Section Core.
  Context {A B : Type} (sg : A -> Z) (pt : A -> B) (xs : A -> A -> B).
  Local Notation group := (group sg).
  Local Notation cons_group := (cons_group sg).

  Local Notation front := (front sg).
  Local Notation open_split := (open_split sg).
  Local Notation enter := (enter sg pt xs).
  Local Notation leave := (leave sg pt xs).
  Local Notation spec_result := (spec_result sg pt xs).

  Lemma group_hd v r : exists c g', group (v :: r) = (sg v, v :: c) :: g'.
  Proof.
    cbn [M_polyline_slice.group]. destruct (group r) as [|[s' c] g']; cbn [M_polyline_slice.cons_group]; [eauto|].
    destruct (Z.eqb_spec (sg v) s') as [<-|]; eauto.
  Qed.
  Lemma group_nil_iff l : group l = [] <-> l = [].
  Proof.
    split; [|intros ->; reflexivity]. destruct l as [|v r]; [reflexivity|].
    destruct (group_hd v r) as (c & g' & ->). discriminate.
  Qed.
  Lemma group_comps_ne l : Forall (fun sc => snd sc <> []) (group l).
  Proof.
    induction l as [|v r IH]; [constructor|]. cbn [M_polyline_slice.group].
    destruct (group r) as [|[s' c] g']; cbn [M_polyline_slice.cons_group]; [repeat constructor; discriminate|].
    destruct (sg v =? s')%Z.
    - inversion IH; subst. constructor; [discriminate|assumption].
    - constructor; [discriminate|assumption].
  Qed.
  Lemma group_members l : Forall (fun sc => Forall (fun v => sg v = fst sc) (snd sc)) (group l).
  Proof.
    induction l as [|v r IH]; [constructor|]. cbn [M_polyline_slice.group].
    destruct (group r) as [|[s' c] g']; cbn [M_polyline_slice.cons_group]; [repeat constructor|].
    destruct (Z.eqb_spec (sg v) s').
    - inversion IH; subst. constructor; [constructor; [reflexivity|assumption]|assumption].
    - constructor; [repeat constructor|assumption].
  Qed.
  Lemma group_flatten l : concat (map snd (group l)) = l.
  Proof.
    induction l as [|v r IH]; [reflexivity|]. cbn [M_polyline_slice.group].
    destruct (group r) as [|[s' c] g']; cbn [M_polyline_slice.cons_group].
    - cbn in *. rewrite <- IH. reflexivity.
    - destruct (sg v =? s')%Z; cbn in *; rewrite <- IH; reflexivity.
  Qed.
  Lemma group_signs (P : Z -> Prop) l : Forall (fun v => P (sg v)) l -> Forall (fun sc => P (fst sc)) (group l).
  Proof.
    induction l as [|v r IH]; intros H; [constructor|]. inversion H; subst. specialize (IH H3).
    cbn [M_polyline_slice.group]. destruct (group r) as [|[s' c] g']; cbn [M_polyline_slice.cons_group]; [repeat constructor; assumption|].
    destruct (sg v =? s')%Z.
    - inversion IH; subst. constructor; assumption.
    - constructor; assumption.
  Qed.
  Lemma group_run s l : l <> [] -> Forall (fun v => sg v = s) l -> group l = [(s, l)].
  Proof.
    induction l as [|v r IH]; intros Hne H; [congruence|]. inversion H; subst.
    cbn [M_polyline_slice.group]. destruct r as [|w r'].
    - reflexivity.
    - rewrite IH by (try discriminate; assumption). cbn [M_polyline_slice.cons_group]. rewrite Z.eqb_refl. reflexivity.
  Qed.
  Lemma group_app a : forall b,
    (forall x y, olast a = Some x -> hd_error b = Some y -> sg x <> sg y) ->
    group (a ++ b) = group a ++ group b.
  Proof.
    induction a as [|v r IH]; intros b H; [reflexivity|].
    cbn [app M_polyline_slice.group]. destruct r as [|w r'].
    - cbn [app M_polyline_slice.group M_polyline_slice.cons_group]. destruct b as [|y b']; [reflexivity|].
      destruct (group_hd y b') as (c & g' & ->). cbn [M_polyline_slice.cons_group].
      destruct (Z.eqb_spec (sg v) (sg y)) as [E|_]; [|reflexivity]. exfalso. exact (H v y eq_refl eq_refl E).
    - rewrite IH by (intros x y Hx; apply H; rewrite olast_cons_ne by discriminate; exact Hx).
      destruct (group_hd w r') as (c & g' & ->). cbn [app M_polyline_slice.cons_group].
      destruct (sg v =? sg w)%Z; reflexivity.
  Qed.
  Lemma group_olast l : forall s c, olast (group l) = Some (s, c) ->
    exists v, olast c = Some v /\ olast l = Some v /\ sg v = s.
  Proof.
    induction l as [|v r IH]; intros s c H; [discriminate|].
    cbn [M_polyline_slice.group] in H. destruct r as [|w r'].
    - cbn in H. injection H as <- <-. exists v. auto.
    - rewrite olast_cons_ne by discriminate.
      destruct (group_hd w r') as (c' & g' & E). rewrite E in *. cbn [M_polyline_slice.cons_group] in H.
      destruct (Z.eqb_spec (sg v) (sg w)) as [Ev|].
      + destruct g' as [|x g''].
        * cbn in H. injection H as <- <-. destruct (IH _ _ eq_refl) as (u & Hu & Hl & Hs).
          exists u. repeat split; try assumption.
        * rewrite olast_cons_ne in H by discriminate. apply IH. rewrite olast_cons_ne by discriminate. exact H.
      + rewrite olast_cons_ne in H by discriminate. apply IH. exact H.
  Qed.
  Lemma group_hd_error l s c : hd_error (group l) = Some (s, c) ->
    exists v, hd_error c = Some v /\ hd_error l = Some v /\ sg v = s.
  Proof.
    destruct l as [|v r]; [discriminate|]. destruct (group_hd v r) as (c' & g' & ->). cbn.
    intros H. injection H as <- <-. exists v. auto.
  Qed.

  Local Notation isf := (fun c : Z * list A => (fst c =? 1)%Z).

  Lemma nonfront_mask g : Forall (fun sc => fst sc <> 1%Z) g -> Forall (fun b => b = false) (map isf g).
  Proof.
    intros H. apply Forall_map_iff. eapply Forall_impl; [|exact H]. cbn. intros a Ha. apply Z.eqb_neq. exact Ha.
  Qed.

  Lemma slice_core_ne l : l <> [] -> slice_core sg pt xs l = slice_groups pt xs (group l).
  Proof. destruct l; [congruence|reflexivity]. Qed.

  Lemma core_split_ok pre run post :
    run <> [] -> Forall front run -> Forall (fun v => ~ front v) (pre ++ post) -> pre ++ post <> [] ->
    slice_core sg pt xs (pre ++ run ++ post) = Ok (spec_result pre run post).
  Proof.
    intros Hne Hf Hnf Hpp. apply Forall_app in Hnf as [Hpre Hpost].
    assert (Hrp : group (run ++ post) = [(1%Z, run)] ++ group post).
    { rewrite group_app; [rewrite (group_run 1%Z run) by assumption; reflexivity|].
      intros x y Hx Hy. destruct post as [|p post']; [discriminate|]. injection Hy as <-.
      apply olast_split in Hx as (r' & ->). apply Forall_app in Hf as [_ Hx]. inversion Hx; subst.
      inversion Hpost; subst. unfold M_polyline_slice_spec.front in *. congruence. }
    assert (Hg : group (pre ++ run ++ post) = group pre ++ [(1%Z, run)] ++ group post).
    { rewrite group_app; [rewrite Hrp; reflexivity|].
      intros x y Hx Hy. destruct run as [|f0 run']; [congruence|]. cbn in Hy. injection Hy as <-.
      apply olast_split in Hx as (r' & ->). apply Forall_app in Hpre as [_ Hx]. inversion Hx; subst.
      inversion Hf; subst. unfold M_polyline_slice_spec.front in *. congruence. }
    rewrite slice_core_ne by (destruct pre; [destruct run; [congruence|discriminate]|discriminate]).
    rewrite Hg. unfold slice_groups.
    assert (Hgp : Forall (fun sc => fst sc <> 1%Z) (group pre)) by (apply (group_signs (fun s => s <> 1%Z)); exact Hpre).
    assert (Hgq : Forall (fun sc => fst sc <> 1%Z) (group post)) by (apply (group_signs (fun s => s <> 1%Z)); exact Hpost).
    unfold flatnonzero. rewrite !map_app, nonzero_from_app, (nonzero_from_false _ _ (nonfront_mask _ Hgp)).
    cbn [map app nonzero_from fst Z.eqb Pos.eqb]. rewrite (nonzero_from_false _ _ (nonfront_mask _ Hgq)).
    rewrite map_length. cbn [app Nat.add].
    assert (Hlen : (length (group pre ++ (1%Z, run) :: group post) <? 2)%nat = false).
    { apply Nat.ltb_ge. rewrite app_length. cbn [length].
      destruct pre as [|p pre'].
      - destruct post as [|q post']; [cbn in Hpp; congruence|]. destruct (group_hd q post') as (c & g' & ->). cbn. lia.
      - destruct (group_hd p pre') as (c & g' & ->). cbn. lia. }
    rewrite Hlen. rewrite nth_error_app2 by lia. rewrite Nat.sub_diag. cbn [nth_error].
    f_equal. unfold M_polyline_slice_spec.spec_result. f_equal; [|f_equal].
    - (* prepend *)
      unfold prepend_of, M_polyline_slice_spec.enter. destruct (length (group pre)) as [|k'] eqn:Elen.
      + apply length_zero_iff_nil, group_nil_iff in Elen. subst pre. reflexivity.
      + rewrite (nth_error_olast _ _ _ Elen). destruct (olast (group pre)) as [[s c]|] eqn:Eo.
        * destruct (group_olast _ _ _ Eo) as (v & Hc & Hl & Hs). rewrite Hc, Hl.
          destruct run as [|f0 run']; [congruence|]. cbn [hd_error]. rewrite Hs. reflexivity.
        * apply olast_none in Eo. rewrite Eo in Elen. discriminate.
    - (* append *)
      unfold append_of, M_polyline_slice_spec.leave. rewrite nth_error_app2 by lia.
      replace (S (length (group pre)) - length (group pre))%nat with 1%nat by lia. cbn [nth_error].
      destruct (ne_olast run Hne) as (r' & lv & Er). assert (Hol : olast run = Some lv) by (rewrite Er; apply olast_app_one). rewrite Hol.
      destruct post as [|q post']; [reflexivity|].
      destruct (group_hd q post') as (c & g' & ->). cbn [nth_error hd_error]. reflexivity.
  Qed.

  Lemma concat_nonfront g :
    Forall (fun sc => Forall (fun v => sg v = fst sc) (snd sc)) g -> Forall (fun sc => fst sc <> 1%Z) g ->
    Forall (fun v => ~ front v) (concat (map snd g)).
  Proof.
    induction g as [|[s c] g IH]; intros Hm Hs; [constructor|]. inversion Hm; subst. inversion Hs; subst.
    cbn [map concat snd]. apply Forall_app. split; [|apply IH; assumption].
    cbn [fst snd] in *. eapply Forall_impl; [|eassumption]. cbn. intros a Ha. unfold M_polyline_slice_spec.front. congruence.
  Qed.
  Lemma mask_nonfront (g : list (Z * list A)) :
    Forall (fun b => b = false) (map isf g) -> Forall (fun sc => fst sc <> 1%Z) g.
  Proof.
    intros H. apply Forall_map_iff in H. eapply Forall_impl; [|exact H]. cbn. intros a Ha. apply Z.eqb_neq. exact Ha.
  Qed.

  (* whenever the model returns a value there is a split with something not in front *)
  Lemma core_ok_split l r : slice_core sg pt xs l = Ok r ->
    exists pre run post, open_split l pre run post /\ pre ++ post <> [].
  Proof.
    unfold slice_core. destruct l as [|v0 l0]; [discriminate|]. set (l := v0 :: l0). clearbody l.
    unfold slice_groups. destruct (flatnonzero (map isf (group l))) as [|k [|]] eqn:Ef; try discriminate.
    destruct (length (group l) <? 2)%nat eqn:Elen; [discriminate|]. intros _. apply Nat.ltb_ge in Elen.
    unfold flatnonzero in Ef. apply nonzero_from_single_inv in Ef as (m1 & m2 & Em & Hk & H1 & H2).
    apply map_eq_app in Em as (g1 & g2' & Eg & <- & Em2). apply map_eq_cons in Em2 as ([s c] & g2 & -> & Hs & <-).
    cbn [fst] in Hs. apply Z.eqb_eq in Hs. subst s.
    pose proof (group_members l) as Hm. pose proof (group_comps_ne l) as Hc.
    rewrite <- (group_flatten l). rewrite Eg in *. clear Eg.
    apply Forall_app in Hm as [Hm1 Hm2]. inversion Hm2 as [|? ? Hmc Hm2']; subst.
    apply Forall_app in Hc as [Hc1 Hc2]. inversion Hc2 as [|? ? Hcc Hc2']; subst. cbn [fst snd] in *.
    rewrite map_app, concat_app. cbn [map concat snd].
    exists (concat (map snd g1)), c, (concat (map snd g2)). split.
    - constructor; [reflexivity|exact Hcc|exact Hmc|].
      apply Forall_app. split; apply concat_nonfront; try assumption; apply mask_nonfront; assumption.
    - rewrite app_length in Elen. cbn [length] in Elen. intros E. apply app_eq_nil in E as [E1 E2].
      destruct g1 as [|[s1 c1] g1'].
      + destruct g2 as [|[s2 c2] g2']; [cbn in Elen; lia|]. inversion Hc2'; subst. cbn in E2.
        apply app_eq_nil in E2 as [E2 _]. cbn in *. congruence.
      + inversion Hc1; subst. cbn in E1. apply app_eq_nil in E1 as [E1 _]. cbn in *. congruence.
  Qed.
  Lemma core_raise l e : slice_core sg pt xs l = Raise e -> e = ValueError.
  Proof.
    unfold slice_core. destruct l as [|v0 l0]; [congruence|]. set (l := v0 :: l0). clearbody l.
    unfold slice_groups. destruct (flatnonzero (map isf (group l))) as [|k [|]] eqn:Ef; try congruence.
    destruct (length (group l) <? 2)%nat; [congruence|].
    assert (Hk : In k (flatnonzero (map isf (group l)))) by (rewrite Ef; left; reflexivity).
    apply flatnonzero_lt in Hk. rewrite map_length in Hk. apply nth_error_Some in Hk.
    destruct (nth_error (group l) k) as [[s c]|]; [discriminate|congruence].
  Qed.

  Theorem core_refines_spec l :
    (forall pre run post, open_split l pre run post -> pre ++ post <> [] ->
       slice_core sg pt xs l = Ok (spec_result pre run post)) /\
    ((forall pre run post, open_split l pre run post -> pre ++ post = []) ->
       slice_core sg pt xs l = Raise ValueError).
  Proof.
    split.
    - intros pre run post [-> Hne Hf Hnf] Hpp. apply core_split_ok; assumption.
    - intros H. destruct (slice_core sg pt xs l) as [r|e] eqn:E.
      + apply core_ok_split in E as (pre & run & post & Hs & Hpp). exfalso. apply Hpp. eapply H; eassumption.
      + apply core_raise in E. subst. reflexivity.
  Qed.
End Core.

(* ---- closed polylines ------------------------------------------------------------------------------ *)
Lemma skipn_len_app {A} (a b : list A) : skipn (length a) (a ++ b) = b.
Proof. induction a; [reflexivity|assumption]. Qed.
Lemma firstn_len_app {A} (a b : list A) : firstn (length a) (a ++ b) = a.
Proof. induction a as [|x a IH]; [reflexivity|]. cbn. f_equal. exact IH. Qed.
Lemma olast_seq a n : olast (seq a (S n)) = Some (a + n)%nat.
Proof.
  revert a. induction n as [|n IH]; intros a; [cbn; f_equal; lia|].
  change (seq a (S (S n))) with (a :: seq (S a) (S n)). rewrite olast_cons_ne by discriminate.
  rewrite IH. f_equal. lia.
Qed.

Lemma roll_neg {A} (l : list A) k : (k < length l)%nat -> roll l (- Z.of_nat k) = skipn k l ++ firstn k l.
Proof.
  intros Hk. unfold roll. destruct l as [|a l']; [cbn in Hk; lia|]. set (l := a :: l') in *.
  set (n := Z.of_nat (length l)).
  assert (Hn : (Z.of_nat k < n)%Z) by (unfold n; lia).
  assert (Hs : Z.to_nat ((n - (- Z.of_nat k) mod n) mod n) = k).
  { destruct k as [|k].
    - cbn [Z.of_nat Z.opp]. rewrite Z.mod_0_l by lia. rewrite Z.sub_0_r, Z.mod_same by lia. reflexivity.
    - replace ((- Z.of_nat (S k)) mod n)%Z with (n - Z.of_nat (S k))%Z.
      + replace (n - (n - Z.of_nat (S k)))%Z with (Z.of_nat (S k)) by lia.
        rewrite Z.mod_small by lia. apply Nat2Z.id.
      + apply (Z.mod_unique _ _ (-1)); lia. }
  rewrite Hs. reflexivity.
Qed.
Lemma roll_one {A} (l : list A) : (2 <= length l)%nat ->
  roll l 1 = skipn (length l - 1) l ++ firstn (length l - 1) l.
Proof.
  intros Hk. unfold roll. destruct l as [|a l']; [cbn in Hk; lia|]. set (l := a :: l') in *.
  set (n := Z.of_nat (length l)). assert (Hn : (2 <= n)%Z) by (unfold n; lia).
  rewrite (Z.mod_small 1 n) by lia. rewrite (Z.mod_small (n - 1) n) by lia.
  replace (Z.to_nat (n - 1)) with (length l - 1)%nat by (unfold n; lia). reflexivity.
Qed.
Lemma roll_rot {A} (l : list A) k : exists x y, l = x ++ y /\ roll l k = y ++ x.
Proof.
  unfold roll. destruct l as [|a l']; [exists [], []; auto|]. set (l := a :: l').
  set (s := Z.to_nat _). exists (firstn s l), (skipn s l). split; [symmetry; apply firstn_skipn|reflexivity].
Qed.

Section Closed.
  Context {A B : Type} (sg : A -> Z) (pt : A -> B) (xs : A -> A -> B).
  Local Notation front := (front sg).

  Local Notation closed_spec_result := (closed_spec_result sg pt xs).
  Local Notation cyclic_split := (cyclic_split sg).
  Local Notation spec_result := (spec_result sg pt xs).

  Lemma mask_front_true (P : Z -> bool) l : Forall (fun v => P (sg v) = true) l ->
    Forall (fun b => b = true) (map (fun v => P (sg v)) l).
  Proof. intros H. apply Forall_map_iff. exact H. Qed.
  Lemma mask_front_false (P : Z -> bool) l : Forall (fun v => P (sg v) = false) l ->
    Forall (fun b => b = false) (map (fun v => P (sg v)) l).
  Proof. intros H. apply Forall_map_iff. exact H. Qed.

  Lemma front_eqb v : front v -> (sg v =? 1)%Z = true.
  Proof. intros H. apply Z.eqb_eq. exact H. Qed.
  Lemma nonfront_eqb v : ~ front v -> (sg v =? 1)%Z = false.
  Proof. intros H. apply Z.eqb_neq. exact H. Qed.

  (* the run wraps around the last vertex (or ends there) *)
  Lemma closed_wrap run1 run2 rest :
    run1 <> [] -> rest <> [] -> Forall front (run1 ++ run2) -> Forall (fun v => ~ front v) rest ->
    slice_closed sg pt xs (run2 ++ rest ++ run1) = Ok (closed_spec_result (run1 ++ run2) rest).
  Proof.
    intros H1 Hr Hf Hnf. apply Forall_app in Hf as [Hf1 Hf2].
    destruct (ne_olast run1 H1) as (r1' & z & E1). destruct (ne_olast rest Hr) as (rest' & x & Er).
    unfold slice_closed, closed_roll. rewrite olast_map.
    assert (Hz : olast (run2 ++ rest ++ run1) = Some z).
    { rewrite olast_app3 by assumption. rewrite E1. apply olast_app_one. }
    rewrite Hz. cbn [option_map].
    assert (Fz : front z) by (rewrite E1 in Hf1; apply Forall_app in Hf1 as [_ Hf1]; inversion Hf1; assumption).
    rewrite (front_eqb _ Fz). rewrite map_map.
    unfold flatnonzero. rewrite !map_app, !nonzero_from_app.
    rewrite (nonzero_from_false (map _ run2)) by
      (apply (mask_front_false (fun s => negb (s =? 1)%Z)); eapply Forall_impl; [|exact Hf2]; intros a Ha; cbn; rewrite (front_eqb _ Ha); reflexivity).
    rewrite (nonzero_from_false (map _ run1)) by
      (apply (mask_front_false (fun s => negb (s =? 1)%Z)); eapply Forall_impl; [|exact Hf1]; intros a Ha; cbn; rewrite (front_eqb _ Ha); reflexivity).
    rewrite (nonzero_from_true (map _ rest)) by
      (apply (mask_front_true (fun s => negb (s =? 1)%Z)); eapply Forall_impl; [|exact Hnf]; intros a Ha; cbn; rewrite (nonfront_eqb _ Ha); reflexivity).
    rewrite !map_length, app_nil_r. cbn [app Nat.add].
    rewrite Er at 1. rewrite app_length. cbn [length]. rewrite Nat.add_1_r, olast_seq. cbn [rbind].
    rewrite roll_neg by (rewrite !app_length, Er, app_length; cbn; lia).
    replace (run2 ++ rest ++ run1) with ((run2 ++ rest') ++ ([x] ++ run1)) by (rewrite Er, <- !app_assoc; reflexivity).
    rewrite <- (app_length run2 rest'). rewrite skipn_len_app, firstn_len_app.
    replace (([x] ++ run1) ++ run2 ++ rest') with ([x] ++ (run1 ++ run2) ++ rest') by (rewrite <- !app_assoc; reflexivity).
    cbn [app firstn].
    replace (x :: ((run1 ++ run2) ++ rest') ++ [x]) with ([x] ++ (run1 ++ run2) ++ rest) by (rewrite Er, <- !app_assoc; reflexivity).
    assert (Fx : ~ front x) by (rewrite Er in Hnf; apply Forall_app in Hnf as [_ Hx]; inversion Hx; assumption).
    rewrite core_split_ok.
    - unfold M_polyline_slice_spec.spec_result, M_polyline_slice_spec.closed_spec_result. rewrite Er at 2. rewrite olast_app_one. reflexivity.
    - destruct run1; [congruence|discriminate].
    - apply Forall_app; split; assumption.
    - cbn [app]. constructor; assumption.
    - discriminate.
  Qed.

  (* the run lies inside the vertex list, the last vertex is not in front *)
  Lemma closed_inner rest1 run rest2 :
    run <> [] -> rest2 <> [] -> Forall front run -> Forall (fun v => ~ front v) (rest2 ++ rest1) ->
    slice_closed sg pt xs (rest1 ++ run ++ rest2) = Ok (closed_spec_result run (rest2 ++ rest1)).
  Proof.
    intros Hr H2 Hf Hnf. apply Forall_app in Hnf as [Hn2 Hn1].
    destruct (ne_olast rest2 H2) as (r2' & z & E2).
    unfold slice_closed, closed_roll. rewrite olast_map.
    assert (Hz : olast (rest1 ++ run ++ rest2) = Some z).
    { rewrite olast_app3 by assumption. rewrite E2. apply olast_app_one. }
    rewrite Hz. cbn [option_map].
    assert (Fz : ~ front z) by (rewrite E2 in Hn2; apply Forall_app in Hn2 as [_ Hx]; inversion Hx; assumption).
    rewrite (nonfront_eqb _ Fz). rewrite map_map.
    unfold flatnonzero. rewrite !map_app, !nonzero_from_app.
    rewrite (nonzero_from_false (map _ rest1)) by
      (apply (mask_front_false (fun s => (s =? 1)%Z)); eapply Forall_impl; [|exact Hn1]; intros a Ha; cbn; apply nonfront_eqb; exact Ha).
    rewrite (nonzero_from_false (map _ rest2)) by
      (apply (mask_front_false (fun s => (s =? 1)%Z)); eapply Forall_impl; [|exact Hn2]; intros a Ha; cbn; apply nonfront_eqb; exact Ha).
    rewrite (nonzero_from_true (map _ run)) by
      (apply (mask_front_true (fun s => (s =? 1)%Z)); eapply Forall_impl; [|exact Hf]; intros a Ha; cbn; apply front_eqb; exact Ha).
    rewrite !map_length, app_nil_r. cbn [app Nat.add].
    destruct run as [|f0 run']; [congruence|]. cbn [length seq rbind].
    assert (Hfr : Forall (fun v => ~ front v) (rest2 ++ rest1)) by (apply Forall_app; split; assumption).
    destruct rest1 as [|y0 r1] eqn:E1.
    - (* the first vertex is in front: roll by +1 *)
      cbn [length app Z.of_nat Z.opp Z.add]. rewrite app_nil_r.
      change (f0 :: run' ++ rest2) with ((f0 :: run') ++ rest2).
      rewrite roll_one by (rewrite E2, app_length, app_length; cbn; lia).
      replace ((f0 :: run') ++ rest2) with (((f0 :: run') ++ r2') ++ [z]) by (rewrite E2, <- app_assoc; reflexivity).
      replace (length (((f0 :: run') ++ r2') ++ [z]) - 1)%nat with (length ((f0 :: run') ++ r2'))
        by (rewrite (app_length _ [z]); cbn; lia).
      rewrite skipn_len_app, firstn_len_app. cbn [app firstn].
      replace (z :: f0 :: (run' ++ r2') ++ [z]) with ([z] ++ (f0 :: run') ++ rest2) by (rewrite E2; cbn; rewrite <- app_assoc; reflexivity).
      rewrite core_split_ok; try assumption; try discriminate.
      + unfold M_polyline_slice_spec.spec_result, M_polyline_slice_spec.closed_spec_result. rewrite E2 at 2. rewrite olast_app_one. reflexivity.
      + cbn [app]. constructor; assumption.
    - rewrite <- E1 in *. assert (Hne1 : rest1 <> []) by (rewrite E1; discriminate).
      destruct (ne_olast rest1 Hne1) as (r1' & x & Ex). clear E1.
      replace (- Z.of_nat (length rest1) + 1)%Z with (- Z.of_nat (length r1'))%Z
        by (rewrite Ex, app_length; cbn [length]; lia).
      rewrite roll_neg by (rewrite Ex, !app_length; cbn; lia).
      replace (rest1 ++ (f0 :: run') ++ rest2) with (r1' ++ ([x] ++ (f0 :: run') ++ rest2)) by (rewrite Ex, <- !app_assoc; reflexivity).
      rewrite skipn_len_app, firstn_len_app. cbn [app firstn].
      replace (x :: f0 :: ((run' ++ rest2) ++ r1') ++ [x]) with ([x] ++ (f0 :: run') ++ (rest2 ++ rest1))
        by (rewrite Ex; cbn; rewrite <- !app_assoc; reflexivity).
      assert (Fx : ~ front x) by (rewrite Ex in Hn1; apply Forall_app in Hn1 as [_ Hx]; inversion Hx; assumption).
      rewrite core_split_ok; try assumption; try discriminate.
      + unfold M_polyline_slice_spec.spec_result, M_polyline_slice_spec.closed_spec_result. rewrite (olast_app_ne rest2 rest1) by assumption.
        rewrite Ex at 2. rewrite olast_app_one. reflexivity.
      + cbn [app]. constructor; assumption.
  Qed.

  Lemma closed_split_ok l run rest : cyclic_split l run rest ->
    slice_closed sg pt xs l = Ok (closed_spec_result run rest).
  Proof.
    intros ((x & y & -> & E) & Hr & Hs & Hf & Hn).
    apply app_eq_app in E as (m & [[-> ->]|[-> ->]]).
    - destruct m as [|m0 m'].
      + cbn [app] in *. rewrite app_nil_r.
        pose proof (closed_wrap run [] x Hr Hs) as H. rewrite app_nil_r in H. cbn [app] in H.
        apply H; assumption.
      + apply closed_inner; try assumption. discriminate.
    - destruct y as [|y0 y'].
      + cbn [app] in *. rewrite app_nil_r.
        pose proof (closed_inner [] m rest Hr Hs) as H. rewrite app_nil_r in H. cbn [app] in H.
        apply H; assumption.
      + rewrite <- app_assoc. apply closed_wrap; try assumption. discriminate.
  Qed.

  Lemma rot_trans (a b c : list A) :
    (exists x y, a = x ++ y /\ b = y ++ x) -> (exists u v, b = u ++ v /\ c = v ++ u) ->
    exists p q, a = p ++ q /\ c = q ++ p.
  Proof.
    intros (x & y & -> & ->) (u & v & E & ->). apply app_eq_app in E as (m & [[-> ->]|[-> ->]]).
    - exists (x ++ u), m. rewrite <- !app_assoc. auto.
    - exists m, (v ++ y). rewrite <- !app_assoc. auto.
  Qed.

  Lemma closed_ok_split l r : slice_closed sg pt xs l = Ok r -> exists run rest, cyclic_split l run rest.
  Proof.
    unfold slice_closed. destruct (closed_roll sg l) as [k|e]; cbn [rbind]; [|discriminate].
    destruct (roll_rot l k) as (x0 & y0 & El & Ew). set (w := roll l k) in *. clearbody w.
    intros H. apply core_ok_split in H as (pre & run & post & [E Hne Hf Hnf] & Hpp).
    destruct w as [|h t].
    { cbn in E. destruct pre; [destruct run; [congruence|discriminate]|discriminate]. }
    cbn [firstn app] in E. apply Forall_app in Hnf as [Hpre Hpost].
    destruct (Z.eq_dec (sg h) 1) as [Fh|Fh].
    - exfalso. destruct pre as [|p pre'].
      + destruct post as [|q post']; [apply Hpp; reflexivity|].
        destruct (ne_olast (q :: post')) as (po & z & Ez); [discriminate|]. rewrite Ez in *.
        assert (E' : (h :: t) ++ [h] = ([] ++ run ++ po) ++ [z]) by (cbn [app]; rewrite E; cbn [app]; rewrite <- app_assoc; reflexivity).
        apply app_inj_tail in E' as [_ <-]. apply Forall_app in Hpost as [_ Hx]. inversion Hx; subst. contradiction.
      + cbn [app] in E. injection E as <- _. inversion Hpre; subst. contradiction.
    - destruct pre as [|p pre'].
      { exfalso. destruct run as [|f0 run']; [congruence|]. cbn [app] in E. injection E as <- _.
        inversion Hf; subst. contradiction. }
      destruct post as [|q post'].
      { exfalso. rewrite app_nil_r in E. destruct (ne_olast run Hne) as (ru & z & Ez). rewrite Ez in *.
        assert (E' : (h :: t) ++ [h] = ((p :: pre') ++ ru) ++ [z]) by (cbn [app]; rewrite E; cbn [app]; rewrite <- app_assoc; reflexivity).
        apply app_inj_tail in E' as [_ <-]. apply Forall_app in Hf as [_ Hx]. inversion Hx; subst. contradiction. }
      destruct (ne_olast (q :: post')) as (po & z & Ez); [discriminate|]. rewrite Ez in *.
      assert (E' : (h :: t) ++ [h] = ((p :: pre') ++ run ++ po) ++ [z])
        by (cbn [app]; rewrite E; cbn [app]; rewrite <- !app_assoc; reflexivity).
      apply app_inj_tail in E' as [Ew' <-].
      exists run, (po ++ p :: pre'). split; [|repeat split; try assumption].
      + destruct (rot_trans l (h :: t) (run ++ po ++ p :: pre')) as (p0 & q0 & Ea & Ec); [exists x0, y0; auto| |].
        * exists (p :: pre'), (run ++ po). split; [exact Ew'|]. rewrite <- app_assoc. reflexivity.
        * exists p0, q0. split; [exact Ea|symmetry; exact Ec].
      + destruct po; discriminate.
      + apply Forall_app in Hpost as [Hpo _]. apply Forall_app. split; assumption.
  Qed.
  Lemma closed_raise l e : slice_closed sg pt xs l = Raise e -> e = ValueError.
  Proof.
    unfold slice_closed, closed_roll.
    destruct (match olast (map sg l) with Some s => (s =? 1)%Z | None => false end).
    - destruct (olast _); cbn [rbind]; [apply core_raise|congruence].
    - destruct (flatnonzero _); cbn [rbind]; apply core_raise.
  Qed.

  Theorem closed_refines_spec l :
    (forall run rest, cyclic_split l run rest -> slice_closed sg pt xs l = Ok (closed_spec_result run rest)) /\
    ((forall run rest, ~ cyclic_split l run rest) -> slice_closed sg pt xs l = Raise ValueError).
  Proof.
    split; [intros run rest; apply closed_split_ok|].
    intros H. destruct (slice_closed sg pt xs l) as [r|e] eqn:E.
    - apply closed_ok_split in E as (run & rest & Hc). exfalso. exact (H _ _ Hc).
    - apply closed_raise in E. subst. reflexivity.
  Qed.

  (* closed polylines with at most one vertex go through the open code path: they are always refused *)
  Lemma short_refused l : (length l <= 1)%nat -> slice_core sg pt xs l = Raise ValueError.
  Proof.
    intros Hl. apply core_refines_spec. intros pre run post [-> Hne _ _].
    rewrite !app_length in Hl. destruct run; [congruence|]. cbn in Hl.
    destruct pre; [|cbn in Hl; lia]. destruct post; [reflexivity|cbn in Hl; lia].
  Qed.
  Lemma short_no_cyclic l run rest : (length l <= 1)%nat -> ~ cyclic_split l run rest.
  Proof.
    intros Hl ((x & y & -> & E) & Hr & Hs & _). assert (El : length (y ++ x) = length (run ++ rest)) by (rewrite E; reflexivity).
    rewrite !app_length in *. destruct run; [congruence|]. destruct rest; [congruence|]. cbn in El. lia.
  Qed.
End Closed.

(* ---- the crossing point ---------------------------------------------------------------------------- *)
Local Open Scope R_scope.

Lemma crossing_num pl a : vdot ROps (vsub ROps (pref pl) a) (pnormal pl) = - plane_sd ROps pl a.
Proof. destruct pl as [[rx ry rz] [nx ny nz]], a as [ax ay az]. punf. ring. Qed.
Lemma crossing_den pl a b : vdot ROps (vsub ROps b a) (pnormal pl) = plane_sd ROps pl b - plane_sd ROps pl a.
Proof. destruct pl as [[rx ry rz] [nx ny nz]], a as [ax ay az], b as [bx by_ bz]. punf. ring. Qed.

(* the same parameter as intersect_segment_with_plane computes from the reference point *)
Lemma crossing_t_is_xsect_t pl a b : plane_sd ROps pl a <> plane_sd ROps pl b ->
  crossing_t pl a b = xsect_t ROps a (vsub ROps b a) (pref pl) (pnormal pl).
Proof.
  intros H. unfold crossing_t, xsect_t. rops. rewrite (crossing_num pl a), crossing_den. field. lra.
Qed.

Lemma crossing_param_in_unit_interval pl a b : opposite pl a b -> 0 < crossing_t pl a b < 1.
Proof.
  intros H. unfold crossing_t. set (sa := plane_sd ROps pl a) in *. set (sb := plane_sd ROps pl b) in *.
  unfold opposite in H. fold sa sb in H. clearbody sa sb.
  assert (Hd : sa - sb <> 0) by lra.
  assert (E : (sa / (sa - sb)) * (sa - sb) = sa) by (field; exact Hd).
  set (t := sa / (sa - sb)) in *. clearbody t. destruct H as [[Ha Hb]|[Hb Ha]]; split; nra.
Qed.

Lemma crossing_on_plane pl a b : plane_sd ROps pl a <> plane_sd ROps pl b ->
  plane_sd ROps pl (crossing pl a b) = 0.
Proof.
  intros H.
  assert (E : plane_sd ROps pl (crossing pl a b) =
              plane_sd ROps pl a + crossing_t pl a b * (plane_sd ROps pl b - plane_sd ROps pl a)).
  { unfold crossing. generalize (crossing_t pl a b). intros t.
    destruct pl as [[rx ry rz] [nx ny nz]], a as [ax ay az], b as [bx by_ bz]. punf. ring. }
  rewrite E. unfold crossing_t. field. lra.
Qed.

Lemma isp_point start seg ref n :
  vdot ROps seg n <> 0 -> 0 <= xsect_t ROps start seg ref n <= 1 ->
  intersect_segment_with_plane ROps start seg ref n =
  XPt (vadd ROps start (vscale ROps (xsect_t ROps start seg ref n) seg)).
Proof.
  unfold intersect_segment_with_plane, xsect_t, n0, n1. rops.
  generalize (vdot ROps seg n) (vdot ROps (vsub ROps ref start) n). intros den num Hd Ht.
  destruct (Reqb_spec den 0) as [E0|_]; [contradiction|].
  destruct (Rltb_spec (num / den) 0); [lra|]. destruct (Rltb_spec 1 (num / den)); [lra|]. reflexivity.
Qed.
(* the row the slicing code computes from the two signed distances is the crossing point (never NaN) ... *)
Lemma crossing_row_is_point pl a b : opposite pl a b -> crossing_row ROps pl a b = XPt (crossing pl a b).
Proof.
  intros H. unfold crossing_row, crossing, crossing_t, n0. rops.
  destruct (Reqb_spec (plane_sd ROps pl a - plane_sd ROps pl b) 0) as [E|_]; [|reflexivity].
  exfalso. destruct H as [[? ?]|[? ?]]; lra.
Qed.
(* ... and it is the point intersect_segment_with_plane returns for the same segment *)
Lemma crossing_is_segment_plane_intersection pl a b : opposite pl a b ->
  intersect_segment_with_plane ROps a (vsub ROps b a) (pref pl) (pnormal pl) = XPt (crossing pl a b).
Proof.
  intros H. pose proof (crossing_param_in_unit_interval pl a b H) as Ht.
  assert (Hne : plane_sd ROps pl a <> plane_sd ROps pl b) by (destruct H as [[? ?]|[? ?]]; lra).
  unfold crossing. rewrite (crossing_t_is_xsect_t pl a b Hne) in *. apply isp_point; [|lra].
  rewrite crossing_den. lra.
Qed.

(* ---- the model on planes: rows of the result ------------------------------------------------------ *)
Section OnPlane.
  Context (pl : plane R).
  Local Notation sg := (plane_sign ROps pl).
  Local Notation xs := (crossing_row ROps pl).

  Definition good_row (r : xrow R) : Prop := exists v, r = XPt v /\ 0 <= plane_sd ROps pl v.

  Lemma nonfront_nonzero_behind v : ~ front sg v -> (sg v =? 0)%Z = false -> plane_sd ROps pl v < 0.
  Proof.
    intros Hf Hz. apply Z.eqb_neq in Hz. apply sign_neg. unfold M_polyline_slice_spec.front in Hf.
    destruct (sign_range pl v) as [E|[E|E]]; congruence.
  Qed.

  (* the extension rows, with the crossing written as a point *)
  Lemma enter_points before first :
    (forall v, before = Some v -> ~ front sg v) -> (forall f, first = Some f -> front sg f) ->
    enter sg XPt xs before first = map XPt (enter sg (fun v => v) (crossing pl) before first).
  Proof.
    intros Hb Hf. unfold M_polyline_slice_spec.enter. destruct before as [v|]; [|reflexivity]. destruct first as [f|]; [|reflexivity].
    destruct (sg v =? 0)%Z eqn:Ez; [reflexivity|]. cbn [map]. f_equal. apply crossing_row_is_point. left.
    split; [apply nonfront_nonzero_behind; auto|]. apply sign_pos. apply (Hf f eq_refl).
  Qed.
  Lemma leave_points lastv after :
    (forall l, lastv = Some l -> front sg l) -> (forall v, after = Some v -> ~ front sg v) ->
    leave sg XPt xs lastv after = map XPt (leave sg (fun v => v) (crossing pl) lastv after).
  Proof.
    intros Hl Ha. unfold M_polyline_slice_spec.leave. destruct lastv as [l|]; [|reflexivity]. destruct after as [v|]; [|reflexivity].
    destruct (sg v =? 0)%Z eqn:Ez; [reflexivity|]. cbn [map]. f_equal. apply crossing_row_is_point. right.
    split; [apply nonfront_nonzero_behind; auto|]. apply sign_pos. apply (Hl l eq_refl).
  Qed.

  Lemma olast_in {A} (l : list A) x : olast l = Some x -> In x l.
  Proof. intros H. apply olast_split in H as (l' & ->). apply in_or_app. right. left. reflexivity. Qed.
  Lemma hd_error_in {A} (l : list A) x : hd_error l = Some x -> In x l.
  Proof. destruct l; [discriminate|]. intros H. injection H as ->. left. reflexivity. Qed.

  Local Notation spec_points := (spec_points pl).
  Local Notation closed_spec_points := (closed_spec_points pl).

  Lemma spec_result_points pre run post :
    Forall (front sg) run -> Forall (fun v => ~ front sg v) (pre ++ post) ->
    spec_result sg XPt xs pre run post = map XPt (spec_points pre run post).
  Proof.
    intros Hf Hn. apply Forall_app in Hn as [Hp Hq]. rewrite Forall_forall in Hf, Hp, Hq.
    unfold M_polyline_slice_spec.spec_points, M_polyline_slice_spec.spec_result. rewrite map_id, !map_app.
    rewrite enter_points, leave_points; try reflexivity.
    - intros l Hl. apply Hf, olast_in, Hl.
    - intros v Hv. apply Hq, hd_error_in, Hv.
    - intros v Hv. apply Hp, olast_in, Hv.
    - intros f Hv. apply Hf, hd_error_in, Hv.
  Qed.
  Lemma closed_spec_result_points run rest :
    Forall (front sg) run -> Forall (fun v => ~ front sg v) rest ->
    closed_spec_result sg XPt xs run rest = map XPt (closed_spec_points run rest).
  Proof.
    intros Hf Hn. rewrite Forall_forall in Hf, Hn.
    unfold M_polyline_slice_spec.closed_spec_points, M_polyline_slice_spec.closed_spec_result. rewrite map_id, !map_app.
    rewrite enter_points, leave_points; try reflexivity.
    - intros l Hl. apply Hf, olast_in, Hl.
    - intros v Hv. apply Hn, hd_error_in, Hv.
    - intros v Hv. apply Hn, olast_in, Hv.
    - intros f Hv. apply Hf, hd_error_in, Hv.
  Qed.

  (* every point of the specified result is on or in front of the plane *)
  Lemma enter_not_behind before first :
    (forall v, before = Some v -> ~ front sg v) -> (forall f, first = Some f -> front sg f) ->
    Forall (fun v => 0 <= plane_sd ROps pl v) (enter sg (fun v => v) (crossing pl) before first).
  Proof.
    intros Hb Hf. unfold M_polyline_slice_spec.enter. destruct before as [v|]; [|constructor]. destruct first as [f|]; [|constructor].
    destruct (sg v =? 0)%Z eqn:Ez; (constructor; [|constructor]).
    - apply Z.eqb_eq, sign_zero in Ez. lra.
    - rewrite crossing_on_plane; [lra|]. pose proof (nonfront_nonzero_behind v (Hb v eq_refl) Ez).
      pose proof (proj1 (sign_pos pl f) (Hf f eq_refl)). lra.
  Qed.
  Lemma leave_not_behind lastv after :
    (forall l, lastv = Some l -> front sg l) -> (forall v, after = Some v -> ~ front sg v) ->
    Forall (fun v => 0 <= plane_sd ROps pl v) (leave sg (fun v => v) (crossing pl) lastv after).
  Proof.
    intros Hl Ha. unfold M_polyline_slice_spec.leave. destruct lastv as [l|]; [|constructor]. destruct after as [v|]; [|constructor].
    destruct (sg v =? 0)%Z eqn:Ez; (constructor; [|constructor]).
    - apply Z.eqb_eq, sign_zero in Ez. lra.
    - rewrite crossing_on_plane; [lra|]. pose proof (nonfront_nonzero_behind v (Ha v eq_refl) Ez).
      pose proof (proj1 (sign_pos pl l) (Hl l eq_refl)). lra.
  Qed.
  Lemma spec_points_not_behind pre run post :
    Forall (front sg) run -> Forall (fun v => ~ front sg v) (pre ++ post) ->
    Forall (fun v => 0 <= plane_sd ROps pl v) (spec_points pre run post).
  Proof.
    intros Hf Hn. apply Forall_app in Hn as [Hp Hq]. unfold M_polyline_slice_spec.spec_points, M_polyline_slice_spec.spec_result.
    rewrite map_id. apply Forall_app; split; [|apply Forall_app; split].
    - rewrite Forall_forall in Hf, Hp. apply enter_not_behind.
      + intros v Hv. apply Hp, olast_in, Hv.
      + intros f Hv. apply Hf, hd_error_in, Hv.
    - eapply Forall_impl; [|exact Hf]. intros v Hv. apply sign_pos in Hv. lra.
    - rewrite Forall_forall in Hf, Hq. apply leave_not_behind.
      + intros l Hl. apply Hf, olast_in, Hl.
      + intros v Hv. apply Hq, hd_error_in, Hv.
  Qed.

  (* whatever the model returns is the specified result of some split of the list it was run on *)
  Lemma core_ok_is_spec l rows : slice_core sg XPt xs l = Ok rows ->
    exists pre run post, open_split sg l pre run post /\ pre ++ post <> [] /\
      rows = map XPt (spec_points pre run post).
  Proof.
    intros H. destruct (core_ok_split _ _ _ _ _ H) as (pre & run & post & Hs & Hpp).
    exists pre, run, post. split; [exact Hs|split; [exact Hpp|]].
    destruct Hs as [-> Hne Hf Hn]. rewrite core_split_ok in H by assumption. injection H as <-.
    apply spec_result_points; assumption.
  Qed.
  Lemma core_rows_good l rows : slice_core sg XPt xs l = Ok rows -> Forall good_row rows.
  Proof.
    intros H. apply core_ok_is_spec in H as (pre & run & post & [-> Hne Hf Hn] & Hpp & ->).
    apply Forall_map_iff. eapply Forall_impl; [|apply spec_points_not_behind; eassumption].
    intros v Hv. exists v. auto.
  Qed.
End OnPlane.

(* ---- statements about Polyline.sliced_by_plane ----------------------------------------------------- *)

Lemma in_front_iff pl v : in_front pl v <-> 0 < plane_sd ROps pl v.
Proof. apply sign_pos. Qed.

Theorem slice_open_refines_spec pl vs :
  (forall pre run post, open_split (plane_sign ROps pl) vs pre run post -> pre ++ post <> [] ->
     slice_open ROps pl vs = Ok (map XPt (spec_points pl pre run post))) /\
  ((forall pre run post, open_split (plane_sign ROps pl) vs pre run post -> pre ++ post = []) ->
     slice_open ROps pl vs = Raise ValueError).
Proof.
  unfold slice_open. split.
  - intros pre run post Hs Hpp. rewrite (proj1 (core_refines_spec _ _ _ vs) pre run post Hs Hpp).
    destruct Hs as [_ _ Hf Hn]. f_equal. apply spec_result_points; assumption.
  - apply core_refines_spec.
Qed.

(* an open polyline (or a closed one with at most one vertex) *)
Theorem sliced_open_refines_spec pl vs closed : closed = false \/ (length vs <= 1)%nat ->
  (forall pre run post, open_split (plane_sign ROps pl) vs pre run post -> pre ++ post <> [] ->
     sliced_by_plane ROps pl (MkPolyline vs closed) = Ok (map XPt (spec_points pl pre run post))) /\
  ((forall pre run post, open_split (plane_sign ROps pl) vs pre run post -> pre ++ post = []) ->
     sliced_by_plane ROps pl (MkPolyline vs closed) = Raise ValueError).
Proof.
  intros Hc. unfold sliced_by_plane, slice_any. cbn [pclosed pv].
  assert (E : closed && (1 <? length vs)%nat = false).
  { destruct Hc as [->|Hl]; [reflexivity|]. apply andb_false_iff. right. apply Nat.ltb_ge. exact Hl. }
  rewrite E. apply slice_open_refines_spec.
Qed.

Theorem sliced_closed_refines_spec pl vs :
  (forall run rest, cyclic_split (plane_sign ROps pl) vs run rest ->
     sliced_by_plane ROps pl (MkPolyline vs true) = Ok (map XPt (closed_spec_points pl run rest))) /\
  ((forall run rest, ~ cyclic_split (plane_sign ROps pl) vs run rest) ->
     sliced_by_plane ROps pl (MkPolyline vs true) = Raise ValueError).
Proof.
  unfold sliced_by_plane, slice_any. cbn [pclosed pv andb].
  destruct (1 <? length vs)%nat eqn:El.
  - split.
    + intros run rest Hc. rewrite (proj1 (closed_refines_spec _ _ _ vs) run rest Hc).
      destruct Hc as (_ & _ & _ & Hf & Hn). f_equal. apply closed_spec_result_points; assumption.
    + apply closed_refines_spec.
  - apply Nat.ltb_ge in El. split.
    + intros run rest Hc. exfalso. exact (short_no_cyclic _ _ _ _ El Hc).
    + intros _. apply short_refused. exact El.
Qed.

(* every returned row is a finite point on or in front of the plane *)
Theorem result_finite_not_behind pl p rows :
  sliced_by_plane ROps pl p = Ok rows -> Forall (good_row pl) rows.
Proof.
  destruct p as [vs closed]. unfold sliced_by_plane, slice_any. cbn [pclosed pv].
  destruct (closed && (1 <? length vs)%nat).
  - unfold slice_closed. destruct (closed_roll _ _) as [k|e]; cbn [rbind]; [|discriminate]. apply core_rows_good.
  - apply core_rows_good.
Qed.

(* the vertices between the two extension points are the input's own vertices, in path order *)
Theorem interior_vertices_identical pl p rows :
  sliced_by_plane ROps pl p = Ok rows ->
  exists a run b, rows = map XPt (a ++ run ++ b) /\ (length a <= 1)%nat /\ (length b <= 1)%nat /\
    run <> [] /\ Forall (in_front pl) run /\
    exists x y pre post, pv p = x ++ y /\ y ++ x = pre ++ run ++ post.
Proof.
  destruct p as [vs closed]. unfold sliced_by_plane, slice_any. cbn [pclosed pv].
  assert (Hlen : forall (before first : option (vec3 R)),
             (length (enter (plane_sign ROps pl) (fun v => v) (crossing pl) before first) <= 1)%nat /\
             (length (leave (plane_sign ROps pl) (fun v => v) (crossing pl) before first) <= 1)%nat).
  { intros [v|] [f|]; unfold M_polyline_slice_spec.enter, M_polyline_slice_spec.leave; cbn; try lia. destruct (_ =? 0)%Z, (_ =? 0)%Z; cbn; lia. }
  destruct (closed && (1 <? length vs)%nat).
  - intros H. pose proof H as H'. apply closed_ok_split in H' as (run & rest & Hc).
    rewrite (proj1 (closed_refines_spec _ _ _ vs) run rest Hc) in H. injection H as <-.
    destruct Hc as ((x & y & El & Er) & Hr & Hs & Hf & Hn).
    rewrite closed_spec_result_points by assumption. unfold M_polyline_slice_spec.closed_spec_points, M_polyline_slice_spec.closed_spec_result. rewrite map_id.
    eexists _, run, _. split; [reflexivity|]. repeat split; try apply Hlen; try assumption.
    exists x, y, [], rest. split; [exact El|exact Er].
  - intros H. apply core_ok_is_spec in H as (pre & run & post & [El Hne Hf Hn] & Hpp & ->).
    unfold M_polyline_slice_spec.spec_points, M_polyline_slice_spec.spec_result. rewrite map_id.
    eexists _, run, _. split; [reflexivity|]. repeat split; try apply Hlen; try assumption.
    exists [], vs, pre, post. split; [reflexivity|]. rewrite app_nil_r. exact El.
Qed.

Theorem only_value_error pl p e : sliced_by_plane ROps pl p = Raise e -> e = ValueError.
Proof.
  destruct p as [vs closed]. unfold sliced_by_plane, slice_any. cbn [pclosed pv].
  destruct (closed && (1 <? length vs)%nat); [apply closed_raise|apply core_raise].
Qed.

(* the returned polyline is open, and its rows are those of sliced_by_plane; exceptions are passed on unchanged *)
Theorem result_is_open pl p :
  (forall r, sliced_polyline ROps pl p = Ok r -> s_closed r = false /\ sliced_by_plane ROps pl p = Ok (s_rows r)) /\
  (forall rows, sliced_by_plane ROps pl p = Ok rows -> sliced_polyline ROps pl p = Ok (MkSliced rows false)) /\
  (forall e, sliced_polyline ROps pl p = Raise e <-> sliced_by_plane ROps pl p = Raise e).
Proof.
  unfold sliced_polyline. destruct (sliced_by_plane ROps pl p) as [rows|e0]; cbn [rbind].
  - split; [|split].
    + intros r H. injection H as <-. auto.
    + intros rows' H. injection H as <-. reflexivity.
    + intros e. split; discriminate.
  - split; [|split]; try discriminate. intros e. split; intros H; injection H as <-; reflexivity.
Qed.

(* the specification vocabulary, unfolded *)
Lemma spec_vocabulary pl (vs pre run post rest : list (vec3 R)) a b :
  (open_split (plane_sign ROps pl) vs pre run post <->
     vs = pre ++ run ++ post /\ run <> [] /\ Forall (in_front pl) run /\ Forall (fun v => ~ in_front pl v) (pre ++ post)) /\
  (cyclic_split (plane_sign ROps pl) vs run rest <->
     (exists x y, vs = x ++ y /\ y ++ x = run ++ rest) /\ run <> [] /\ rest <> [] /\
     Forall (in_front pl) run /\ Forall (fun v => ~ in_front pl v) rest) /\
  spec_points pl pre run post =
    enter (plane_sign ROps pl) (fun v => v) (crossing pl) (olast pre) (hd_error run) ++ run ++
    leave (plane_sign ROps pl) (fun v => v) (crossing pl) (olast run) (hd_error post) /\
  closed_spec_points pl run rest =
    enter (plane_sign ROps pl) (fun v => v) (crossing pl) (olast rest) (hd_error run) ++ run ++
    leave (plane_sign ROps pl) (fun v => v) (crossing pl) (olast run) (hd_error rest) /\
  crossing pl a b =
    vadd ROps a (vscale ROps (plane_sd ROps pl a / (plane_sd ROps pl a - plane_sd ROps pl b)) (vsub ROps b a)) /\
  (opposite pl a b <-> (plane_sd ROps pl a < 0 /\ 0 < plane_sd ROps pl b) \/ (plane_sd ROps pl b < 0 /\ 0 < plane_sd ROps pl a)).
Proof.
  split; [|split; [|split; [|split; [|split]]]].
  - split; [intros [H1 H2 H3 H4]; auto|intros (H1 & H2 & H3 & H4); constructor; assumption].
  - reflexivity.
  - unfold spec_points, spec_result. rewrite map_id. reflexivity.
  - unfold closed_spec_points, closed_spec_result. rewrite map_id. reflexivity.
  - reflexivity.
  - reflexivity.
Qed.
