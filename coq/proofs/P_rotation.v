(* Real-number lemmas for M_rotation.v (C11): euler, rotation_from_up_and_look. *)
From Coq Require Import ZArith Reals Lra Psatz List Bool Lia Nsatz.
From PW Require Import Num NumR Vec Mat NpList Result.
From PW.model Require Import M_rotation.
From PW.proofs Require Import P_vec P_mat P_nplist P_affine.
Import ListNotations.
Local Open Scope R_scope.


Lemma m3transpose_mul a b : m3transpose (m3mul ROps a b) = m3mul ROps (m3transpose b) (m3transpose a).
Proof. dm3 a; dm3 b; mat3_eq; ring. Qed.
Lemma m3det_mul a b : m3det ROps (m3mul ROps a b) = m3det ROps a * m3det ROps b.
Proof. dm3 a; dm3 b; munf; ring. Qed.
Lemma m3mul_I3_l a : m3mul ROps (I3 ROps) a = a.
Proof. dm3 a; mat3_eq; ring. Qed.
Lemma m3mul_I3_r a : m3mul ROps a (I3 ROps) = a.
Proof. dm3 a; mat3_eq; ring. Qed.
Lemma m3apply_mul a b v : m3apply ROps (m3mul ROps a b) v = m3apply ROps a (m3apply ROps b v).
Proof. dm3 a; dm3 b; dv v. apply V3_inj; munf; ring. Qed.
Lemma m3apply_I3 v : m3apply ROps (I3 ROps) v = v.
Proof. dv v. apply V3_inj; munf; ring. Qed.

Lemma proper3_I3 : proper3 (I3 ROps).
Proof. split; [unfold orthogonal3; mat3_eq; ring | munf; ring]. Qed.
Lemma proper3_mul a b : proper3 a -> proper3 b -> proper3 (m3mul ROps a b).
Proof.
  intros [Oa Da] [Ob Db]. split.
  - unfold orthogonal3 in *. rewrite m3transpose_mul, m3mul_assoc, <- (m3mul_assoc b), Ob, m3mul_I3_l. exact Oa.
  - rewrite m3det_mul, Da, Db. ring.
Qed.

Lemma cs1 t : cos t * cos t + sin t * sin t = 1.
Proof. pose proof (sin2_cos2 t) as H. unfold Rsqr in H. lra. Qed.

(* ---------------- euler ---------------- *)
Lemma axis_rotation_proper a t : proper3 (axis_rotation ROps a t).
Proof.
  pose proof (cs1 t) as H. unfold axis_rotation; rops. set (c := cos t) in *. set (s := sin t) in *. clearbody c s.
  destruct a; (split; [unfold orthogonal3; mat3_eq; first [ring | lra | nsatz] | munf; first [ring | lra | nsatz]]).
Qed.
Lemma euler_step_mul r ta : euler_step ROps r ta = m3mul ROps (axis_rotation ROps (snd ta) (fst ta)) r.
Proof. destruct ta as [t a]. unfold euler_step. cbn [fst snd]. destruct a; try reflexivity. cbn [axis_rotation]. symmetry; apply m3mul_I3_l. Qed.
Lemma euler_step_proper r ta : proper3 r -> proper3 (euler_step ROps r ta).
Proof. intros H. rewrite euler_step_mul. apply proper3_mul; [apply axis_rotation_proper | exact H]. Qed.
Lemma fold_euler_proper l : forall r, proper3 r -> proper3 (fold_left (euler_step ROps) l r).
Proof. induction l as [|ta l IH]; intros r H; cbn [fold_left]; [exact H | apply IH, euler_step_proper, H]. Qed.
Lemma euler_rad_proper angles order : proper3 (euler_rad ROps angles order).
Proof. apply fold_euler_proper, proper3_I3. Qed.
Lemma euler_proper deg angles order : proper3 (euler ROps deg angles order).
Proof. apply euler_rad_proper. Qed.

(* the matrix is the ordered product: each listed rotation multiplies from the left *)
Lemma euler_rad_ordered_product angles order :
  euler_rad ROps angles order =
  fold_left (fun r ta => m3mul ROps (axis_rotation ROps (snd ta) (fst ta)) r) (zip angles order) (I3 ROps).
Proof.
  unfold euler_rad. generalize (I3 ROps). induction (zip angles order) as [|ta l IH]; intros r; cbn [fold_left]; [reflexivity|].
  rewrite euler_step_mul. apply IH.
Qed.
(* hence applying euler(...) to a vector = applying the listed axis rotations one after another, first listed first *)
Lemma fold_euler_apply l : forall r v,
  m3apply ROps (fold_left (euler_step ROps) l r) v =
  fold_left (fun w ta => m3apply ROps (axis_rotation ROps (snd ta) (fst ta)) w) l (m3apply ROps r v).
Proof.
  induction l as [|ta l IH]; intros r v; cbn [fold_left]; [reflexivity|].
  rewrite IH, euler_step_mul, m3apply_mul. reflexivity.
Qed.
Lemma euler_rad_sequential angles order v :
  m3apply ROps (euler_rad ROps angles order) v =
  fold_left (fun w ta => m3apply ROps (axis_rotation ROps (snd ta) (fst ta)) w) (zip angles order) v.
Proof. unfold euler_rad. rewrite fold_euler_apply, m3apply_I3. reflexivity. Qed.
(* what one listed rotation does (counter-clockwise about the named axis) *)
Lemma axis_rotation_acts t x y z :
  m3apply ROps (axis_rotation ROps AX t) (V3 x y z) = V3 x (cos t * y - sin t * z) (sin t * y + cos t * z) /\
  m3apply ROps (axis_rotation ROps AY t) (V3 x y z) = V3 (cos t * x + sin t * z) y (- sin t * x + cos t * z) /\
  m3apply ROps (axis_rotation ROps AZ t) (V3 x y z) = V3 (cos t * x - sin t * y) (sin t * x + cos t * y) z /\
  m3apply ROps (axis_rotation ROps AOther t) (V3 x y z) = V3 x y z.
Proof. unfold axis_rotation; rops. repeat split; apply V3_inj; munf; ring. Qed.

Lemma npi_is_PI : npi ROps = PI.
Proof.
  unfold npi; rops. change (IZR (-1)) with (- (1)). rewrite acos_opp, acos_1. ring.
Qed.
Lemma radians_spec a : radians ROps a = a * PI / 180.
Proof. unfold radians. rewrite npi_is_PI. rops. reflexivity. Qed.
Lemma euler_deg_rad_agree angles order :
  euler ROps true angles order = euler ROps false (map (fun a => a * PI / 180) angles) order.
Proof.
  unfold euler. f_equal. apply map_ext. intros a. apply radians_spec.
Qed.

(* np.radians multiplies by the binary64 value of pi, the model by PI: whatever constant k stands in for PI, the angle
   handed to cos/sin differs from the exact one by exactly |a| |k - PI| / 180 *)
Lemma deg_angle_gap a k : Rabs (a * k / 180 - a * PI / 180) = Rabs a * Rabs (k - PI) / 180.
Proof.
  replace (a * k / 180 - a * PI / 180) with (a * (k - PI) * / 180) by (unfold Rdiv; ring).
  rewrite !Rabs_mult. rewrite (Rabs_right (/ 180)) by lra. unfold Rdiv. ring.
Qed.

(* ---------------- rotation_from_up_and_look ---------------- *)
Lemma up_look_rejects_zero_up look : rotation_from_up_and_look ROps (V3 0 0 0) look = Raise ValueError.
Proof.
  unfold rotation_from_up_and_look, n0; rops. rewrite vnorm_zero. rewrite (proj2 (Reqb_true 0 0) eq_refl). reflexivity.
Qed.
Lemma up_look_rejects_zero_look up : rotation_from_up_and_look ROps up (V3 0 0 0) = Raise ValueError.
Proof.
  unfold rotation_from_up_and_look, n0; rops. destruct (Reqb (vnorm ROps up) 0); [reflexivity|].
  rewrite vnorm_zero. rewrite (proj2 (Reqb_true 0 0) eq_refl). reflexivity.
Qed.

(* an orthonormal pair (y, z) completed by x = y cross z gives a proper rotation with rows x, y, z *)
Lemma frame_proper y z : vnorm2 ROps y = 1 -> vnorm2 ROps z = 1 -> vdot ROps y z = 0 ->
  proper3 (m3rows (vcross ROps y z) y z).
Proof.
  dv y; dv z. intros Hy Hz Hd. vunf_in Hy. vunf_in Hz. vunf_in Hd.
  split; [unfold orthogonal3; mat3_eq; nsatz | munf; nsatz].
Qed.
Lemma frame_apply y z n d m : vnorm2 ROps y = 1 -> vnorm2 ROps z = 1 -> vdot ROps y z = 0 ->
  m3apply ROps (m3rows (vcross ROps y z) y z) (vscale ROps n y) = V3 0 n 0 /\
  m3apply ROps (m3rows (vcross ROps y z) y z) (vadd ROps (vscale ROps m z) (vscale ROps d y)) = V3 0 d m.
Proof.
  dv y; dv z. intros Hy Hz Hd. vunf_in Hy. vunf_in Hz. vunf_in Hd.
  split; apply V3_inj; munf; nsatz.
Qed.
(* Gram-Schmidt step *)
Lemma reject_orth y look : vnorm2 ROps y = 1 ->
  vdot ROps (vsub ROps look (vscale ROps (vdot ROps look y) y)) y = 0.
Proof. dv y; dv look. intros Hy. vunf_in Hy. vunf. nsatz. Qed.
Lemma reject_zero_collinear y look d : vsub ROps look (vscale ROps d y) = V3 0 0 0 ->
  vcross ROps y look = V3 0 0 0.
Proof.
  dv y; dv look. vunf. intros H. injection H as H1 H2 H3. apply V3_ext; nsatz.
Qed.
Lemma vcross_scale_l n a b : vcross ROps (vscale ROps n a) b = vscale ROps n (vcross ROps a b).
Proof. vec_eq; ring. Qed.
Lemma vdivs_is_normalize a : vdivs ROps a (vnorm ROps a) = vnormalize ROps a.
Proof. reflexivity. Qed.
Lemma vdot_vdivs_l a n b : n <> 0 -> vdot ROps (vdivs ROps a n) b = vdot ROps a b / n.
Proof. intros H. vunf. field. exact H. Qed.


(* the Gram-Schmidt frame the code builds *)
Definition gs_y (up : vec3 R) : vec3 R := vnormalize ROps up.
Definition gs_z (up look : vec3 R) : vec3 R :=
  vsub ROps look (vscale ROps (vdot ROps look (gs_y up)) (gs_y up)).
Definition gs_r (up look : vec3 R) : mat3 R :=
  m3rows (vcross ROps (gs_y up) (vnormalize ROps (gs_z up look))) (gs_y up) (vnormalize ROps (gs_z up look)).

Lemma up_look_unfold up look : rotation_from_up_and_look ROps up look =
  if Reqb (vnorm ROps up) 0 then Raise ValueError
  else if Reqb (vnorm ROps look) 0 then Raise ValueError
  else if Reqb (vnorm ROps (gs_z up look)) 0 then Raise ValueError
  else Ok (gs_r up look).
Proof. reflexivity. Qed.

Lemma gs_core up look : up <> V3 0 0 0 -> gs_z up look <> V3 0 0 0 ->
  proper3 (gs_r up look) /\
  m3apply ROps (gs_r up look) up = V3 0 (vnorm ROps up) 0 /\
  m3apply ROps (gs_r up look) look = V3 0 (vdot ROps look (gs_y up)) (vnorm ROps (gs_z up look)) /\
  0 < vnorm ROps (gs_z up look).
Proof.
  intros Hup Hz. unfold gs_r. 
  pose proof (vnormalize_unit up Hup) as Hy. pose proof (vnormalize_scale up Hup) as Hys.
  pose proof (reject_orth (gs_y up) look Hy) as Hzy. fold (gs_z up look) in Hzy.
  assert (Hlk : look = vadd ROps (gs_z up look) (vscale ROps (vdot ROps look (gs_y up)) (gs_y up)))
    by (unfold gs_z; symmetry; apply vsub_add).
  fold (gs_y up) in Hy, Hys.
  set (y := gs_y up) in *. set (d := vdot ROps look y) in *. set (n := vnorm ROps up) in *.
  set (z := gs_z up look) in *. clearbody z y n d.
  pose proof (vnorm_pos z Hz) as Hm.
  pose proof (vnormalize_unit z Hz) as Hz1. pose proof (vnormalize_scale z Hz) as Hzs.
  assert (Hyz : vdot ROps y (vnormalize ROps z) = 0).
  { rewrite vdot_comm. unfold vnormalize. rewrite vdot_vdivs_l by lra. rewrite Hzy. field. lra. }
  set (z' := vnormalize ROps z) in *. set (m := vnorm ROps z) in *. clearbody z' m.
  destruct (frame_apply y z' n d m Hy Hz1 Hyz) as [A1 A2].
  split; [apply frame_proper; assumption|].
  split; [rewrite <- Hys; exact A1|]. split; [|exact Hm].
  rewrite Hlk, <- Hzs. exact A2.
Qed.

(* collinear inputs are exactly those whose Gram-Schmidt remainder vanishes (up non-zero) *)
Lemma gs_z_zero_collinear up look : up <> V3 0 0 0 -> gs_z up look = V3 0 0 0 -> collinear up look.
Proof.
  intros Hup E. unfold collinear. rewrite <- (vnormalize_scale up Hup), vcross_scale_l.
  unfold gs_z, gs_y in E. rewrite (reject_zero_collinear _ look _ E). vec_eq; ring.
Qed.
Lemma collinear_gs_z_zero up look : up <> V3 0 0 0 -> collinear up look -> gs_z up look = V3 0 0 0.
Proof.
  intros Hup Hc. pose proof (vnorm_pos up Hup) as Hn. pose proof (vnorm_sq up) as Hs.
  unfold gs_z, gs_y, vnormalize, collinear in *. set (n := vnorm ROps up) in *. clearbody n.
  dv up; dv look. vunf_in Hs. vunf_in Hc. injection Hc as C1 C2 C3. vunf.
  apply V3_ext.
  - replace (x2 - (x2 * (x / n) + x3 * (x0 / n) + x4 * (x1 / n)) * (x / n))
      with (((x * x + x0 * x0 + x1 * x1) * x2 - (x2 * x + x3 * x0 + x4 * x1) * x) / (n * n))
      by (rewrite <- Hs; field; lra).
    replace ((x * x + x0 * x0 + x1 * x1) * x2 - (x2 * x + x3 * x0 + x4 * x1) * x) with 0 by (clear - C1 C2 C3; nsatz).
    field; lra.
  - replace (x3 - (x2 * (x / n) + x3 * (x0 / n) + x4 * (x1 / n)) * (x0 / n))
      with (((x * x + x0 * x0 + x1 * x1) * x3 - (x2 * x + x3 * x0 + x4 * x1) * x0) / (n * n))
      by (rewrite <- Hs; field; lra).
    replace ((x * x + x0 * x0 + x1 * x1) * x3 - (x2 * x + x3 * x0 + x4 * x1) * x0) with 0 by (clear - C1 C2 C3; nsatz).
    field; lra.
  - replace (x4 - (x2 * (x / n) + x3 * (x0 / n) + x4 * (x1 / n)) * (x1 / n))
      with (((x * x + x0 * x0 + x1 * x1) * x4 - (x2 * x + x3 * x0 + x4 * x1) * x1) / (n * n))
      by (rewrite <- Hs; field; lra).
    replace ((x * x + x0 * x0 + x1 * x1) * x4 - (x2 * x + x3 * x0 + x4 * x1) * x1) with 0 by (clear - C1 C2 C3; nsatz).
    field; lra.
Qed.

Lemma up_look_spec up look : up <> V3 0 0 0 -> look <> V3 0 0 0 -> ~ collinear up look ->
  exists r b c, rotation_from_up_and_look ROps up look = Ok r /\ proper3 r /\
    m3apply ROps r up = V3 0 (vnorm ROps up) 0 /\
    m3apply ROps r look = V3 0 b c /\ 0 < c.
Proof.
  intros Hup Hlook Hcol.
  assert (Hz : gs_z up look <> V3 0 0 0) by (intros E; apply Hcol, gs_z_zero_collinear; assumption).
  destruct (gs_core up look Hup Hz) as (P & A1 & A2 & Hm).
  exists (gs_r up look), (vdot ROps look (gs_y up)), (vnorm ROps (gs_z up look)).
  rewrite up_look_unfold.
  rewrite (proj2 (Reqb_false (vnorm ROps up) 0)) by (pose proof (vnorm_pos up Hup); lra).
  rewrite (proj2 (Reqb_false (vnorm ROps look) 0)) by (pose proof (vnorm_pos look Hlook); lra).
  rewrite (proj2 (Reqb_false (vnorm ROps (gs_z up look)) 0)) by lra.
  split; [reflexivity|]. split; [exact P|]. split; [exact A1|]. split; [exact A2 | exact Hm].
Qed.
(* whenever the function returns, what it returns is a proper rotation *)
Lemma up_look_ok_proper up look r : rotation_from_up_and_look ROps up look = Ok r -> proper3 r.
Proof.
  rewrite up_look_unfold.
  destruct (Reqb_spec (vnorm ROps up) 0) as [E|E]; [discriminate|].
  destruct (Reqb_spec (vnorm ROps look) 0) as [E1|E1]; [discriminate|].
  destruct (Reqb_spec (vnorm ROps (gs_z up look)) 0) as [E2|E2]; [discriminate|].
  intros H. injection H as <-.
  apply gs_core.
  - intros Hz. apply E, vnorm_zero_iff, Hz.
  - intros Hz. apply E2, vnorm_zero_iff, Hz.
Qed.
(* in exact arithmetic, collinear (non-zero) inputs are refused as well *)
Lemma up_look_rejects_collinear up look : up <> V3 0 0 0 -> collinear up look ->
  rotation_from_up_and_look ROps up look = Raise ValueError.
Proof.
  intros Hup Hc. rewrite up_look_unfold. rewrite (collinear_gs_z_zero up look Hup Hc), vnorm_zero.
  destruct (Reqb (vnorm ROps up) 0); [reflexivity|]. destruct (Reqb (vnorm ROps look) 0); [reflexivity|].
  rewrite (proj2 (Reqb_true 0 0) eq_refl). reflexivity.
Qed.

(* ---------------- scale invariance: only the directions of up and look matter ---------------- *)
(* (the repaired code first rescales each vector by a power of two; this is why that changes nothing in exact arithmetic) *)
Lemma vnorm_scale s v : 0 <= s -> vnorm ROps (vscale ROps s v) = s * vnorm ROps v.
Proof.
  intros Hs. dv v. unfold vnorm, vnorm2. vunf.
  replace (s * x * (s * x) + s * x0 * (s * x0) + s * x1 * (s * x1)) with ((s * s) * (x * x + x0 * x0 + x1 * x1)) by ring.
  rewrite sqrt_mult by nra. rewrite sqrt_square by exact Hs. reflexivity.
Qed.
Lemma Reqb_vnorm_scale s v : 0 < s -> Reqb (vnorm ROps (vscale ROps s v)) 0 = Reqb (vnorm ROps v) 0.
Proof.
  intros Hs. rewrite vnorm_scale by lra.
  destruct (Reqb_spec (s * vnorm ROps v) 0) as [E|E]; destruct (Reqb_spec (vnorm ROps v) 0) as [E'|E']; try reflexivity.
  - exfalso. apply E'. nra.
  - exfalso. apply E. rewrite E'. ring.
Qed.
Lemma vnormalize_scale_inv s v : 0 < s -> vnorm ROps v <> 0 -> vnormalize ROps (vscale ROps s v) = vnormalize ROps v.
Proof.
  intros Hs Hn. unfold vnormalize. rewrite vnorm_scale by lra. set (n := vnorm ROps v) in *. clearbody n.
  dv v. vec_eq; field; split; lra.
Qed.
Lemma up_look_scale_invariant s t up look : 0 < s -> 0 < t ->
  rotation_from_up_and_look ROps (vscale ROps s up) (vscale ROps t look) = rotation_from_up_and_look ROps up look.
Proof.
  intros Hs Ht. rewrite !up_look_unfold, !Reqb_vnorm_scale by assumption.
  destruct (Reqb_spec (vnorm ROps up) 0) as [E|E]; [reflexivity|].
  destruct (Reqb_spec (vnorm ROps look) 0) as [E1|E1]; [reflexivity|].
  assert (Ey : gs_y (vscale ROps s up) = gs_y up) by (apply vnormalize_scale_inv; assumption).
  assert (Ez : gs_z (vscale ROps s up) (vscale ROps t look) = vscale ROps t (gs_z up look)).
  { unfold gs_z. rewrite Ey. generalize (gs_y up); intros y. dv y; dv look. vec_eq; ring. }
  rewrite Ez, Reqb_vnorm_scale by assumption.
  destruct (Reqb_spec (vnorm ROps (gs_z up look)) 0) as [E2|E2]; [reflexivity|].
  unfold gs_r. rewrite Ey, Ez, vnormalize_scale_inv by assumption. reflexivity.
Qed.
