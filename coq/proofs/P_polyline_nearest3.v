(* Concrete inputs that meet the hypotheses of the conditional sub-path theorems of C07 (non-vacuity). *)
From Coq Require Import ZArith Reals Lra Psatz List Bool Lia Arith.
From PW Require Import Num NumR Vec NpList Result.
From PW.model Require Import M_polyline_base M_segment M_polyline_nearest.
From PW.proofs Require Import P_vec P_nplist P_segment P_polyline_nearest P_polyline_nearest2.
Import ListNotations.
Local Open Scope R_scope.

(* decide comparisons between concrete real expressions (rational arithmetic, square roots, absolute values) *)
Ltac solve_cmp :=
  first [ lra
        | (apply sqrt_le_1_alt; lra)
        | (apply sqrt_lt_1_alt; lra)
        | (unfold Rabs; repeat match goal with |- context [Rcase_abs ?x] => destruct (Rcase_abs x) end; lra) ].
Ltac decide_cmps :=
  repeat match goal with
  | |- context [Rleb ?a ?b] =>
      first [ replace (Rleb a b) with true by (symmetry; apply Rleb_true; solve_cmp)
            | replace (Rleb a b) with false by (symmetry; apply Rleb_false; solve_cmp) ]
  | |- context [Rltb ?a ?b] =>
      first [ replace (Rltb a b) with true by (symmetry; apply Rltb_true; solve_cmp)
            | replace (Rltb a b) with false by (symmetry; apply Rltb_false; solve_cmp) ]
  | |- context [Reqb ?a ?b] =>
      first [ replace (Reqb a b) with true by (symmetry; apply Reqb_true; solve_cmp)
            | replace (Reqb a b) with false by (symmetry; apply Reqb_false; solve_cmp) ]
  end.
Ltac eval_model :=
  cbv [nearest_one hits seg_hit_of pl_segments pv pclosed zip app map last closest_point closest_t clip01 nmin nmax
       seg_vector amin_by amin_step h_d h_t h_pt n_pt n_d n_t n_idx fst snd index_of_vertex near_vertex atol8 flatnonzero
       nonzero_from insert_at firstn skipn vnorm vnorm2 vadd vsub vscale vdot vx vy vz n0 n1 nfrac andb]; rops; decide_cmps.

Lemma near_ext (c c' : vec3 R) (j : nat) (d d' t t' : R) : c = c' -> d = d' -> t = t' -> Near c j d t = Near c' j d' t'.
Proof. intros; subst; reflexivity. Qed.
(* nearest_one on concrete data equals an explicitly given (simplified) record *)
Ltac sqrt_is := match goal with |- sqrt ?x = ?c => replace x with (c * c) by lra; apply sqrt_square; lra end.
Ltac eval_near := eval_model; apply f_equal; apply near_ext; [apply V3_ext; lra | sqrt_is | lra].

Definition ex_pl : polyline R := MkPolyline [V3 0 0 0; V3 4 0 0] false.

(* open polyline (0,0,0)-(4,0,0); a = (1,1,0) and b = (3,1,0) project to (1,0,0) and (3,0,0) *)
Example sliced_open_forward_inhabited : exists pl a b ra rb,
  pclosed pl = false /\ nearest_one ROps pl a = Ok ra /\ index_of_vertex ROps (pv pl) (n_pt ra) = None /\
  nearest_one ROps (MkPolyline (insert_at (pv pl) (S (n_idx ra)) (n_pt ra)) false) b = Ok rb /\
  index_of_vertex ROps (insert_at (pv pl) (S (n_idx ra)) (n_pt ra)) (n_pt rb) = None /\
  (S (n_idx ra) <= n_idx rb)%nat.
Proof.
  exists ex_pl, (V3 1 1 0), (V3 3 1 0), (Near (V3 1 0 0) 0 1 (1 / 4)), (Near (V3 3 0 0) 1 1 (2 / 3)).
  split; [reflexivity|]. split; [unfold ex_pl; eval_near|].
  split; [unfold ex_pl; eval_model; reflexivity|].
  split; [unfold ex_pl; eval_near|].
  split; [unfold ex_pl; eval_model; reflexivity|]. cbn. lia.
Qed.
(* the same with a and b exchanged: b's point comes first *)
Example sliced_open_backward_inhabited : exists pl a b ra rb,
  pclosed pl = false /\ nearest_one ROps pl a = Ok ra /\ index_of_vertex ROps (pv pl) (n_pt ra) = None /\
  nearest_one ROps (MkPolyline (insert_at (pv pl) (S (n_idx ra)) (n_pt ra)) false) b = Ok rb /\
  index_of_vertex ROps (insert_at (pv pl) (S (n_idx ra)) (n_pt ra)) (n_pt rb) = None /\
  (n_idx rb <= n_idx ra)%nat.
Proof.
  exists ex_pl, (V3 3 1 0), (V3 1 1 0), (Near (V3 3 0 0) 0 1 (3 / 4)), (Near (V3 1 0 0) 0 1 (1 / 3)).
  split; [reflexivity|]. split; [unfold ex_pl; eval_near|].
  split; [unfold ex_pl; eval_model; reflexivity|].
  split; [unfold ex_pl; eval_near|].
  split; [unfold ex_pl; eval_model; reflexivity|]. cbn. lia.
Qed.

(* closed triangle (0,0,0)-(4,0,0)-(4,3,0); a = (1,-1,0) and b = (3,-1,0) project onto the first edge *)
Definition ex_tri : polyline R := MkPolyline [V3 0 0 0; V3 4 0 0; V3 4 3 0] true.
Example sliced_closed_inhabited : exists pl a b ra rb,
  pclosed pl = true /\ nearest_one ROps pl a = Ok ra /\ index_of_vertex ROps (pv pl) (n_pt ra) = None /\
  nearest_one ROps (MkPolyline (insert_at (pv pl) (edge_end pl (n_idx ra)) (n_pt ra)) true) b = Ok rb /\
  index_of_vertex ROps (insert_at (pv pl) (edge_end pl (n_idx ra)) (n_pt ra)) (n_pt rb) = None /\
  (edge_end pl (n_idx ra) <
   edge_end (MkPolyline (insert_at (pv pl) (edge_end pl (n_idx ra)) (n_pt ra)) true) (n_idx rb))%nat.
Proof.
  exists ex_tri, (V3 1 (-1) 0), (V3 3 (-1) 0), (Near (V3 1 0 0) 0 1 (1 / 4)), (Near (V3 3 0 0) 1 1 (2 / 3)).
  split; [reflexivity|]. split; [unfold ex_tri; eval_near|].
  split; [unfold ex_tri; eval_model; reflexivity|].
  split; [unfold ex_tri; cbv [edge_end pclosed pv length andb Nat.eqb n_idx n_pt]; eval_near|].
  split; [unfold ex_tri; cbv [edge_end pclosed pv length andb Nat.eqb n_idx n_pt]; eval_model; reflexivity|].
  cbn. lia.
Qed.
(* ... and exchanged (b's point is inserted before a's: the wrap-around case) *)
Example sliced_closed_wrap_inhabited : exists pl a b ra rb,
  pclosed pl = true /\ nearest_one ROps pl a = Ok ra /\ index_of_vertex ROps (pv pl) (n_pt ra) = None /\
  nearest_one ROps (MkPolyline (insert_at (pv pl) (edge_end pl (n_idx ra)) (n_pt ra)) true) b = Ok rb /\
  index_of_vertex ROps (insert_at (pv pl) (edge_end pl (n_idx ra)) (n_pt ra)) (n_pt rb) = None /\
  (edge_end (MkPolyline (insert_at (pv pl) (edge_end pl (n_idx ra)) (n_pt ra)) true) (n_idx rb) <=
   edge_end pl (n_idx ra))%nat.
Proof.
  exists ex_tri, (V3 3 (-1) 0), (V3 1 (-1) 0), (Near (V3 3 0 0) 0 1 (3 / 4)), (Near (V3 1 0 0) 0 1 (1 / 3)).
  split; [reflexivity|]. split; [unfold ex_tri; eval_near|].
  split; [unfold ex_tri; eval_model; reflexivity|].
  split; [unfold ex_tri; cbv [edge_end pclosed pv length andb Nat.eqb n_idx n_pt]; eval_near|].
  split; [unfold ex_tri; cbv [edge_end pclosed pv length andb Nat.eqb n_idx n_pt]; eval_model; reflexivity|].
  cbn. lia.
Qed.
(* alignment, open: both queries have a nearest point *)
Example aligned_open_inhabited : exists pl p1 p2 r1 r2,
  pclosed pl = false /\ nearest_one ROps pl p1 = Ok r1 /\ nearest_one ROps pl p2 = Ok r2.
Proof.
  exists ex_pl, (V3 1 1 0), (V3 3 1 0), (Near (V3 1 0 0) 0 1 (1 / 4)), (Near (V3 3 0 0) 0 1 (3 / 4)).
  split; [reflexivity|]. split; unfold ex_pl; eval_near.
Qed.

(* alignment, closed: on a closed polyline with a vertex the two sub-paths always exist, so a decision is reached *)
Lemma closed_has_segments (pl : polyline R) : pclosed pl = true -> pv pl <> [] -> pl_segments pl <> [].
Proof.
  intros Hc Hv. unfold pl_segments. rewrite Hc. destruct (pv pl) as [|h t]; [congruence|].
  intros H. apply app_eq_nil in H. destruct H as [_ H]. discriminate.
Qed.
Lemma ensure_vertex_closed_total (pl : polyline R) q : pclosed pl = true -> pv pl <> [] ->
  exists w i ins, ensure_vertex ROps pl q = Ok (w, i, ins) /\ pclosed w = true /\ pv w <> [].
Proof.
  intros Hc Hv. destruct (nearest_one_total pl q (closed_has_segments pl Hc Hv)) as [r Hr].
  unfold ensure_vertex. rewrite Hr. destruct (index_of_vertex ROps (pv pl) (n_pt r)) as [i|].
  - exists pl, i, false. repeat split; assumption.
  - eexists _, _, true. split; [reflexivity|]. cbn [pclosed pv]. split; [exact Hc|].
    unfold insert_at. intros H. apply app_eq_nil in H. destruct H as [_ H]. discriminate.
Qed.
Lemma sliced_closed_total (pl : polyline R) a b : pclosed pl = true -> pv pl <> [] ->
  exists r, sliced_at_points ROps pl a b = Ok r.
Proof.
  intros Hc Hv. unfold sliced_at_points.
  destruct (ensure_vertex_closed_total pl a Hc Hv) as [w1 [si [i1 [E1 [Hc1 Hv1]]]]]. rewrite E1.
  destruct (ensure_vertex_closed_total w1 b Hc1 Hv1) as [w2 [ei [i2 [E2 [Hc2 _]]]]]. rewrite E2.
  unfold sliced_at_indices. rewrite Hc2. destruct (Nat.leb _ _); eauto.
Qed.
Example aligned_closed_inhabited : exists pl p1 p2 f, pclosed pl = true /\ aligned_flip ROps pl p1 p2 = Ok f.
Proof.
  assert (Hv : pv ex_tri <> []) by discriminate.
  destruct (sliced_closed_total ex_tri (V3 3 (-1) 0) (V3 1 (-1) 0) eq_refl Hv) as [back Hb].
  destruct (sliced_closed_total ex_tri (V3 1 (-1) 0) (V3 3 (-1) 0) eq_refl Hv) as [fwd Hf].
  exists ex_tri, (V3 1 (-1) 0), (V3 3 (-1) 0). eexists. split; [reflexivity|].
  unfold aligned_flip. change (pclosed ex_tri) with true. rewrite Hb, Hf. reflexivity.
Qed.
