(* Lemmas for M_shapes.v (C16): combinatorics of the two face tables by computation, measures over R. *)
From Coq Require Import ZArith Reals Lra Psatz List Bool Lia Nsatz Arith.
From PW Require Import Num NumR Vec Result.
From PW.model Require Import M_shapes M_shapes_spec.
From PW.proofs Require Import P_vec.
Import ListNotations.
Local Open Scope R_scope.

(* ---------------------------------------------------------------------------------------------- *)
(* face tables: finite claims by computation                                                        *)
Lemma rect_faces_table :
  rect_prism_faces = [(0,1,2); (0,2,3); (7,6,5); (7,5,4); (4,5,1); (4,1,0);
                      (5,6,2); (5,2,1); (6,7,3); (6,3,2); (3,7,4); (3,4,0)]%nat.
Proof. reflexivity. Qed.

Lemma rect_closed_oriented : closed_oriented rect_prism_faces = true.
Proof. vm_compute; reflexivity. Qed.
Lemma tri_closed_oriented : closed_oriented tri_prism_faces = true.
Proof. vm_compute; reflexivity. Qed.

(* the boolean check means: every directed edge of the table occurs exactly once, and so does its reverse *)
Lemma closed_oriented_spec fs : closed_oriented fs = true ->
  forall e, In e (directed_edges fs) ->
    count_edge e (directed_edges fs) = 1%nat /\ count_edge (rev_edge e) (directed_edges fs) = 1%nat.
Proof.
  unfold closed_oriented. intros H e He. rewrite forallb_forall in H. specialize (H e He).
  apply andb_true_iff in H. destruct H as [H1 H2]. apply Nat.eqb_eq in H1, H2. split; assumption.
Qed.

Lemma rect_faces_wellformed :
  length rect_prism_faces = 12%nat /\ forallb (face_in_range 8) rect_prism_faces = true /\
  forallb face_proper rect_prism_faces = true /\ all_used 8 rect_prism_faces = true.
Proof. repeat split; vm_compute; reflexivity. Qed.
Lemma tri_faces_wellformed :
  length tri_prism_faces = 8%nat /\ forallb (face_in_range 6) tri_prism_faces = true /\
  forallb face_proper tri_prism_faces = true /\ all_used 6 tri_prism_faces = true.
Proof. repeat split; vm_compute; reflexivity. Qed.

(* ---------------------------------------------------------------------------------------------- *)
Ltac sunf := cbv [six_volume signed_volume surface_area flatten rectangular_prism_flat rect_prism_faces rect_prism_quads
  quads_to_tris quad_to_tris tri_prism_faces flat_map app map tri_at nth_error rect_prism_vertices tri_prism_vertices
  somes nsum fold_left tri_det].

Lemma vnorm_eq v y : 0 <= y -> vnorm2 ROps v = y * y -> vnorm ROps v = y.
Proof. intros Hy H. unfold vnorm; rops. rewrite H. apply sqrt_square, Hy. Qed.

(* ---------------- rectangular prism ---------------- *)
Lemma rect_six_volume o s :
  six_volume ROps (rect_prism_vertices ROps o s) rect_prism_faces = 6 * (vx s * vy s * vz s).
Proof. destruct o as [ox oy oz], s as [sx sy sz]. sunf. vunf. ring. Qed.
Lemma rect_volume o s :
  signed_volume ROps (rect_prism_vertices ROps o s) rect_prism_faces = vx s * vy s * vz s.
Proof. unfold signed_volume. rewrite rect_six_volume. rops. field. Qed.

Lemma rect_flat_all_defined o s :
  rectangular_prism_flat ROps o s =
    map (fun f => let '(a, b, c) := f in
                  Some (List.nth a (rect_prism_vertices ROps o s) o, List.nth b (rect_prism_vertices ROps o s) o,
                        List.nth c (rect_prism_vertices ROps o s) o)) rect_prism_faces.
Proof. reflexivity. Qed.

Lemma rect_areas o s : 0 <= vx s -> 0 <= vy s -> 0 <= vz s ->
  map (tri_area ROps) (somes (flatten (rect_prism_vertices ROps o s) rect_prism_faces)) =
  [vx s * vz s / 2; vx s * vz s / 2; vx s * vz s / 2; vx s * vz s / 2;
   vx s * vy s / 2; vx s * vy s / 2; vy s * vz s / 2; vy s * vz s / 2;
   vx s * vy s / 2; vx s * vy s / 2; vy s * vz s / 2; vy s * vz s / 2].
Proof.
  destruct o as [ox oy oz], s as [sx sy sz]. cbn [vx vy vz]. intros Hx Hy Hz. sunf. unfold tri_area.
  repeat match goal with
  | |- (ndiv ROps (vnorm ROps ?v) _ :: _) = (?y / 2 :: _) =>
      rewrite (vnorm_eq v y); [ f_equal | apply Rmult_le_pos; assumption | vunf; ring ]
  end; try reflexivity.
Qed.
Lemma rect_surface_area o s : 0 <= vx s -> 0 <= vy s -> 0 <= vz s ->
  surface_area ROps (rect_prism_vertices ROps o s) rect_prism_faces
  = 2 * (vx s * vy s + vy s * vz s + vx s * vz s).
Proof.
  intros Hx Hy Hz. unfold surface_area. rewrite rect_areas by assumption.
  cbv [nsum fold_left]; rops. field.
Qed.

Lemma rect_vertices_are_corners o s :
  rect_prism_vertices ROps o s =
  [corner o s false false false; corner o s true false false; corner o s true false true; corner o s false false true;
   corner o s false true false; corner o s true true false; corner o s true true true; corner o s false true true].
Proof.
  destruct o as [ox oy oz], s as [sx sy sz]. unfold rect_prism_vertices, corner. cbn [vx vy vz].
  repeat (f_equal; try (vec_eq; ring)).
Qed.
Lemma rect_vertices_span o s v :
  In v (rect_prism_vertices ROps o s) <-> exists bx by_ bz, v = corner o s bx by_ bz.
Proof.
  rewrite rect_vertices_are_corners. split.
  - cbn [In]. intros H. repeat (destruct H as [H|H]; [subst v; do 3 eexists; reflexivity|]). contradiction.
  - intros (bx & by_ & bz & ->). destruct bx, by_, bz; cbn [In]; tauto.
Qed.

Lemma rect_outward o s : 0 < vx s -> 0 < vy s -> 0 < vz s ->
  Forall (outward_from (vadd ROps o (vscale ROps (1 / 2) s)))
         (somes (flatten (rect_prism_vertices ROps o s) rect_prism_faces)).
Proof.
  destruct o as [ox oy oz], s as [sx sy sz]. cbn [vx vy vz]. intros Hx Hy Hz. sunf.
  assert (P : 0 < sx * sy * sz) by (apply Rmult_lt_0_compat; [apply Rmult_lt_0_compat|]; assumption).
  repeat (apply Forall_cons; [unfold outward_from; vunf;
    match goal with |- 0 < ?e => replace e with (sx * sy * sz / 2) by field end; lra|]).
  apply Forall_nil.
Qed.

(* ---------------- triangular prism ---------------- *)
(* for ANY offset vector the eight faces enclose  -(c . off)/2  where c = (p2-p1)x(p3-p1) *)
Lemma tri_six_volume_gen p1 p2 p3 off :
  six_volume ROps [p1; p2; p3; vadd ROps p1 off; vadd ROps p2 off; vadd ROps p3 off] tri_prism_faces
  = - 3 * vdot ROps (tri_cross ROps p1 p2 p3) off.
Proof.
  destruct p1 as [a b c], p2 as [d e f], p3 as [g h i], off as [x y z]. sunf. unfold tri_cross. vunf. ring.
Qed.


Lemma tri_normal_dot p1 p2 p3 : noncollinear p1 p2 p3 ->
  vdot ROps (tri_cross ROps p1 p2 p3) (tri_normal ROps p1 p2 p3) = vnorm ROps (tri_cross ROps p1 p2 p3).
Proof.
  intros H. unfold tri_normal. set (c := tri_cross ROps p1 p2 p3) in *.
  pose proof (vnorm_pos c H) as Hp. pose proof (vnorm_sq c) as Hs.
  unfold vnormalize. set (n := vnorm ROps c) in *. clearbody n. destruct c as [x y z]. vunf_in Hs. vunf.
  replace (x * (x / n) + y * (y / n) + z * (z / n)) with ((x * x + y * y + z * z) / n) by (field; lra).
  rewrite <- Hs. field. lra.
Qed.

Lemma tri_volume p1 p2 p3 h : noncollinear p1 p2 p3 ->
  signed_volume ROps (tri_prism_vertices ROps p1 p2 p3 h) tri_prism_faces = base_area p1 p2 p3 * h.
Proof.
  intros H. unfold signed_volume, tri_prism_vertices. rewrite tri_six_volume_gen.
  set (c := tri_cross ROps p1 p2 p3). set (n := tri_normal ROps p1 p2 p3).
  assert (E : vdot ROps c (vscale ROps h (vneg ROps n)) = - h * vdot ROps c n).
  { destruct c, n. vunf. ring. }
  rewrite E. unfold c, n. rewrite tri_normal_dot by exact H. unfold base_area. rops. field.
Qed.
Lemma base_area_pos p1 p2 p3 : noncollinear p1 p2 p3 -> 0 < base_area p1 p2 p3.
Proof. intros H. unfold base_area. pose proof (vnorm_pos _ H). lra. Qed.

(* the second base lies at signed distance -h from the base plane, measured along the counter-clockwise normal *)
Lemma tri_normal_unit p1 p2 p3 : noncollinear p1 p2 p3 -> vnorm2 ROps (tri_normal ROps p1 p2 p3) = 1.
Proof. intros H. apply vnormalize_unit, H. Qed.
Lemma tri_normal_orth p1 p2 p3 : noncollinear p1 p2 p3 ->
  vdot ROps (tri_normal ROps p1 p2 p3) (vsub ROps p2 p1) = 0 /\
  vdot ROps (tri_normal ROps p1 p2 p3) (vsub ROps p3 p1) = 0.
Proof.
  intros H. unfold tri_normal, vnormalize. generalize (vnorm ROps (tri_cross ROps p1 p2 p3)); intros n.
  unfold tri_cross. destruct p1 as [a b c], p2 as [d e f], p3 as [g h i]. vunf. unfold Rdiv. split; ring.
Qed.
Lemma tri_upper_base p1 p2 p3 h : noncollinear p1 p2 p3 ->
  let n := tri_normal ROps p1 p2 p3 in
  tri_prism_vertices ROps p1 p2 p3 h =
    [p1; p2; p3; vsub ROps p1 (vscale ROps h n); vsub ROps p2 (vscale ROps h n); vsub ROps p3 (vscale ROps h n)] /\
  vdot ROps (vsub ROps (vsub ROps p1 (vscale ROps h n)) p1) n = - h.
Proof.
  intros H n. pose proof (tri_normal_unit p1 p2 p3 H) as Hu. fold n in Hu. split.
  - unfold tri_prism_vertices. fold n. destruct p1, p2, p3, n. repeat (f_equal; try (vec_eq; ring)).
  - destruct p1 as [a b c], n as [x y z]. vunf_in Hu. vunf.
    replace ((a - h * x - a) * x + (b - h * y - b) * y + (c - h * z - c) * z) with (- h * (x * x + y * y + z * z)) by ring.
    rewrite Hu. ring.
Qed.

(* surface area = 2 base + height x perimeter *)
Lemma side_area e n h : 0 <= h -> vnorm2 ROps n = 1 -> vdot ROps n e = 0 ->
  vnorm ROps (vcross ROps (vscale ROps h (vneg ROps n)) e) = h * vnorm ROps e.
Proof.
  intros Hh Hn He. apply vnorm_eq; [apply Rmult_le_pos; [exact Hh | apply vnorm_nonneg]|].
  replace (h * vnorm ROps e * (h * vnorm ROps e)) with (h * h * (vnorm ROps e * vnorm ROps e)) by ring.
  rewrite vnorm_sq. destruct e as [a b c], n as [x y z]. vunf_in Hn. vunf_in He. vunf. nsatz.
Qed.

Lemma vnorm_neg v : vnorm ROps (vneg ROps v) = vnorm ROps v.
Proof. unfold vnorm; rops. f_equal. destruct v. vunf. ring. Qed.

Lemma tri_surface_area p1 p2 p3 h : noncollinear p1 p2 p3 -> 0 <= h ->
  surface_area ROps (tri_prism_vertices ROps p1 p2 p3 h) tri_prism_faces
  = 2 * base_area p1 p2 p3 + h * perimeter p1 p2 p3.
Proof.
  intros H Hh. pose proof (tri_normal_unit p1 p2 p3 H) as Hu. destruct (tri_normal_orth p1 p2 p3 H) as [O1 O2].
  unfold tri_prism_vertices. set (n := tri_normal ROps p1 p2 p3) in *. set (off := vscale ROps h (vneg ROps n)).
  assert (O3 : vdot ROps n (vsub ROps p3 p2) = 0).
  { replace (vsub ROps p3 p2) with (vsub ROps (vsub ROps p3 p1) (vsub ROps p2 p1)) by (destruct p1, p2, p3; vec_eq; ring).
    destruct n, (vsub ROps p3 p1), (vsub ROps p2 p1). vunf_in O1. vunf_in O2. vunf. lra. }
  assert (O4 : vdot ROps n (vsub ROps p1 p3) = 0).
  { destruct n, p1, p3. vunf_in O2. vunf. lra. }
  sunf. unfold tri_area, base_area, perimeter, vdist.
  (* rewrite every cross product into one of the canonical forms *)
  assert (C0 : vcross ROps (vsub ROps p2 p1) (vsub ROps p3 p1) = tri_cross ROps p1 p2 p3) by reflexivity.
  assert (C1 : vcross ROps (vsub ROps (vadd ROps p1 off) p1) (vsub ROps (vadd ROps p2 off) p1) = vcross ROps off (vsub ROps p2 p1))
    by (destruct p1, p2, off; vec_eq; ring).
  assert (C2 : vcross ROps (vsub ROps (vadd ROps p2 off) p1) (vsub ROps p2 p1) = vcross ROps off (vsub ROps p2 p1))
    by (destruct p1, p2, off; vec_eq; ring).
  assert (C3 : vcross ROps (vsub ROps (vadd ROps p2 off) p2) (vsub ROps (vadd ROps p3 off) p2) = vcross ROps off (vsub ROps p3 p2))
    by (destruct p2, p3, off; vec_eq; ring).
  assert (C4 : vcross ROps (vsub ROps (vadd ROps p3 off) p2) (vsub ROps p3 p2) = vcross ROps off (vsub ROps p3 p2))
    by (destruct p2, p3, off; vec_eq; ring).
  assert (C5 : vcross ROps (vsub ROps (vadd ROps p3 off) p3) (vsub ROps (vadd ROps p1 off) p3) = vcross ROps off (vsub ROps p1 p3))
    by (destruct p1, p3, off; vec_eq; ring).
  assert (C6 : vcross ROps (vsub ROps (vadd ROps p1 off) p3) (vsub ROps p1 p3) = vcross ROps off (vsub ROps p1 p3))
    by (destruct p1, p3, off; vec_eq; ring).
  assert (C7 : vcross ROps (vsub ROps (vadd ROps p2 off) (vadd ROps p3 off)) (vsub ROps (vadd ROps p1 off) (vadd ROps p3 off))
               = vneg ROps (tri_cross ROps p1 p2 p3))
    by (unfold tri_cross; destruct p1, p2, p3, off; vec_eq; ring).
  rewrite C0, C1, C2, C3, C4, C5, C6, C7, vnorm_neg. unfold off.
  rewrite !side_area by assumption. unfold n2; rops. field.
Qed.

Lemma float_accepted origin p1 p2 p3 s h : noncollinear p1 p2 p3 ->
  cube ROps origin (PyFloat s) = Ok (rect_prism_vertices ROps origin (V3 s s s), rect_prism_faces) /\
  triangular_prism ROps p1 p2 p3 (PyFloat h) = Ok (tri_prism_vertices ROps p1 p2 p3 h, tri_prism_faces).
Proof.
  intros H. split; [reflexivity|]. unfold triangular_prism, collinear, n0; rops.
  destruct (Reqb_spec (vnorm2 ROps (tri_cross ROps p1 p2 p3)) 0) as [E|_]; [|reflexivity].
  exfalso. apply H, vnorm2_zero, E.
Qed.

(* ---------------------------------------------------------------------------------------------- *)
(* helpers for the traced kernels (flat row-major lists of numbers <-> vertex lists)                *)
Fixpoint vecs_of (l : list R) : list (vec3 R) :=
  match l with x :: y :: z :: r => V3 x y z :: vecs_of r | _ => [] end.
Definition tri_flat_list (l : list (option (vec3 R * vec3 R * vec3 R))) : list R :=
  flat_map (fun t => match t with Some (a, b, c) => vlist a ++ vlist b ++ vlist c | None => [] end) l.

(* ---------------------------------------------------------------------------------------------- *)

(* for ANY offset with c . off < 0 (the second base lies on the side opposite to the ccw normal) *)
Lemma tri_outward_gen p1 p2 p3 off : vdot ROps (tri_cross ROps p1 p2 p3) off < 0 ->
  Forall (outward_from (tri_prism_centre p1 p2 p3 off))
    (somes (flatten [p1; p2; p3; vadd ROps p1 off; vadd ROps p2 off; vadd ROps p3 off] tri_prism_faces)).
Proof.
  destruct p1 as [a b c], p2 as [d e f], p3 as [g h i], off as [x y z]. unfold tri_cross, tri_prism_centre.
  intros Hd. vunf_in Hd. sunf.
  match type of Hd with ?D < 0 =>
    repeat (apply Forall_cons; [unfold outward_from; vunf;
      match goal with |- 0 < ?E =>
        first [ replace E with (- D / 2) by field | replace E with (- D / 3) by field ] end; lra|])
  end.
  apply Forall_nil.
Qed.

Lemma tri_outward p1 p2 p3 h : noncollinear p1 p2 p3 -> 0 < h ->
  Forall (outward_from (tri_prism_centre p1 p2 p3 (vscale ROps h (vneg ROps (tri_normal ROps p1 p2 p3)))))
    (somes (flatten (tri_prism_vertices ROps p1 p2 p3 h) tri_prism_faces)).
Proof.
  intros H Hh. unfold tri_prism_vertices. apply tri_outward_gen.
  pose proof (tri_normal_dot p1 p2 p3 H) as E. pose proof (vnorm_pos _ H) as Hp.
  set (c := tri_cross ROps p1 p2 p3) in *. set (n := tri_normal ROps p1 p2 p3) in *.
  assert (E2 : vdot ROps c (vscale ROps h (vneg ROps n)) = - h * vdot ROps c n) by (destruct c, n; vunf; ring).
  rewrite E2, E. nra.
Qed.

(* ---------------- cube = rectangular prism with three equal sizes ---------------- *)
Lemma cube_measures origin s : 0 <= s ->
  exists vs fs, cube ROps origin (PyFloat s) = Ok (vs, fs) /\ fs = rect_prism_faces /\
    signed_volume ROps vs fs = s * s * s /\ surface_area ROps vs fs = 6 * (s * s).
Proof.
  intros Hs. eexists; eexists. split; [reflexivity|]. split; [reflexivity|]. split.
  - rewrite rect_volume. reflexivity.
  - rewrite rect_surface_area by (cbn [vx vy vz]; assumption). cbn [vx vy vz]. ring.
Qed.

(* ---------------- flattening in general: row k is the triangle of face k ---------------- *)
Lemma flatten_rows (vs : list (vec3 R)) fs k :
  nth_error (flatten vs fs) k = option_map (tri_at vs) (nth_error fs k).
Proof. unfold flatten. revert k. induction fs as [|f r IH]; intros [|k]; cbn; auto. Qed.
Lemma tri_flat_all_defined p1 p2 p3 h :
  let vs := tri_prism_vertices ROps p1 p2 p3 h in
  flatten vs tri_prism_faces =
    map (fun f => let '(a, b, c) := f in Some (List.nth a vs p1, List.nth b vs p1, List.nth c vs p1)) tri_prism_faces.
Proof. reflexivity. Qed.

(* ---------------------------------------------------------------------------------------------- *)
(* flattened form through tri_at / nth_error (no default element): every row is defined             *)
Lemma rect_flat_rows o s :
  rectangular_prism_flat ROps o s = map (tri_at (rect_prism_vertices ROps o s)) rect_prism_faces /\
  forallb is_some (rectangular_prism_flat ROps o s) = true.
Proof. split; reflexivity. Qed.
Lemma tri_flat_rows p1 p2 p3 h :
  forallb is_some (flatten (tri_prism_vertices ROps p1 p2 p3 h) tri_prism_faces) = true.
Proof. reflexivity. Qed.

(* the given triangle is a face (in the given order), and so is the far base, reversed *)
Lemma tri_base_faces : In (0, 1, 2)%nat tri_prism_faces /\ In (5, 4, 3)%nat tri_prism_faces.
Proof. cbn; tauto. Qed.

(* outward = positive enclosed signed volume *)
Lemma rect_volume_pos o s : 0 < vx s -> 0 < vy s -> 0 < vz s ->
  0 < signed_volume ROps (rect_prism_vertices ROps o s) rect_prism_faces.
Proof. intros. rewrite rect_volume. apply Rmult_lt_0_compat; [apply Rmult_lt_0_compat|]; assumption. Qed.
Lemma tri_volume_pos p1 p2 p3 h : noncollinear p1 p2 p3 -> 0 < h ->
  0 < signed_volume ROps (tri_prism_vertices ROps p1 p2 p3 h) tri_prism_faces.
Proof. intros H Hh. rewrite tri_volume by exact H. apply Rmult_lt_0_compat; [apply base_area_pos, H | exact Hh]. Qed.
