(* Real-number lemmas about Mat.v: extensionality, ring laws, cofactor inverse. *)
From Coq Require Import ZArith Reals Lra Psatz List Nsatz.
From PW Require Import Num NumR Vec Mat.
From PW.proofs Require Import P_vec.
Local Open Scope R_scope.

(* Destruct matrix / vector variables first (dm / dm3 / dv), then munf fully computes the entries. *)
Ltac dm a := destruct a as [?x ?x ?x ?x ?x ?x ?x ?x ?x ?x ?x ?x ?x ?x ?x ?x].
Ltac dm3 a := destruct a as [?x ?x ?x ?x ?x ?x ?x ?x ?x].
Ltac dv a := destruct a as [?x ?x ?x].
Ltac munf := cbv [mmul mtranspose mscale m33to44 mupper3 mtranslation mdiag mapply_pt mapply_vec
  mapply_w I4 I3 m3mul m3apply m3transpose m3rows m3row0 m3row1 m3row2 m3det mlist m3list
  madj mdet det3 minv affine
  vdist vnormalize vnorm vadd vsub vneg vscale vdivs vdot vcross vnorm2 vzero vmul vlist
  n0 n1 n2 nofZ nadd nsub nmul ndiv nneg nabs nsqrt nltb nleb neqb ROps
  m00 m01 m02 m03 m10 m11 m12 m13 m20 m21 m22 m23 m30 m31 m32 m33
  a00 a01 a02 a10 a11 a12 a20 a21 a22 vx vy vz].
Ltac munf_in H := cbv [mmul mtranspose mscale m33to44 mupper3 mtranslation mdiag mapply_pt mapply_vec
  mapply_w I4 I3 m3mul m3apply m3transpose m3rows m3row0 m3row1 m3row2 m3det mlist m3list
  madj mdet det3 minv affine
  vdist vnormalize vnorm vadd vsub vneg vscale vdivs vdot vcross vnorm2 vzero vmul vlist
  n0 n1 n2 nofZ nadd nsub nmul ndiv nneg nabs nsqrt nltb nleb neqb ROps
  m00 m01 m02 m03 m10 m11 m12 m13 m20 m21 m22 m23 m30 m31 m32 m33
  a00 a01 a02 a10 a11 a12 a20 a21 a22 vx vy vz] in H.

Lemma M4_ext (x00 x01 x02 x03 x10 x11 x12 x13 x20 x21 x22 x23 x30 x31 x32 x33
              y00 y01 y02 y03 y10 y11 y12 y13 y20 y21 y22 y23 y30 y31 y32 y33 : R) :
  x00 = y00 -> x01 = y01 -> x02 = y02 -> x03 = y03 ->
  x10 = y10 -> x11 = y11 -> x12 = y12 -> x13 = y13 ->
  x20 = y20 -> x21 = y21 -> x22 = y22 -> x23 = y23 ->
  x30 = y30 -> x31 = y31 -> x32 = y32 -> x33 = y33 ->
  M4 x00 x01 x02 x03 x10 x11 x12 x13 x20 x21 x22 x23 x30 x31 x32 x33 =
  M4 y00 y01 y02 y03 y10 y11 y12 y13 y20 y21 y22 y23 y30 y31 y32 y33.
Proof. intros; subst; reflexivity. Qed.

Lemma M4_inj (a b : mat4 R) :
  m00 a = m00 b -> m01 a = m01 b -> m02 a = m02 b -> m03 a = m03 b ->
  m10 a = m10 b -> m11 a = m11 b -> m12 a = m12 b -> m13 a = m13 b ->
  m20 a = m20 b -> m21 a = m21 b -> m22 a = m22 b -> m23 a = m23 b ->
  m30 a = m30 b -> m31 a = m31 b -> m32 a = m32 b -> m33 a = m33 b -> a = b.
Proof. destruct a, b; cbn; intros; subst; reflexivity. Qed.

Lemma M3_inj (a b : mat3 R) :
  a00 a = a00 b -> a01 a = a01 b -> a02 a = a02 b ->
  a10 a = a10 b -> a11 a = a11 b -> a12 a = a12 b ->
  a20 a = a20 b -> a21 a = a21 b -> a22 a = a22 b -> a = b.
Proof. destruct a, b; cbn; intros; subst; reflexivity. Qed.

Ltac mat_eq := apply M4_inj; munf.
Ltac mat3_eq := apply M3_inj; munf.

Lemma mmul_assoc a b c : mmul ROps (mmul ROps a b) c = mmul ROps a (mmul ROps b c).
Proof. dm a; dm b; dm c; mat_eq; ring. Qed.
Lemma mmul_I4_l a : mmul ROps (I4 ROps) a = a.
Proof. dm a; mat_eq; ring. Qed.
Lemma mmul_I4_r a : mmul ROps a (I4 ROps) = a.
Proof. dm a; mat_eq; ring. Qed.
Lemma m3mul_assoc a b c : m3mul ROps (m3mul ROps a b) c = m3mul ROps a (m3mul ROps b c).
Proof. dm3 a; dm3 b; dm3 c; mat3_eq; ring. Qed.

Lemma mscale_mmul_l s a b : mmul ROps (mscale ROps s a) b = mscale ROps s (mmul ROps a b).
Proof. dm a; dm b; mat_eq; ring. Qed.
Lemma mscale_mmul_r s a b : mmul ROps a (mscale ROps s b) = mscale ROps s (mmul ROps a b).
Proof. dm a; dm b; mat_eq; ring. Qed.

Lemma madj_mul_l m : mmul ROps (madj ROps m) m = mscale ROps (mdet ROps m) (I4 ROps).
Proof. dm m; mat_eq; ring. Qed.
Lemma madj_mul_r m : mmul ROps m (madj ROps m) = mscale ROps (mdet ROps m) (I4 ROps).
Proof. dm m; mat_eq; ring. Qed.

Lemma mscale_mscale s t a : mscale ROps s (mscale ROps t a) = mscale ROps (s * t) a.
Proof. dm a; mat_eq; ring. Qed.
Lemma mscale_1 a : mscale ROps 1 a = a.
Proof. dm a; mat_eq; ring. Qed.

Lemma minv_l m : mdet ROps m <> 0 -> mmul ROps (minv ROps m) m = I4 ROps.
Proof.
  intros H. unfold minv. rewrite mscale_mmul_l, madj_mul_l, mscale_mscale.
  unfold n1; rops. replace (1 / mdet ROps m * mdet ROps m) with 1 by (field; exact H).
  apply mscale_1.
Qed.
Lemma minv_r m : mdet ROps m <> 0 -> mmul ROps m (minv ROps m) = I4 ROps.
Proof.
  intros H. unfold minv. rewrite mscale_mmul_r, madj_mul_r, mscale_mscale.
  unfold n1; rops. replace (1 / mdet ROps m * mdet ROps m) with 1 by (field; exact H).
  apply mscale_1.
Qed.

(* apply is a homomorphism for affine matrices *)
Lemma mapply_pt_mmul a b p : affine ROps b ->
  mapply_pt ROps (mmul ROps a b) p = mapply_pt ROps a (mapply_pt ROps b p).
Proof.
  dm a; dm b; dv p. intros Ha. munf_in Ha. destruct Ha as (H0 & H1 & H2 & H3). subst.
  apply V3_inj; munf; ring.
Qed.
Lemma mapply_vec_mmul a b p :
  m30 b = 0 -> m31 b = 0 -> m32 b = 0 ->
  mapply_vec ROps (mmul ROps a b) p = mapply_vec ROps a (mapply_vec ROps b p).
Proof. dm a; dm b; dv p. cbn [m30 m31 m32]. intros H0 H1 H2. subst. apply V3_inj; munf; ring. Qed.
Lemma mapply_pt_I4 p : mapply_pt ROps (I4 ROps) p = p.
Proof. dv p. apply V3_inj; munf; ring. Qed.
Lemma affine_mmul a b : affine ROps a -> affine ROps b -> affine ROps (mmul ROps a b).
Proof.
  dm a; dm b. intros Ha Hb. munf_in Ha. munf_in Hb.
  destruct Ha as (A0 & A1 & A2 & A3). destruct Hb as (B0 & B1 & B2 & B3). subst.
  munf. repeat split; ring.
Qed.
Lemma affine_I4 : affine ROps (I4 ROps).
Proof. munf; repeat split; reflexivity. Qed.

(* 3x3: orthonormal rows imply orthonormal columns *)
Lemma m3_left_inv_right_inv a : m3mul ROps a (m3transpose a) = I3 ROps ->
  m3mul ROps (m3transpose a) a = I3 ROps.
Proof.
  destruct a as [a b c d e f g h i]. intros H. munf_in H. injection H as H1 H2 H3 H4 H5 H6 H7 H8 H9.
  mat3_eq; nsatz.
Qed.
