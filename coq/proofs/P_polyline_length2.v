(* Real-number lemmas about M_polyline_length.v, second part: path lengths (subdivision and bisection preserve the
   total length), continuity of the arc-length specification, whole-function specifications. *)
From Coq Require Import ZArith Reals Lra Psatz List Bool Lia Arith.
From PW Require Import Num NumR Vec NpList Result.
From PW.model Require Import M_polyline_base M_segment M_polyline_nearest M_polyline_length M_polyline_length_spec.
From PW.proofs Require Import P_vec P_nplist P_segment P_polyline_length.
Import ListNotations.
Local Open Scope R_scope.

(* ---- norms ---- *)
Lemma vnorm_scale s v : vnorm ROps (vscale ROps s v) = Rabs s * vnorm ROps v.
Proof.
  unfold vnorm. rops.
  replace (vnorm2 ROps (vscale ROps s v)) with (Rsqr s * vnorm2 ROps v) by (destruct v; vunf; unfold Rsqr; ring).
  rewrite sqrt_mult; [|apply Rle_0_sqr|apply vnorm2_nonneg]. rewrite sqrt_Rsqr_abs. reflexivity.
Qed.
Lemma vnorm_scale_pos s v : 0 <= s -> vnorm ROps (vscale ROps s v) = s * vnorm ROps v.
Proof. intros H. rewrite vnorm_scale, Rabs_right by lra. reflexivity. Qed.
Lemma vnorm_zero_vec : vnorm ROps (V3 0 0 0) = 0.
Proof. unfold vnorm, vnorm2. vunf. replace (0 * 0 + 0 * 0 + 0 * 0) with 0 by ring. apply sqrt_0. Qed.
Lemma vsub_self v : vsub ROps v v = V3 0 0 0.
Proof. destruct v. vec_eq; ring. Qed.
Lemma vnorm_sym a b : vnorm ROps (vsub ROps a b) = vnorm ROps (vsub ROps b a).
Proof. unfold vnorm. rops. f_equal. destruct a, b. vunf. ring. Qed.
Lemma vnorm_zero_eq a b : vnorm ROps (vsub ROps b a) = 0 -> b = a.
Proof.
  intros H. assert (Hz : vsub ROps b a = V3 0 0 0).
  { apply vnorm2_zero. rewrite <- vnorm_sq, H. ring. }
  destruct a, b. vunf_in Hz. injection Hz as H1 H2 H3. f_equal; lra.
Qed.

(* Cauchy-Schwarz from the Lagrange identity, then the triangle inequality *)
Lemma cauchy_schwarz a b : vdot ROps a b <= vnorm ROps a * vnorm ROps b.
Proof.
  pose proof (vcross_norm2 a b) as HL. pose proof (vnorm2_nonneg (vcross ROps a b)) as Hc.
  pose proof (vnorm_sq a) as Ha. pose proof (vnorm_sq b) as Hb.
  pose proof (vnorm_nonneg a) as Pa. pose proof (vnorm_nonneg b) as Pb.
  set (na := vnorm ROps a) in *. set (nb := vnorm ROps b) in *. set (d := vdot ROps a b) in *.
  assert (Hsq : d * d <= (na * nb) * (na * nb)) by (rewrite <- Ha, <- Hb in HL; nra).
  destruct (Rle_or_lt d 0) as [Hd|Hd]; [assert (0 <= na * nb) by (apply Rmult_le_pos; assumption); lra|].
  assert (0 <= na * nb) by (apply Rmult_le_pos; assumption). nra.
Qed.
Lemma vnorm_triangle a b : vnorm ROps (vadd ROps a b) <= vnorm ROps a + vnorm ROps b.
Proof.
  pose proof (cauchy_schwarz a b) as HC.
  pose proof (vnorm_sq a) as Ha. pose proof (vnorm_sq b) as Hb. pose proof (vnorm_sq (vadd ROps a b)) as Hab.
  pose proof (vnorm_nonneg a) as Pa. pose proof (vnorm_nonneg b) as Pb. pose proof (vnorm_nonneg (vadd ROps a b)) as Pab.
  assert (He : vnorm2 ROps (vadd ROps a b) = vnorm2 ROps a + 2 * vdot ROps a b + vnorm2 ROps b)
    by (destruct a, b; vunf; ring).
  set (na := vnorm ROps a) in *. set (nb := vnorm ROps b) in *. set (nab := vnorm ROps (vadd ROps a b)) in *.
  assert (nab * nab <= (na + nb) * (na + nb)) by nra. nra.
Qed.
Lemma vnorm_triangle_pts a b c :
  vnorm ROps (vsub ROps c a) <= vnorm ROps (vsub ROps b a) + vnorm ROps (vsub ROps c b).
Proof.
  replace (vsub ROps c a) with (vadd ROps (vsub ROps b a) (vsub ROps c b)) by (destruct a, b, c; vec_eq; ring).
  apply vnorm_triangle.
Qed.

(* ---- length of an open chain that starts at `start` and runs through the points of l ---- *)
Fixpoint plen (start : vec3 R) (l : list (vec3 R)) : R :=
  match l with [] => 0 | x :: r => vnorm ROps (vsub ROps x start) + plen x r end.

Lemma plen_app l1 : forall s l2, plen s (l1 ++ l2) = plen s l1 + plen (last l1 s) l2.
Proof.
  induction l1 as [|x r IH]; intros s l2; [cbn; lra|].
  cbn [app plen]. rewrite IH. replace (last (x :: r) s) with (last r x); [lra|].
  destruct r as [|y r]; [reflexivity|]. change (last (x :: y :: r) s) with (last (y :: r) s).
  apply last_default_irrelevant. discriminate.
Qed.
Lemma nsum_app l1 : forall l2, nsum ROps (l1 ++ l2) = nsum ROps l1 + nsum ROps l2.
Proof.
  induction l1 as [|x r IH]; intros l2; [cbn [app]; rewrite nsum_nil; lra|].
  cbn [app]. rewrite !nsum_cons, IH. lra.
Qed.
Lemma open_chain_plen : forall t h, nsum ROps (map (seg_len ROps) (zip (h :: t) t)) = plen h t.
Proof.
  induction t as [|x t IH]; intros h; [reflexivity|].
  change (zip (h :: x :: t) (x :: t)) with ((h, x) :: zip (x :: t) t).
  cbn [map plen]. rewrite nsum_cons, IH. reflexivity.
Qed.
(* total_length as the length of the vertex chain (closed: back to the first vertex) *)
Lemma total_length_plen pl h t : pv pl = h :: t ->
  total_length ROps pl = plen h (t ++ (if pclosed pl then [h] else [])).
Proof.
  intros E. unfold total_length, pl_segments. rewrite E. destruct (pclosed pl).
  - rewrite map_app, nsum_app, open_chain_plen, plen_app. cbn [map plen]. rewrite nsum_cons, nsum_nil.
    unfold seg_len. cbn [fst snd]. lra.
  - rewrite open_chain_plen, app_nil_r. reflexivity.
Qed.
Lemma total_length_nil pl : pv pl = [] -> total_length ROps pl = 0.
Proof. intros E. unfold total_length, pl_segments. rewrite E. reflexivity. Qed.

(* ---- a run of points between a and b that does not lengthen the way from a to b ---- *)
Definition straight (a : vec3 R) (il : list (vec3 R)) (b : vec3 R) : Prop :=
  plen a (il ++ [b]) = vnorm ROps (vsub ROps b a).
Lemma straight_nil a b : straight a [] b.
Proof. unfold straight. cbn. lra. Qed.

(* the point at parameter k/n of the segment *)
Definition seg_pt (n : Z) (s : vec3 R * vec3 R) (k : nat) : vec3 R :=
  vadd ROps (vscale ROps (lin_t ROps n k) (seg_vector ROps s)) (fst s).
Lemma seg_pt_diff n s k1 k2 : IZR n <> 0 ->
  vsub ROps (seg_pt n s k2) (seg_pt n s k1) =
  vscale ROps ((IZR (Z.of_nat k2) - IZR (Z.of_nat k1)) / IZR n) (seg_vector ROps s).
Proof.
  intros Hn. unfold seg_pt, lin_t. rops. unfold n1. rops.
  destruct (seg_vector ROps s) as [x y z], (fst s) as [a b c]. vec_eq; field; assumption.
Qed.
Lemma seg_pt_to_end n s k : IZR n <> 0 ->
  vsub ROps (snd s) (seg_pt n s k) = vscale ROps ((IZR n - IZR (Z.of_nat k)) / IZR n) (seg_vector ROps s).
Proof.
  intros Hn. unfold seg_pt, lin_t, seg_vector. rops. unfold n1. rops.
  destruct (snd s) as [x y z], (fst s) as [a b c]. vec_eq; field; assumption.
Qed.

(* from the point at k/n through the points at (k+1)/n ... (k+m)/n to the end: the remaining (n-k)/n of the length *)
Lemma plen_even (n : Z) s : (0 < n)%Z -> forall m k, (Z.of_nat (k + m) < n)%Z ->
  plen (seg_pt n s k) (map (seg_pt n s) (seq (S k) m) ++ [snd s]) =
  (IZR n - IZR (Z.of_nat k)) / IZR n * seg_len ROps s.
Proof.
  intros Hn. assert (Hn0 : IZR n <> 0) by (apply not_0_IZR; lia). assert (Hnp : 0 < IZR n) by (apply IZR_lt; lia).
  induction m as [|m IH]; intros k Hk.
  - cbn [seq map app plen]. rewrite seg_pt_to_end by exact Hn0. rewrite vnorm_scale_pos.
    + unfold seg_len, seg_vector. lra.
    + apply Rmult_le_pos; [|left; apply Rinv_0_lt_compat; exact Hnp].
      assert (IZR (Z.of_nat k) < IZR n) by (apply IZR_lt; lia). lra.
  - cbn [seq map app plen]. rewrite IH by lia. rewrite seg_pt_diff by exact Hn0. rewrite vnorm_scale_pos.
    + replace (Z.of_nat (S k)) with (Z.of_nat k + 1)%Z by lia. rewrite plus_IZR.
      unfold seg_len, seg_vector. field. exact Hn0.
    + replace (Z.of_nat (S k)) with (Z.of_nat k + 1)%Z by lia. rewrite plus_IZR.
      apply Rmult_le_pos; [lra|left; apply Rinv_0_lt_compat; exact Hnp].
Qed.

Lemma seg_pt_0 n s : seg_pt n s 0 = fst s.
Proof. unfold seg_pt, lin_t. rops. destruct (seg_vector ROps s), (fst s). vec_eq; cbn; ring. Qed.

Lemma inserted_on_straight (n : Z) a b : (1 < n)%Z -> straight a (inserted_on ROps n (a, b)) b.
Proof.
  intros Hn. unfold straight, inserted_on.
  change (map _ (seq 1 (Z.to_nat n - 1))) with (map (seg_pt n (a, b)) (seq 1 (Z.to_nat n - 1))).
  pose proof (plen_even n (a, b) ltac:(lia) (Z.to_nat n - 1)%nat 0%nat ltac:(lia)) as H.
  rewrite seg_pt_0 in H. cbn [fst snd] in H. rewrite H. cbn [Z.of_nat]. unfold seg_len. cbn [fst snd].
  assert (IZR n <> 0) by (apply not_0_IZR; lia). field. assumption.
Qed.
Lemma edge_inserts_straight mx sel a b : straight a (edge_inserts ROps mx sel (a, b)) b.
Proof.
  unfold edge_inserts. destruct (sel && (1 <? parts_needed ROps mx (a, b))%Z) eqn:E; [|apply straight_nil].
  apply andb_true_iff in E. destruct E as [_ E]. apply Z.ltb_lt in E. apply inserted_on_straight. exact E.
Qed.

(* ---- a vertex chain with a straight run after every vertex has the length of the vertex chain ---- *)
Fixpoint straight_chain (cur : vec3 R) (t : list (vec3 R)) (ins : list (list (vec3 R))) (closing : list (vec3 R)) : Prop :=
  match ins with
  | [] => False
  | i0 :: ins' =>
      match t with
      | x :: t' => straight cur i0 x /\ straight_chain x t' ins' closing
      | [] => ins' = [] /\ match closing with [] => i0 = [] | c :: _ => straight cur i0 c end
      end
  end.

Lemma interleave_cons (v : vec3 R) vs i ins : interleave (v :: vs) (i :: ins) = v :: i ++ interleave vs ins.
Proof. reflexivity. Qed.
Lemma interleave_nil_l (ins : list (list (vec3 R))) : interleave [] ins = [].
Proof. reflexivity. Qed.

Lemma straight_chain_plen : forall t cur ins c,
  straight_chain cur t ins (match c with Some x => [x] | None => [] end) ->
  plen cur (tl (interleave (cur :: t) ins) ++ (match c with Some x => [x] | None => [] end)) =
  plen cur (t ++ (match c with Some x => [x] | None => [] end)).
Proof.
  induction t as [|x t IH]; intros cur ins c H; destruct ins as [|i0 ins]; try contradiction.
  - cbn [straight_chain] in H. destruct H as [-> H]. rewrite interleave_cons, interleave_nil_l. cbn [tl app].
    rewrite app_nil_r. destruct c as [x|].
    + unfold straight in H. rewrite H. cbn. lra.
    + subst i0. reflexivity.
  - cbn [straight_chain] in H. destruct H as [Hs Hc]. rewrite interleave_cons. cbn [tl].
    destruct ins as [|i1 ins]; [destruct t; contradiction|].
    rewrite interleave_cons. specialize (IH x (i1 :: ins) c Hc). rewrite interleave_cons in IH. cbn [tl] in IH.
    set (cl := match c with Some y => [y] | None => [] end) in *.
    replace ((i0 ++ x :: i1 ++ interleave t ins) ++ cl) with ((i0 ++ [x]) ++ ((i1 ++ interleave t ins) ++ cl))
      by (rewrite <- ?app_assoc; cbn [app]; rewrite <- ?app_assoc; reflexivity).
    rewrite plen_app. rewrite last_last. unfold straight in Hs. rewrite Hs, IH. cbn [app plen]. lra.
Qed.

(* the per-vertex insertions of subdivided_by_length form straight runs *)
Lemma last_cons_shift (x : vec3 R) t h : last (x :: t) h = last t x.
Proof.
  destruct t as [|y t]; [reflexivity|]. change (last (x :: y :: t) h) with (last (y :: t) h).
  apply last_default_irrelevant. discriminate.
Qed.
Lemma open_inserts_straight mx : forall t h mask, length mask = length t ->
  straight_chain h t (map2 (edge_inserts ROps mx) mask (zip (h :: t) t) ++ [[]]) [].
Proof.
  induction t as [|x t IH]; intros h mask Hl.
  - destruct mask; [|discriminate]. cbn. split; reflexivity.
  - destruct mask as [|b mask]; [discriminate|].
    change (zip (h :: x :: t) (x :: t)) with ((h, x) :: zip (x :: t) t).
    change (map2 (edge_inserts ROps mx) (b :: mask) ((h, x) :: zip (x :: t) t))
      with (edge_inserts ROps mx b (h, x) :: map2 (edge_inserts ROps mx) mask (zip (x :: t) t)).
    cbn [app straight_chain]. split; [apply edge_inserts_straight|]. apply IH. cbn in Hl. lia.
Qed.
Lemma closed_inserts_straight mx h0 : forall t h mask, length mask = S (length t) ->
  straight_chain h t (map2 (edge_inserts ROps mx) mask (zip (h :: t) t ++ [(last t h, h0)])) [h0].
Proof.
  induction t as [|x t IH]; intros h mask Hl.
  - destruct mask as [|b [|? ?]]; try discriminate. cbn. split; [reflexivity|apply edge_inserts_straight].
  - destruct mask as [|b mask]; [discriminate|].
    change (zip (h :: x :: t) (x :: t)) with ((h, x) :: zip (x :: t) t).
    rewrite last_cons_shift. cbn [app].
    change (map2 (edge_inserts ROps mx) (b :: mask) ((h, x) :: (zip (x :: t) t ++ [(last t x, h0)])))
      with (edge_inserts ROps mx b (h, x) :: map2 (edge_inserts ROps mx) mask (zip (x :: t) t ++ [(last t x, h0)])).
    cbn [straight_chain]. split; [apply edge_inserts_straight|]. apply IH. cbn in Hl. lia.
Qed.

Lemma inserts_length_preserved pl mx mask : length mask = length (pl_segments pl) ->
  total_length ROps (MkPolyline (interleave (pv pl) (inserts_per_vertex ROps pl mx mask)) (pclosed pl)) =
  total_length ROps pl.
Proof.
  intros Hl. destruct (pv pl) as [|h t] eqn:E.
  - rewrite (total_length_nil pl E). apply total_length_nil. cbn [pv]. reflexivity.
  - assert (Hs : straight_chain h t (inserts_per_vertex ROps pl mx mask)
                   (match (if pclosed pl then Some h else None) with Some x => [x] | None => [] end)).
    { unfold inserts_per_vertex. rewrite pl_segments_length, E in Hl. unfold pl_segments. rewrite E.
      destruct (pclosed pl).
      - rewrite app_nil_r. apply closed_inserts_straight. exact Hl.
      - apply open_inserts_straight. exact Hl. }
    pose proof (straight_chain_plen t h _ _ Hs) as HP.
    destruct (inserts_per_vertex ROps pl mx mask) as [|i0 ins] eqn:Ei; [destruct t; contradiction|].
    rewrite interleave_cons in HP. cbn [tl] in HP.
    rewrite (total_length_plen pl h t E).
    rewrite (total_length_plen (MkPolyline (interleave (h :: t) (i0 :: ins)) (pclosed pl)) h (i0 ++ interleave t ins))
      by (cbn [pv]; apply interleave_cons).
    cbn [pclosed]. destruct (pclosed pl); exact HP.
Qed.

Lemma subdivide_length_preserved pl mx mask r : subdivided_by_length ROps pl mx mask = Ok r ->
  total_length ROps (fst r) = total_length ROps pl.
Proof.
  unfold subdivided_by_length. destruct mask as [m|].
  - destruct (Nat.eqb_spec (length m) (length (pl_segments pl))) as [E|E]; [|discriminate].
    intros H; injection H as <-. cbn [fst]. apply inserts_length_preserved. exact E.
  - intros H; injection H as <-. cbn [fst]. apply inserts_length_preserved. apply repeat_length.
Qed.

(* ---- the segments of a polyline form a chain that starts at the first vertex ---- *)
Lemma chained_app l1 : forall s l2, chained s l1 -> chained (segs_end s l1) l2 -> chained s (l1 ++ l2).
Proof.
  induction l1 as [|x r IH]; intros s l2 H1 H2; [exact H2|].
  destruct H1 as [Hf Hr]. cbn [app chained]. split; [exact Hf|]. apply IH; [exact Hr|exact H2].
Qed.
Lemma open_chain_chained : forall t h, chained h (zip (h :: t) t).
Proof.
  induction t as [|x t IH]; intros h; [exact I|].
  change (zip (h :: x :: t) (x :: t)) with ((h, x) :: zip (x :: t) t). split; [reflexivity|apply IH].
Qed.
Lemma pl_segments_chained pl h t : pv pl = h :: t -> chained h (pl_segments pl).
Proof.
  intros E. unfold pl_segments. rewrite E. destruct (pclosed pl); [|apply open_chain_chained].
  apply chained_app; [apply open_chain_chained|]. rewrite open_chain_end. split; [reflexivity|exact I].
Qed.

(* f = 0: the first vertex, also when the polyline starts with zero-length segments *)
Lemma walk_0 : forall segs start, chained start segs -> walk start segs 0 = start.
Proof.
  induction segs as [|s r IH]; intros start H; [reflexivity|].
  destruct H as [Hf Hr]. cbn [walk]. pose proof (seg_len_nonneg s) as Hl.
  destruct (Rltb_spec 0 (seg_len ROps s)) as [Hp|Hz].
  - rewrite Hf. unfold Rdiv. rewrite Rmult_0_l. destruct start, (vsub ROps (snd s) (V3 vx vy vz)). vec_eq; ring.
  - assert (Hz' : seg_len ROps s = 0) by lra. rewrite Hz', Rminus_0_r.
    assert (Hs : snd s = start) by (rewrite <- Hf; apply vnorm_zero_eq; exact Hz').
    rewrite Hs in *. apply IH. exact Hr.
Qed.
Lemma point_along_f0 pl h t : pv pl = h :: t -> 0 < total_length ROps pl -> point_along_one ROps pl 0 = Some h.
Proof.
  intros E HL. rewrite (point_along_path_spec pl h t 0 E) by lra || exact HL.
  rewrite Rmult_0_r, walk_0; [reflexivity|]. apply (pl_segments_chained pl h t E).
Qed.

(* the specification is 1-Lipschitz in the arc length: the point moves no faster than the length travelled *)
Lemma walk_lipschitz_ordered : forall segs start, chained start segs -> forall l1 l2, 0 <= l1 <= l2 ->
  vnorm ROps (vsub ROps (walk start segs l2) (walk start segs l1)) <= l2 - l1.
Proof.
  induction segs as [|s r IH]; intros start H l1 l2 Hl.
  - cbn [walk]. rewrite vsub_self, vnorm_zero_vec. lra.
  - destruct H as [Hf Hr]. cbn [walk]. set (len := seg_len ROps s) in *.
    pose proof (seg_len_nonneg s) as Hlen. fold len in Hlen.
    destruct (Rltb_spec l2 len) as [H2|H2]; destruct (Rltb_spec l1 len) as [H1|H1]; try lra.
    + (* both inside this segment *)
      replace (vsub ROps (vadd ROps (fst s) (vscale ROps (l2 / len) (vsub ROps (snd s) (fst s))))
                         (vadd ROps (fst s) (vscale ROps (l1 / len) (vsub ROps (snd s) (fst s)))))
        with (vscale ROps ((l2 - l1) / len) (vsub ROps (snd s) (fst s)))
        by (destruct (fst s), (vsub ROps (snd s) (fst s)); vec_eq; field; lra).
      rewrite vnorm_scale_pos by (apply Rmult_le_pos; [lra|left; apply Rinv_0_lt_compat; lra]).
      change (vnorm ROps (vsub ROps (snd s) (fst s))) with len. right. field. lra.
    + (* l1 inside, l2 beyond: go through the end vertex of this segment *)
      set (P1 := vadd ROps (fst s) (vscale ROps (l1 / len) (vsub ROps (snd s) (fst s)))).
      eapply Rle_trans; [apply (vnorm_triangle_pts P1 (snd s))|].
      assert (Hb : vnorm ROps (vsub ROps (snd s) P1) = len - l1).
      { replace (vsub ROps (snd s) P1) with (vscale ROps ((len - l1) / len) (vsub ROps (snd s) (fst s)))
          by (unfold P1; destruct (fst s), (snd s); vec_eq; field; lra).
        rewrite vnorm_scale_pos by (apply Rmult_le_pos; [lra|left; apply Rinv_0_lt_compat; lra]).
        change (vnorm ROps (vsub ROps (snd s) (fst s))) with len. field. lra. }
      pose proof (IH (snd s) Hr 0 (l2 - len) ltac:(lra)) as HI. rewrite (walk_0 r (snd s) Hr) in HI. lra.
    + (* both beyond *)
      pose proof (IH (snd s) Hr (l1 - len) (l2 - len) ltac:(lra)) as HI. lra.
Qed.
Lemma walk_lipschitz segs start l1 l2 : chained start segs -> 0 <= l1 -> 0 <= l2 ->
  vnorm ROps (vsub ROps (walk start segs l1) (walk start segs l2)) <= Rabs (l1 - l2).
Proof.
  intros H H1 H2. destruct (Rle_or_lt l2 l1) as [Hle|Hlt].
  - rewrite Rabs_right by lra. apply walk_lipschitz_ordered; [exact H|lra].
  - rewrite Rabs_left by lra. rewrite vnorm_sym. pose proof (walk_lipschitz_ordered segs start H l1 l2 ltac:(lra)). lra.
Qed.
(* hence point_along_path varies continuously with f: |p(f1) - p(f2)| <= L |f1 - f2| *)
Lemma point_along_lipschitz pl h t f1 f2 p1 p2 : pv pl = h :: t -> 0 < total_length ROps pl ->
  0 <= f1 <= 1 -> 0 <= f2 <= 1 ->
  point_along_one ROps pl f1 = Some p1 -> point_along_one ROps pl f2 = Some p2 ->
  vnorm ROps (vsub ROps p1 p2) <= total_length ROps pl * Rabs (f1 - f2).
Proof.
  intros E HL H1 H2 E1 E2.
  rewrite (point_along_path_spec pl h t f1 E H1 HL) in E1. rewrite (point_along_path_spec pl h t f2 E H2 HL) in E2.
  injection E1 as <-. injection E2 as <-.
  eapply Rle_trans; [apply walk_lipschitz; [apply (pl_segments_chained pl h t E)|nra|nra]|].
  rewrite <- Rmult_minus_distr_l, Rabs_mult, (Rabs_right (total_length ROps pl)) by lra. lra.
Qed.

(* ---- subdivide_segments as a whole: blocks of num rows per segment, then the last vertex ---- *)
Lemma flat_map_block {A B} (f : A -> list B) n : forall l, (forall x, In x l -> length (f x) = n) ->
  length (flat_map f l) = (length l * n)%nat /\
  forall e x k, nth_error l e = Some x -> (k < n)%nat -> nth_error (flat_map f l) (e * n + k) = nth_error (f x) k.
Proof.
  induction l as [|y r IH]; intros H.
  - split; [reflexivity|]. intros [|e] x k Hx; discriminate.
  - assert (Hy : length (f y) = n) by (apply H; left; reflexivity).
    destruct (IH (fun x Hx => H x (or_intror Hx))) as [IL IN]. split.
    + cbn [flat_map length]. rewrite app_length, IL, Hy. lia.
    + intros [|e] x k Hx Hk; cbn [flat_map nth_error] in *.
      * injection Hx as <-. cbn [Nat.mul Nat.add]. apply nth_error_app1. lia.
      * rewrite nth_error_app2 by (rewrite Hy; lia). rewrite Hy.
        replace (S e * n + k - n)%nat with (e * n + k)%nat by lia. apply IN; assumption.
Qed.
Lemma subdiv_seg_rows_length num s : length (subdiv_seg_rows ROps num s) = num.
Proof.
  unfold subdiv_seg_rows. destruct (neqb ROps _ _); [apply repeat_length|]. rewrite map_length, seq_length. reflexivity.
Qed.
Lemma subdivide_segments_spec h t num :
  (forall a b, In (a, b) (open_segments (h :: t)) -> a <> b) ->
  length (subdivide_segments ROps (h :: t) num) = S (length t * num) /\
  (forall e a b k, nth_error (open_segments (h :: t)) e = Some (a, b) -> (k < num)%nat ->
     nth_error (subdivide_segments ROps (h :: t) num) (e * num + k) =
     Some (Some (vadd ROps a (vscale ROps (IZR (Z.of_nat k) / IZR (Z.of_nat num)) (vsub ROps b a))))) /\
  nth_error (subdivide_segments ROps (h :: t) num) (length t * num) = Some (Some (last t h)).
Proof.
  intros Hpos. unfold subdivide_segments.
  destruct (flat_map_block (subdiv_seg_rows ROps num) num (open_segments (h :: t))
              (fun x _ => subdiv_seg_rows_length num x)) as [HL HN].
  assert (Hne : length (open_segments (h :: t)) = length t).
  { unfold open_segments. rewrite zip_length. cbn [length]. lia. }
  rewrite Hne in HL. split; [rewrite app_length, HL; cbn; lia|]. split.
  - intros e a b k He Hk. rewrite nth_error_app1.
    + rewrite (HN e (a, b) k He Hk). apply subdiv_seg_rows_spec; [|exact Hk].
      apply Hpos. eapply nth_error_In. exact He.
    + rewrite HL. assert (e < length t)%nat by (rewrite <- Hne; apply nth_error_Some; congruence). nia.
  - rewrite nth_error_app2 by lia. rewrite HL, Nat.sub_diag. reflexivity.
Qed.

(* ---- with_segments_bisected ---- *)
Lemma seg_mid_half a b : vsub ROps (seg_mid ROps (a, b)) a = vscale ROps (1 / 2) (vsub ROps b a) /\
                         vsub ROps b (seg_mid ROps (a, b)) = vscale ROps (1 / 2) (vsub ROps b a).
Proof. unfold seg_mid. cbn [fst snd]. unfold n2. rops. destruct a, b. split; vec_eq; field. Qed.
Lemma plen_repeat_pt m b : forall il, Forall (eq m) il -> plen m (il ++ [b]) = vnorm ROps (vsub ROps b m).
Proof.
  induction il as [|x r IH]; intros H; [cbn; lra|].
  inversion H as [|? ? Hx Hr]; subst. cbn [app plen]. rewrite vsub_self, vnorm_zero_vec, IH by exact Hr. lra.
Qed.
(* any number of copies of the midpoint between a and b is a straight run *)
Lemma mid_run_straight a b il : Forall (eq (seg_mid ROps (a, b))) il -> straight a il b.
Proof.
  intros H. unfold straight. destruct il as [|x r]; [cbn; lra|].
  inversion H as [|? ? Hx Hr]; subst. cbn [app plen]. rewrite plen_repeat_pt by exact Hr.
  destruct (seg_mid_half a b) as [H1 H2]. rewrite H1, H2, !vnorm_scale_pos by lra. lra.
Qed.

Fixpoint mids_ok (k : nat) (cur : vec3 R) (t : list (vec3 R)) (ips : list (nat * vec3 R)) : Prop :=
  match t with
  | [] => points_at k ips = []
  | x :: t' => Forall (eq (seg_mid ROps (cur, x))) (points_at k ips) /\ mids_ok (S k) x t' ips
  end.
Lemma mids_ok_plen ips cl : forall t k cur, mids_ok k cur t ips ->
  plen cur (insert_multi_from k t ips ++ cl) = plen cur (t ++ cl).
Proof.
  induction t as [|x t IH]; intros k cur H; cbn [mids_ok insert_multi_from] in *.
  - rewrite H. reflexivity.
  - destruct H as [Hm Hr].
    replace ((points_at k ips ++ x :: insert_multi_from (S k) t ips) ++ cl)
      with ((points_at k ips ++ [x]) ++ (insert_multi_from (S k) t ips ++ cl))
      by (rewrite <- ?app_assoc; cbn [app]; reflexivity).
    rewrite plen_app, last_last. pose proof (mid_run_straight cur x _ Hm) as Hs. unfold straight in Hs.
    rewrite Hs, IH by exact Hr. cbn [app plen]. lra.
Qed.

Section Bisect.
  Context (pl : polyline R) (h : vec3 R) (t : list (vec3 R)) (seg_idx : list nat).
  Context (Epl : pv pl = h :: t).
  Context (Hrange : forall i, In i seg_idx -> (i < length (pl_segments pl))%nat).
  Let segs := pl_segments pl.
  Let ips := map (fun i => (edge_end pl i, match nth_error segs i with Some s => seg_mid ROps s | None => vzero ROps end)) seg_idx.

  (* every point inserted before vertex k is the midpoint of a chosen segment that ends at vertex k *)
  Lemma points_at_inv k p : In p (points_at k ips) ->
    exists i s, In i seg_idx /\ nth_error segs i = Some s /\ edge_end pl i = k /\ p = seg_mid ROps s.
  Proof.
    unfold points_at. intros H. apply in_map_iff in H. destruct H as [[k' p'] [Hp Hf]]. cbn in Hp. subst p'.
    apply filter_In in Hf. destruct Hf as [Hin Hk]. cbn in Hk. apply Nat.eqb_eq in Hk. subst k'.
    unfold ips in Hin. apply in_map_iff in Hin. destruct Hin as [i [Hi Hin]]. injection Hi as Hk Hp.
    specialize (Hrange i Hin). destruct (nth_error segs i) as [s|] eqn:Es.
    - exists i, s. repeat split; try assumption; symmetry; assumption.
    - apply nth_error_None in Es. unfold segs in Es. lia.
  Qed.
  (* and every chosen segment has its midpoint inserted before its end vertex *)
  Lemma points_at_intro i s : In i seg_idx -> nth_error segs i = Some s ->
    In (seg_mid ROps s) (points_at (edge_end pl i) ips).
  Proof.
    intros Hin Es. unfold points_at. apply in_map_iff. exists (edge_end pl i, seg_mid ROps s). split; [reflexivity|].
    apply filter_In. split; [|cbn; apply Nat.eqb_refl].
    unfold ips. apply in_map_iff. exists i. rewrite Es. split; [reflexivity|exact Hin].
  Qed.

  Lemma segs_length : length segs = if pclosed pl then S (length t) else length t.
  Proof. unfold segs. rewrite pl_segments_length, Epl. reflexivity. Qed.
  (* segment j with j+1 < n joins vertex j and vertex j+1 *)
  Lemma seg_inner j cur x : nth_error (h :: t) j = Some cur -> nth_error (h :: t) (S j) = Some x ->
    nth_error segs j = Some (cur, x).
  Proof.
    intros Hc Hx. unfold segs, pl_segments. rewrite Epl.
    assert (Hz : nth_error (zip (h :: t) t) j = Some (cur, x)).
    { rewrite nth_error_zip, Hc. cbn [nth_error] in Hx. rewrite Hx. reflexivity. }
    destruct (pclosed pl); [|exact Hz]. rewrite nth_error_app1; [exact Hz|]. apply nth_error_Some. congruence.
  Qed.
  Lemma edge_end_S i j : (i < length segs)%nat -> edge_end pl i = S j -> i = j.
  Proof.
    unfold edge_end. rewrite Epl. cbn [length]. destruct (pclosed pl && Nat.eqb (S i) (S (length t))); [discriminate|].
    intros _ H. injection H as ->. reflexivity.
  Qed.

  Lemma mids_inner j cur x : nth_error (h :: t) j = Some cur -> nth_error (h :: t) (S j) = Some x ->
    Forall (eq (seg_mid ROps (cur, x))) (points_at (S j) ips).
  Proof.
    intros Hc Hx. apply Forall_forall. intros p Hp.
    destruct (points_at_inv _ _ Hp) as [i [s [Hin [Es [Hk ->]]]]].
    apply edge_end_S in Hk; [|apply Hrange; exact Hin]. subst i.
    rewrite (seg_inner j cur x Hc Hx) in Es. injection Es as <-. reflexivity.
  Qed.
  Lemma mids_trailing : points_at (S (length t)) ips = [].
  Proof.
    destruct (points_at (S (length t)) ips) as [|p r] eqn:E; [reflexivity|exfalso].
    assert (Hp : In p (points_at (S (length t)) ips)) by (rewrite E; left; reflexivity).
    destruct (points_at_inv _ _ Hp) as [i [s [Hin [Es [Hk _]]]]].
    pose proof (Hrange i Hin) as Hr. fold segs in Hr. pose proof Hk as Hk'. apply edge_end_S in Hk'; [|exact Hr]. subst i.
    rewrite segs_length in Hr. unfold edge_end in Hk. rewrite Epl in Hk. cbn [length] in Hk.
    destruct (pclosed pl); [rewrite Nat.eqb_refl in Hk; discriminate|lia].
  Qed.
  Lemma mids_ok_tail : forall t' pre cur, h :: t = pre ++ cur :: t' -> mids_ok (S (length pre)) cur t' ips.
  Proof.
    induction t' as [|x t' IH]; intros pre cur E; cbn [mids_ok].
    - assert (Hl : length (h :: t) = S (length pre)) by (rewrite E, app_length; cbn; lia).
      cbn [length] in Hl. injection Hl as Hl. rewrite <- Hl. apply mids_trailing.
    - split.
      + apply mids_inner; rewrite E.
        * rewrite nth_error_app2 by lia. rewrite Nat.sub_diag. reflexivity.
        * rewrite nth_error_app2 by lia. replace (S (length pre) - length pre)%nat with 1%nat by lia. reflexivity.
      + replace (S (S (length pre))) with (S (length (pre ++ [cur]))) by (rewrite app_length; cbn; lia).
        apply IH. rewrite E, <- app_assoc. reflexivity.
  Qed.

  (* what is inserted before the first vertex: nothing if open, midpoints of the closing edge if closed *)
  Lemma mids_front : if pclosed pl then Forall (eq (seg_mid ROps (last t h, h))) (points_at 0 ips)
                     else points_at 0 ips = [].
  Proof.
    assert (Hall : forall p, In p (points_at 0 ips) -> pclosed pl = true /\ p = seg_mid ROps (last t h, h)).
    { intros p Hp. destruct (points_at_inv _ _ Hp) as [i [s [Hin [Es [Hk ->]]]]].
      unfold edge_end in Hk. rewrite Epl in Hk. cbn [length] in Hk.
      destruct (pclosed pl) eqn:Ec; [|discriminate]. cbn [andb] in Hk.
      destruct (Nat.eqb_spec (S i) (S (length t))) as [Ei|Ei]; [|discriminate]. injection Ei as ->.
      split; [reflexivity|]. f_equal. unfold segs, pl_segments in Es. rewrite Epl, Ec in Es.
      assert (Hzl : length (zip (h :: t) t) = length t) by (rewrite zip_length; cbn [length]; lia).
      rewrite nth_error_app2 in Es by lia. rewrite Hzl, Nat.sub_diag in Es.
      injection Es as <-. reflexivity. }
    destruct (pclosed pl) eqn:Ec.
    - apply Forall_forall. intros p Hp. symmetry. apply (Hall p Hp).
    - destruct (points_at 0 ips) as [|p r]; [reflexivity|]. destruct (Hall p (or_introl eq_refl)). discriminate.
  Qed.

  Lemma bisect_length_preserved_aux :
    total_length ROps (MkPolyline (insert_multi_from 0 (h :: t) ips) (pclosed pl)) = total_length ROps pl.
  Proof.
    rewrite (total_length_plen pl h t Epl).
    pose proof (mids_ok_tail t [] h eq_refl) as Hok. cbn [length] in Hok.
    pose proof mids_front as Hf. cbn [insert_multi_from].
    destruct (pclosed pl) eqn:Ec.
    - destruct (points_at 0 ips) as [|m P0] eqn:E0.
      + cbn [app]. rewrite (total_length_plen _ h (insert_multi_from 1 t ips)) by reflexivity. cbn [pclosed].
        apply mids_ok_plen. exact Hok.
      + inversion Hf as [|? ? Hm HP]; subst.
        rewrite (total_length_plen _ (seg_mid ROps (last t h, h)) (P0 ++ h :: insert_multi_from 1 t ips)) by reflexivity.
        cbn [pclosed]. set (m := seg_mid ROps (last t h, h)) in *.
        replace ((P0 ++ h :: insert_multi_from 1 t ips) ++ [m]) with ((P0 ++ [h]) ++ (insert_multi_from 1 t ips ++ [m]))
          by (rewrite <- ?app_assoc; cbn [app]; reflexivity).
        rewrite plen_app, last_last, (plen_repeat_pt m h P0 HP), (mids_ok_plen ips [m] t 1%nat h Hok).
        rewrite !plen_app. cbn [plen].
        destruct (seg_mid_half (last t h) h) as [H1 H2]. fold m in H1, H2.
        rewrite H1, H2, !vnorm_scale_pos by lra. lra.
    - rewrite Hf. cbn [app]. rewrite (total_length_plen _ h (insert_multi_from 1 t ips)) by reflexivity. cbn [pclosed].
      apply mids_ok_plen. exact Hok.
  Qed.
End Bisect.

Lemma bisect_inv pl idx r : bisect ROps pl idx = Ok r ->
  (forall i, In i idx -> (i < length (pl_segments pl))%nat) /\
  fst (fst r) = MkPolyline (insert_multi_from 0 (pv pl) (bisect_ips pl idx)) (pclosed pl).
Proof.
  unfold bisect. destruct (existsb _ idx) eqn:E; [discriminate|]. intros H; injection H as <-. split; [|reflexivity].
  intros i Hi. destruct (Nat.ltb_spec i (length (pl_segments pl))) as [Hlt|Hge]; [exact Hlt|exfalso].
  assert (Ht : existsb (fun i => negb (Nat.ltb i (length (pl_segments pl)))) idx = true).
  { apply existsb_exists. exists i. split; [exact Hi|]. apply negb_true_iff. apply Nat.ltb_ge. exact Hge. }
  rewrite Ht in E. discriminate.
Qed.
Lemma bisect_out_of_range pl idx i : In i idx -> (length (pl_segments pl) <= i)%nat -> bisect ROps pl idx = Raise IndexError.
Proof.
  intros Hi Hge. unfold bisect.
  replace (existsb _ idx) with true; [reflexivity|]. symmetry. apply existsb_exists. exists i. split; [exact Hi|].
  apply negb_true_iff. apply Nat.ltb_ge. exact Hge.
Qed.

(* with_segments_bisected: same closedness, same total length; the inserted points are exactly the midpoints of the
   chosen segments, each placed directly before the end vertex of its segment (for the closing edge: before
   vertex 0), whatever the order of the index set *)
Lemma bisect_spec pl idx r : bisect ROps pl idx = Ok r ->
  pclosed (fst (fst r)) = pclosed pl /\
  pv (fst (fst r)) = insert_multi_from 0 (pv pl) (bisect_ips pl idx) /\
  total_length ROps (fst (fst r)) = total_length ROps pl /\
  (forall i s, In i idx -> nth_error (pl_segments pl) i = Some s ->
     In (seg_mid ROps s) (points_at (edge_end pl i) (bisect_ips pl idx))) /\
  (forall k p, In p (points_at k (bisect_ips pl idx)) ->
     exists i s, In i idx /\ nth_error (pl_segments pl) i = Some s /\ edge_end pl i = k /\ p = seg_mid ROps s).
Proof.
  intros H. destruct (bisect_inv pl idx r H) as [Hr E]. rewrite E. cbn [pclosed pv].
  split; [reflexivity|]. split; [reflexivity|].
  destruct (pv pl) as [|h t] eqn:Ev.
  - assert (idx = []).
    { destruct idx as [|i idx]; [reflexivity|]. specialize (Hr i (or_introl eq_refl)).
      unfold pl_segments in Hr. rewrite Ev in Hr. cbn in Hr. lia. }
    subst idx. split; [|split].
    + rewrite (total_length_nil pl Ev). apply total_length_nil. reflexivity.
    + intros i s [].
    + intros k p [].
  - split; [exact (bisect_length_preserved_aux pl h t idx Ev Hr)|]. split.
    + intros i s. exact (points_at_intro pl idx i s).
    + intros k p. exact (points_at_inv pl idx Hr k p).
Qed.

(* ---- statements in the exact form used by props/C08.v ---- *)
Lemma path_end_is_end_of_last_segment pl h t : pv pl = h :: t ->
  path_end pl = Some (segs_end h (pl_segments pl)) /\
  path_end pl = Some (if pclosed pl then h else last t h).
Proof. intros E. split; [exact (path_end_is_segs_end pl h t E)|]. unfold path_end. rewrite E. reflexivity. Qed.
Lemma subdivide_inserted_even (n : Z) s j : (1 < n)%Z -> (j < Z.to_nat n - 1)%nat ->
  nth_error (inserted_on ROps n s) j =
  Some (vadd ROps (vscale ROps (IZR (Z.of_nat (S j)) / IZR n) (vsub ROps (snd s) (fst s))) (fst s)) /\
  length (inserted_on ROps n s) = (Z.to_nat n - 1)%nat.
Proof. intros Hn Hj. exact (conj (inserted_on_nth n s j Hn Hj) (inserted_on_length n s)). Qed.
Lemma subdivide_keeps_originals (vs : list (vec3 R)) ins k v il :
  nth_error vs k = Some v -> nth_error ins k = Some il ->
  exists i, nth_error (index_map_from 0 ins) k = Some i /\
    nth_error (interleave vs ins) i = Some v /\
    (forall j p, nth_error il j = Some p -> nth_error (interleave vs ins) (S (i + j)) = Some p).
Proof.
  intros Hv Hi. destruct (interleave_spec vs ins [] k v il Hv Hi) as [i [H1 [H2 [H3 _]]]].
  exists i. exact (conj H1 (conj H2 H3)).
Qed.
Lemma subdivide_indices_increase (ins : list (list (vec3 R))) k i j :
  nth_error (index_map_from 0 ins) k = Some i -> nth_error (index_map_from 0 ins) (S k) = Some j -> (i < j)%nat.
Proof. exact (index_map_increasing ins 0%nat k i j). Qed.
Lemma subdivide_closedness pl mx mask r : subdivided_by_length ROps pl mx mask = Ok r ->
  pclosed (fst r) = pclosed pl /\
  pv (fst r) = interleave (pv pl) (inserts_per_vertex ROps pl mx
                 (match mask with Some m => m | None => repeat true (length (pl_segments pl)) end)) /\
  snd r = index_map_from 0 (inserts_per_vertex ROps pl mx
                 (match mask with Some m => m | None => repeat true (length (pl_segments pl)) end)).
Proof.
  intros H. unfold subdivided_by_length in H. destruct mask as [m|].
  - destruct (Nat.eqb (length m) (length (pl_segments pl))); [|discriminate]. injection H as <-. repeat split; reflexivity.
  - injection H as <-. repeat split; reflexivity.
Qed.
Lemma subdivide_mask_refused pl mx m : length m <> length (pl_segments pl) ->
  subdivided_by_length ROps pl mx (Some m) = Raise ValueError.
Proof. intros H. unfold subdivided_by_length. destruct (Nat.eqb_spec (length m) (length (pl_segments pl))); [contradiction|reflexivity]. Qed.

(* ---- with_segments_bisected: the reported new indices of the original vertices ---- *)
Fixpoint cnt_from (ips : list (nat * vec3 R)) (k0 j : nat) : nat :=
  match j with
  | 0%nat => length (points_at k0 ips)
  | S j' => (length (points_at k0 ips) + cnt_from ips (S k0) j')%nat
  end.
Lemma insert_multi_nth ips : forall (vs : list (vec3 R)) k0 pre j v, nth_error vs j = Some v ->
  nth_error (pre ++ insert_multi_from k0 vs ips) (length pre + cnt_from ips k0 j + j) = Some v.
Proof.
  induction vs as [|v0 r IH]; intros k0 pre j v Hj; [destruct j; discriminate|].
  cbn [insert_multi_from]. destruct j as [|j]; cbn [nth_error cnt_from] in *.
  - injection Hj as <-. rewrite nth_error_app2 by lia. rewrite nth_error_app2 by lia.
    replace (length pre + length (points_at k0 ips) + 0 - length pre - length (points_at k0 ips))%nat with 0%nat by lia.
    reflexivity.
  - specialize (IH (S k0) (pre ++ points_at k0 ips ++ [v0]) j v Hj).
    rewrite !app_length in IH. cbn [length] in IH.
    replace (length pre + (length (points_at k0 ips) + cnt_from ips (S k0) j) + S j)%nat
      with (length pre + (length (points_at k0 ips) + 1) + cnt_from ips (S k0) j + j)%nat by lia.
    rewrite <- IH. f_equal. rewrite <- !app_assoc. reflexivity.
Qed.

(* counting insertions *)
Lemma count_le_split (ips : list (nat * vec3 R)) q :
  length (filter (fun ip => Nat.leb (fst ip) q) ips) =
  (length (filter (fun ip => Nat.ltb (fst ip) q) ips) + length (points_at q ips))%nat.
Proof.
  unfold points_at. rewrite map_length. induction ips as [|[k p] r IH]; [reflexivity|].
  cbn [filter fst]. destruct (Nat.leb_spec k q), (Nat.ltb_spec k q), (Nat.eqb_spec k q); cbn [length]; lia.
Qed.
Lemma count_lt_S (ips : list (nat * vec3 R)) q :
  length (filter (fun ip => Nat.ltb (fst ip) (S q)) ips) = length (filter (fun ip => Nat.leb (fst ip) q) ips).
Proof.
  reflexivity.
Qed.
Lemma count_lt_0 (ips : list (nat * vec3 R)) : length (filter (fun ip => Nat.ltb (fst ip) 0) ips) = 0%nat.
Proof. induction ips as [|x y IH]; [reflexivity|exact IH]. Qed.
Lemma cnt_from_count ips : forall j k0,
  (cnt_from ips k0 j + length (filter (fun ip => Nat.ltb (fst ip) k0) ips))%nat = count_le ips (k0 + j).
Proof.
  unfold count_le. induction j as [|j IH]; intros k0; cbn [cnt_from].
  - rewrite Nat.add_0_r, count_le_split. lia.
  - specialize (IH (S k0)). rewrite count_lt_S, count_le_split in IH.
    replace (k0 + S j)%nat with (S k0 + j)%nat by lia. lia.
Qed.
Fixpoint before_from (ips : list (nat * vec3 R)) (k0 j : nat) : nat :=
  match j with 0%nat => 0%nat | S j' => (length (points_at k0 ips) + before_from ips (S k0) j')%nat end.
Lemma before_from_count ips : forall j k0,
  (before_from ips k0 j + length (filter (fun ip => Nat.ltb (fst ip) k0) ips))%nat =
  length (filter (fun ip => Nat.ltb (fst ip) (k0 + j)) ips).
Proof.
  induction j as [|j IH]; intros k0; cbn [before_from]; [rewrite Nat.add_0_r; reflexivity|].
  specialize (IH (S k0)). rewrite count_lt_S, count_le_split in IH.
  replace (k0 + S j)%nat with (S k0 + j)%nat by lia. lia.
Qed.
(* the r-th point inserted before vertex j sits after all earlier insertions and the j earlier vertices *)
Lemma insert_multi_at ips : forall (vs : list (vec3 R)) k0 pre j r p, (j <= length vs)%nat ->
  nth_error (points_at (k0 + j) ips) r = Some p ->
  nth_error (pre ++ insert_multi_from k0 vs ips) (length pre + before_from ips k0 j + j + r) = Some p.
Proof.
  induction vs as [|v0 rest IH]; intros k0 pre j r p Hj Hp.
  - cbn [length] in Hj. assert (j = 0%nat) by lia. subst j. rewrite Nat.add_0_r in Hp.
    cbn [insert_multi_from before_from]. rewrite nth_error_app2 by lia.
    replace (length pre + 0 + 0 + r - length pre)%nat with r by lia. exact Hp.
  - cbn [insert_multi_from]. destruct j as [|j]; cbn [before_from].
    + rewrite Nat.add_0_r in Hp. rewrite nth_error_app2 by lia.
      replace (length pre + 0 + 0 + r - length pre)%nat with r by lia.
      rewrite nth_error_app1 by (apply nth_error_Some; congruence). exact Hp.
    + replace (k0 + S j)%nat with (S k0 + j)%nat in Hp by lia. cbn [length] in Hj.
      specialize (IH (S k0) (pre ++ points_at k0 ips ++ [v0]) j r p ltac:(lia) Hp).
      rewrite !app_length in IH. cbn [length] in IH.
      replace (length pre + (length (points_at k0 ips) + before_from ips (S k0) j) + S j + r)%nat
        with (length pre + (length (points_at k0 ips) + 1) + before_from ips (S k0) j + j + r)%nat by lia.
      rewrite <- IH. f_equal. rewrite <- !app_assoc. reflexivity.
Qed.
(* the j-th given point is, among the points given for its index, the one whose rank is the number of earlier
   points with the same index (np.insert is stable) *)
Lemma points_at_rank q p : forall (ips : list (nat * vec3 R)) j, nth_error ips j = Some (q, p) ->
  nth_error (points_at q ips) (length (filter (fun ip => Nat.eqb (fst ip) q) (firstn j ips))) = Some p.
Proof.
  unfold points_at. induction ips as [|[q0 p0] r IH]; intros j Hj; [destruct j; discriminate|].
  destruct j as [|j]; cbn [nth_error] in Hj.
  - injection Hj as -> ->. cbn [firstn filter length fst]. rewrite Nat.eqb_refl. reflexivity.
  - cbn [firstn filter fst]. destruct (Nat.eqb_spec q0 q); cbn [map length nth_error snd]; apply IH; exact Hj.
Qed.
Lemma nth_error_combine_seq {A} (l : list A) : forall a j x, nth_error l j = Some x ->
  nth_error (combine (seq a (length l)) l) j = Some ((a + j)%nat, x).
Proof.
  induction l as [|y r IH]; intros a j x Hj; [destruct j; discriminate|].
  cbn [length seq combine]. destruct j as [|j]; cbn [nth_error] in *.
  - injection Hj as <-. rewrite Nat.add_0_r. reflexivity.
  - rewrite (IH (S a) j x Hj). f_equal. f_equal. lia.
Qed.
Lemma nth_map_seq {A} (f : nat -> A) n k : (k < n)%nat -> nth_error (map f (seq 0 n)) k = Some (f k).
Proof.
  intros H. rewrite nth_error_map. rewrite nth_error_nth' with (d := 0%nat) by (rewrite seq_length; exact H).
  rewrite seq_nth by exact H. reflexivity.
Qed.
Lemma edge_end_in_range (pl : polyline R) i : (i < length (pl_segments pl))%nat -> (edge_end pl i < length (pv pl))%nat.
Proof.
  intros H. rewrite pl_segments_length in H. unfold edge_end.
  destruct (pv pl) as [|h t]; [lia|]. cbn [length] in *.
  destruct (pclosed pl); cbn [andb]; [destruct (Nat.eqb_spec (S i) (S (length t))); lia|lia].
Qed.

(* ret_new_indices, for EVERY index list (any order, repetitions allowed): each original vertex and each inserted
   midpoint is found at its reported new index *)
Lemma bisect_new_indices pl idx r : bisect ROps pl idx = Ok r ->
  (forall k v, nth_error (pv pl) k = Some v ->
     exists i, nth_error (snd (fst r)) k = Some i /\ nth_error (pv (fst (fst r))) i = Some v) /\
  (forall j i s, nth_error idx j = Some i -> nth_error (pl_segments pl) i = Some s ->
     exists m, nth_error (snd r) j = Some m /\ nth_error (pv (fst (fst r))) m = Some (seg_mid ROps s)).
Proof.
  intros H. unfold bisect in H. destruct (existsb _ idx); [discriminate|]. injection H as <-.
  cbn [fst snd pv].
  set (ips := map (fun i => (edge_end pl i, match nth_error (pl_segments pl) i with Some s => seg_mid ROps s | None => vzero ROps end)) idx).
  split.
  - intros k v Hk. assert (Hlt : (k < length (pv pl))%nat) by (apply nth_error_Some; congruence).
    exists (k + count_le ips k)%nat. split; [apply (nth_map_seq (fun k0 => (k0 + count_le ips k0)%nat)); exact Hlt|].
    pose proof (insert_multi_nth ips (pv pl) 0%nat [] k v Hk) as HI. cbn [app length] in HI.
    pose proof (cnt_from_count ips k 0%nat) as HC. rewrite count_lt_0 in HC.
    cbn [Nat.add] in HC. rewrite Nat.add_0_r in HC. rewrite HC in HI.
    replace (k + count_le ips k)%nat with (0 + count_le ips k + k)%nat by lia. exact HI.
  - intros j i s Hj Hs.
    assert (Hip : nth_error ips j = Some (edge_end pl i, seg_mid ROps s)).
    { unfold ips. rewrite nth_error_map, Hj. cbn [option_map]. rewrite Hs. reflexivity. }
    set (q := edge_end pl i) in *.
    assert (Hq : (q < length (pv pl))%nat) by (apply edge_end_in_range; apply nth_error_Some; congruence).
    exists (inserted_pos ips j q). split.
    + rewrite nth_error_map, (nth_error_combine_seq ips 0%nat j _ Hip). reflexivity.
    + pose proof (points_at_rank q (seg_mid ROps s) ips j Hip) as Hr.
      pose proof (insert_multi_at ips (pv pl) 0%nat [] q _ _ ltac:(lia) Hr) as HI. cbn [app length] in HI.
      pose proof (before_from_count ips q 0%nat) as HB. rewrite count_lt_0 in HB.
      cbn [Nat.add] in HB. rewrite Nat.add_0_r in HB. rewrite HB in HI.
      unfold inserted_pos.
      replace (q + length (filter (fun ip => Nat.ltb (fst ip) q) ips) +
               length (filter (fun ip => Nat.eqb (fst ip) q) (firstn j ips)))%nat
        with (0 + length (filter (fun ip => Nat.ltb (fst ip) q) ips) + q +
              length (filter (fun ip => Nat.eqb (fst ip) q) (firstn j ips)))%nat by lia.
      exact HI.
Qed.

(* ---- subdivided_by_length: one list of insertions per vertex, hence every original vertex at its reported index ---- *)
Lemma inserts_per_vertex_length pl mx mask : length mask = length (pl_segments pl) ->
  length (inserts_per_vertex ROps pl mx mask) = length (pv pl).
Proof.
  intros Hl. unfold inserts_per_vertex, map2. rewrite app_length, map_length, zip_length, Hl, Nat.min_id.
  rewrite pl_segments_length. destruct (pv pl) as [|h t]; [destruct (pclosed pl); reflexivity|].
  destruct (pclosed pl); cbn [length]; lia.
Qed.
Lemma subdivide_originals_at_indices pl mx mask r k v : subdivided_by_length ROps pl mx mask = Ok r ->
  nth_error (pv pl) k = Some v ->
  exists i il, nth_error (snd r) k = Some i /\ nth_error (pv (fst r)) i = Some v /\
    nth_error (inserts_per_vertex ROps pl mx
                 (match mask with Some m => m | None => repeat true (length (pl_segments pl)) end)) k = Some il /\
    (forall j p, nth_error il j = Some p -> nth_error (pv (fst r)) (S (i + j)) = Some p).
Proof.
  intros H Hk.
  set (m := match mask with Some m => m | None => repeat true (length (pl_segments pl)) end).
  assert (Hm : length m = length (pl_segments pl) /\ r = (MkPolyline (interleave (pv pl) (inserts_per_vertex ROps pl mx m)) (pclosed pl), index_map_from 0 (inserts_per_vertex ROps pl mx m))).
  { unfold subdivided_by_length in H. unfold m. destruct mask as [m0|].
    - destruct (Nat.eqb_spec (length m0) (length (pl_segments pl))) as [E|E]; [|discriminate]. injection H as <-. split; [exact E|reflexivity].
    - injection H as <-. split; [apply repeat_length|reflexivity]. }
  destruct Hm as [Hl ->]. cbn [fst snd pv].
  assert (Hlt : (k < length (inserts_per_vertex ROps pl mx m))%nat)
    by (rewrite (inserts_per_vertex_length pl mx m Hl); apply nth_error_Some; congruence).
  destruct (nth_error (inserts_per_vertex ROps pl mx m) k) as [il|] eqn:Ei; [|apply nth_error_None in Ei; lia].
  destruct (interleave_spec (pv pl) _ [] k v il Hk Ei) as [i [H1 [H2 [H3 _]]]].
  exists i, il. repeat split; assumption.
Qed.

(* ---- lengths / centroid statement split into its definitional and its substantive part ---- *)
Lemma lengths_shape pl :
  (forall k, nth_error (segment_lengths ROps pl) k =
             option_map (fun s => vnorm ROps (vsub ROps (snd s) (fst s))) (nth_error (pl_segments pl) k)) /\
  total_length ROps pl = nsum ROps (segment_lengths ROps pl).
Proof. exact (conj (proj1 (lengths_sum_centroid pl)) (proj1 (proj2 (lengths_sum_centroid pl)))). Qed.
Lemma centroid_spec pl :
  0 <= total_length ROps pl /\
  (forall c, path_centroid ROps pl = Ok c ->
     total_length ROps pl <> 0 /\
     vscale ROps (total_length ROps pl) c =
       vsum ROps (map (fun s => vscale ROps (seg_len ROps s) (vscale ROps (1 / 2) (vadd ROps (fst s) (snd s)))) (pl_segments pl))) /\
  (total_length ROps pl = 0 -> path_centroid ROps pl = Raise ZeroDivisionError).
Proof. exact (proj2 (proj2 (lengths_sum_centroid pl))). Qed.

(* ---- second audit: totality of path_centroid, the insertions of edge k, distinctness of the reported indices ---- *)
Lemma path_centroid_total pl : total_length ROps pl <> 0 -> exists c, path_centroid ROps pl = Ok c.
Proof.
  intros H. unfold path_centroid, path_centroid_segs, total_length in *. rops. unfold n0. rops.
  destruct (Reqb_spec (nsum ROps (map (seg_len ROps) (pl_segments pl))) 0); [contradiction|eauto].
Qed.
Lemma centroid_spec_total pl :
  0 <= total_length ROps pl /\
  (forall c, path_centroid ROps pl = Ok c ->
     total_length ROps pl <> 0 /\
     vscale ROps (total_length ROps pl) c =
       vsum ROps (map (fun s => vscale ROps (seg_len ROps s) (vscale ROps (1 / 2) (vadd ROps (fst s) (snd s)))) (pl_segments pl))) /\
  (total_length ROps pl <> 0 -> exists c, path_centroid ROps pl = Ok c) /\
  (total_length ROps pl = 0 -> path_centroid ROps pl = Raise ZeroDivisionError).
Proof.
  destruct (centroid_spec pl) as [H1 [H2 H3]]. exact (conj H1 (conj H2 (conj (path_centroid_total pl) H3))).
Qed.

Lemma inserts_per_vertex_nth pl mx m k b s : nth_error m k = Some b -> nth_error (pl_segments pl) k = Some s ->
  nth_error (inserts_per_vertex ROps pl mx m) k = Some (edge_inserts ROps mx b s).
Proof.
  intros Hb Hs. unfold inserts_per_vertex.
  assert (Hm : nth_error (map2 (edge_inserts ROps mx) m (pl_segments pl)) k = Some (edge_inserts ROps mx b s))
    by (rewrite nth_error_map2, Hb, Hs; reflexivity).
  rewrite nth_error_app1; [exact Hm|]. apply nth_error_Some. congruence.
Qed.
(* the last vertex of an open polyline has no leaving edge: nothing is inserted after it *)
Lemma inserts_per_vertex_last pl mx m h t : pv pl = h :: t -> pclosed pl = false -> length m = length (pl_segments pl) ->
  nth_error (inserts_per_vertex ROps pl mx m) (length t) = Some [].
Proof.
  intros E Hc Hl. unfold inserts_per_vertex. rewrite Hc, E.
  assert (Hlen : length (map2 (edge_inserts ROps mx) m (pl_segments pl)) = length t).
  { unfold map2. rewrite map_length, zip_length, Hl, Nat.min_id, pl_segments_length, E, Hc. reflexivity. }
  rewrite nth_error_app2 by lia. rewrite Hlen, Nat.sub_diag. reflexivity.
Qed.

(* blocks of the new vertex list: the points inserted before vertex q occupy [slot q, orig q), vertex q sits at orig q *)
Definition count_lt (ips : list (nat * vec3 R)) (q : nat) : nat := length (filter (fun ip => Nat.ltb (fst ip) q) ips).
Lemma count_le_lt (ips : list (nat * vec3 R)) q : count_le ips q = (count_lt ips q + length (points_at q ips))%nat.
Proof. unfold count_le, count_lt. apply count_le_split. Qed.
Lemma count_lt_succ (ips : list (nat * vec3 R)) q : count_lt ips (S q) = count_le ips q.
Proof. reflexivity. Qed.
Lemma orig_before_slot (ips : list (nat * vec3 R)) : forall q' q, (q < q')%nat -> (q + count_le ips q < q' + count_lt ips q')%nat.
Proof.
  induction q' as [|q' IH]; intros q H; [lia|]. rewrite count_lt_succ.
  destruct (Nat.eq_dec q q') as [->|Hne]; [lia|].
  specialize (IH q ltac:(lia)). pose proof (count_le_lt ips q'). lia.
Qed.
Lemma count_firstn_mono {A} (f : A -> bool) (l : list A) : forall j j', (j <= j')%nat ->
  (length (filter f (firstn j l)) <= length (filter f (firstn j' l)))%nat.
Proof.
  induction l as [|x r IH]; intros j j' H; [destruct j, j'; cbn; lia|].
  destruct j as [|j]; [cbn; lia|]. destruct j' as [|j']; [lia|]. cbn [firstn filter].
  specialize (IH j j' ltac:(lia)). destruct (f x); cbn [length]; lia.
Qed.
Lemma count_firstn_S {A} (f : A -> bool) (l : list A) : forall j x, nth_error l j = Some x -> f x = true ->
  length (filter f (firstn (S j) l)) = S (length (filter f (firstn j l))).
Proof.
  induction l as [|y r IH]; intros j x Hj Hf; [destruct j; discriminate|].
  destruct j as [|j]; cbn [nth_error] in Hj.
  - injection Hj as ->. cbn [firstn filter]. rewrite Hf. reflexivity.
  - specialize (IH j x Hj Hf). cbn [firstn filter] in *. destruct (f y); cbn [length]; lia.
Qed.
Lemma rank_bound (ips : list (nat * vec3 R)) j q p : nth_error ips j = Some (q, p) ->
  (length (filter (fun ip => Nat.eqb (fst ip) q) (firstn j ips)) < length (points_at q ips))%nat.
Proof. intros H. apply nth_error_Some. rewrite (points_at_rank q p ips j H). discriminate. Qed.
Lemma rank_strict (ips : list (nat * vec3 R)) j j' q p : (j < j')%nat -> nth_error ips j = Some (q, p) ->
  (length (filter (fun ip : nat * vec3 R => Nat.eqb (fst ip) q) (firstn j ips)) <
   length (filter (fun ip : nat * vec3 R => Nat.eqb (fst ip) q) (firstn j' ips)))%nat.
Proof.
  intros Hlt Hj.
  pose proof (count_firstn_S (fun ip : nat * vec3 R => Nat.eqb (fst ip) q) ips j (q, p) Hj (Nat.eqb_refl q)) as HS.
  pose proof (count_firstn_mono (fun ip : nat * vec3 R => Nat.eqb (fst ip) q) ips (S j) j' ltac:(lia)). lia.
Qed.
Lemma inserted_pos_block (ips : list (nat * vec3 R)) j q p : nth_error ips j = Some (q, p) ->
  (q + count_lt ips q <= inserted_pos ips j q < q + count_le ips q)%nat.
Proof.
  intros H. pose proof (rank_bound ips j q p H). pose proof (count_le_lt ips q).
  unfold inserted_pos. fold (count_lt ips q). lia.
Qed.

Lemma nth_error_seq_inv a n k x : nth_error (seq a n) k = Some x -> x = (a + k)%nat /\ (k < n)%nat.
Proof.
  revert a k. induction n as [|n IH]; intros a k H; [destruct k; discriminate|].
  destruct k as [|k]; cbn [seq nth_error] in H; [injection H as <-; lia|].
  destruct (IH (S a) k H). lia.
Qed.

(* the reported new indices are pairwise distinct: originals among themselves, inserted points among themselves
   (also when a segment is listed twice), and originals against inserted points *)
Lemma bisect_indices_distinct pl idx r : bisect ROps pl idx = Ok r ->
  (forall k k' i i', k <> k' -> nth_error (snd (fst r)) k = Some i -> nth_error (snd (fst r)) k' = Some i' -> i <> i') /\
  (forall j j' m m', j <> j' -> nth_error (snd r) j = Some m -> nth_error (snd r) j' = Some m' -> m <> m') /\
  (forall k j i m, nth_error (snd (fst r)) k = Some i -> nth_error (snd r) j = Some m -> i <> m).
Proof.
  intros H. unfold bisect in H. destruct (existsb _ idx); [discriminate|]. injection H as <-. cbn [fst snd].
  set (ips := map (fun i => (edge_end pl i, match nth_error (pl_segments pl) i with Some s => seg_mid ROps s | None => vzero ROps end)) idx).
  assert (Horig : forall k i, nth_error (map (fun k0 => (k0 + count_le ips k0)%nat) (seq 0 (length (pv pl)))) k = Some i ->
                    i = (k + count_le ips k)%nat).
  { intros k i Hk. rewrite nth_error_map in Hk. destruct (nth_error (seq 0 (length (pv pl))) k) as [x|] eqn:E; [|discriminate].
    apply nth_error_seq_inv in E. destruct E as [-> _]. injection Hk as <-. reflexivity. }
  assert (Hins : forall j m, nth_error (map (fun jip => inserted_pos ips (fst jip) (fst (snd jip))) (combine (seq 0 (length ips)) ips)) j = Some m ->
                   exists q p, nth_error ips j = Some (q, p) /\ m = inserted_pos ips j q).
  { intros j m Hj. destruct (nth_error ips j) as [[q p]|] eqn:E.
    - rewrite nth_error_map, (nth_error_combine_seq ips 0%nat j _ E) in Hj. injection Hj as <-. exists q, p. split; reflexivity.
    - exfalso. apply nth_error_None in E. assert (Hl : (j < length (combine (seq 0 (length ips)) ips))%nat).
      { apply nth_error_Some. rewrite nth_error_map in Hj. destruct (nth_error (combine (seq 0 (length ips)) ips) j); [discriminate|discriminate]. }
      rewrite combine_length, seq_length in Hl. lia. }
  split; [|split].
  - intros k k' i i' Hne Hk Hk'. rewrite (Horig k i Hk), (Horig k' i' Hk').
    destruct (Nat.lt_ge_cases k k') as [Hlt|Hge].
    + pose proof (orig_before_slot ips k' k Hlt). pose proof (count_le_lt ips k'). lia.
    + pose proof (orig_before_slot ips k k' ltac:(lia)). pose proof (count_le_lt ips k). lia.
  - intros j j' m m' Hne Hj Hj'. destruct (Hins j m Hj) as [q [p [Eq ->]]]. destruct (Hins j' m' Hj') as [q' [p' [Eq' ->]]].
    pose proof (inserted_pos_block ips j q p Eq) as B. pose proof (inserted_pos_block ips j' q' p' Eq') as B'.
    destruct (Nat.lt_trichotomy q q') as [Hlt|[->|Hgt]].
    + pose proof (orig_before_slot ips q' q Hlt). lia.
    + unfold inserted_pos. destruct (Nat.lt_ge_cases j j') as [Hl|Hg].
      * pose proof (rank_strict ips j j' q' p Hl Eq). lia.
      * pose proof (rank_strict ips j' j q' p' ltac:(lia) Eq'). lia.
    + pose proof (orig_before_slot ips q q' Hgt). lia.
  - intros k j i m Hk Hj. rewrite (Horig k i Hk). destruct (Hins j m Hj) as [q [p [Eq ->]]].
    pose proof (inserted_pos_block ips j q p Eq) as B.
    destruct (Nat.lt_trichotomy k q) as [Hlt|[->|Hgt]].
    + pose proof (orig_before_slot ips q k Hlt). lia.
    + lia.
    + pose proof (orig_before_slot ips k q Hgt). pose proof (count_le_lt ips k). lia.
Qed.
