(* 3-vectors over an abstract NumOps; definitions only (R lemmas in proofs/P_vec.v). *)
From Coq Require Import ZArith List.
From PW Require Import Num.
Import ListNotations.

Record vec3 (F : Type) := V3 { vx : F; vy : F; vz : F }.
Arguments V3 {F} _ _ _.
Arguments vx {F} _.
Arguments vy {F} _.
Arguments vz {F} _.

Section Vec.
  Context {F : Type} (O : NumOps F).
  Local Notation "a + b" := (nadd O a b).
  Local Notation "a - b" := (nsub O a b).
  Local Notation "a * b" := (nmul O a b).
  Local Notation "a / b" := (ndiv O a b).

  Definition vzero : vec3 F := V3 (n0 O) (n0 O) (n0 O).
  Definition vadd (a b : vec3 F) := V3 (vx a + vx b) (vy a + vy b) (vz a + vz b).
  Definition vsub (a b : vec3 F) := V3 (vx a - vx b) (vy a - vy b) (vz a - vz b).
  Definition vneg (a : vec3 F) := V3 (nneg O (vx a)) (nneg O (vy a)) (nneg O (vz a)).
  Definition vscale (s : F) (a : vec3 F) := V3 (s * vx a) (s * vy a) (s * vz a).
  Definition vdivs (a : vec3 F) (s : F) := V3 (vx a / s) (vy a / s) (vz a / s).
  (* numpy sums left to right: (x*x' + y*y') + z*z' *)
  Definition vdot (a b : vec3 F) : F := vx a * vx b + vy a * vy b + vz a * vz b.
  Definition vcross (a b : vec3 F) :=
    V3 (vy a * vz b - vz a * vy b) (vz a * vx b - vx a * vz b) (vx a * vy b - vy a * vx b).
  Definition vnorm2 (a : vec3 F) : F := vdot a a.
  Definition vnorm (a : vec3 F) : F := nsqrt O (vnorm2 a).
  Definition vnormalize (a : vec3 F) : vec3 F := vdivs a (vnorm a).
  Definition vdist (a b : vec3 F) : F := vnorm (vsub a b).
  Definition veqb (a b : vec3 F) : bool :=
    andb (neqb O (vx a) (vx b)) (andb (neqb O (vy a) (vy b)) (neqb O (vz a) (vz b))).
  Definition vlist (a : vec3 F) : list F := [vx a; vy a; vz a].
  (* component by index 0,1,2 *)
  Definition vget (a : vec3 F) (i : nat) : F :=
    match i with 0%nat => vx a | 1%nat => vy a | _ => vz a end.
  Definition vbasis (i : nat) : vec3 F :=
    match i with
    | 0%nat => V3 (n1 O) (n0 O) (n0 O)
    | 1%nat => V3 (n0 O) (n1 O) (n0 O)
    | _ => V3 (n0 O) (n0 O) (n1 O)
    end.
  Definition vmul (a b : vec3 F) := V3 (vx a * vx b) (vy a * vy b) (vz a * vz b).
  Definition vmin (a b : vec3 F) := V3 (nmin O (vx a) (vx b)) (nmin O (vy a) (vy b)) (nmin O (vz a) (vz b)).
  Definition vmax (a b : vec3 F) := V3 (nmax O (vx a) (vx b)) (nmax O (vy a) (vy b)) (nmax O (vz a) (vz b)).
End Vec.
