(* 3x3 and 4x4 matrices as flat records over an abstract NumOps; definitions only. *)
From Coq Require Import ZArith List.
From PW Require Import Num Vec.
Import ListNotations.

Record mat3 (F : Type) := M3 {
  a00 : F; a01 : F; a02 : F;
  a10 : F; a11 : F; a12 : F;
  a20 : F; a21 : F; a22 : F }.
Arguments M3 {F}. Arguments a00 {F}. Arguments a01 {F}. Arguments a02 {F}.
Arguments a10 {F}. Arguments a11 {F}. Arguments a12 {F}.
Arguments a20 {F}. Arguments a21 {F}. Arguments a22 {F}.

Record mat4 (F : Type) := M4 {
  m00 : F; m01 : F; m02 : F; m03 : F;
  m10 : F; m11 : F; m12 : F; m13 : F;
  m20 : F; m21 : F; m22 : F; m23 : F;
  m30 : F; m31 : F; m32 : F; m33 : F }.
Arguments M4 {F}.
Arguments m00 {F}. Arguments m01 {F}. Arguments m02 {F}. Arguments m03 {F}.
Arguments m10 {F}. Arguments m11 {F}. Arguments m12 {F}. Arguments m13 {F}.
Arguments m20 {F}. Arguments m21 {F}. Arguments m22 {F}. Arguments m23 {F}.
Arguments m30 {F}. Arguments m31 {F}. Arguments m32 {F}. Arguments m33 {F}.

Section Mat.
  Context {F : Type} (O : NumOps F).
  Local Notation "a + b" := (nadd O a b).
  Local Notation "a - b" := (nsub O a b).
  Local Notation "a * b" := (nmul O a b).
  Local Notation "a / b" := (ndiv O a b).
  Local Notation "0" := (n0 O).
  Local Notation "1" := (n1 O).

  (* ---------------- 3x3 ---------------- *)
  Definition I3 : mat3 F := M3 1 0 0 0 1 0 0 0 1.
  Definition m3rows (r0 r1 r2 : vec3 F) : mat3 F :=
    M3 (vx r0) (vy r0) (vz r0) (vx r1) (vy r1) (vz r1) (vx r2) (vy r2) (vz r2).
  Definition m3row0 (m : mat3 F) := V3 (a00 m) (a01 m) (a02 m).
  Definition m3row1 (m : mat3 F) := V3 (a10 m) (a11 m) (a12 m).
  Definition m3row2 (m : mat3 F) := V3 (a20 m) (a21 m) (a22 m).
  Definition m3transpose (m : mat3 F) : mat3 F :=
    M3 (a00 m) (a10 m) (a20 m) (a01 m) (a11 m) (a21 m) (a02 m) (a12 m) (a22 m).
  Definition m3mul (a b : mat3 F) : mat3 F :=
    M3 (a00 a * a00 b + a01 a * a10 b + a02 a * a20 b)
       (a00 a * a01 b + a01 a * a11 b + a02 a * a21 b)
       (a00 a * a02 b + a01 a * a12 b + a02 a * a22 b)
       (a10 a * a00 b + a11 a * a10 b + a12 a * a20 b)
       (a10 a * a01 b + a11 a * a11 b + a12 a * a21 b)
       (a10 a * a02 b + a11 a * a12 b + a12 a * a22 b)
       (a20 a * a00 b + a21 a * a10 b + a22 a * a20 b)
       (a20 a * a01 b + a21 a * a11 b + a22 a * a21 b)
       (a20 a * a02 b + a21 a * a12 b + a22 a * a22 b).
  Definition m3apply (m : mat3 F) (v : vec3 F) : vec3 F :=
    V3 (a00 m * vx v + a01 m * vy v + a02 m * vz v)
       (a10 m * vx v + a11 m * vy v + a12 m * vz v)
       (a20 m * vx v + a21 m * vy v + a22 m * vz v).
  Definition m3det (m : mat3 F) : F :=
    a00 m * (a11 m * a22 m - a12 m * a21 m)
    - a01 m * (a10 m * a22 m - a12 m * a20 m)
    + a02 m * (a10 m * a21 m - a11 m * a20 m).
  Definition m3list (m : mat3 F) : list F :=
    [a00 m; a01 m; a02 m; a10 m; a11 m; a12 m; a20 m; a21 m; a22 m].

  (* ---------------- 4x4 ---------------- *)
  Definition I4 : mat4 F := M4 1 0 0 0  0 1 0 0  0 0 1 0  0 0 0 1.
  Definition mmul (a b : mat4 F) : mat4 F :=
    M4 (m00 a * m00 b + m01 a * m10 b + m02 a * m20 b + m03 a * m30 b)
       (m00 a * m01 b + m01 a * m11 b + m02 a * m21 b + m03 a * m31 b)
       (m00 a * m02 b + m01 a * m12 b + m02 a * m22 b + m03 a * m32 b)
       (m00 a * m03 b + m01 a * m13 b + m02 a * m23 b + m03 a * m33 b)
       (m10 a * m00 b + m11 a * m10 b + m12 a * m20 b + m13 a * m30 b)
       (m10 a * m01 b + m11 a * m11 b + m12 a * m21 b + m13 a * m31 b)
       (m10 a * m02 b + m11 a * m12 b + m12 a * m22 b + m13 a * m32 b)
       (m10 a * m03 b + m11 a * m13 b + m12 a * m23 b + m13 a * m33 b)
       (m20 a * m00 b + m21 a * m10 b + m22 a * m20 b + m23 a * m30 b)
       (m20 a * m01 b + m21 a * m11 b + m22 a * m21 b + m23 a * m31 b)
       (m20 a * m02 b + m21 a * m12 b + m22 a * m22 b + m23 a * m32 b)
       (m20 a * m03 b + m21 a * m13 b + m22 a * m23 b + m23 a * m33 b)
       (m30 a * m00 b + m31 a * m10 b + m32 a * m20 b + m33 a * m30 b)
       (m30 a * m01 b + m31 a * m11 b + m32 a * m21 b + m33 a * m31 b)
       (m30 a * m02 b + m31 a * m12 b + m32 a * m22 b + m33 a * m32 b)
       (m30 a * m03 b + m31 a * m13 b + m32 a * m23 b + m33 a * m33 b).
  Definition mtranspose (m : mat4 F) : mat4 F :=
    M4 (m00 m) (m10 m) (m20 m) (m30 m) (m01 m) (m11 m) (m21 m) (m31 m)
       (m02 m) (m12 m) (m22 m) (m32 m) (m03 m) (m13 m) (m23 m) (m33 m).
  Definition mscale (s : F) (m : mat4 F) : mat4 F :=
    M4 (s * m00 m) (s * m01 m) (s * m02 m) (s * m03 m)
       (s * m10 m) (s * m11 m) (s * m12 m) (s * m13 m)
       (s * m20 m) (s * m21 m) (s * m22 m) (s * m23 m)
       (s * m30 m) (s * m31 m) (s * m32 m) (s * m33 m).
  (* 3x3 block in the upper left, last row/column of the identity (polliwog _convert_33_to_44) *)
  Definition m33to44 (r : mat3 F) : mat4 F :=
    M4 (a00 r) (a01 r) (a02 r) 0 (a10 r) (a11 r) (a12 r) 0 (a20 r) (a21 r) (a22 r) 0 0 0 0 1.
  Definition mupper3 (m : mat4 F) : mat3 F :=
    M3 (m00 m) (m01 m) (m02 m) (m10 m) (m11 m) (m12 m) (m20 m) (m21 m) (m22 m).
  Definition mtranslation (t : vec3 F) : mat4 F :=
    M4 1 0 0 (vx t) 0 1 0 (vy t) 0 0 1 (vz t) 0 0 0 1.
  Definition mdiag (s : vec3 F) : mat4 F :=
    M4 (vx s) 0 0 0 0 (vy s) 0 0 0 0 (vz s) 0 0 0 0 1.
  (* apply to a homogeneous column (x,y,z,w), keep the first three rows (polliwog apply_transform) *)
  Definition mapply_w (m : mat4 F) (w : F) (v : vec3 F) : vec3 F :=
    V3 (m00 m * vx v + m01 m * vy v + m02 m * vz v + m03 m * w)
       (m10 m * vx v + m11 m * vy v + m12 m * vz v + m13 m * w)
       (m20 m * vx v + m21 m * vy v + m22 m * vz v + m23 m * w).
  Definition mapply_pt (m : mat4 F) (v : vec3 F) : vec3 F := mapply_w m 1 v.
  Definition mapply_vec (m : mat4 F) (v : vec3 F) : vec3 F := mapply_w m 0 v.
  Definition affine (m : mat4 F) : Prop :=
    m30 m = 0 /\ m31 m = 0 /\ m32 m = 0 /\ m33 m = 1.
  Definition mlist (m : mat4 F) : list F :=
    [m00 m; m01 m; m02 m; m03 m; m10 m; m11 m; m12 m; m13 m;
     m20 m; m21 m; m22 m; m23 m; m30 m; m31 m; m32 m; m33 m].

  (* 2x2 minors for the cofactor inverse (np.linalg.inv is modelled, not assumed) *)
  Definition det3 (a b c d e f g h i : F) : F :=
    a * (e * i - f * h) - b * (d * i - f * g) + c * (d * h - e * g).
  Definition mdet (m : mat4 F) : F :=
    m00 m * det3 (m11 m) (m12 m) (m13 m) (m21 m) (m22 m) (m23 m) (m31 m) (m32 m) (m33 m)
    - m01 m * det3 (m10 m) (m12 m) (m13 m) (m20 m) (m22 m) (m23 m) (m30 m) (m32 m) (m33 m)
    + m02 m * det3 (m10 m) (m11 m) (m13 m) (m20 m) (m21 m) (m23 m) (m30 m) (m31 m) (m33 m)
    - m03 m * det3 (m10 m) (m11 m) (m12 m) (m20 m) (m21 m) (m22 m) (m30 m) (m31 m) (m32 m).
  Definition madj (m : mat4 F) : mat4 F :=
    let c00 := det3 (m11 m) (m12 m) (m13 m) (m21 m) (m22 m) (m23 m) (m31 m) (m32 m) (m33 m) in
    let c01 := nneg O (det3 (m10 m) (m12 m) (m13 m) (m20 m) (m22 m) (m23 m) (m30 m) (m32 m) (m33 m)) in
    let c02 := det3 (m10 m) (m11 m) (m13 m) (m20 m) (m21 m) (m23 m) (m30 m) (m31 m) (m33 m) in
    let c03 := nneg O (det3 (m10 m) (m11 m) (m12 m) (m20 m) (m21 m) (m22 m) (m30 m) (m31 m) (m32 m)) in
    let c10 := nneg O (det3 (m01 m) (m02 m) (m03 m) (m21 m) (m22 m) (m23 m) (m31 m) (m32 m) (m33 m)) in
    let c11 := det3 (m00 m) (m02 m) (m03 m) (m20 m) (m22 m) (m23 m) (m30 m) (m32 m) (m33 m) in
    let c12 := nneg O (det3 (m00 m) (m01 m) (m03 m) (m20 m) (m21 m) (m23 m) (m30 m) (m31 m) (m33 m)) in
    let c13 := det3 (m00 m) (m01 m) (m02 m) (m20 m) (m21 m) (m22 m) (m30 m) (m31 m) (m32 m) in
    let c20 := det3 (m01 m) (m02 m) (m03 m) (m11 m) (m12 m) (m13 m) (m31 m) (m32 m) (m33 m) in
    let c21 := nneg O (det3 (m00 m) (m02 m) (m03 m) (m10 m) (m12 m) (m13 m) (m30 m) (m32 m) (m33 m)) in
    let c22 := det3 (m00 m) (m01 m) (m03 m) (m10 m) (m11 m) (m13 m) (m30 m) (m31 m) (m33 m) in
    let c23 := nneg O (det3 (m00 m) (m01 m) (m02 m) (m10 m) (m11 m) (m12 m) (m30 m) (m31 m) (m32 m)) in
    let c30 := nneg O (det3 (m01 m) (m02 m) (m03 m) (m11 m) (m12 m) (m13 m) (m21 m) (m22 m) (m23 m)) in
    let c31 := det3 (m00 m) (m02 m) (m03 m) (m10 m) (m12 m) (m13 m) (m20 m) (m22 m) (m23 m) in
    let c32 := nneg O (det3 (m00 m) (m01 m) (m03 m) (m10 m) (m11 m) (m13 m) (m20 m) (m21 m) (m23 m)) in
    let c33 := det3 (m00 m) (m01 m) (m02 m) (m10 m) (m11 m) (m12 m) (m20 m) (m21 m) (m22 m) in
    (* adjugate = transpose of the cofactor matrix *)
    M4 c00 c10 c20 c30  c01 c11 c21 c31  c02 c12 c22 c32  c03 c13 c23 c33.
  Definition minv (m : mat4 F) : mat4 F := mscale (1 / mdet m) (madj m).
End Mat.
