(* The real-number instance: every theorem is stated on this one. *)
From Coq Require Import ZArith Reals Lra List Bool.
From PW Require Import Num.
Local Open Scope R_scope.

Definition Rltb (a b : R) : bool := if Rlt_dec a b then true else false.
Definition Rleb (a b : R) : bool := if Rle_dec a b then true else false.
Definition Reqb (a b : R) : bool := if Req_EM_T a b then true else false.

Lemma Rltb_spec a b : reflect (a < b) (Rltb a b).
Proof. unfold Rltb; destruct (Rlt_dec a b); constructor; assumption. Qed.
Lemma Rleb_spec a b : reflect (a <= b) (Rleb a b).
Proof. unfold Rleb; destruct (Rle_dec a b); constructor; assumption. Qed.
Lemma Reqb_spec a b : reflect (a = b) (Reqb a b).
Proof. unfold Reqb; destruct (Req_EM_T a b); constructor; assumption. Qed.

Lemma Rltb_true a b : Rltb a b = true <-> a < b.
Proof. destruct (Rltb_spec a b); split; intros; try assumption; try reflexivity; try discriminate; contradiction. Qed.
Lemma Rltb_false a b : Rltb a b = false <-> b <= a.
Proof. destruct (Rltb_spec a b); split; intros; try reflexivity; try discriminate; lra. Qed.
Lemma Rleb_true a b : Rleb a b = true <-> a <= b.
Proof. destruct (Rleb_spec a b); split; intros; try assumption; try reflexivity; try discriminate; contradiction. Qed.
Lemma Rleb_false a b : Rleb a b = false <-> b < a.
Proof. destruct (Rleb_spec a b); split; intros; try reflexivity; try discriminate; lra. Qed.
Lemma Reqb_true a b : Reqb a b = true <-> a = b.
Proof. destruct (Reqb_spec a b); split; intros; try assumption; try reflexivity; try discriminate; contradiction. Qed.
Lemma Reqb_false a b : Reqb a b = false <-> a <> b.
Proof. destruct (Reqb_spec a b); split; intros; try assumption; try reflexivity; try discriminate; contradiction. Qed.

(* floor and ceiling on R *)
Definition Rfloor (x : R) : Z := Int_part x.
Definition Rceil (x : R) : Z := (- Int_part (- x))%Z.

Definition ROps : NumOps R := {|
  nofZ := IZR; nadd := Rplus; nsub := Rminus; nmul := Rmult; ndiv := Rdiv;
  nneg := Ropp; nabs := Rabs; nsqrt := sqrt;
  nltb := Rltb; nleb := Rleb; neqb := Reqb;
  nfloor := Rfloor; nceil := Rceil;
  ncos := cos; nsin := sin; nacos := acos |}.

(* Unfold the record projections of ROps everywhere. *)
Ltac rops :=
  cbn [nofZ nadd nsub nmul ndiv nneg nabs nsqrt nltb nleb neqb nfloor nceil ncos nsin nacos ROps] in *.
Ltac rops_all :=
  unfold n0, n1, n2, nfrac, ngtb, ngeb, nsign, nmin, nmax in *; rops.

(* Case analysis on one boolean comparison appearing in the goal. *)
Ltac rcase :=
  match goal with
  | |- context [Rltb ?a ?b] => destruct (Rltb_spec a b)
  | |- context [Rleb ?a ?b] => destruct (Rleb_spec a b)
  | |- context [Reqb ?a ?b] => destruct (Reqb_spec a b)
  end.
