(* polliwog/line: _line_functions.py (project_point_to_line), _line_object.py (Line), _line_intersect.py
   (intersect_lines, intersect_2d_lines).
   The model is the code of /repo INCLUDING the accepted repairs:
     - intersect_lines (commit fcc1d6c): `k_ == 0 -> None`, then `h_ == 0 -> p0` (p0 lies on line 1; the released code
       returned None), and the sign of the step is chosen by `dot(h, k) > 0` (the released code compared h/h_ == k/k_ with
       floating-point equality, which picked the wrong sign for many integer inputs);
     - intersect_2d_lines (commit 7dfe779): an explicit determinant test before np.linalg.solve (whose LU pivot is not
       exactly zero for some parallel integer lines);
     - project_point_to_line (commit 36e7d06) rescales the direction by a power of two before normalising it, against
       overflow / underflow of the squared norm. That step is NOT mirrored here: it is the identity on the result over the
       reals (P_line.project_scale_invariant, props C18_projection_ignores_direction_length); the traced ties prove the
       rescaled trace equal to this model.
   A NaN row is the explicit marker `None`. Definitions only. *)
From Coq Require Import ZArith List Bool.
From PW Require Import Num Vec NpList Result.
Import ListNotations.

Record line (F : Type) := MkLine { lref : vec3 F; lalong : vec3 F }.
Arguments MkLine {F}. Arguments lref {F}. Arguments lalong {F}.

Section Line.
  Context {F : Type} (O : NumOps F).

  (* ---- vg.project(vector, onto) = dot(vector, normalize(onto)) * normalize(onto) ------------------------- *)
  Definition vg_project (v onto : vec3 F) : vec3 F :=
    vscale O (vdot O v (vnormalize O onto)) (vnormalize O onto).

  (* ---- project_point_to_line: reference_point + vg.project(point - reference_point, onto=along) ------------
     a zero direction divides by a zero norm: NaN row *)
  Definition project_point_to_line (p ref along : vec3 F) : option (vec3 F) :=
    if neqb O (vnorm O along) (n0 O) then None
    else Some (vadd O ref (vg_project (vsub O p ref) along)).
  (* kx3 points against one line *)
  Definition project_points_to_line (ps : list (vec3 F)) (ref along : vec3 F) : list (option (vec3 F)) :=
    map (fun p => project_point_to_line p ref along) ps.
  (* kx3 points against kx3 lines, row by row *)
  Definition project_points_to_lines (ps refs alongs : list (vec3 F)) : list (option (vec3 F)) :=
    map (fun r => project_point_to_line (fst r) (fst (snd r)) (snd (snd r))) (zip ps (zip refs alongs)).

  (* ---- Line ------------------------------------------------------------------------------------------------
     vg.almost_zero(along) = np.allclose(along, 0, rtol=0, atol=1e-8) -> ValueError *)
  (* the binary64 constant 1e-8 = 3022314549036573 / 2^78 (slightly above 1/10^8) *)
  Definition atol : F := nfrac O 3022314549036573 302231454903657293676544.
  Definition almost_zero (v : vec3 F) : bool :=
    nleb O (nabs O (vx v)) atol && nleb O (nabs O (vy v)) atol && nleb O (nabs O (vz v)) atol.
  Definition line_ctor (point along : vec3 F) : result (line F) :=
    if almost_zero along then Raise ValueError else Ok (MkLine point along).
  Definition line_from_points (p1 p2 : vec3 F) : result (line F) := line_ctor p1 (vsub O p2 p1).
  Definition reference_points (l : line F) : vec3 F * vec3 F := (lref l, vadd O (lref l) (lalong l)).
  Definition line_project (l : line F) (p : vec3 F) : option (vec3 F) :=
    project_point_to_line p (lref l) (lalong l).
  Definition line_project_stack (l : line F) (ps : list (vec3 F)) : list (option (vec3 F)) :=
    project_points_to_line ps (lref l) (lalong l).

  (* ---- intersect_lines (with fixes/C18-intersect-lines-sign-and-p0-on-line.diff) --------------------------- *)
  Definition intersect_lines (p0 q0 p1 q1 : vec3 F) : option (vec3 F) :=
    let e := vsub O p0 q0 in
    let f := vsub O p1 q1 in
    if veqb O p0 p1 || veqb O p0 q1 then Some p0
    else if veqb O q0 p1 || veqb O p0 q1 then Some q0
    else
      let g := vsub O p0 p1 in
      let h := vcross O f g in
      let k := vcross O f e in
      let h_ := vnorm O h in
      let k_ := vnorm O k in
      if neqb O k_ (n0 O) then None
      else if neqb O h_ (n0 O) then Some p0
      else if negb (neqb O (vdot O g k) (n0 O)) then None
      else
        let l := vscale O (ndiv O h_ k_) e in
        let sign := if nltb O (n0 O) (vdot O h k) then nofZ O (-1) else nofZ O 1 in
        Some (vadd O p0 (vscale O sign l)).
  (* the same routine written without square roots (tests on k.k and h.h, step -(h.k / k.k) e): an equivalent form of the
     algorithm, proved equal to intersect_lines over the reals in P_line.intersect_lines_rational_eq; the traced ties use
     it when the code does not take the norms *)
  Definition intersect_lines_rational (p0 q0 p1 q1 : vec3 F) : option (vec3 F) :=
    let e := vsub O p0 q0 in
    let f := vsub O p1 q1 in
    if veqb O p0 p1 || veqb O p0 q1 then Some p0
    else if veqb O q0 p1 || veqb O p0 q1 then Some q0
    else
      let g := vsub O p0 p1 in
      let h := vcross O f g in
      let k := vcross O f e in
      if neqb O (vdot O k k) (n0 O) then None
      else if neqb O (vdot O h h) (n0 O) then Some p0
      else if negb (neqb O (vdot O g k) (n0 O)) then None
      else Some (vsub O p0 (vscale O (ndiv O (vdot O h k) (vdot O k k)) e)).
  Definition line_intersect_line (l l' : line F) : option (vec3 F) :=
    intersect_lines (fst (reference_points l)) (snd (reference_points l))
                    (fst (reference_points l')) (snd (reference_points l')).

  (* ---- intersect_2d_lines (with fixes/C18-intersect-2d-lines-determinant-test.diff) --------------------------
     a = [[-dy0, dx0], [-dy1, dx1]], b = [p0y dx0 - dy0 p0x, p1y dx1 - dy1 p1x]; det a = 0 -> None;
     otherwise np.linalg.solve(a, b): the unique solution, written by Cramer's rule *)
  Definition intersect_2d_lines (p0 q0 p1 q1 : F * F) : option (F * F) :=
    let dy0 := nsub O (snd q0) (snd p0) in
    let dx0 := nsub O (fst q0) (fst p0) in
    let a00 := nneg O dy0 in
    let rhs0 := nsub O (nmul O (snd p0) dx0) (nmul O dy0 (fst p0)) in
    let dy1 := nsub O (snd q1) (snd p1) in
    let dx1 := nsub O (fst q1) (fst p1) in
    let a10 := nneg O dy1 in
    let rhs1 := nsub O (nmul O (snd p1) dx1) (nmul O dy1 (fst p1)) in
    let det := nsub O (nmul O a00 dx1) (nmul O dx0 a10) in
    if neqb O det (n0 O) then None
    else Some (ndiv O (nsub O (nmul O rhs0 dx1) (nmul O dx0 rhs1)) det,
               ndiv O (nsub O (nmul O a00 rhs1) (nmul O a10 rhs0)) det).
End Line.
