(* Spec vocabulary for C04 (CoordinateManager scripts).
   Specification vocabulary (over the real-number instance) used by the statements in props/.  Definitions only:
   a statement in props/ can only change its meaning through props/ or model/. *)
From Coq Require Import ZArith Reals List Bool String.
From PW Require Import Num NumR Vec Mat NpList Result.
From PW.model Require Import M_rodrigues M_affine M_rotation M_composite M_coordmgr M_affine_spec M_composite_spec.
Import ListNotations.
Local Open Scope R_scope.

Definition cm_Inv (st : cm_state (F:=R)) : Prop :=
  Inv (cm_tr st) /\ Forall (fun ni => (snd ni <= List.length (cm_tr st))%nat) (cm_tags st).

Definition cm_op_ok (o : cm_op R) : Prop := match o with CTransform t => op_ok t | _ => True end.

(* ---------------- do_transform between two positions ---------------- *)
Definition slice (tr : cstate (F:=R)) (a b : nat) : cstate (F:=R) := firstn (b - a) (skipn a tr).

(* one further call: the transform list grows at the end, existing tags other than a re-tagged name keep their position *)
Definition not_retag (a : string) (o : cm_op R) : Prop := match o with CTagAs n => n <> a | _ => True end.
