(* polliwog/plane/_plane_functions.py and the point-query methods of polliwog/plane/_plane_object.py *)
From Coq Require Import ZArith List Bool.
From PW Require Import Num Vec NpList.
Import ListNotations.

Record plane (F : Type) := MkPlane { pref : vec3 F; pnormal : vec3 F }.
Arguments MkPlane {F}. Arguments pref {F}. Arguments pnormal {F}.
(* plane equation [A, B, C, D] *)
Record peq (F : Type) := E4 { ea : F; eb : F; ec : F; ed : F }.
Arguments E4 {F}. Arguments ea {F}. Arguments eb {F}. Arguments ec {F}. Arguments ed {F}.

Section Plane.
  Context {F : Type} (O : NumOps F).

  Definition eq_normal (e : peq F) : vec3 F := V3 (ea e) (eb e) (ec e).

  (* Plane.equation: A, B, C = normal; D = -reference_point.dot(normal) *)
  Definition plane_equation (pl : plane F) : peq F :=
    E4 (vx (pnormal pl)) (vy (pnormal pl)) (vz (pnormal pl)) (nneg O (vdot O (pref pl) (pnormal pl))).
  (* Plane.canonical_point *)
  Definition canonical_point (pl : plane F) : vec3 F :=
    vscale O (vdot O (pref pl) (pnormal pl)) (pnormal pl).
  (* Plane.flipped *)
  Definition flipped (pl : plane F) : plane F := MkPlane (pref pl) (vneg O (pnormal pl)).

  (* signed_distance_to_plane: vg.dot(points, normals) + offsets *)
  Definition sd_eq (p : vec3 F) (e : peq F) : F := nadd O (vdot O p (eq_normal e)) (ed e).
  (* translate_points_along_plane_normal: points + factor * signed_distance * normals *)
  Definition translate_along (p : vec3 F) (e : peq F) (factor : F) : vec3 F :=
    vadd O p (vscale O (nmul O factor (sd_eq p e)) (eq_normal e)).
  Definition project_eq (p : vec3 F) (e : peq F) : vec3 F := translate_along p e (nofZ O (-1)).
  Definition mirror_eq (p : vec3 F) (e : peq F) : vec3 F := translate_along p e (nofZ O (-2)).

  (* stacked forms: one shared equation, or one equation per point *)
  Definition sd_stack (ps : list (vec3 F)) (e : peq F) : list F := map (fun p => sd_eq p e) ps.
  Definition sd_pairs (ps : list (vec3 F)) (es : list (peq F)) : list F := map2 sd_eq ps es.
  Definition project_stack ps e := map (fun p => project_eq p e) ps.
  Definition project_pairs ps es := map2 project_eq ps es.
  Definition mirror_stack ps e := map (fun p => mirror_eq p e) ps.
  Definition mirror_pairs ps es := map2 mirror_eq ps es.

  (* Plane methods *)
  Definition plane_sd (pl : plane F) (p : vec3 F) : F := sd_eq p (plane_equation pl).
  Definition plane_sign (pl : plane F) (p : vec3 F) : Z := nsign O (plane_sd pl p).
  Definition plane_distance (pl : plane F) (p : vec3 F) : F := nabs O (plane_sd pl p).
  Definition plane_project (pl : plane F) (p : vec3 F) : vec3 F := project_eq p (plane_equation pl).
  Definition plane_mirror (pl : plane F) (p : vec3 F) : vec3 F := mirror_eq p (plane_equation pl).

  (* points_in_front: mask = sign > 0, or sign < 0 when inverted *)
  Definition in_front_mask (pl : plane F) (inverted : bool) (ps : list (vec3 F)) : list bool :=
    map (fun p => if inverted then (plane_sign pl p <? 0)%Z else (0 <? plane_sign pl p)%Z) ps.
  (* points_on_or_in_front: mask = sign >= 0, or sign <= 0 when inverted *)
  Definition on_or_in_front_mask (pl : plane F) (inverted : bool) (ps : list (vec3 F)) : list bool :=
    map (fun p => if inverted then (plane_sign pl p <=? 0)%Z else (0 <=? plane_sign pl p)%Z) ps.
  Definition points_in_front_idx pl inverted ps := flatnonzero (in_front_mask pl inverted ps).
  Definition points_on_or_in_front_idx pl inverted ps := flatnonzero (on_or_in_front_mask pl inverted ps).
  Definition points_in_front pl inverted ps := take ps (points_in_front_idx pl inverted ps).
  Definition points_on_or_in_front pl inverted ps := take ps (points_on_or_in_front_idx pl inverted ps).
End Plane.
