(* polliwog/transform/_rodrigues.py : rodrigues_vector_to_rotation_matrix,
   rotation_matrix_to_rodrigues_vector, cv2_rodrigues.  Definitions only. *)
From Coq Require Import ZArith List Bool.
From PW Require Import Num Vec Mat NpList Result.
Import ListNotations.

Section Rodrigues.
  Context {F : Type} (O : NumOps F).
  Local Notation "a + b" := (nadd O a b).
  Local Notation "a - b" := (nsub O a b).
  Local Notation "a * b" := (nmul O a b).
  Local Notation "a / b" := (ndiv O a b).
  Local Notation "- a" := (nneg O a).
  Local Notation "0" := (n0 O).
  Local Notation "1" := (n1 O).

  Definition rod_m1 : F := nneg O (n1 O).
  Local Notation "'m1'" := rod_m1.

  (* ---------- small 3x3 helpers (not in Mat.v) ---------- *)
  Definition m3add (a b : mat3 F) : mat3 F :=
    M3 (a00 a + a00 b) (a01 a + a01 b) (a02 a + a02 b)
       (a10 a + a10 b) (a11 a + a11 b) (a12 a + a12 b)
       (a20 a + a20 b) (a21 a + a21 b) (a22 a + a22 b).
  Definition m3scale (s : F) (a : mat3 F) : mat3 F :=
    M3 (s * a00 a) (s * a01 a) (s * a02 a)
       (s * a10 a) (s * a11 a) (s * a12 a)
       (s * a20 a) (s * a21 a) (s * a22 a).
  (* rrt = np.array([r * r[0], r * r[1], r * r[2]]) : entry (i,j) = r[j] * r[i] *)
  Definition m3outer (k : vec3 F) : mat3 F :=
    M3 (vx k * vx k) (vy k * vx k) (vz k * vx k)
       (vx k * vy k) (vy k * vy k) (vz k * vy k)
       (vx k * vz k) (vy k * vz k) (vz k * vz k).
  (* _r_x_ = [[0, -r2, r1], [r2, 0, -r0], [-r1, r0, 0]] *)
  Definition m3skew (k : vec3 F) : mat3 F :=
    M3 0 (- vz k) (vy k)
       (vz k) 0 (- vx k)
       (- vy k) (vx k) 0.

  (* entry (a, b) of a 3x3 matrix, a, b in 0..2 *)
  Definition m3get (m : mat3 F) (a b : nat) : F :=
    match a, b with
    | 0%nat, 0%nat => a00 m | 0%nat, 1%nat => a01 m | 0%nat, _ => a02 m
    | 1%nat, 0%nat => a10 m | 1%nat, 1%nat => a11 m | 1%nat, _ => a12 m
    | _, 0%nat => a20 m | _, 1%nat => a21 m | _, _ => a22 m
    end.

  (* ---------- forward map ---------- *)
  (* eps = np.finfo(np.double).eps = 2^-52 *)
  Definition rod_eps : F := nfrac O 1 4503599627370496.
  (* theta = np.linalg.norm(r) *)
  Definition rod_theta (r : vec3 F) : F := vnorm O r.
  (* itheta = 1.0 / theta; r *= itheta  (the `theta == 0.0` alternative is dead: theta >= eps here) *)
  Definition rod_axis (r : vec3 F) : vec3 F := vscale O (1 / rod_theta r) r.
  (* c * I + c1 * rrt + s * _r_x_ for an already normalised axis k *)
  Definition rod_matrix (c s : F) (k : vec3 F) : mat3 F :=
    m3add (m3add (m3scale c (I3 O)) (m3scale (1 - c) (m3outer k))) (m3scale s (m3skew k)).

  Definition rodrigues_fwd (r : vec3 F) : mat3 F :=
    let theta := rod_theta r in
    if nltb O theta rod_eps then I3 O
    else rod_matrix (ncos O theta) (nsin O theta) (rod_axis r).

  (* ---------- forward Jacobian: the (3,9) array, row i kept as the 3x3 matrix jac[i].reshape(3,3) ---------- *)
  (* drrt rows *)
  Definition rod_drrt (k : vec3 F) (i : nat) : mat3 F :=
    match i with
    | 0%nat => M3 (vx k + vx k) (vy k) (vz k)  (vy k) 0 0  (vz k) 0 0
    | 1%nat => M3 0 (vx k) 0  (vx k) (vy k + vy k) (vz k)  0 (vz k) 0
    | _     => M3 0 0 (vx k)  0 0 (vy k)  (vx k) (vy k) (vz k + vz k)
    end.
  (* d_r_x_ rows *)
  Definition rod_dskew (i : nat) : mat3 F :=
    match i with
    | 0%nat => M3 0 0 0  0 0 m1  0 1 0
    | 1%nat => M3 0 0 1  0 0 0  m1 0 0
    | _     => M3 0 m1 0  1 0 0  0 0 0
    end.
  (* a0*I_jac + a1*rrt + a2*drrt + a3*_r_x_ + a4*d_r_x_, row i *)
  Definition rod_jac_row (c s itheta : F) (k : vec3 F) (i : nat) : mat3 F :=
    let c1 := 1 - c in
    let ki := vget k i in
    let a0 := (- s) * ki in
    let a1 := (s - n2 O * c1 * itheta) * ki in
    let a2 := 1 * c1 * itheta in
    let a3 := (c - s * itheta) * ki in
    let a4 := 1 * s * itheta in
    m3add (m3add (m3add (m3add (m3scale a0 (I3 O)) (m3scale a1 (m3outer k))) (m3scale a2 (rod_drrt k i)))
                 (m3scale a3 (m3skew k))) (m3scale a4 (rod_dskew i)).
  Definition rodrigues_fwd_jac (r : vec3 F) : list (mat3 F) :=
    let theta := rod_theta r in
    if nltb O theta rod_eps then [rod_dskew 0; rod_dskew 1; rod_dskew 2]
    else
      let c := ncos O theta in let s := nsin O theta in let k := rod_axis r in
      [rod_jac_row c s (1 / theta) k 0; rod_jac_row c s (1 / theta) k 1; rod_jac_row c s (1 / theta) k 2].
  Definition jac39_flat (j : list (mat3 F)) : list F := flat_map (m3list) j.

  (* ---------- inverse map ---------- *)
  Section Inverse.
    (* u, _, v = np.linalg.svd(r); r = np.dot(u, v): LAPACK is not modelled; it is a function argument whose
       contract (it returns its input when the input is already orthogonal) is a hypothesis of the theorems. *)
    Context (proj : mat3 F -> mat3 F).

    Definition rod_half : F := nfrac O 1 2.
    (* the binary64 literal 1e-5 *)
    Definition rod_small : F := nfrac O 5902958103587057 590295810358705651712.
    (* np.clip(x, lo, hi) = minimum(maximum(x, lo), hi) *)
    Definition nclip (x lo hi : F) : F := nmin O (nmax O x lo) hi.

    Definition rod_antisym (p : mat3 F) : vec3 F :=
      V3 (a21 p - a12 p) (a02 p - a20 p) (a10 p - a01 p).
    Definition rod_inv_s (p : mat3 F) : F := vnorm O (rod_antisym p) * rod_half.
    Definition rod_inv_c (p : mat3 F) : F :=
      nclip ((a00 p + a11 p + a22 p - 1) * rod_half) m1 1.
    Definition rod_inv_theta (p : mat3 F) : F := nacos O (rod_inv_c p).

    (* half-turn branch: axis from the diagonal with the three sign fix-ups.
       (fixed code: sqrt(clip((diag+1)/2, 0, inf)), fixes/C10-halfturn-sqrt-clip.diff; signs tested on the symmetric
       part r[i,j] + r[j,i] = 2(1-c) k_i k_j, fixes/C10-halfturn-sign-from-symmetric-part.diff) *)
    Definition rod_diag_root (d : F) : F := nsqrt O (nmax O ((d + 1) * rod_half) 0).
    Definition rod_half_axis (p : mat3 F) : vec3 F :=
      let rx := rod_diag_root (a00 p) in
      let ry0 := rod_diag_root (a11 p) in
      let rz0 := rod_diag_root (a22 p) in
      let ry := if nltb O (a01 p + a10 p) 0 then - ry0 else ry0 in
      let rz1 := if nltb O (a02 p + a20 p) 0 then - rz0 else rz0 in
      let rz :=
        if andb (nltb O (nabs O rx) (nabs O ry))
             (andb (nltb O (nabs O rx) (nabs O rz1))
                   (negb (Bool.eqb (nltb O 0 (a12 p + a21 p)) (nltb O 0 (ry * rz1)))))
        then - rz1 else rz1 in
      V3 rx ry rz.

    (* None = the code would divide by a zero norm (NaN); cannot happen for an orthogonal projection *)
    Definition rodrigues_inv_of_proj (p : mat3 F) : option (vec3 F) :=
      let s := rod_inv_s p in
      let c := rod_inv_c p in
      let theta := rod_inv_theta p in
      if nltb O s rod_small then
        if nltb O 0 c then Some (vzero O)
        else
          let v := rod_half_axis p in
          let n := vnorm O v in
          if neqb O n 0 then None else Some (vscale O (theta / n) v)
      else
        Some (vscale O ((1 / (n2 O * s)) * theta) (rod_antisym p)).
    Definition rodrigues_inv (m : mat3 F) : option (vec3 F) := rodrigues_inv_of_proj (proj m).

    (* ---------- inverse Jacobian: the (9,3) array as 9 rows of 3 ---------- *)
    Definition ldot (u v : list F) : F := nsum O (map2 (nmul O) u v).
    (* a @ b with b given by its columns *)
    Definition lmatmul_cols (a bcols : list (list F)) : list (list F) :=
      map (fun row => map (fun col => ldot row col) bcols) a.
    Fixpoint lcols3 (r0 r1 r2 : list F) : list (list F) :=
      match r0, r1, r2 with
      | x :: r0', y :: r1', z :: r2' => [x; y; z] :: lcols3 r0' r1' r2'
      | _, _, _ => []
      end.
    Fixpoint lcols4 (r0 r1 r2 r3 : list F) : list (list F) :=
      match r0, r1, r2, r3 with
      | x :: r0', y :: r1', z :: r2', w :: r3' => [x; y; z; w] :: lcols4 r0' r1' r2' r3'
      | _, _, _, _ => []
      end.
    Fixpoint lcols5 (r0 r1 r2 r3 r4 : list F) : list (list F) :=
      match r0, r1, r2, r3, r4 with
      | x :: r0', y :: r1', z :: r2', w :: r3', u :: r4' => [x; y; z; w; u] :: lcols5 r0' r1' r2' r3' r4'
      | _, _, _, _, _ => []
      end.
    (* jac[ii].reshape((3, 3)).T.flatten() *)
    Definition row_T33 (r : list F) : list F :=
      match r with
      | [e0; e1; e2; e3; e4; e5; e6; e7; e8] => [e0; e3; e6; e1; e4; e7; e2; e5; e8]
      | _ => r
      end.
    Definition zeros93 : list (list F) := repeat [0; 0; 0] 9.

    (* generic branch: jac = (domegadvar2 @ dvar2dvar) @ dvardR, rows re-laid out, transposed *)
    Definition rod_inv_jac_generic (s c theta : F) (w : vec3 F) : list (list F) :=
      let h := rod_half in
      let vth := 1 / (n2 O * s) in
      let dtheta_dtr := m1 / s in
      let dvth_dtheta := (- vth) * c / s in
      let d1 := h * dvth_dtheta * dtheta_dtr in
      let d2 := h * dtheta_dtr in
      let dvardR :=
        [[0; 0; 0; 0; 0; 1; 0; m1; 0];
         [0; 0; m1; 0; 0; 0; 1; 0; 0];
         [0; 1; 0; m1; 0; 0; 0; 0; 0];
         [d1; 0; 0; 0; d1; 0; 0; 0; d1];
         [d2; 0; 0; 0; d2; 0; 0; 0; d2]] in
      let dvar2dvar :=
        [[vth; 0; 0; vx w; 0];
         [0; vth; 0; vy w; 0];
         [0; 0; vth; vz w; 0];
         [0; 0; 0; 0; 1]] in
      let domegadvar2 :=
        [[theta; 0; 0; vx w * vth];
         [0; theta; 0; vy w * vth];
         [0; 0; theta; vz w * vth]] in
      let ab := lmatmul_cols domegadvar2
                  (match dvar2dvar with [b0; b1; b2; b3] => lcols4 b0 b1 b2 b3 | _ => [] end) in
      let abc := lmatmul_cols ab
                  (match dvardR with [c0; c1; c2; c3; c4] => lcols5 c0 c1 c2 c3 c4 | _ => [] end) in
      match map row_T33 abc with
      | [j0; j1; j2] => lcols3 j0 j1 j2
      | _ => []
      end.
    (* s < 1e-5 and c > 0: jac[1,2] = jac[5,0] = jac[6,1] = -0.5 ; jac[2,1] = jac[3,2] = jac[7,0] = 0.5 *)
    Definition rod_inv_jac_identity : list (list F) :=
      let h := rod_half in
      [[0; 0; 0]; [0; 0; - h]; [0; h; 0];
       [0; 0; h]; [0; 0; 0]; [- h; 0; 0];
       [0; - h; 0]; [h; 0; 0]; [0; 0; 0]].

    Definition rodrigues_inv_jac_of_proj (p : mat3 F) : list (list F) :=
      let s := rod_inv_s p in
      let c := rod_inv_c p in
      if nltb O s rod_small then
        if nltb O 0 c then rod_inv_jac_identity else zeros93
      else rod_inv_jac_generic s c (rod_inv_theta p) (rod_antisym p).
    Definition rodrigues_inv_jac (m : mat3 F) : list (list F) := rodrigues_inv_jac_of_proj (proj m).
  End Inverse.

  (* ---------- entry points on arrays of any shape ---------- *)
  Record ndarr := MkNd { nd_shape : list nat; nd_data : list F }.
  Definition nd_size (a : ndarr) : nat := fold_right Nat.mul 1%nat (nd_shape a).
  Definition shape_eqb (s t : list nat) : bool :=
    if list_eq_dec Nat.eq_dec s t then true else false.

  Inductive rod_out :=
  | OutMat (m : mat3 F) (jac : option (list (mat3 F)))            (* (3,3) and the (3,9) Jacobian *)
  | OutVec (v : option (vec3 F)) (jac : option (list (list F))).  (* (3,1) (None = NaN) and the (9,3) Jacobian *)

  (* rodrigues_vector_to_rotation_matrix: flatten, then vg.shape.check_value(r, (3,)) *)
  Definition r2m_entry (a : ndarr) (jac : bool) : result rod_out :=
    match nd_data a with
    | [x; y; z] =>
        let r := V3 x y z in
        Ok (OutMat (rodrigues_fwd r) (if jac then Some (rodrigues_fwd_jac r) else None))
    | _ => Raise ValueError
    end.
  (* rotation_matrix_to_rodrigues_vector: vg.shape.check_value(r, (3, 3)) *)
  Definition m2r_entry (proj : mat3 F -> mat3 F) (a : ndarr) (jac : bool) : result rod_out :=
    if shape_eqb (nd_shape a) [3%nat; 3%nat] then
      match nd_data a with
      | [x0; x1; x2; x3; x4; x5; x6; x7; x8] =>
          let m := M3 x0 x1 x2 x3 x4 x5 x6 x7 x8 in
          Ok (OutVec (rodrigues_inv proj m) (if jac then Some (rodrigues_inv_jac proj m) else None))
      | _ => Raise ValueError
      end
    else Raise ValueError.
  (* cv2_rodrigues: r.size == 3 -> forward; r.shape == (3,3) -> inverse; else ValueError *)
  Definition cv2_rodrigues (proj : mat3 F -> mat3 F) (a : ndarr) (jac : bool) : result rod_out :=
    if Nat.eqb (nd_size a) 3 then r2m_entry a jac
    else if shape_eqb (nd_shape a) [3%nat; 3%nat] then m2r_entry proj a jac
    else Raise ValueError.
End Rodrigues.
Arguments m3get {F}.
Arguments MkNd {F}. Arguments nd_shape {F}. Arguments nd_data {F}.
Arguments OutMat {F}. Arguments OutVec {F}.
