(* polliwog/transform/_rodrigues.py : rodrigues_vector_to_rotation_matrix,
   rotation_matrix_to_rodrigues_vector, cv2_rodrigues.  Definitions only. *)
From Coq Require Import ZArith List Bool.
From PW Require Import Num Vec Mat NpList Result.
Import ListNotations.

Section Rodrigues.
  Context {F : Type} (O : NumOps F).
  Local Notation "a + b" := (nadd O a b).
  Local Notation "a - b" := (nsub O a b).
  Local Notation "a * b" := (nmul O a b).
  Local Notation "a / b" := (ndiv O a b).
  Local Notation "- a" := (nneg O a).
  Local Notation "0" := (n0 O).
  Local Notation "1" := (n1 O).

  (* ---------- small 3x3 helpers (not in Mat.v) ---------- *)
  Definition m3add (a b : mat3 F) : mat3 F :=
    M3 (a00 a + a00 b) (a01 a + a01 b) (a02 a + a02 b)
       (a10 a + a10 b) (a11 a + a11 b) (a12 a + a12 b)
       (a20 a + a20 b) (a21 a + a21 b) (a22 a + a22 b).
  Definition m3scale (s : F) (a : mat3 F) : mat3 F :=
    M3 (s * a00 a) (s * a01 a) (s * a02 a)
       (s * a10 a) (s * a11 a) (s * a12 a)
       (s * a20 a) (s * a21 a) (s * a22 a).
  (* rrt = np.array([r * r[0], r * r[1], r * r[2]]) : entry (i,j) = r[j] * r[i] *)
  Definition m3outer (k : vec3 F) : mat3 F :=
    M3 (vx k * vx k) (vy k * vx k) (vz k * vx k)
       (vx k * vy k) (vy k * vy k) (vz k * vy k)
       (vx k * vz k) (vy k * vz k) (vz k * vz k).
  (* _r_x_ = [[0, -r2, r1], [r2, 0, -r0], [-r1, r0, 0]] *)
  Definition m3skew (k : vec3 F) : mat3 F :=
    M3 0 (- vz k) (vy k)
       (vz k) 0 (- vx k)
       (- vy k) (vx k) 0.

  (* ---------- forward map ---------- *)
  (* eps = np.finfo(np.double).eps = 2^-52 *)
  Definition rod_eps : F := nfrac O 1 4503599627370496.
  (* theta = np.linalg.norm(r) *)
  Definition rod_theta (r : vec3 F) : F := vnorm O r.
  (* itheta = 1.0 / theta; r *= itheta  (the `theta == 0.0` alternative is dead: theta >= eps here) *)
  Definition rod_axis (r : vec3 F) : vec3 F := vscale O (1 / rod_theta r) r.
  (* c * I + c1 * rrt + s * _r_x_ for an already normalised axis k *)
  Definition rod_matrix (c s : F) (k : vec3 F) : mat3 F :=
    m3add (m3add (m3scale c (I3 O)) (m3scale (1 - c) (m3outer k))) (m3scale s (m3skew k)).

  Definition rodrigues_fwd (r : vec3 F) : mat3 F :=
    let theta := rod_theta r in
    if nltb O theta rod_eps then I3 O
    else rod_matrix (ncos O theta) (nsin O theta) (rod_axis r).
End Rodrigues.
