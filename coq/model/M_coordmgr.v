(* polliwog/transform/_coordinate_manager.py : CoordinateManager as a state machine.  Definitions only. *)
From Coq Require Import ZArith List Bool String.
From PW Require Import Num Vec Mat NpList Result.
From PW.model Require Import M_rodrigues M_affine M_rotation M_composite.
Import ListNotations.

Inductive cm_op (F : Type) :=
| CTransform (o : op F)                                   (* any of the delegated appending methods *)
| CTagAs (name : string)                                  (* tag_as(name) *)
| CSetAttr (name : string) (pts : list (vec3 F))          (* cm.<name> = points *)
| CGetAttr (name : string)                                (* cm.<name> *)
| CDoTransform (pts : list (vec3 F)) (from_tag to_tag : string).   (* do_transform(points, from_tag, to_tag) *)
Arguments CTransform {F}. Arguments CTagAs {F}. Arguments CSetAttr {F}. Arguments CGetAttr {F}. Arguments CDoTransform {F}.

(* what a call gives back: nothing (the delegating methods and tag_as return None) or points *)
(* OutOther: some other Python object (a bound method, the tag dict, ...), see attr_shadowed below *)
Inductive cm_out (F : Type) := OutNone | OutPoints (pts : list (vec3 F)) | OutOther.
Arguments OutNone {F}. Arguments OutPoints {F}. Arguments OutOther {F}.

(* __getattr__ is only consulted when ordinary attribute lookup fails: a tag whose name is an attribute of the object
   (a method of the class, an inherited dunder name, an instance attribute) is never converted on an attribute read,
   Python returns the attribute itself.  The list of attribute names is DATA: the harness reads dir(CoordinateManager())
   from the code on every run and passes it in, and every theorem is quantified over it, so that adding or renaming
   private helpers changes nothing.  pts_attr is the name of the instance attribute that holds the assigned array. *)
Definition attr_shadowed (attrs : list string) (name : string) : bool := existsb (String.eqb name) attrs.

(* _tags_to_indices: a dict; the most recent binding of a name is found first *)
Fixpoint tag_lookup (name : string) (tags : list (string * nat)) : option nat :=
  match tags with
  | [] => None
  | (n, i) :: r => if String.eqb n name then Some i else tag_lookup name r
  end.

Section CoordMgr.
  Context {F : Type} (O : NumOps F).

  Record cm_state := MkCM {
    cm_tags : list (string * nat);                 (* _tags_to_indices *)
    cm_points : option (string * list (vec3 F));   (* (_points_tag, _points), None before any assignment *)
    cm_tr : cstate (F:=F) }.                       (* _transform.transforms *)
  Definition cm_init : cm_state := MkCM [] None [].

  (* do_transform: both tags must exist; equal positions -> the points themselves; forward range (from, to) if the
     target was tagged later; reverse over (to, from) if earlier *)
  Definition convert (tr : cstate (F:=F)) (i j : nat) (pts : list (vec3 F)) : list (vec3 F) :=
    if Nat.eqb i j then pts
    else if Nat.ltb i j then map (call_point O tr (Some (Z.of_nat i, Z.of_nat j)) false false) pts
    else map (call_point O tr (Some (Z.of_nat j, Z.of_nat i)) true false) pts.
  Definition do_transform (st : cm_state) (pts : list (vec3 F)) (from_tag to_tag : string) : result (list (vec3 F)) :=
    match tag_lookup from_tag (cm_tags st) with
    | None => Raise KeyError
    | Some i =>
        match tag_lookup to_tag (cm_tags st) with
        | None => Raise KeyError
        | Some j => Ok (convert (cm_tr st) i j pts)
        end
    end.

  Definition cm_step (attrs : list string) (pts_attr : string) (st : cm_state) (o : cm_op F) : cm_state * result (cm_out F) :=
    match o with
    | CTransform t =>
        match step O (cm_tr st) t with
        | Ok (tr', _) => (MkCM (cm_tags st) (cm_points st) tr', Ok OutNone)
        | Raise e => (st, Raise e)
        end
    | CTagAs name => (MkCM ((name, List.length (cm_tr st)) :: cm_tags st) (cm_points st) (cm_tr st), Ok OutNone)
    | CSetAttr name pts =>
        match tag_lookup name (cm_tags st) with
        | None => (st, Raise AttributeError)
        | Some _ => (MkCM (cm_tags st) (Some (name, pts)) (cm_tr st), Ok OutNone)
        end
    | CGetAttr name =>
        if attr_shadowed attrs name then
          (* the attribute itself: for pts_attr the raw stored array (None before any assignment), else an object *)
          (st, Ok (if String.eqb name pts_attr
                   then match cm_points st with Some (_, pts) => OutPoints pts | None => OutOther end
                   else OutOther))
        else
        match cm_points st with
        | None => (st, Raise ValueError)
        | Some (tag, pts) => (st, rmap OutPoints (do_transform st pts tag name))
        end
    | CDoTransform pts a b => (st, rmap OutPoints (do_transform st pts a b))
    end.

  Fixpoint cm_run (attrs : list string) (pts_attr : string) (ops : list (cm_op F)) (st : cm_state) : cm_state * list (result (cm_out F)) :=
    match ops with
    | [] => (st, [])
    | o :: r => let (st', res) := cm_step attrs pts_attr st o in
                let (st'', rest) := cm_run attrs pts_attr r st' in (st'', res :: rest)
    end.
  Definition cm_final (attrs : list string) (pts_attr : string) (ops : list (cm_op F)) (st : cm_state) : cm_state :=
    fold_left (fun s o => fst (cm_step attrs pts_attr s o)) ops st.
End CoordMgr.
