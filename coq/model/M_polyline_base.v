(* The value a Polyline holds: its vertex list and closedness. Shared by the polyline models. *)
From Coq Require Import List.
From PW Require Import Num Vec.
Record polyline (F : Type) := MkPolyline { pv : list (vec3 F); pclosed : bool }.
Arguments MkPolyline {F}. Arguments pv {F}. Arguments pclosed {F}.
