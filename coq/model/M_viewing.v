(* polliwog/transform/_viewing.py : world_to_view, view_to_orthographic_projection, viewport_transform,
   world_to_canvas_orthographic_projection.  Definitions only.

   compose_transforms(a, b, c) = reduce(np.dot, reversed([a, b, c])) = c @ b @ a  (first argument applied first),
   np.dot associating to the left: (c @ b) @ a.

   Exceptional behaviour mirrored (Python float arguments):
     - a division by a zero Python float raises ZeroDivisionError (orthographic: 2/width, 2/height, ../(far-near);
       viewport inverse: 2/(x_right-x_left), 2/(y_top-y_bottom); canvas: width/zoom, height/zoom and the stages);
     - world_to_view divides NumPy arrays: target = position, or up parallel to the viewing direction, gives a
       matrix containing NaN and no exception.  The model returns the marker None instead of dividing by zero. *)
From Coq Require Import ZArith List Bool.
From PW Require Import Num Vec Mat Result.
Import ListNotations.

Section Viewing.
  Context {F : Type} (O : NumOps F).
  Local Notation "a + b" := (nadd O a b).
  Local Notation "a - b" := (nsub O a b).
  Local Notation "a * b" := (nmul O a b).
  Local Notation "a / b" := (ndiv O a b).
  Local Notation "0" := (n0 O).
  Local Notation "1" := (n1 O).
  Local Notation "2" := (n2 O).

  Definition is0 (x : F) : bool := neqb O x 0.

  (* compose_transforms(a, b): a first, then b *)
  Definition compose2 (a b : mat4 F) : mat4 F := mmul O b a.
  Definition compose3 (a b c : mat4 F) : mat4 F := mmul O (mmul O c b) a.

  (* ---------------- world_to_view ---------------- *)
  Definition w2v_look (position target : vec3 F) : vec3 F := vnormalize O (vsub O target position).
  Definition w2v_left (position target up : vec3 F) : vec3 F :=
    vnormalize O (vcross O (w2v_look position target) up).
  Definition w2v_up (position target up : vec3 F) : vec3 F :=
    vcross O (w2v_left position target up) (w2v_look position target).
  (* np.array([left, recomputed_up, look]) *)
  Definition w2v_rot3 (position target up : vec3 F) : mat3 F :=
    m3rows (w2v_left position target up) (w2v_up position target up) (w2v_look position target).
  Definition w2v_mat (position target up : vec3 F) (inverse : bool) : mat4 F :=
    let rotation := m33to44 O (w2v_rot3 position target up) in
    if inverse then compose2 (mtranspose rotation) (mtranslation O position)
    else compose2 (mtranslation O (vneg O position)) rotation.
  (* None = the returned array contains NaN *)
  Definition w2v_degenerate (position target up : vec3 F) : bool :=
    let d := vsub O target position in
    is0 (vnorm2 O d) || is0 (vnorm2 O (vcross O d up)).
  Definition world_to_view (position target up : vec3 F) (inverse : bool) : option (mat4 F) :=
    if w2v_degenerate position target up then None else Some (w2v_mat position target up inverse).
  Definition basis_y : vec3 F := V3 0 1 0.

  (* ---------------- view_to_orthographic_projection ---------------- *)
  (* the two matrices of either direction with the z entries given: (scale entry, translate entry) *)
  Definition ortho_mat_c (width height zscale ztrans : F) (inverse : bool) : mat4 F :=
    if inverse then
      let inverse_translate := M4 1 0 0 0  0 1 0 0  0 0 1 ztrans  0 0 0 1 in
      let inverse_scale := M4 (width / 2) 0 0 0  0 (height / 2) 0 0  0 0 zscale 0  0 0 0 1 in
      compose2 inverse_translate inverse_scale
    else
      let scale := M4 (2 / width) 0 0 0  0 (2 / height) 0 0  0 0 zscale 0  0 0 0 1 in
      let translate := M4 1 0 0 0  0 1 0 0  0 0 1 ztrans  0 0 0 1 in
      compose2 scale translate.
  (* forward: -2 / (far - near) and -(far + near) / (far - near);
     inverse: (far - near) / -2 and (far + near) / (far - near) *)
  Definition ortho_zscale (near far : F) (inverse : bool) : F :=
    if inverse then (far - near) / nofZ O (-2) else nofZ O (-2) / (far - near).
  Definition ortho_ztrans (near far : F) (inverse : bool) : F :=
    if inverse then (far + near) / (far - near) else nneg O (far + near) / (far - near).
  Definition ortho_mat (width height near far : F) (inverse : bool) : mat4 F :=
    ortho_mat_c width height (ortho_zscale near far inverse) (ortho_ztrans near far inverse) inverse.
  Definition view_to_orthographic_projection (width height near far : F) (inverse : bool) : result (mat4 F) :=
    if is0 (far - near) then Raise ZeroDivisionError
    else if negb inverse && (is0 width || is0 height) then Raise ZeroDivisionError
    else Ok (ortho_mat width height near far inverse).

  (* ---------------- viewport_transform ---------------- *)
  Definition half : F := nfrac O 1 2.
  Definition viewport_mat (x_right y_bottom x_left y_top : F) (inverse : bool) : mat4 F :=
    if inverse then
      let inverse_translate :=
        M4 1 0 0 (nfrac O (-1) 2 * (x_right + x_left))  0 1 0 (nfrac O (-1) 2 * (y_top + y_bottom))
           0 0 1 (nfrac O (-1) 2)  0 0 0 1 in
      let inverse_scale :=
        M4 (2 / (x_right - x_left)) 0 0 0  0 (2 / (y_top - y_bottom)) 0 0  0 0 2 0  0 0 0 1 in
      compose2 inverse_translate inverse_scale
    else
      let scale := M4 (half * (x_right - x_left)) 0 0 0  0 (half * (y_top - y_bottom)) 0 0  0 0 half 0  0 0 0 1 in
      let translate := M4 1 0 0 (half * (x_right + x_left))  0 1 0 (half * (y_top + y_bottom))  0 0 1 half  0 0 0 1 in
      compose2 scale translate.
  Definition viewport_transform (x_right y_bottom x_left y_top : F) (inverse : bool) : result (mat4 F) :=
    if inverse && (is0 (x_right - x_left) || is0 (y_top - y_bottom)) then Raise ZeroDivisionError
    else Ok (viewport_mat x_right y_bottom x_left y_top inverse).

  (* ---------------- world_to_canvas_orthographic_projection ---------------- *)
  (* defaults of view_to_orthographic_projection: near=0.1, far=2000 *)
  Definition default_near : F := nfrac O 1 10.
  Definition default_far : F := nofZ O 2000.
  (* the three stages given explicitly, composed as the code does: in order, reversed for the inverse *)
  Definition canvas_compose (view ortho viewport : mat4 F) (inverse : bool) : mat4 F :=
    if inverse then compose3 viewport ortho view else compose3 view ortho viewport.
  (* with the z entries of the projection stage given (the code computes them from the float defaults) *)
  Definition canvas_mat_c (zscale ztrans width height : F) (position target : vec3 F) (zoom : F) (inverse : bool) : mat4 F :=
    canvas_compose (w2v_mat position target basis_y inverse)
                   (ortho_mat_c (width / zoom) (height / zoom) zscale ztrans inverse)
                   (viewport_mat width height 0 0 inverse) inverse.
  (* the composed projection matrix with its two z entries (row 2: scale entry, translation entry) given as they come out
     of the code (binary64 constants for the default near/far, possibly already multiplied and rounded) *)
  Definition ortho_mat_z (width height z22 z23 : F) (inverse : bool) : mat4 F :=
    M4 (if inverse then width / 2 else 2 / width) 0 0 0
       0 (if inverse then height / 2 else 2 / height) 0 0
       0 0 z22 z23
       0 0 0 1.
  (* exact value of entry (2,3) of the composed matrix: forward the translate entry, inverse scale entry x translate entry *)
  Definition ortho_z23 (near far : F) (inverse : bool) : F :=
    if inverse then ortho_zscale near far true * ortho_ztrans near far true else ortho_ztrans near far false.
  Definition canvas_mat_z (z22 z23 width height : F) (position target : vec3 F) (zoom : F) (inverse : bool) : mat4 F :=
    canvas_compose (w2v_mat position target basis_y inverse)
                   (ortho_mat_z (width / zoom) (height / zoom) z22 z23 inverse)
                   (viewport_mat width height 0 0 inverse) inverse.
  Definition canvas_mat (width height : F) (position target : vec3 F) (zoom : F) (inverse : bool) : mat4 F :=
    canvas_mat_c (ortho_zscale default_near default_far inverse) (ortho_ztrans default_near default_far inverse)
                 width height position target zoom inverse.
  Definition world_to_canvas (width height : F) (position target : vec3 F) (zoom : F) (inverse : bool)
    : result (option (mat4 F)) :=
    if is0 zoom || is0 width || is0 height then Raise ZeroDivisionError
    else if w2v_degenerate position target basis_y then Ok None
    else Ok (Some (canvas_mat width height position target zoom inverse)).
End Viewing.
