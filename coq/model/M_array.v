(* Model of polliwog/polyline/_array.py: find_repeats / find_changes on a 1-D array (C20, extra callables).
   wrap:      np.roll(arr, 1) == arr        non-wrap:  np.concatenate(([False], arr[:-1] == arr[1:]))
   NOTE (mirrored, not repaired): for an EMPTY array the non-wrap form returns [False], one entry longer than
   the input, although the docstring promises the length of the input. *)
From Coq Require Import List Bool.
From PW Require Import Num.
Import ListNotations.

Section ArrayOps.
  Context {F : Type} (O : NumOps F).

  (* np.roll(l, 1): last element first *)
  Definition roll1 (l : list F) : list F :=
    match rev l with [] => [] | x :: r => x :: rev r end.

  Fixpoint zip_with (f : F -> F -> bool) (l m : list F) : list bool :=
    match l, m with a :: l', b :: m' => f a b :: zip_with f l' m' | _, _ => [] end.

  (* arr[:-1] `op` arr[1:] *)
  Fixpoint adjacent (f : F -> F -> bool) (l : list F) : list bool :=
    match l with
    | a :: ((b :: _) as r) => f a b :: adjacent f r
    | _ => []
    end.

  Definition eqf (a b : F) : bool := neqb O a b.
  Definition nef (a b : F) : bool := negb (neqb O a b).

  Definition find_repeats (arr : list F) (wrap : bool) : list bool :=
    if wrap then zip_with eqf (roll1 arr) arr else false :: adjacent eqf arr.
  Definition find_changes (arr : list F) (wrap : bool) : list bool :=
    if wrap then zip_with nef (roll1 arr) arr else false :: adjacent nef arr.
End ArrayOps.
