(* polliwog/transform/_rotation.py : euler, rotation_from_up_and_look.  Definitions only. *)
From Coq Require Import ZArith List Bool.
From PW Require Import Num Vec Mat NpList Result.
Import ListNotations.

(* one character of the `order` string; characters other than x, y, z are skipped by the code *)
Inductive axis := AX | AY | AZ | AOther.

Section Rotation.
  Context {F : Type} (O : NumOps F).
  Local Notation "0" := (n0 O).
  Local Notation "1" := (n1 O).

  (* the three literal matrices of euler() *)
  Definition axis_rotation (a : axis) (theta : F) : mat3 F :=
    let c := ncos O theta in
    let s := nsin O theta in
    match a with
    | AX => M3 1 0 0  0 c (nneg O s)  0 s c
    | AY => M3 c 0 s  0 1 0  (nneg O s) 0 c
    | AZ => M3 c (nneg O s) 0  s c 0  0 0 1
    | AOther => I3 O
    end.
  (* r = np.dot(M, r) for x, y, z; r unchanged for any other character *)
  Definition euler_step (r : mat3 F) (ta : F * axis) : mat3 F :=
    match snd ta with
    | AOther => r
    | a => m3mul O (axis_rotation a (fst ta)) r
    end.
  (* for theta, axis in zip(xyz, order) *)
  Definition euler_rad (angles : list F) (order : list axis) : mat3 F :=
    fold_left euler_step (zip angles order) (I3 O).
  (* np.radians *)
  Definition npi : F := nacos O (nofZ O (-1)).
  Definition radians (a : F) : F := ndiv O (nmul O a npi) (nofZ O 180).
  Definition euler (deg : bool) (angles : list F) (order : list axis) : mat3 F :=
    euler_rad (if deg then map radians angles else angles) order.

  (* rotation_from_up_and_look *)
  Definition rotation_from_up_and_look (up look : vec3 F) : result (mat3 F) :=
    if neqb O (vnorm O up) 0 then Raise ValueError
    else if neqb O (vnorm O look) 0 then Raise ValueError
    else
      let y := vdivs O up (vnorm O up) in
      let z := vsub O look (vscale O (vdot O look y) y) in
      if neqb O (vnorm O z) 0 then Raise ValueError
      else
        let z' := vdivs O z (vnorm O z) in
        Ok (m3rows (vcross O y z') y z').
End Rotation.
