(* polliwog/segment/_segment_functions.py, and the segment views of a Polyline
   (Polyline.e / segments / segment_vectors of polliwog/polyline/_polyline_object.py, _edges.py). *)
From Coq Require Import ZArith List Bool.
From PW Require Import Num Vec NpList Result.
From PW.model Require Import M_polyline_base.
Import ListNotations.

Section Segment.
  Context {F : Type} (O : NumOps F).

  (* ---- Polyline.segments: edges_for(num_v, is_closed) = (i, i+1), the closing edge (n-1, 0) last ---- *)
  Definition open_segments (vs : list (vec3 F)) : list (vec3 F * vec3 F) :=
    match vs with [] => [] | h :: t => zip (h :: t) t end.
  Definition pl_segments (pl : polyline F) : list (vec3 F * vec3 F) :=
    match pv pl with
    | [] => []
    | h :: t => if pclosed pl then zip (h :: t) t ++ [(last t h, h)] else zip (h :: t) t
    end.
  Definition seg_vector (s : vec3 F * vec3 F) : vec3 F := vsub O (snd s) (fst s).
  (* index of the end vertex of edge k:  e[k][1]  (0 for the closing edge) *)
  Definition edge_end (pl : polyline F) (k : nat) : nat :=
    if pclosed pl && Nat.eqb (S k) (length (pv pl)) then 0%nat else S k.

  (* np.clip(t, 0, 1) = minimum(maximum(t, 0), 1) *)
  Definition clip01 (t : F) : F := nmin O (nmax O t (n0 O)) (n1 O).

  (* closest_point_of_line_segment: t = clip(nan_to_num(dot(p - a, v) / dot(v, v)), 0, 1).
     A zero denominator never reaches ndiv: 0/0 = NaN -> 0; x/0 = +-inf -> +-max float -> clipped to 1 / 0. *)
  Definition closest_t (p a v : vec3 F) : F :=
    let d := vdot O v v in
    let n := vdot O (vsub O p a) v in
    if neqb O d (n0 O) then (if nltb O (n0 O) n then n1 O else n0 O)
    else clip01 (ndiv O n d).
  Definition closest_point (p a v : vec3 F) : vec3 F := vadd O a (vscale O (closest_t p a v) v).

  (* pairwise stacked form (k query points, k starts, k vectors) *)
  Definition closest_points_pairs (ps sa sv : list (vec3 F)) : list (vec3 F) :=
    map (fun x => closest_point (fst (fst x)) (snd (fst x)) (snd x)) (zip (zip ps sa) sv).
  Definition closest_ts_pairs (ps sa sv : list (vec3 F)) : list F :=
    map (fun x => closest_t (fst (fst x)) (snd (fst x)) (snd x)) (zip (zip ps sa) sv).

  (* is_point_on_line_segment: sum(square(closest - query)) <= epsilon ** 2 *)
  Definition sqdist (a b : vec3 F) : F := vnorm2 O (vsub O a b).
  Definition on_segment (q a v : vec3 F) (eps : F) : bool :=
    nleb O (sqdist (closest_point q a v) q) (nmul O eps eps).
  Definition on_segment_pairs (qs sa sv : list (vec3 F)) (eps : F) : list bool :=
    map (fun x => on_segment (fst (fst x)) (snd (fst x)) (snd x) eps) (zip (zip qs sa) sv).
End Segment.
