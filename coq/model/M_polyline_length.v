(* Arc-length queries and refinement: Polyline.segment_lengths / total_length / path_centroid / point_along_path /
   subdivided_by_length / with_segments_bisected (polliwog/polyline/_polyline_object.py) and
   path_centroid / subdivide_segment / subdivide_segments (polliwog/segment/_segment_functions.py).
   point_along_path, with_segments_bisected and the index maps of with_insertions are modelled as repaired by the /repo
   commits b4dc017 (f = 1), b67c153 / 9cca2eb (empty index array / plain empty list) and 9e3d823 (index maps). *)
From Coq Require Import ZArith List Bool.
From PW Require Import Num Vec NpList Result.
From PW.model Require Import M_polyline_base M_segment M_polyline_nearest.
Import ListNotations.

Section Length.
  Context {F : Type} (O : NumOps F).

  (* segment_lengths: vg.euclidean_distance(segments[:, 0], segments[:, 1]) *)
  Definition segment_lengths (pl : polyline F) : list F := map (seg_len O) (pl_segments pl).
  (* total_length = np.sum(segment_lengths): M_polyline_nearest.total_length *)

  (* path_centroid(segments): np.average(centers, weights=lengths, axis=0); np.average raises
     ZeroDivisionError when the weights sum to zero (also for no segments at all) *)
  Definition seg_mid (s : vec3 F * vec3 F) : vec3 F := vdivs O (vadd O (fst s) (snd s)) (n2 O).
  Definition vsum (l : list (vec3 F)) : vec3 F := fold_left (vadd O) l (vzero O).
  Definition path_centroid_segs (segs : list (vec3 F * vec3 F)) : result (vec3 F) :=
    let w := nsum O (map (seg_len O) segs) in
    if neqb O w (n0 O) then Raise ZeroDivisionError
    else Ok (vdivs O (vsum (map (fun s => vscale O (seg_len O s) (seg_mid s)) segs)) w).
  Definition path_centroid (pl : polyline F) : result (vec3 F) := path_centroid_segs (pl_segments pl).

  (* ---- point_along_path (repaired) ---- *)
  (* first segment whose cumulative end exceeds the desired length: argmax(cumulative > desired) - 1;
     the point is v[k] + (desired - cumulative[k]) * normalize(segment_vector[k]); that segment has positive length *)
  Fixpoint pap_walk (segs : list (vec3 F * vec3 F)) (cum desired : F) : option (vec3 F) :=
    match segs with
    | [] => None
    | s :: r =>
        let cum' := nadd O cum (seg_len O s) in
        if nltb O desired cum'
        then Some (vadd O (fst s) (vscale O (nsub O desired cum) (vnormalize O (seg_vector O s))))
        else pap_walk r cum' desired
    end.
  Definition path_end (pl : polyline F) : option (vec3 F) :=
    match pv pl with [] => None | h :: t => Some (if pclosed pl then h else last t h) end.
  Definition point_along_one (pl : polyline F) (f : F) : option (vec3 F) :=
    let total := total_length O pl in
    let desired := nmul O total f in
    if nleb O total desired then path_end pl          (* the repair: at the end of the path *)
    else pap_walk (pl_segments pl) (n0 O) desired.
  (* stacked fractions; any fraction outside [0,1] -> ValueError; no vertices -> IndexError (v[index] on an empty
     array, even for no fractions); no fractions -> empty result; no segment (open, one vertex) and at least one
     fraction -> IndexError (segment_vectors[-1] on an empty array) *)
  Definition point_along_path (pl : polyline F) (fs : list F) : result (list (vec3 F)) :=
    if existsb (fun f => nltb O f (n0 O) || nltb O (n1 O) f) fs then Raise ValueError
    else match pv pl with
         | [] => Raise IndexError
         | _ =>
             match fs with
             | [] => Ok []
             | _ =>
                 match pl_segments pl with
                 | [] => Raise IndexError
                 | _ => Ok (map (fun f => match point_along_one pl f with Some p => p | None => vzero O end) fs)
                 end
             end
         end.

  (* ---- subdivide_segment(p1, p2, num_points, endpoint) ---- *)
  (* np.linspace(0, 1, num, endpoint)[k] = k * (1 / div), div = num - 1 (endpoint) or num; the last sample is set
     to 1 exactly when endpoint *)
  Definition lin_t (div : Z) (k : nat) : F := nmul O (nofZ O (Z.of_nat k)) (ndiv O (n1 O) (nofZ O div)).
  Definition subdivide_segment (p1 p2 : vec3 F) (num : Z) (endpoint : bool) : result (list (vec3 F)) :=
    if (num <? 2)%Z then Raise ValueError
    else
      let n := Z.to_nat num in
      let d := vsub O p2 p1 in
      if endpoint then
        Ok (map (fun k => vadd O (vscale O (lin_t (num - 1) k) d) p1) (seq 0 (n - 1)) ++ [vadd O (vscale O (n1 O) d) p1])
      else Ok (map (fun k => vadd O (vscale O (lin_t num k) d) p1) (seq 0 n)).

  (* ---- subdivide_segments(v, num_subdivisions): None marks a NaN row (zero-length segment: 0/0) ---- *)
  Definition subdiv_seg_rows (num : nat) (s : vec3 F * vec3 F) : list (option (vec3 F)) :=
    let d := seg_vector O s in
    let len := vnorm O d in
    if neqb O len (n0 O) then repeat None num
    else
      let u := vdivs O d len in
      let w := ndiv O len (nofZ O (Z.of_nat num)) in
      map (fun k => Some (vadd O (fst s) (vscale O (nmul O w (nofZ O (Z.of_nat k))) u))) (seq 0 num).
  Definition subdivide_segments (vs : list (vec3 F)) (num : nat) : list (option (vec3 F)) :=
    match vs with
    | [] => []       (* v[-1] raises IndexError: not modelled, never generated *)
    | h :: t => flat_map (subdiv_seg_rows num) (open_segments vs) ++ [Some (last t h)]
    end.

  (* ---- subdivided_by_length(max_length, edges_to_subdivide, ret_indices) ---- *)
  (* np.ceil(length / max_length).astype(int64); a non-positive max_length never subdivides *)
  Definition parts_needed (max_length : F) (s : vec3 F * vec3 F) : Z :=
    if nleb O max_length (n0 O) then 0%Z else nceil O (ndiv O (seg_len O s) max_length).
  (* points inserted on one edge cut into n parts: subdivide_segment(a, b, n, endpoint=False)[1:] *)
  Definition inserted_on (n : Z) (s : vec3 F * vec3 F) : list (vec3 F) :=
    map (fun k => vadd O (vscale O (lin_t n k) (seg_vector O s)) (fst s)) (seq 1 (Z.to_nat n - 1)).
  Definition edge_inserts (max_length : F) (sel : bool) (s : vec3 F * vec3 F) : list (vec3 F) :=
    let n := parts_needed max_length s in
    if sel && (1 <? n)%Z then inserted_on n s else [].
  (* one entry per VERTEX: the points inserted on the edge leaving it ([] for the last vertex of an open polyline) *)
  Definition inserts_per_vertex (pl : polyline F) (max_length : F) (mask : list bool) : list (list (vec3 F)) :=
    map2 (edge_inserts max_length) mask (pl_segments pl)
    ++ (if pclosed pl then [] else match pv pl with [] => [] | _ => [[]] end).
  Definition interleave (vs : list (vec3 F)) (ins : list (list (vec3 F))) : list (vec3 F) :=
    flat_map (fun vi => fst vi :: snd vi) (zip vs ins).
  (* new index of original vertex k = k + number of points inserted on edges 0..k-1 *)
  Fixpoint index_map_from (pos : nat) (ins : list (list (vec3 F))) : list nat :=
    match ins with [] => [] | i :: r => pos :: index_map_from (S (pos + length i)) r end.
  Definition subdivided_by_length (pl : polyline F) (max_length : F) (mask : option (list bool))
    : result (polyline F * list nat) :=
    let ne := length (pl_segments pl) in
    match mask with
    | Some m => if Nat.eqb (length m) ne then
                  let ins := inserts_per_vertex pl max_length m in
                  Ok (MkPolyline (interleave (pv pl) ins) (pclosed pl), index_map_from 0 ins)
                else Raise ValueError
    | None => let ins := inserts_per_vertex pl max_length (repeat true ne) in
              Ok (MkPolyline (interleave (pv pl) ins) (pclosed pl), index_map_from 0 ins)
    end.

  (* ---- with_segments_bisected(segment_indices, ret_new_indices) (repaired: np.mean, empty index set allowed) ---- *)
  (* np.insert(v, indices, points): every point goes before the original row at its index, stably *)
  Definition points_at (k : nat) (ips : list (nat * vec3 F)) : list (vec3 F) :=
    map snd (filter (fun ip => Nat.eqb (fst ip) k) ips).
  Fixpoint insert_multi_from (k : nat) (vs : list (vec3 F)) (ips : list (nat * vec3 F)) : list (vec3 F) :=
    match vs with
    | [] => points_at k ips
    | v :: r => points_at k ips ++ v :: insert_multi_from (S k) r ips
    end.
  (* with_insertions' index bookkeeping (as repaired in 9e3d823): an original vertex moves up by the number of
     points inserted at or before its index (searchsorted side="right"); an inserted point sits at its index plus
     the number of points that come before it in the stable order by index *)
  Definition count_le (ips : list (nat * vec3 F)) (k : nat) : nat :=
    length (filter (fun ip => Nat.leb (fst ip) k) ips).
  Definition inserted_pos (ips : list (nat * vec3 F)) (j : nat) (q : nat) : nat :=
    (q + length (filter (fun ip => Nat.ltb (fst ip) q) ips)
       + length (filter (fun ip => Nat.eqb (fst ip) q) (firstn j ips)))%nat.
  Definition bisect (pl : polyline F) (seg_idx : list nat)
    : result (polyline F * list nat * list nat) :=
    let segs := pl_segments pl in
    let n := length (pv pl) in
    if existsb (fun i => negb (Nat.ltb i (length segs))) seg_idx then Raise IndexError
    else
      let ips := map (fun i => (edge_end pl i,
                                match nth_error segs i with Some s => seg_mid s | None => vzero O end)) seg_idx in
      Ok (MkPolyline (insert_multi_from 0 (pv pl) ips) (pclosed pl),
          map (fun k => (k + count_le ips k)%nat) (seq 0 n),
          map (fun jip => inserted_pos ips (fst jip) (fst (snd jip))) (combine (seq 0 (length ips)) ips)).
End Length.
