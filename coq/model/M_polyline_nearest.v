(* Polyline.nearest, index_of_vertex, sliced_at_indices, sliced_at_points, aligned_along_subsegment
   (polliwog/polyline/_polyline_object.py). *)
From Coq Require Import ZArith List Bool.
From PW Require Import Num Vec NpList Result.
From PW.model Require Import M_polyline_base M_segment.
Import ListNotations.

(* np.argmin along a row: FIRST index of the minimum; None on an empty row (NumPy raises ValueError).
   Written as a non-recursive step applied to the recursive call. *)
Section Argmin.
  Context {F : Type} (O : NumOps F) {A : Type} (key : A -> F).
  Definition amin_step (x : A) (rec : option (nat * A)) : nat * A :=
    match rec with
    | None => (0%nat, x)
    | Some (j, m) => if nleb O (key x) (key m) then (0%nat, x) else (S j, m)
    end.
  Fixpoint amin_by (l : list A) : option (nat * A) :=
    match l with [] => None | x :: r => Some (amin_step x (amin_by r)) end.
End Argmin.

(* what nearest() hands back *)
Inductive nearest_out (F : Type) :=
| NBare (pts : list (vec3 F))
| NTuple (pts : list (vec3 F)) (idx : option (list nat)) (dist : option (list F)) (tvals : option (list F)).
Arguments NBare {F}. Arguments NTuple {F}.

Definition out_pts {F} (o : nearest_out F) : list (vec3 F) := match o with NBare p => p | NTuple p _ _ _ => p end.
Definition out_idx {F} (o : nearest_out F) : option (list nat) := match o with NBare _ => None | NTuple _ i _ _ => i end.
Definition out_dist {F} (o : nearest_out F) : option (list F) := match o with NBare _ => None | NTuple _ _ d _ => d end.
Definition out_t {F} (o : nearest_out F) : option (list F) := match o with NBare _ => None | NTuple _ _ _ t => t end.

(* per (query, segment): closest point, t value, distance *)
Record seg_hit (F : Type) := Hit { h_pt : vec3 F; h_t : F; h_d : F }.
Arguments Hit {F}. Arguments h_pt {F}. Arguments h_t {F}. Arguments h_d {F}.
(* per query: the winning segment *)
Record near (F : Type) := Near { n_pt : vec3 F; n_idx : nat; n_d : F; n_t : F }.
Arguments Near {F}. Arguments n_pt {F}. Arguments n_idx {F}. Arguments n_d {F}. Arguments n_t {F}.

Section Nearest.
  Context {F : Type} (O : NumOps F).

  (* closest_point_of_line_segment on (query, segment start, segment vector), then
     vg.euclidean_distance(query, closest) = sqrt(sum(square(closest - query))) *)
  Definition seg_hit_of (p : vec3 F) (s : vec3 F * vec3 F) : seg_hit F :=
    let a := fst s in
    let v := seg_vector O s in
    let c := closest_point O p a v in
    Hit c (closest_t O p a v) (vnorm O (vsub O c p)).
  Definition hits (pl : polyline F) (p : vec3 F) : list (seg_hit F) := map (seg_hit_of p) (pl_segments pl).

  (* one query point: argmin over the segments (first index on ties) *)
  Definition nearest_one (pl : polyline F) (p : vec3 F) : result (near F) :=
    match amin_by O h_d (hits pl p) with
    | None => Raise ValueError          (* "attempt to get argmin of an empty sequence" *)
    | Some (j, h) => Ok (Near (h_pt h) j (h_d h) (h_t h))
    end.

  Definition cons_res {A} (x : result A) (r : result (list A)) : result (list A) :=
    match x, r with
    | Ok a, Ok l => Ok (a :: l)
    | Raise e, _ => Raise e
    | _, Raise e => Raise e
    end.
  Fixpoint nearest_many (pl : polyline F) (ps : list (vec3 F)) : result (list (near F)) :=
    match ps with
    | [] => match pl_segments pl with [] => Raise ValueError | _ => Ok [] end
    | p :: r => cons_res (nearest_one pl p) (nearest_many pl r)
    end.

  (* the tuple assembly exactly as coded: t values are appended only inside the
     `if ret_segment_indices or ret_distances` branch *)
  Definition nearest_ret (ri rd rt : bool) (rs : list (near F)) : nearest_out F :=
    if ri || rd then
      NTuple (map n_pt rs)
             (if ri then Some (map n_idx rs) else None)
             (if rd then Some (map n_d rs) else None)
             (if rt then Some (map n_t rs) else None)
    else NBare (map n_pt rs).
  Definition nearest (pl : polyline F) (ps : list (vec3 F)) (ri rd rt : bool) : result (nearest_out F) :=
    rmap (nearest_ret ri rd rt) (nearest_many pl ps).

  (* ---- index_of_vertex: first row with |v - point| <= 1e-8 in every coordinate, else ValueError ---- *)
  Definition atol8 : F := nfrac O 1 100000000.
  Definition near_vertex (p v : vec3 F) : bool :=
    nleb O (nabs O (nsub O (vx v) (vx p))) atol8 &&
    nleb O (nabs O (nsub O (vy v) (vy p))) atol8 &&
    nleb O (nabs O (nsub O (vz v) (vz p))) atol8.
  Definition index_of_vertex (vs : list (vec3 F)) (p : vec3 F) : option nat :=
    match flatnonzero (map (near_vertex p) vs) with [] => None | i :: _ => Some i end.

  (* np.insert(v, [i], [p], axis=0) for 0 <= i <= len v  (the with_insertions call made by sliced_at_points) *)
  Definition insert_at (vs : list (vec3 F)) (i : nat) (p : vec3 F) : list (vec3 F) :=
    firstn i vs ++ p :: skipn i vs.

  (* sliced_at_indices(start, stop); always open *)
  Definition sliced_at_indices (pl : polyline F) (start stop : nat) : result (polyline F) :=
    if Nat.leb stop start then
      if pclosed pl then
        let keep := (length (pv pl) - start + stop)%nat in
        Ok (MkPolyline (firstn keep (skipn start (pv pl) ++ firstn start (pv pl))) false)
      else Raise ValueError
    else Ok (MkPolyline (firstn (stop - start) (skipn start (pv pl))) false).

  (* one "make the nearest point a vertex" step: returns the working polyline, the vertex index of the
     nearest point and whether a vertex was inserted *)
  Definition ensure_vertex (pl : polyline F) (q : vec3 F) : result (polyline F * nat * bool) :=
    match nearest_one pl q with
    | Raise e => Raise e
    | Ok r =>
        match index_of_vertex (pv pl) (n_pt r) with
        | Some i => Ok (pl, i, false)
        | None => let i := edge_end pl (n_idx r) in
                  Ok (MkPolyline (insert_at (pv pl) i (n_pt r)) (pclosed pl), i, true)
        end
    end.

  Definition sliced_at_points (pl : polyline F) (a b : vec3 F) : result (polyline F) :=
    match ensure_vertex pl a with
    | Raise e => Raise e
    | Ok (w1, si, _) =>
        match ensure_vertex w1 b with
        | Raise e => Raise e
        | Ok (w2, ei, inserted) =>
            (* indices_of_original_vertices[start] after inserting before ei *)
            let si' := if inserted && Nat.leb ei si then S si else si in
            sliced_at_indices w2 si' (S ei)
        end
    end.

  Definition seg_len (s : vec3 F * vec3 F) : F := vnorm O (vsub O (snd s) (fst s)).
  Definition total_length (pl : polyline F) : F := nsum O (map seg_len (pl_segments pl)).
  Definition flipped (pl : polyline F) : polyline F := MkPolyline (rev (pv pl)) (pclosed pl).

  (* aligned_along_subsegment: returns the polyline and whether it was flipped *)
  Definition aligned_flip (pl : polyline F) (p1 p2 : vec3 F) : result bool :=
    if pclosed pl then
      match sliced_at_points pl p2 p1, sliced_at_points pl p1 p2 with
      | Ok back, Ok fwd => Ok (nltb O (total_length back) (total_length fwd))
      | Raise e, _ => Raise e
      | _, Raise e => Raise e
      end
    else
      match nearest_one pl p1, nearest_one pl p2 with
      | Ok r1, Ok r2 =>
          if Nat.eqb (n_idx r1) (n_idx r2) then Ok (nltb O (n_t r2) (n_t r1))
          else Ok (Nat.ltb (n_idx r2) (n_idx r1))
      | Raise e, _ => Raise e
      | _, Raise e => Raise e
      end.
  Definition aligned_along_subsegment (pl : polyline F) (p1 p2 : vec3 F) : result (polyline F) :=
    rmap (fun f : bool => if f then flipped pl else pl) (aligned_flip pl p1 p2).
End Nearest.
