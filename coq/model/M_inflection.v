(* Model of polliwog/polyline/_inflection_points.py (C20, "extra: callables outside the other properties").
   np.gradient(f, x) with non-uniform coordinates x and edge_order = 1, exactly as NumPy computes it
   (numpy/lib/_function_base_impl.py, gradient):
     interior i:  dx1 = x[i]-x[i-1], dx2 = x[i+1]-x[i],
                  a = -(dx2)/(dx1*(dx1+dx2)), b = (dx2-dx1)/(dx1*dx2), c = dx1/(dx2*(dx1+dx2)),
                  out[i] = a*f[i-1] + b*f[i] + c*f[i+1]
     edges:       out[0] = (f[1]-f[0])/(x[1]-x[0]),  out[-1] = (f[-1]-f[-2])/(x[-1]-x[-2])
   (when all spacings are equal NumPy switches to (f[i+1]-f[i-1])/(2*dx), which is the same real number).
   Fewer than two samples with coordinates given: NumPy fails with IndexError (`diffx[0]` of an empty np.diff)
   before it reaches its own "at least (edge_order + 1) elements" ValueError; inflection_points mirrors that,
   point_of_max_acceleration raises its own ValueError first.
   Not modelled: run coordinates that are not strictly monotone (a repeated value or a turn-back makes a spacing
   dx1, dx2 or dx1 + dx2 zero): NumPy divides by zero and produces nan/inf; the top-level functions return `Ok None` ("outside the model") there, never a quotient by zero.
   point_of_max_acceleration: the optional `subdivide_by_length` step (Polyline.subdivided_by_length, modelled
   under C08) is outside this model: the model is the function with subdivide_by_length=None. *)
From Coq Require Import ZArith List Bool Arith.
From PW Require Import Num Vec NpList Result.
Import ListNotations.

Section Inflection.
  Context {F : Type} (O : NumOps F).

  (* total accessor; only used at indices < length *)
  Definition at_ (l : list F) (i : nat) : F := nth i l (n0 O).

  Definition grad_interior (xm x0 xp fm f0 fp : F) : F :=
    let dx1 := nsub O x0 xm in
    let dx2 := nsub O xp x0 in
    let a := ndiv O (nneg O dx2) (nmul O dx1 (nadd O dx1 dx2)) in
    let b := ndiv O (nsub O dx2 dx1) (nmul O dx1 dx2) in
    let c := ndiv O dx1 (nmul O dx2 (nadd O dx1 dx2)) in
    nadd O (nadd O (nmul O a fm) (nmul O b f0)) (nmul O c fp).

  Definition grad_edge (xa xb fa fb : F) : F := ndiv O (nsub O fb fa) (nsub O xb xa).

  (* entry i of np.gradient(fs, xs) for n = length samples, n >= 2, i < n *)
  Definition grad_at (xs fs : list F) (n i : nat) : F :=
    if Nat.eqb i 0 then grad_edge (at_ xs 0) (at_ xs 1) (at_ fs 0) (at_ fs 1)
    else if Nat.eqb (S i) n then grad_edge (at_ xs (i - 1)) (at_ xs i) (at_ fs (i - 1)) (at_ fs i)
    else grad_interior (at_ xs (i - 1)) (at_ xs i) (at_ xs (S i)) (at_ fs (i - 1)) (at_ fs i) (at_ fs (S i)).

  Definition gradient (xs fs : list F) : list F :=
    map (grad_at xs fs (length fs)) (seq 0 (length fs)).

  (* strictly increasing / decreasing coordinates *)
  Fixpoint increasing_b (xs : list F) : bool :=
    match xs with
    | a :: ((b :: _) as r) => nltb O a b && increasing_b r
    | _ => true
    end.

  Fixpoint decreasing_b (xs : list F) : bool :=
    match xs with
    | a :: ((b :: _) as r) => nltb O b a && decreasing_b r
    | _ => true
    end.
  (* the domain of the model: the run coordinate is strictly monotone along the curve (either direction); then no
     spacing dx1, dx2 or dx1 + dx2 in np.gradient is zero *)
  Definition monotone_b (xs : list F) : bool := increasing_b xs || decreasing_b xs.

  Definition coords (pts : list (vec3 F)) (axis : vec3 F) : list F := map (fun p => vdot O p axis) pts.

  Definition fd1 (pts : list (vec3 F)) (rise run : vec3 F) : list F := gradient (coords pts run) (coords pts rise).
  Definition fd2 (pts : list (vec3 F)) (rise run : vec3 F) : list F := gradient (coords pts run) (fd1 pts rise run).

  (* np.concatenate([d2[:-1] * d2[1:] <= 0, [False]]) *)
  Definition inflection_mask (d2 : list F) : list bool :=
    map (fun i => if Nat.ltb (S i) (length d2) then nleb O (nmul O (at_ d2 i) (at_ d2 (S i))) (n0 O) else false)
        (seq 0 (length d2)).

  Definition inflection_indices (pts : list (vec3 F)) (rise run : vec3 F) : list nat :=
    flatnonzero (inflection_mask (fd2 pts rise run)).

  (* indices of the returned rows (the rows themselves are `take pts indices`) *)
  Definition inflection_points (pts : list (vec3 F)) (rise run : vec3 F) : result (option (list nat)) :=
    if Nat.ltb (length pts) 2 then Raise IndexError   (* np.gradient: diffx[0] of an empty np.diff -- not a ValueError *)
    else if monotone_b (coords pts run) then Ok (Some (inflection_indices pts rise run))
    else Ok None.

  (* valid[i] = roll(d1, 1)[i] > 0 and roll(d1, -1)[i] > 0, then valid[0] = valid[-1] = False:
     for 0 < i < n-1 the rolled entries are d1[i-1] and d1[i+1] *)
  Definition valid_mask (d1 : list F) : list bool :=
    map (fun i => if Nat.eqb i 0 then false else if Nat.eqb (S i) (length d1) then false
                  else nltb O (n0 O) (at_ d1 (i - 1)) && nltb O (n0 O) (at_ d1 (S i)))
        (seq 0 (length d1)).

  (* np.argmax over the candidates: first index of the maximum *)
  Fixpoint argmax_from (d2 : list F) (best : nat) (cands : list nat) : nat :=
    match cands with
    | [] => best
    | c :: r => if nltb O (at_ d2 best) (at_ d2 c) then argmax_from d2 c r else argmax_from d2 best r
    end.

  Definition argmax_valid (d2 : list F) (cands : list nat) : option nat :=
    match cands with [] => None | c :: r => Some (argmax_from d2 c r) end.

  Definition max_acceleration_index (pts : list (vec3 F)) (rise run : vec3 F) : option nat :=
    argmax_valid (fd2 pts rise run) (flatnonzero (valid_mask (fd1 pts rise run))).

  (* Ok (Some (Some i)): row i is returned; Ok (Some None): the function returns None; Ok None: outside the model *)
  Definition point_of_max_acceleration (pts : list (vec3 F)) (rise run : vec3 F) : result (option (option nat)) :=
    if Nat.ltb (length pts) 2 then Raise ValueError
    else if monotone_b (coords pts run) then Ok (Some (max_acceleration_index pts rise run))
    else Ok None.

  (* ---- specification vocabulary used by the statements in props/C20.v ---------------------------------------- *)
  (* strictly increasing coordinates (the domain of the model), over the first n samples *)
  Definition increasing (xs : list F) (n : nat) : Prop :=
    forall i, (S i < n)%nat -> nltb O (at_ xs i) (at_ xs (S i)) = true.
  (* row i has a true entry in the valid mask of point_of_max_acceleration *)
  Definition is_valid (pts : list (vec3 F)) (rise run : vec3 F) (i : nat) : Prop :=
    nth_error (valid_mask (fd1 pts rise run)) i = Some true.
End Inflection.
