(* Specification vocabulary for C01/C02: the notions the statements in props/C01.v and props/C02.v are written in
   (membership in a triangle, normals, the 27 corner patterns and the case rule of the property text, kept fractions,
   valid faces, rows).  Definitions only; on the real-number instance. *)
From Coq Require Import ZArith Reals List Bool Arith.
From PW Require Import Num NumR Vec NpList Result.
From PW.model Require Import M_slicing.
Import ListNotations.

(* ---- meshes, masks, rows ----------------------------------------------------------------------------------------- *)
Definition face_valid (nv : nat) (f : face) : Prop := fget f 0 < nv /\ fget f 1 < nv /\ fget f 2 < nv.
Definition indexed_from {A} (i : nat) (l : list A) : list (nat * A) := zip (seq i (length l)) l.
Definition indexed {A} (l : list A) : list (nat * A) := indexed_from 0 l.
Definition fd_row (d : @fdata R) : tri R * (R * R * R) * sgn3 * bool := (fd_t d, fd_d d, fd_s d, fd_m d).
Definition zface_in_range (nv : nat) (f : zface) : Prop :=
  forall k, (0 <= zget f k < Z.of_nat nv)%Z.
Definition mask_ok (nf : nat) (mask : option (list bool)) : Prop :=
  match mask with None => True | Some m => length m = nf end.
Definition mask_list (nf : nat) (mask : option (list bool)) : list bool :=
  match mask with None => repeat true nf | Some m => m end.

(* a row of the pipeline carries the coordinates of the face it names *)
Definition fd_wf (vs : list (vec3 R)) (d : @fdata R) : Prop := lookup3 vs (fd_f d) = Some (fd_t d).

(* a (mapping entry, triangle) pair of a result with the mapping entry replaced by the input face it names *)
Definition with_source (fs : list face) (p : nat * option (tri R)) : option face * option (tri R) := (nth_error fs (fst p), snd p).

Local Open Scope R_scope.
(* ---- geometry ------------------------------------------------------------------------------------------------------- *)
Definition pd (n o : vec3 R) (v : vec3 R) : R := plane_dot ROps n o v.
Definition lerp (p q : vec3 R) (t : R) : vec3 R := vadd ROps p (vscale ROps t (vsub ROps q p)).
Definition bary (t : tri R) (w0 w1 w2 : R) : vec3 R :=
  vadd ROps (vadd ROps (vscale ROps w0 (tget t 0)) (vscale ROps w1 (tget t 1))) (vscale ROps w2 (tget t 2)).
Definition in_tri (t : tri R) (x : vec3 R) : Prop :=
  exists w0 w1 w2, 0 <= w0 /\ 0 <= w1 /\ 0 <= w2 /\ w0 + w1 + w2 = 1 /\ x = bary t w0 w1 w2.
Definition tri_normal (t : tri R) : vec3 R :=
  vcross ROps (vsub ROps (tget t 1) (tget t 0)) (vsub ROps (tget t 2) (tget t 0)).
Definition snapped3 (tol : R) (ds : R * R * R) : Prop :=
  forall k, (k < 3)%nat -> dget ds k = 0 \/ tol < dget ds k \/ dget ds k < - tol.
Definition wdot (ds : R * R * R) (w0 w1 w2 : R) : R := w0 * dget ds 0 + w1 * dget ds 1 + w2 * dget ds 2.
Definition in_tri_nn (t : tri R) (ds : R * R * R) (x : vec3 R) : Prop :=
  exists w0 w1 w2, 0 <= w0 /\ 0 <= w1 /\ 0 <= w2 /\ w0 + w1 + w2 = 1 /\ x = bary t w0 w1 w2 /\ 0 <= wdot ds w0 w1 w2.
Definition vsum_normals (l : list (tri R)) : vec3 R :=
  fold_right (fun t acc => vadd ROps (tri_normal t) acc) (V3 0 0 0) l.
Definition on3 (tol : R) (n o : vec3 R) (t : tri R) : Prop := forall k, (k < 3)%nat -> - tol <= pd n o (tget t k) <= tol.

(* ---- the 27 corner patterns and the case rule of the property text ------------------------------------------------ *)
Definition sgn_vals : list Z := [-1; 0; 1]%Z.
Definition all_patterns : list sgn3 :=
  flat_map (fun a => flat_map (fun b => map (fun c => (a, b, c)) sgn_vals) sgn_vals) sgn_vals.
Definition case_ok (s : sgn3) (m : bool) : bool :=
  let all_le0 := ((sget s 0 <=? 0) && (sget s 1 <=? 0) && (sget s 2 <=? 0))%Z in
  let all_ge0 := ((0 <=? sget s 0) && (0 <=? sget s 1) && (0 <=? sget s 2))%Z in
  match face_case s m with
  | Keep => negb m || all_le0                       (* not selected, or wholly on / in front *)
  | Drop => m && all_ge0 && negb all_le0             (* selected, no corner in front, some corner behind *)
  | CQuad k => m && (k <? 3)%nat && (sget s k =? 1)%Z &&     (* k behind, the other two in front *)
               (sget s ((k + 1) mod 3) =? -1)%Z && (sget s ((k + 2) mod 3) =? -1)%Z
  | CTri k => m && (k <? 3)%nat && (sget s k =? -1)%Z &&     (* k in front, the others not, one of them behind *)
              (0 <=? sget s ((k + 1) mod 3))%Z && (0 <=? sget s ((k + 2) mod 3))%Z &&
              (1 <=? sget s ((k + 1) mod 3) + sget s ((k + 2) mod 3))%Z
  end.
Definition all_le0 (s : sgn3) : bool := ((sget s 0 <=? 0) && (sget s 1 <=? 0) && (sget s 2 <=? 0))%Z.
Definition all_ge0 (s : sgn3) : bool := ((0 <=? sget s 0) && (0 <=? sget s 1) && (0 <=? sget s 2))%Z.
Definition count_front (s : sgn3) : nat :=
  ((if (sget s 0 =? -1)%Z then 1 else 0) + (if (sget s 1 =? -1)%Z then 1 else 0) + (if (sget s 2 =? -1)%Z then 1 else 0))%nat.
Definition expected_case (s : sgn3) (m : bool) : fcase :=
  if negb m then Keep
  else if all_le0 s then Keep
  else if all_ge0 s then Drop
  else if (count_front s =? 2)%nat then CQuad (col_of 1 s) else CTri (col_of (-1) s).
Definition fcase_eqb (a b : fcase) : bool :=
  match a, b with
  | Keep, Keep | Drop, Drop => true
  | CQuad i, CQuad j | CTri i, CTri j => Nat.eqb i j
  | _, _ => false
  end.

(* ---- kept fractions of a face's area -------------------------------------------------------------------------------- *)
Definition frac_tri0 (a b c : R) : R := a / (a - b) * (1 - c / (c - a)).
Definition frac_quad0 (a b c : R) : R := c / (c - a) + (1 - a / (a - b)) * (1 - c / (c - a)).
Definition frac_case (c : fcase) (ds : R * R * R) : R :=
  match c with
  | Keep => 1
  | Drop => 0
  | CQuad k => frac_quad0 (dget ds k) (dget ds ((k + 1) mod 3)) (dget ds ((k + 2) mod 3))
  | CTri k => frac_tri0 (dget ds k) (dget ds ((k + 1) mod 3)) (dget ds ((k + 2) mod 3))
  end.
Definition negd (ds : R * R * R) : R * R * R := (- dget ds 0, - dget ds 1, - dget ds 2).
Definition all_zero (ds : R * R * R) : Prop := dget ds 0 = 0 /\ dget ds 1 = 0 /\ dget ds 2 = 0.
Definition kept_frac (tol : R) (ds : R * R * R) : R := frac_case (face_case (signs3 ROps tol ds) true) ds.

(* what one input row contributes: its index paired with each coordinate triangle of the per-face kernel *)
Definition per_face (eps : R) (x : nat * @fdata R) : list (nat * option (tri R)) :=
  map (fun t' => (fst x, Some t')) (slice_face_signs ROps eps (fd_d (snd x)) (fd_s (snd x)) (fd_m (snd x)) (fd_t (snd x))).

(* ---- areas of a whole result -------------------------------------------------------------------------------------------- *)
(* sum of the vector areas (twice, as cross products) / of their lengths over the coordinate triangles of a result *)
Definition area_sum (l : list (option (tri R))) : vec3 R :=
  fold_right (fun x acc => match x with Some t => vadd ROps (tri_normal t) acc | None => acc end) (V3 0 0 0) l.
Definition norm_sum (l : list (option (tri R))) : R :=
  fold_right (fun x acc => match x with Some t => vnorm ROps (tri_normal t) + acc | None => acc end) 0 l.
(* all three corners count as lying on the plane, as a boolean *)
Definition on3b (tol : R) (n o : vec3 R) (t : tri R) : bool :=
  Rleb (- tol) (pd n o (tget t 0)) && Rleb (pd n o (tget t 0)) tol &&
  Rleb (- tol) (pd n o (tget t 1)) && Rleb (pd n o (tget t 1)) tol &&
  Rleb (- tol) (pd n o (tget t 2)) && Rleb (pd n o (tget t 2)) tol.
(* how often a face is kept by the two calls (plane and flipped plane) together: twice when it is not selected or lies in
   the plane, once otherwise (its front part by one call, its back part by the other) *)
Definition cweight (tol : R) (n o : vec3 R) (m : bool) (t : tri R) : R :=
  if negb m || on3b tol n o t then 2 else 1.
Definition rows_area (tol : R) (n o : vec3 R) (rows : list (@fdata R)) : vec3 R :=
  fold_right (fun d acc => vadd ROps (vscale ROps (cweight tol n o (fd_m d) (fd_t d)) (tri_normal (fd_t d))) acc) (V3 0 0 0) rows.
Definition rows_norm (tol : R) (n o : vec3 R) (rows : list (@fdata R)) : R :=
  fold_right (fun d acc => cweight tol n o (fd_m d) (fd_t d) * vnorm ROps (tri_normal (fd_t d)) + acc) 0 rows.
