(* polliwog/tri/functions.py, polliwog/tri/quad_faces.py and
   polliwog/line/_line_functions.py:coplanar_points_are_on_same_side_of_line   (property C15).
   Definitions only, generic over NumOps.  `sample` uses searchsorted side="right" (the repair
   fixes/C15-sample-zero-weight.diff, commit f5126ba in /repo); the rule of the code before that commit is kept as
   `face_choice_left` so that the repaired defect can be stated.
   `searchsorted_right` is a linear scan (first index with x < cum[i]); it equals NumPy's bisection on ascending
   arrays, i.e. for non-negative weights, which is the hypothesis of every theorem that uses it. *)
From Coq Require Import ZArith List Bool.
From PW Require Import Num Vec NpList Result.
Import ListNotations.

Record tri (F : Type) := Tri { ta : vec3 F; tb : vec3 F; tc : vec3 F }.
Arguments Tri {F}. Arguments ta {F}. Arguments tb {F}. Arguments tc {F}.

(* integer faces (FACE_DTYPE = int64) *)
Record face := Face { f0 : Z; f1 : Z; f2 : Z }.
Record quad := Quad { q0 : Z; q1 : Z; q2 : Z; q3 : Z }.

Section Tri.
  Context {F : Type} (O : NumOps F).

  (* ---- surface_normals / surface_area --------------------------------------------------------- *)
  (* v1 = p2 - p1, v2 = p3 - p1, vg.cross(v1, v2) *)
  Definition tri_cross (t : tri F) : vec3 F :=
    vcross O (vsub O (tb t) (ta t)) (vsub O (tc t) (ta t)).
  (* normalize=False *)
  Definition surface_normal_raw (t : tri F) : vec3 F := tri_cross t.
  (* normalize=True: vg.normalize divides by the norm; a zero cross product gives a row of NaN (None) *)
  Definition surface_normal_unit (t : tri F) : option (vec3 F) :=
    let n := tri_cross t in
    if neqb O (vnorm O n) (n0 O) then None else Some (vdivs O n (vnorm O n)).
  (* 0.5 * sqrt(sum(cross**2)) *)
  Definition surface_area (t : tri F) : F := nmul O (nfrac O 1 2) (nsqrt O (vnorm2 O (tri_cross t))).
  Definition surface_normals_raw (ts : list (tri F)) := map surface_normal_raw ts.
  Definition surface_normals_unit (ts : list (tri F)) := map surface_normal_unit ts.
  Definition surface_areas (ts : list (tri F)) := map surface_area ts.

  (* ---- coplanar_points_are_on_same_side_of_line(a, b, p1, p2):
          along = b - a;  dot(cross(along, p1 - a), cross(along, p2 - a)) >= 0 -------------------- *)
  Definition same_side_value (a b p1 p2 : vec3 F) : F :=
    let along := vsub O b a in
    vdot O (vcross O along (vsub O p1 a)) (vcross O along (vsub O p2 a)).
  Definition same_side (a b p1 p2 : vec3 F) : bool := nleb O (n0 O) (same_side_value a b p1 p2).
  (* tri_contains_coplanar_point(a, b, c, point) *)
  Definition tri_contains (a b c p : vec3 F) : bool :=
    (same_side b c p a && same_side a c p b) && same_side a b p c.

  (* ---- barycentric_coordinates_of_points -------------------------------------------------------- *)
  (* np.spacing(1) = 2^-52 *)
  Definition spacing1 : F := nfrac O 1 4503599627370496.
  Definition bary (t : tri F) (p : vec3 F) : vec3 F :=
    let u := vsub O (tb t) (ta t) in
    let v := vsub O (tc t) (ta t) in
    let n := vcross O u v in
    let s := vdot O n n in
    let s' := if neqb O s (n0 O) then spacing1 else s in
    let inv := ndiv O (n1 O) s' in
    let w := vsub O p (ta t) in
    let b2 := nmul O (vdot O (vcross O u w) n) inv in
    let b1 := nmul O (vdot O (vcross O w v) n) inv in
    V3 (nsub O (nsub O (n1 O) b1) b2) b1 b2.
  Definition bary_pairs (ts : list (tri F)) (ps : list (vec3 F)) : list (vec3 F) := map2 bary ts ps.
  (* the same call on INTEGER (int64) arrays: `s` is then an integer array, the assignment `s[s == 0] = np.spacing(1)`
     stores 0, `1.0 / s` is inf and the row comes out as NaN (None); for s <> 0 nothing differs from the float case *)
  Definition bary_intarray (t : tri F) (p : vec3 F) : option (vec3 F) :=
    let n := tri_cross t in
    if neqb O (vdot O n n) (n0 O) then None else Some (bary t p).
  Definition bary_pairs_intarray (ts : list (tri F)) (ps : list (vec3 F)) : list (option (vec3 F)) :=
    map2 bary_intarray ts ps.
  (* the linear combination the weights stand for *)
  Definition bary_combine (t : tri F) (w : vec3 F) : vec3 F :=
    vadd O (vadd O (vscale O (vx w) (ta t)) (vscale O (vy w) (tb t))) (vscale O (vz w) (tc t)).

  (* ---- sample ----------------------------------------------------------------------------------- *)
  Fixpoint cumsum_from (acc : F) (l : list F) : list F :=
    match l with [] => [] | x :: r => nadd O acc x :: cumsum_from (nadd O acc x) r end.
  Definition cumsum (l : list F) : list F := cumsum_from (n0 O) l.
  (* np.searchsorted(cum, x, side="right") on an ascending array: first index with x < cum[i] *)
  Fixpoint searchsorted_right (cum : list F) (x : F) : nat :=
    match cum with [] => 0%nat | c :: r => if nltb O x c then 0%nat else S (searchsorted_right r x) end.
  (* side="left" (what the unrepaired code uses): first index with x <= cum[i] *)
  Fixpoint searchsorted_left (cum : list F) (x : F) : nat :=
    match cum with [] => 0%nat | c :: r => if nleb O x c then 0%nat else S (searchsorted_left r x) end.
  Definition total_weight (ws : list F) : F := last (cumsum ws) (n0 O).
  (* face chosen for the draw u in [0,1) *)
  Definition face_choice (ws : list F) (u : F) : nat :=
    searchsorted_right (cumsum ws) (nmul O u (total_weight ws)).
  Definition face_choice_left (ws : list F) (u : F) : nat :=
    searchsorted_left (cumsum ws) (nmul O u (total_weight ws)).
  (* reflection of the coefficient pair when their sum exceeds 1 *)
  Definition reflect_coeffs (ab : F * F) : F * F :=
    if nltb O (n1 O) (nadd O (fst ab) (snd ab))
    then (nsub O (n1 O) (fst ab), nsub O (n1 O) (snd ab)) else ab.
  (* v0 + (c0 * (v1 - v0) + c1 * (v2 - v0)) *)
  Definition sample_point (t : tri F) (ab : F * F) : vec3 F :=
    let c := reflect_coeffs ab in
    vadd O (ta t) (vadd O (vscale O (fst c) (vsub O (tb t) (ta t))) (vscale O (snd c) (vsub O (tc t) (ta t)))).
  (* one sample: face index, then the point in that face; indexing past the end raises IndexError *)
  Definition sample_one (ts : list (tri F)) (ws : list F) (u : F) (ab : F * F) : result (vec3 F * nat) :=
    let i := face_choice ws u in
    match nth_error ts i with Some t => Ok (sample_point t ab, i) | None => Raise IndexError end.
  Definition cons_res {A} (x : result A) (r : result (list A)) : result (list A) :=
    match x, r with Ok a, Ok l => Ok (a :: l) | Raise e, _ => Raise e | _, Raise e => Raise e end.
  Fixpoint sample_all (ts : list (tri F)) (ws : list F) (us : list F) (abs : list (F * F))
    : result (list (vec3 F * nat)) :=
    match us, abs with
    | u :: ur, ab :: abr => cons_res (sample_one ts ws u ab) (sample_all ts ws ur abr)
    | _, _ => Ok []
    end.
  (* weights=None -> surface areas.  us: the num_samples numbers of the first rng.random call,
     abs: the (num_samples, 2, 1) numbers of the second.  k = 0 returns empty outputs. *)
  Definition sample (ts : list (tri F)) (weights : option (list F)) (us : list F) (abs : list (F * F))
    : result (list (vec3 F * nat)) :=
    match ts with
    | [] => Ok []
    | _ => let ws := match weights with Some w => w | None => surface_areas ts end in
           sample_all ts ws us abs
    end.
End Tri.

(* ---- quads_to_tris / edges_of_faces (integers only) ----------------------------------------------- *)
Definition quad_tris (q : quad) : list face :=
  [Face (q0 q) (q1 q) (q2 q); Face (q0 q) (q2 q) (q3 q)].
Definition quads_to_tris (qs : list quad) : list face := flat_map quad_tris qs.
(* np.arange(2n).reshape(-1, 2) *)
Definition quads_mapping (qs : list quad) : list (Z * Z) :=
  map (fun i => (2 * Z.of_nat i, 2 * Z.of_nat i + 1)%Z) (seq 0 (length qs)).

(* faces[:, 0:2], faces[:, 1:3], roll(faces, 1, axis=1)[:, 0:2] interleaved per face *)
Definition sort2 (e : Z * Z) : Z * Z := if (fst e <=? snd e)%Z then e else (snd e, fst e).
Definition face_edges (f : face) : list (Z * Z) := [(f0 f, f1 f); (f1 f, f2 f); (f2 f, f0 f)].
Definition edges_of_faces (normalize : bool) (fs : list face) : list (Z * Z) :=
  let es := flat_map face_edges fs in if normalize then map sort2 es else es.
