(* C09: the plain "ordered list of points" specification of the Polyline value operations, the
   vocabulary of operation histories (op / obs / impl / step / run) shared by the spec and by the
   code-shaped model of M_polyline_ops.v.  Definitions only. *)
From Coq Require Import ZArith List Bool Arith.
From PW Require Import Num Vec NpList Result.
From PW.model Require Import M_polyline_base.
Import ListNotations.

(* ---------------------------------------------------------------------------------------------- *)
(* list level, any element type                                                                    *)
Section ListSpec.
  Context {A : Type}.

  (* edges join consecutive vertices, plus last-to-first exactly when closed *)
  Definition spec_edges (n : nat) (closed : bool) : list (nat * nat) :=
    map (fun i => (i, S i)) (seq 0 (n - 1)) ++
    (if closed then match n with 0%nat => [] | S m => [(m, 0%nat)] end else []).

  (* Polyline.segments: the coordinate pair of every edge *)
  Definition segments (v : list A) (closed : bool) : list (option A * option A) :=
    map (fun e => (nth_error v (fst e), nth_error v (snd e))) (spec_edges (length v) closed).

  (* rotation: vertex k (mod n) becomes vertex 0 *)
  Definition spec_rot (k : Z) (l : list A) : list A :=
    match l with
    | [] => []
    | _ => let s := Z.to_nat (k mod Z.of_nat (length l)) in skipn s l ++ firstn s l
    end.
  (* new edge i is old edge (i + k) mod n *)
  Definition spec_rot_map (k : Z) (n : nat) : list nat :=
    map (fun i => Z.to_nat ((Z.of_nat i + k) mod Z.of_nat n)) (seq 0 n).

  Definition spec_slice (start stop : nat) (l : list A) : list A := firstn (stop - start) (skipn start l).
  Definition spec_sliced (closed : bool) (start stop : nat) (l : list A) : result (list A) :=
    if (start <? stop)%nat then Ok (spec_slice start stop l)
    else if closed then Ok (skipn start l ++ firstn stop l) else Raise ValueError.

  (* sections: consecutive pieces sharing their breakpoint vertex, each with at least one edge *)
  Definition zslice (a b : Z) (l : list A) : list A := firstn (Z.to_nat (b - a)) (skipn (Z.to_nat a) l).
  Definition rcons {B} (x : B) (r : result (list B)) : result (list B) :=
    match r with Ok t => Ok (x :: t) | Raise e => Raise e end.
  Fixpoint spec_sections (l : list A) (start : Z) (bps : list Z) : result (list (list A)) :=
    match bps with
    | [] => if (Z.of_nat (length l) - start - 1 <? 1)%Z then Raise ValueError
            else Ok [zslice start (Z.of_nat (length l)) l]
    | b :: r => if (b - start <? 1)%Z then Raise ValueError
                else rcons (zslice start (b + 1) l) (spec_sections l b r)
    end.

  (* stable multi-insertion: before original position p come the points given for p, in the order given *)
  Definition emitted (p : nat) (idx : list nat) (pts : list A) : list A :=
    map snd (filter (fun ip => (fst ip =? p)%nat) (zip idx pts)).
  Fixpoint ins_from (p : nat) (v : list A) (idx : list nat) (pts : list A) : list A :=
    match v with
    | [] => emitted p idx pts
    | x :: r => emitted p idx pts ++ x :: ins_from (S p) r idx pts
    end.
  Definition spec_insert (v : list A) (idx : list nat) (pts : list A) : list A := ins_from 0 v idx pts.
End ListSpec.

Definition count_nat (f : nat -> bool) (l : list nat) : nat := length (filter f l).
(* original vertex i moves to i + #{j : idx_j <= i} *)
Definition spec_orig_map (n : nat) (idx : list nat) : list nat :=
  map (fun i => (i + count_nat (fun x => x <=? i) idx)%nat) (seq 0 n).
(* inserted point j lands at idx_j + #{k : idx_k < idx_j} + #{k < j : idx_k = idx_j} *)
Definition spec_ins_pos (idx : list nat) (j : nat) (ij : nat) : nat :=
  (ij + count_nat (fun x => x <? ij) idx + count_nat (fun x => x =? ij) (firstn j idx))%nat.
Fixpoint spec_ins_map_from (idx : list nat) (j : nat) (rest : list nat) : list nat :=
  match rest with [] => [] | ij :: r => spec_ins_pos idx j ij :: spec_ins_map_from idx (S j) r end.
Definition spec_ins_map (idx : list nat) : list nat := spec_ins_map_from idx 0 idx.

(* Python's insertion index: -n <= i <= n; negative counts from the end *)
Definition wrap_ins (n : nat) (i : Z) : option nat :=
  if (0 <=? i)%Z then (if (i <=? Z.of_nat n)%Z then Some (Z.to_nat i) else None)
  else (if (- Z.of_nat n <=? i)%Z then Some (Z.to_nat (Z.of_nat n + i)) else None).
Fixpoint wrap_all (n : nat) (idx : list Z) : option (list nat) :=
  match idx with
  | [] => Some []
  | i :: r => match wrap_ins n i, wrap_all n r with Some a, Some t => Some (a :: t) | _, _ => None end
  end.

(* What np.insert does with an index vector, as far as it is modelled:
   - every index in -n..n : wrapped positions (WOk);
   - some index > n, or a SINGLE index < -n : IndexError (NumPy's bounds checks);
   - two or more indices of which one is < -n : NOT MODELLED.  NumPy's multi-index path adds n once, leaves the index
     negative and lets it wrap a second time silently (e.g. n = 3, [-4, 0] inserts at the END and the returned map
     contains -1) or fails later with ValueError (shape mismatch).  This is outside the property's domain (positions
     0..num_v); the models mark it with OtherError (used for nothing else in these models: a missing receiver is ObMissing), histories exclude it (op_in_range) and the correspondence does not
     compare it. *)
Inductive wrapped := WOk (w : list nat) | WIndexError | WUnmodelled.
Definition below_range (n : nat) (idx : list Z) : bool :=
  (2 <=? length idx)%nat && existsb (fun i => (i <? - Z.of_nat n)%Z) idx.
Definition wrap_indices (n : nat) (idx : list Z) : wrapped :=
  if below_range n idx then WUnmodelled
  else match wrap_all n idx with Some w => WOk w | None => WIndexError end.

(* ---------------------------------------------------------------------------------------------- *)
(* histories: operations refer to earlier results by their position in a pool of polylines          *)
Inductive op (F : Type) :=
| OpNew (v : list (vec3 F)) (closed : bool)
| OpFlipped (a : nat)
| OpFlippedIf (a : nat) (c : bool)
| OpRolled (a : nat) (k : Z)
| OpSliced (a : nat) (start stop : nat)
| OpSectioned (a : nat) (bps : list Z)
| OpJoin (parts : list nat) (closed : bool)
| OpInsert (a : nat) (pts : list (vec3 F)) (idx : list Z)
| OpIndexOf (a : nat) (p : vec3 F)
| OpAligned (a : nat) (v : vec3 F)
| OpApex (a : nat) (axis : vec3 F)
| OpBBox (a : nat)
| OpLen (a : nat).
Arguments OpNew {F}. Arguments OpFlipped {F}. Arguments OpFlippedIf {F}. Arguments OpRolled {F}.
Arguments OpSliced {F}. Arguments OpSectioned {F}. Arguments OpJoin {F}. Arguments OpInsert {F}.
Arguments OpIndexOf {F}. Arguments OpAligned {F}. Arguments OpApex {F}. Arguments OpBBox {F}. Arguments OpLen {F}.

Definition edges := list (nat * nat).
Inductive obs (F : Type) :=
| ObPoly (p : polyline F) (e : edges)
| ObPolys (ps : list (polyline F * edges))
| ObRolled (p : polyline F) (e : edges) (emap : list nat)
| ObInsert (p : polyline F) (e : edges) (orig ins : list nat)
| ObIndex (i : nat)
| ObPoint (p : vec3 F)
| ObBox (b : option (vec3 F * vec3 F))
| ObLen (len numv nume : nat)
| ObRaise (e : exn)
| ObMissing.   (* the receiver position does not exist in the pool (never generated; never agrees with anything) *)
Arguments ObPoly {F}. Arguments ObPolys {F}. Arguments ObRolled {F}. Arguments ObInsert {F}. Arguments ObIndex {F}.
Arguments ObPoint {F}. Arguments ObBox {F}. Arguments ObLen {F}. Arguments ObRaise {F}. Arguments ObMissing {F}.

Record impl (F : Type) := MkImpl {
  i_edges : nat -> bool -> edges;
  i_new : list (vec3 F) -> bool -> polyline F;
  i_flipped : polyline F -> polyline F;
  i_rolled : polyline F -> Z -> result (polyline F * list nat);
  i_sliced : polyline F -> nat -> nat -> result (polyline F);
  i_sectioned : polyline F -> list Z -> result (list (polyline F));
  i_join : list (polyline F) -> bool -> result (polyline F);
  i_insert : polyline F -> list (vec3 F) -> list Z -> result (polyline F * list nat * list nat);
  i_index_of : polyline F -> vec3 F -> result nat;
  i_aligned : polyline F -> vec3 F -> result (polyline F);
  i_apex : polyline F -> vec3 F -> result (vec3 F);
  i_bbox : polyline F -> option (vec3 F * vec3 F);
  i_len : polyline F -> nat * nat * nat }.
Arguments i_edges {F}. Arguments i_new {F}. Arguments i_flipped {F}. Arguments i_rolled {F}. Arguments i_sliced {F}.
Arguments i_sectioned {F}. Arguments i_join {F}. Arguments i_insert {F}. Arguments i_index_of {F}.
Arguments i_aligned {F}. Arguments i_apex {F}. Arguments i_bbox {F}. Arguments i_len {F}.

Section History.
  Context {F : Type} (I : impl F).
  Definition pool := list (polyline F).

  Definition with_edges (p : polyline F) : polyline F * edges := (p, i_edges I (length (pv p)) (pclosed p)).
  Definition ob_poly (p : polyline F) : obs F := ObPoly p (i_edges I (length (pv p)) (pclosed p)).

  Fixpoint fetch (pl : pool) (parts : list nat) : option (list (polyline F)) :=
    match parts with
    | [] => Some []
    | a :: r => match nth_error pl a, fetch pl r with Some p, Some t => Some (p :: t) | _, _ => None end
    end.

  (* one call on the receiver pl[a]; new polylines are appended to the pool, an error appends nothing *)
  Definition on {B} (pl : pool) (a : nat) (f : polyline F -> pool * B) (dflt : B) : pool * B :=
    match nth_error pl a with Some p => f p | None => (pl, dflt) end.
  Definition bad : obs F := ObMissing.

  Definition step (pl : pool) (o : op F) : pool * obs F :=
    match o with
    | OpNew v c => let p := i_new I v c in (pl ++ [p], ob_poly p)
    | OpFlipped a => on pl a (fun p => let q := i_flipped I p in (pl ++ [q], ob_poly q)) bad
    | OpFlippedIf a c => on pl a (fun p => let q := if c then i_flipped I p else p in (pl ++ [q], ob_poly q)) bad
    | OpRolled a k => on pl a (fun p =>
        match i_rolled I p k with
        | Ok (q, m) => (pl ++ [q], ObRolled q (i_edges I (length (pv q)) (pclosed q)) m)
        | Raise e => (pl, ObRaise e)
        end) bad
    | OpSliced a s t => on pl a (fun p =>
        match i_sliced I p s t with Ok q => (pl ++ [q], ob_poly q) | Raise e => (pl, ObRaise e) end) bad
    | OpSectioned a bps => on pl a (fun p =>
        match i_sectioned I p bps with
        | Ok qs => (pl ++ qs, ObPolys (map with_edges qs))
        | Raise e => (pl, ObRaise e)
        end) bad
    | OpJoin parts c =>
        match fetch pl parts with
        | Some ps => match i_join I ps c with Ok q => (pl ++ [q], ob_poly q) | Raise e => (pl, ObRaise e) end
        | None => (pl, bad)
        end
    | OpInsert a pts idx => on pl a (fun p =>
        match i_insert I p pts idx with
        | Ok (q, om, im) => (pl ++ [q], ObInsert q (i_edges I (length (pv q)) (pclosed q)) om im)
        | Raise e => (pl, ObRaise e)
        end) bad
    | OpIndexOf a pt => on pl a (fun p =>
        (pl, match i_index_of I p pt with Ok i => ObIndex i | Raise e => ObRaise e end)) bad
    | OpAligned a v => on pl a (fun p =>
        match i_aligned I p v with Ok q => (pl ++ [q], ob_poly q) | Raise e => (pl, ObRaise e) end) bad
    | OpApex a ax => on pl a (fun p =>
        (pl, match i_apex I p ax with Ok x => ObPoint x | Raise e => ObRaise e end)) bad
    | OpBBox a => on pl a (fun p => (pl, ObBox (i_bbox I p))) bad
    | OpLen a => on pl a (fun p => (pl, let '(a1, a2, a3) := i_len I p in ObLen a1 a2 a3)) bad
    end.

  Fixpoint run (pl : pool) (ops : list (op F)) : list (obs F) :=
    match ops with
    | [] => []
    | o :: r => snd (step pl o) :: run (fst (step pl o)) r
    end.

  (* index arguments in range: slice bounds within 0..num_v; insertion index vectors of two or more entries contain
     no index below -num_v (see wrap_indices).  Everything else is unrestricted: roll amounts any integer, insertion
     indices above num_v (and a single one below -num_v) raise IndexError in both models *)
  Definition op_in_range (pl : pool) (o : op F) : bool :=
    match o with
    | OpSliced a s t =>
        match nth_error pl a with
        | Some p => (s <=? length (pv p))%nat && (t <=? length (pv p))%nat
        | None => true
        end
    | OpInsert a _ idx =>
        match nth_error pl a with
        | Some p => negb (below_range (length (pv p)) idx)
        | None => true
        end
    | _ => true
    end.
  Fixpoint history_in_range (pl : pool) (ops : list (op F)) : Prop :=
    match ops with
    | [] => True
    | o :: r => op_in_range pl o = true /\ history_in_range (fst (step pl o)) r
    end.
End History.

(* ---------------------------------------------------------------------------------------------- *)
(* the specification of every operation on the value (list of points, closedness)                  *)
Section Spec.
  Context {F : Type} (O : NumOps F).

  Definition atol8 : F := nfrac O 1 100000000.
  (* all three coordinates within atol *)
  Definition vclose (atol : F) (a p : vec3 F) : bool :=
    nleb O (nabs O (nsub O (vx a) (vx p))) atol && nleb O (nabs O (nsub O (vy a) (vy p))) atol &&
    nleb O (nabs O (nsub O (vz a) (vz p))) atol.
  Definition vclose8 (a p : vec3 F) : bool := vclose atol8 a p.
  (* lowest index of a matching vertex *)
  Fixpoint spec_find_from (i : nat) (l : list (vec3 F)) (p : vec3 F) : option nat :=
    match l with
    | [] => None
    | x :: r => if vclose8 x p then Some i else spec_find_from (S i) r p
    end.

  (* first vertex with the largest coordinate along the axis *)
  Definition pick_max (x : vec3 F) (cx : F) (r : option (vec3 F * F)) : option (vec3 F * F) :=
    match r with
    | None => Some (x, cx)
    | Some (y, cy) => if nltb O cx cy then Some (y, cy) else Some (x, cx)
    end.
  Fixpoint spec_apex (l : list (vec3 F)) (ax : vec3 F) : option (vec3 F * F) :=
    match l with
    | [] => None
    | x :: r => pick_max x (vdot O x ax) (spec_apex r ax)
    end.

  (* componentwise extremes *)
  Fixpoint spec_min (x : vec3 F) (l : list (vec3 F)) : vec3 F :=
    match l with [] => x | y :: r => vmin O x (spec_min y r) end.
  Fixpoint spec_max (x : vec3 F) (l : list (vec3 F)) : vec3 F :=
    match l with [] => x | y :: r => vmax O x (spec_max y r) end.

  Definition s_new (v : list (vec3 F)) (c : bool) : polyline F := MkPolyline v c.
  Definition s_flipped (p : polyline F) : polyline F := MkPolyline (rev (pv p)) (pclosed p).
  Definition s_rolled (p : polyline F) (k : Z) : result (polyline F * list nat) :=
    if pclosed p then Ok (MkPolyline (spec_rot k (pv p)) true, spec_rot_map k (length (pv p)))
    else Raise ValueError.
  Definition s_sliced (p : polyline F) (s t : nat) : result (polyline F) :=
    rmap (fun v => MkPolyline v false) (spec_sliced (pclosed p) s t (pv p)).
  Definition s_sectioned (p : polyline F) (bps : list Z) : result (list (polyline F)) :=
    if pclosed p then Raise NotImplementedError
    else rmap (map (fun v => MkPolyline v false)) (spec_sections (pv p) 0 bps).
  Definition s_join (ps : list (polyline F)) (c : bool) : result (polyline F) :=
    match ps with
    | [] => Raise ValueError
    | _ => if existsb pclosed ps then Raise ValueError else Ok (MkPolyline (concat (map pv ps)) c)
    end.
  Definition s_insert (p : polyline F) (pts : list (vec3 F)) (idx : list Z)
    : result (polyline F * list nat * list nat) :=
    if negb (length pts =? length idx)%nat then Raise ValueError else
    match wrap_indices (length (pv p)) idx with
    | WUnmodelled => Raise OtherError
    | WIndexError => Raise IndexError
    | WOk w => Ok (MkPolyline (spec_insert (pv p) w pts) (pclosed p),
                   spec_orig_map (length (pv p)) w, spec_ins_map w)
    end.
  Definition s_index_of (p : polyline F) (pt : vec3 F) : result nat :=
    match spec_find_from 0 (pv p) pt with Some i => Ok i | None => Raise ValueError end.
  (* flip exactly when the end-to-end extent points against the vector *)
  Definition s_aligned (p : polyline F) (v : vec3 F) : result (polyline F) :=
    if pclosed p then Raise ValueError else
    match pv p with
    | a :: _ :: _ =>
        if nltb O (vdot O (vsub O (last (pv p) a) a) v) (n0 O) then Ok (s_flipped p) else Ok p
    | _ => Ok p
    end.
  Definition s_apex (p : polyline F) (ax : vec3 F) : result (vec3 F) :=
    match spec_apex (pv p) ax with Some (x, _) => Ok x | None => Raise ValueError end.
  (* (origin, size) *)
  Definition s_bbox (p : polyline F) : option (vec3 F * vec3 F) :=
    match pv p with
    | [] => None
    | x :: r => Some (spec_min x r, vsub O (spec_max x r) (spec_min x r))
    end.
  Definition s_len (p : polyline F) : nat * nat * nat :=
    let n := length (pv p) in (n, n, if pclosed p then n else (n - 1)%nat).

  Definition spec_impl : impl F :=
    MkImpl F spec_edges s_new s_flipped s_rolled s_sliced s_sectioned s_join s_insert s_index_of s_aligned
           s_apex s_bbox s_len.
End Spec.

(* componentwise order on real points (vocabulary of the bounding-box statement) *)
From Coq Require Import Reals.
Definition vle (a b : vec3 R) : Prop := (vx a <= vx b /\ vy a <= vy b /\ vz a <= vz b)%R.
