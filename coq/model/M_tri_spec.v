(* Specification vocabulary for C15 (real-number level): what the statements in props/C15.v are phrased with. *)
From Coq Require Import Reals List.
From PW Require Import Num NumR Vec.
From PW.model Require Import M_tri.
Import ListNotations.
Local Open Scope R_scope.

(* non-zero area *)
Definition nondegenerate (t : tri R) : Prop := tri_cross ROps t <> V3 0 0 0.
Definition tri_translate (d : vec3 R) (t : tri R) : tri R :=
  Tri (vadd ROps (ta t) d) (vadd ROps (tb t) d) (vadd ROps (tc t) d).
(* negation of a possibly-NaN row *)
Definition oneg (o : option (vec3 R)) : option (vec3 R) := option_map (vneg ROps) o.
Definition vsum3 (w : vec3 R) : R := vx w + vy w + vz w.
(* squared length of the un-normalised normal *)
Definition cross2 (t : tri R) : R := vnorm2 ROps (tri_cross ROps t).
(* orthogonal projection of p onto the plane of t (through ta t with normal tri_cross t) *)
Definition plane_projection (t : tri R) (p : vec3 R) : vec3 R :=
  let n := tri_cross ROps t in
  vsub ROps p (vscale ROps (vdot ROps (vsub ROps p (ta t)) n / cross2 t) n).
Definition coplanar (t : tri R) (p : vec3 R) : Prop := vdot ROps (vsub ROps p (ta t)) (tri_cross ROps t) = 0.
(* membership in the (closed, possibly degenerate) triangle: a convex combination of its vertices *)
Definition in_tri (t : tri R) (x : vec3 R) : Prop :=
  exists w : vec3 R, 0 <= vx w /\ 0 <= vy w /\ 0 <= vz w /\ vsum3 w = 1 /\ x = bary_combine ROps t w.
(* a coefficient pair as rng.random() produces it *)
Definition unit_draw (ab : R * R) : Prop := 0 <= fst ab <= 1 /\ 0 <= snd ab <= 1.
(* sums and partial sums of the weights *)
Fixpoint Rsum (l : list R) : R := match l with [] => 0 | x :: r => x + Rsum r end.
Definition psum (ws : list R) (i : nat) : R := Rsum (firstn i ws).
Definition nonneg_weights (ws : list R) : Prop := Forall (fun w => 0 <= w) ws.
(* face draws as rng.random() produces them *)
Definition face_draws (us : list R) : Prop := Forall (fun u => 0 <= u < 1) us.
