(* polliwog/polyline/_slice_by_plane.py (slice_open_polyline_by_plane),
   polliwog/polyline/_polyline_object.py (Polyline.sliced_by_plane, the closed-polyline roll logic) and
   polliwog/plane/_plane_intersect.py (intersect_segment_with_plane, one segment).
   Definitions only.  Models the code of /repo including the repairs b8558f7 (fixes/C06-closed-slice.diff) and
   eedfc5c (fixes/C06-crossing-from-signed-distances.diff): the crossing point is computed from the two signed distances the
   vertices were classified with, not by intersect_segment_with_plane (which is still modelled here because the
   correspondence and one traced kernel exercise it directly). *)
From Coq Require Import ZArith List Bool Arith.
From PW Require Import Num Vec NpList Result.
From PW.model Require Import M_plane M_polyline_base.
Import ListNotations.

(* one row of a (k,3) float array: a point, or a row that the code has overwritten with NaN *)
Inductive xrow (F : Type) := XPt (v : vec3 F) | XNan.
Arguments XPt {F} _.
Arguments XNan {F}.

(* a returned polyline: its vertex rows and its is_closed flag *)
Record sliced (F : Type) := MkSliced { s_rows : list (xrow F); s_closed : bool }.
Arguments MkSliced {F}. Arguments s_rows {F}. Arguments s_closed {F}.

(* last element, if any (arr[-1]) *)
Fixpoint olast {A} (l : list A) : option A :=
  match l with
  | [] => None
  | x :: r => match r with [] => Some x | _ => olast r end
  end.

Section SliceCore.
  (* The list-level algorithm, generic in the vertex type, the sign function and the two point constructors. *)
  Context {A B : Type} (sg : A -> Z) (pt : A -> B) (xs : A -> A -> B).

  (* np.vsplit(vertices, transition_points + 1) together with component_signs:
     maximal runs of equal sign, each with the sign of its first vertex *)
  Definition cons_group (v : A) (g : list (Z * list A)) : list (Z * list A) :=
    match g with
    | (s', c) :: g' => if (sg v =? s')%Z then (s', v :: c) :: g' else (sg v, [v]) :: g
    | [] => [(sg v, [v])]
    end.
  Fixpoint group (l : list A) : list (Z * list A) :=
    match l with
    | [] => []
    | v :: r => cons_group v (group r)
    end.

  (* prepend: nothing for the first component; the neighbour itself when it is on the plane; else the crossing
     computed from the neighbour towards the first vertex in front *)
  Definition prepend_of (g : list (Z * list A)) (k : nat) (front : list A) : list B :=
    match k with
    | 0%nat => []
    | S k' =>
        match nth_error g k' with
        | Some (s, c) =>
            match olast c, front with
            | Some adj, f0 :: _ => if (s =? 0)%Z then [pt adj] else [xs adj f0]
            | _, _ => []
            end
        | None => []
        end
    end.
  (* append: crossing computed from the last vertex in front towards the neighbour *)
  Definition append_of (g : list (Z * list A)) (k : nat) (front : list A) : list B :=
    match nth_error g (S k) with
    | Some (s, c) =>
        match c, olast front with
        | adj :: _, Some lastv => if (s =? 0)%Z then [pt adj] else [xs lastv adj]
        | _, _ => []
        end
    | None => []
    end.

  Definition slice_groups (g : list (Z * list A)) : result (list B) :=
    match flatnonzero (map (fun c => (fst c =? 1)%Z) g) with
    | [] => Raise ValueError                                  (* no vertices in front *)
    | [k] =>
        if (length g <? 2)%nat then Raise ValueError          (* entirely in front *)
        else match nth_error g k with
             | Some (_, front) => Ok (prepend_of g k front ++ map pt front ++ append_of g k front)
             | None => Raise IndexError                       (* not reachable: k indexes g *)
             end
    | _ => Raise ValueError                                   (* too many intersections *)
    end.

  Definition slice_core (l : list A) : result (list B) :=
    match l with
    | [] => Raise ValueError                                  (* no points *)
    | _ => slice_groups (group l)
    end.

  (* Polyline.sliced_by_plane on a closed polyline with more than one vertex: the roll amount. *)
  Definition closed_roll (l : list A) : result Z :=
    let signs := map sg l in
    let last_in_front := match olast signs with Some s => (s =? 1)%Z | None => false end in
    if last_in_front then
      match olast (flatnonzero (map (fun s => negb (s =? 1)%Z) signs)) with
      | Some k => Ok (- Z.of_nat k)%Z
      | None => Raise ValueError   (* every vertex in front (b8558f7) *)
      end
    else
      match flatnonzero (map (fun s => (s =? 1)%Z) signs) with
      | k :: _ => Ok (- Z.of_nat k + 1)%Z
      | [] => Ok 0%Z
      end.

  (* fixed code: roll, then repeat the first working vertex at the end *)
  Definition slice_closed (l : list A) : result (list B) :=
    rbind (closed_roll l) (fun k =>
      let w := roll l k in slice_core (w ++ firstn 1 w)).

  Definition slice_any (closed : bool) (l : list A) : result (list B) :=
    if closed && (1 <? length l)%nat then slice_closed l else slice_core l.
End SliceCore.

Section Slice.
  Context {F : Type} (O : NumOps F).

  (* intersect_segment_with_plane for one segment.
     t = nan_to_num(dot(ref - start, n) / dot(seg, n)); point = start + t * seg; rows with t < 0 or t > 1 become NaN.
     A zero denominator gives nan (-> t = 0) when the numerator is zero too and +-inf (-> +-1.8e308, so the row is
     discarded) otherwise. *)
  Definition xsect_t (start seg ref n : vec3 F) : F :=
    ndiv O (vdot O (vsub O ref start) n) (vdot O seg n).
  Definition intersect_segment_with_plane (start seg ref n : vec3 F) : xrow F :=
    let num := vdot O (vsub O ref start) n in
    let den := vdot O seg n in
    if neqb O den (n0 O) then
      (if neqb O num (n0 O) then XPt (vadd O start (vscale O (n0 O) seg)) else XNan)
    else
      let t := ndiv O num den in
      if nltb O t (n0 O) then XNan
      else if nltb O (n1 O) t then XNan
      else XPt (vadd O start (vscale O t seg)).

  (* _crossing_point(p, d_p, q, d_q) of _slice_by_plane.py (/repo eedfc5c):
     p + d_p / (d_p - d_q) * (q - p) with the signed distances the two vertices were classified with.
     The code only calls it with distances of strictly opposite sign; a zero denominator would give a NaN row. *)
  Definition crossing_row (pl : plane F) (a b : vec3 F) : xrow F :=
    let da := plane_sd O pl a in
    let db := plane_sd O pl b in
    let den := nsub O da db in
    if neqb O den (n0 O) then XNan
    else XPt (vadd O a (vscale O (ndiv O da den) (vsub O b a))).

  Definition slice_open (pl : plane F) (vs : list (vec3 F)) : result (list (xrow F)) :=
    slice_core (plane_sign O pl) XPt (crossing_row pl) vs.

  (* the vertex rows of Polyline.sliced_by_plane(plane) *)
  Definition sliced_by_plane (pl : plane F) (p : polyline F) : result (list (xrow F)) :=
    slice_any (plane_sign O pl) XPt (crossing_row pl) (pclosed p) (pv p).
  (* the value it returns: `Polyline(v=slice_open_polyline_by_plane(working_v, plane), is_closed=False)` *)
  Definition sliced_polyline (pl : plane F) (p : polyline F) : result (sliced F) :=
    rbind (sliced_by_plane pl p) (fun rows => Ok (MkSliced rows false)).
End Slice.
