(* polliwog/box/_box_object.py and Polyline.bounding_box (property C17). Definitions only. *)
From Coq Require Import ZArith List Bool.
From PW Require Import Num Vec NpList Result.
From PW.model Require Import M_plane.
Import ListNotations.

Record box (F : Type) := MkBox { borigin : vec3 F; bsize : vec3 F }.
Arguments MkBox {F}. Arguments borigin {F}. Arguments bsize {F}.

Section Box.
  Context {F : Type} (O : NumOps F).

  (* Box(origin, size): any(np.less(size, 0)) -> ValueError *)
  Definition box_ctor (origin size : vec3 F) : result (box F) :=
    if nltb O (vx size) (n0 O) || nltb O (vy size) (n0 O) || nltb O (vz size) (n0 O)
    then Raise ValueError else Ok (MkBox origin size).

  (* np.min(points, axis=0), np.max(points, axis=0) as left folds from the first row *)
  Definition points_min (p : vec3 F) (r : list (vec3 F)) : vec3 F := fold_left (vmin O) r p.
  Definition points_max (p : vec3 F) (r : list (vec3 F)) : vec3 F := fold_left (vmax O) r p.
  (* Box.from_points: k == 0 -> ValueError; cls(min, ptp) with ptp = max - min *)
  Definition from_points (ps : list (vec3 F)) : result (box F) :=
    match ps with
    | [] => Raise ValueError
    | p :: r => box_ctor (points_min p r) (vsub O (points_max p r) (points_min p r))
    end.
  (* Polyline.bounding_box: None for an empty polyline *)
  Definition bounding_box (vs : list (vec3 F)) : option (result (box F)) :=
    match vs with [] => None | _ => Some (from_points vs) end.

  Definition half : F := nfrac O 1 2.
  Definition min_x (b : box F) : F := vx (borigin b).
  Definition min_y (b : box F) : F := vy (borigin b).
  Definition min_z (b : box F) : F := vz (borigin b).
  Definition max_x (b : box F) : F := nadd O (vx (borigin b)) (vx (bsize b)).
  Definition max_y (b : box F) : F := nadd O (vy (borigin b)) (vy (bsize b)).
  Definition max_z (b : box F) : F := nadd O (vz (borigin b)) (vz (bsize b)).
  (* origin + size / 2 *)
  Definition mid_x (b : box F) : F := nadd O (vx (borigin b)) (ndiv O (vx (bsize b)) (n2 O)).
  Definition mid_y (b : box F) : F := nadd O (vy (borigin b)) (ndiv O (vy (bsize b)) (n2 O)).
  Definition mid_z (b : box F) : F := nadd O (vz (borigin b)) (ndiv O (vz (bsize b)) (n2 O)).
  Definition width (b : box F) : F := vx (bsize b).
  Definition height (b : box F) : F := vy (bsize b).
  Definition depth (b : box F) : F := vz (bsize b).
  (* origin + 0.5 * size *)
  Definition center_point (b : box F) : vec3 F := vadd O (borigin b) (vscale O half (bsize b)).
  (* origin + [0.5, 0.0, 0.5] * size *)
  Definition floor_point (b : box F) : vec3 F :=
    vadd O (borigin b) (vmul O (V3 half (n0 O) half) (bsize b)).
  (* np.prod(size) *)
  Definition volume (b : box F) : F := nmul O (nmul O (vx (bsize b)) (vy (bsize b))) (vz (bsize b)).
  (* l, h, w = size; 2 * (w * l + h * l + h * w) *)
  Definition surface_area (b : box F) : F :=
    let l := vx (bsize b) in let h := vy (bsize b) in let w := vz (bsize b) in
    nmul O (n2 O) (nadd O (nadd O (nmul O w l) (nmul O h l)) (nmul O h w)).
  (* ranges: rows [min, max] of (origin, origin + size) per axis *)
  Definition ranges (b : box F) : list (F * F) :=
    let lo := borigin b in let hi := vadd O (borigin b) (bsize b) in
    [(nmin O (vx lo) (vx hi), nmax O (vx lo) (vx hi));
     (nmin O (vy lo) (vy hi), nmax O (vy lo) (vy hi));
     (nmin O (vz lo) (vz hi), nmax O (vz lo) (vz hi))].
  (* the eight corners, in the order of Box.v *)
  Definition corners (b : box F) : list (vec3 F) :=
    let o := borigin b in let s := bsize b in let z := n0 O in
    [ o;
      vadd O o (V3 (vx s) z z); vadd O o (V3 z (vy s) z); vadd O o (V3 z z (vz s));
      vadd O o (V3 (vx s) (vy s) z); vadd O o (V3 z (vy s) (vz s)); vadd O o (V3 (vx s) z (vz s));
      vadd O o (V3 (vx s) (vy s) (vz s)) ].

  (* face planes: centre of the side (centre point with one coordinate replaced), inward basis normal *)
  Definition set_x (v : vec3 F) (x : F) := V3 x (vy v) (vz v).
  Definition set_y (v : vec3 F) (y : F) := V3 (vx v) y (vz v).
  Definition set_z (v : vec3 F) (z : F) := V3 (vx v) (vy v) z.
  Definition ex : vec3 F := V3 (n1 O) (n0 O) (n0 O).
  Definition ey : vec3 F := V3 (n0 O) (n1 O) (n0 O).
  Definition ez : vec3 F := V3 (n0 O) (n0 O) (n1 O).
  Definition min_x_plane (b : box F) : plane F := MkPlane (set_x (center_point b) (min_x b)) ex.
  Definition min_y_plane (b : box F) : plane F := MkPlane (set_y (center_point b) (min_y b)) ey.
  Definition min_z_plane (b : box F) : plane F := MkPlane (set_z (center_point b) (min_z b)) ez.
  Definition max_x_plane (b : box F) : plane F := MkPlane (set_x (center_point b) (max_x b)) (vneg O ex).
  Definition max_y_plane (b : box F) : plane F := MkPlane (set_y (center_point b) (max_y b)) (vneg O ey).
  Definition max_z_plane (b : box F) : plane F := MkPlane (set_z (center_point b) (max_z b)) (vneg O ez).
  Definition six_planes (b : box F) : list (plane F) :=
    [min_x_plane b; min_y_plane b; min_z_plane b; max_x_plane b; max_y_plane b; max_z_plane b].

  (* contains(point, atol): all(origin - atol <= point and point <= origin + size + atol) *)
  Definition contains (b : box F) (p : vec3 F) (atol : F) : bool :=
    let o := borigin b in let s := bsize b in
    (nleb O (nsub O (vx o) atol) (vx p) && nleb O (vx p) (nadd O (nadd O (vx o) (vx s)) atol)) &&
    (nleb O (nsub O (vy o) atol) (vy p) && nleb O (vy p) (nadd O (nadd O (vy o) (vy s)) atol)) &&
    (nleb O (nsub O (vz o) atol) (vz p) && nleb O (vz p) (nadd O (nadd O (vz o) (vz s)) atol)).
End Box.
