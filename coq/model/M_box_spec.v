(* Specification vocabulary for C17 (real-number level): what the statements in props/C17.v are phrased with. *)
From Coq Require Import Reals List.
From PW Require Import Num NumR Vec.
From PW.model Require Import M_box.
Local Open Scope R_scope.

(* all three sizes are non-negative (the property's domain for a Box) *)
Definition nonneg_size (b : box R) : Prop := 0 <= vx (bsize b) /\ 0 <= vy (bsize b) /\ 0 <= vz (bsize b).
(* the maximum corner origin + size *)
Definition box_max (b : box R) : vec3 R := vadd ROps (borigin b) (bsize b).
(* tightness on the coordinate g: both bounds of the box hold for every point and each is attained by one of them *)
Definition tight_on (g : vec3 R -> R) (b : box R) (ps : list (vec3 R)) : Prop :=
  (forall q, In q ps -> g (borigin b) <= g q <= g (box_max b)) /\
  (exists q, In q ps /\ g q = g (borigin b)) /\ (exists q, In q ps /\ g q = g (box_max b)).
