(* Spec vocabulary for C03 (CompositeTransform histories).
   Specification vocabulary (over the real-number instance) used by the statements in props/.  Definitions only:
   a statement in props/ can only change its meaning through props/ or model/. *)
From Coq Require Import ZArith Reals List Bool.
From PW Require Import Num NumR Vec Mat NpList Result.
From PW.model Require Import M_rodrigues M_affine M_rotation M_composite M_affine_spec.
Import ListNotations.
Local Open Scope R_scope.

(* ---------------- the invariant ---------------- *)
Definition pair_ok (fr : mat4 R * mat4 R) : Prop :=
  affine ROps (fst fr) /\ affine ROps (snd fr) /\ inverse_pair (fst fr) (snd fr).

Definition Inv (st : cstate (F:=R)) : Prop := Forall pair_ok st.

Definition op_ok (o : op R) : Prop :=
  match o with
  | OAppend f None => affine ROps f
  | OAppend f (Some r) => affine ROps f /\ inverse_pair f r
  | ORotate (RotMat m) => orthogonal3 m
  | _ => True
  end.

(* ---------------- documented action of each step ---------------- *)
Definition flip_vec (dim : Z) : vec3 R :=
  if (dim =? 0)%Z then V3 (-1) 1 1 else if (dim =? 1)%Z then V3 1 (-1) 1 else V3 1 1 (-1).

(* what the step does to a point p (the identity for calls that raise) *)
Definition doc_action (o : op R) (p : vec3 R) : vec3 R :=
  match o with
  | OAppend f _ => mapply_pt ROps f p
  | OUniformScale s _ => vscale ROps s p
  | ONonUniformScale x y z _ => vmul ROps (V3 x y z) p
  | OConvertUnits s => vscale ROps s p
  | OFlip dim => vmul ROps (flip_vec dim) p
  | OTranslate t => vadd ROps p t
  | ORotate a => m3apply ROps (rotation3 ROps a) p
  | OReorient up look =>
      match rotation_from_up_and_look ROps up look with Ok r => m3apply ROps r p | Raise _ => p end
  end.

(* ... and to a vector (translations drop out) *)
Definition doc_action_vec (o : op R) (p : vec3 R) : vec3 R :=
  match o with
  | OAppend f _ => m3apply ROps (mupper3 f) p
  | OTranslate t => p
  | _ => doc_action o p
  end.

(* a call that raises has no effect; an accepted call acts as documented *)
Definition step_action (o : op R) (w : bool) (q : vec3 R) : vec3 R :=
  match op_pair ROps o with
  | Ok _ => if w then doc_action_vec o q else doc_action o q
  | Raise _ => q
  end.

(* ---------------- the call over any sub-range, forward and reverse, in terms of the accepted calls ---------------- *)
Definition accepts (o : op R) : bool := match op_pair ROps o with Ok _ => true | Raise _ => false end.

Definition accepted_ops (ops : list (op R)) : list (op R) := filter accepts ops.

Definition pair_of (o : op R) : mat4 R * mat4 R :=
  match op_pair ROps o with Ok fr => fr | Raise _ => (I4 ROps, I4 ROps) end.

(* what the stored inverse matrix of an accepted step does *)
Definition step_inverse_action (o : op R) (w : bool) (q : vec3 R) : vec3 R := apply_point ROps (snd (pair_of o)) w q.

(* ---------------- matrix-level invariant without affinity; witnesses of the compose_non_affine finding ---------------- *)
Definition InvPairs (st : cstate (F:=R)) : Prop := Forall (fun fr => inverse_pair (fst fr) (snd fr)) st.
(* arguments for which the stored pair really is an inverse pair, affine or not *)
Definition op_ok_inv (o : op R) : Prop :=
  match o with
  | OAppend f (Some r) => inverse_pair f r
  | ORotate (RotMat m) => orthogonal3 m
  | _ => True
  end.
(* inverse of proj_witness_a; a projective matrix whose first three rows use w, and its inverse *)
Definition proj_witness_a_inv : mat4 R := M4 1 0 0 0  0 1 0 0  0 0 1 0  (-1) 0 0 1.
Definition proj_witness_c : mat4 R := M4 1 0 0 1  0 1 0 0  0 0 1 0  1 0 0 2.
Definition proj_witness_c_inv : mat4 R := M4 2 0 0 (-1)  0 1 0 0  0 0 1 0  (-1) 0 0 1.
