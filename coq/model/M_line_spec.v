(* Specification vocabulary for C18 (real numbers): what it means for a point to lie on a line. Used by the statements
   in props/C18.v; these are not models of any code. Definitions only. *)
From Coq Require Import Reals.
From PW Require Import Num NumR Vec.
Local Open Scope R_scope.

Definition v0 : vec3 R := V3 0 0 0.
(* the point p + s d *)
Definition line_pt (p d : vec3 R) (s : R) : vec3 R := vadd ROps p (vscale ROps s d).
(* x lies on the line through p and q *)
Definition on_line (p q x : vec3 R) : Prop := exists s, x = line_pt p (vsub ROps q p) s.
(* 2-D *)
Definition on_line2 (p q x : R * R) : Prop :=
  exists s, fst x = fst p + s * (fst q - fst p) /\ snd x = snd p + s * (snd q - snd p).
(* the directions of the two 2-D lines are parallel *)
Definition parallel2 (p0 q0 p1 q1 : R * R) : Prop :=
  (fst q0 - fst p0) * (snd q1 - snd p1) - (snd q0 - snd p0) * (fst q1 - fst p1) = 0.
