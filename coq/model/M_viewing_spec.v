(* Specification vocabulary of C12 (over the reals): what the statements of props/C12.v are phrased in.
   Definitions only; nothing here is used by the executable model. *)
From Coq Require Import ZArith Reals List Bool.
From PW Require Import Num NumR Vec Mat Result.
Import ListNotations.
Local Open Scope R_scope.

Definition in_view_box (w h n f : R) (p : vec3 R) : Prop :=
  - w / 2 <= vx p <= w / 2 /\ - h / 2 <= vy p <= h / 2 /\ - f <= vz p <= - n.

Definition in_cube (p : vec3 R) : Prop :=
  -1 <= vx p <= 1 /\ -1 <= vy p <= 1 /\ -1 <= vz p <= 1.

(* domain of world_to_view: camera position and target differ, up is not parallel to the viewing direction *)
Definition camera_ok (position target up : vec3 R) : Prop :=
  target <> position /\ vcross ROps (vsub ROps target position) up <> V3 0 0 0.
