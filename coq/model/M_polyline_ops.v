(* C09: code-shaped model of polliwog/polyline/_polyline_object.py (value operations) and _edges.py.
   Each definition follows the NumPy expression of the source; with_insertions is the code as repaired by /repo
   commit 9e3d823 (fixes/C09-insertion-index-maps.diff: stable argsort + searchsorted index maps); the constructor
   stores a float64 copy (commit 9b9f8e2 (fixes/C09-integer-vertices.diff)), so the value held is the list of the given points as reals.
   Definitions only; refinement to M_polyline_spec.v is proved in proofs/P_polyline_ops.v. *)
From Coq Require Import ZArith List Bool Arith.
From PW Require Import Num Vec NpList Result.
From PW.model Require Import M_polyline_base M_polyline_spec.
Import ListNotations.

(* ---- _edges.py: edges_for ------------------------------------------------------------------------ *)
(* edges[-1][1] = 0 *)
Definition set_last_snd (e : edges) (x : nat) : edges :=
  match e with [] => [] | _ => removelast e ++ [(fst (last e (0, 0)), x)]%nat end.
Definition edges_for (num_v : nat) (closed : bool) : edges :=
  let num_e : Z := if closed then Z.of_nat num_v else (Z.of_nat num_v - 1)%Z in
  if (num_e =? 0)%Z then []
  else let e := map (fun i => (i, S i)) (seq 0 (Z.to_nat num_e)) in   (* vstack([arange, arange + 1]).T *)
       if closed then set_last_snd e 0 else e.

(* ---- NumPy pieces used by with_insertions ----------------------------------------------------------- *)
(* stable sort of (key, original position) pairs by key: np.argsort(kind="stable") *)
Fixpoint sins (x : nat * nat) (s : list (nat * nat)) : list (nat * nat) :=
  match s with
  | [] => [x]
  | y :: r => if (fst x <=? fst y)%nat then x :: y :: r else y :: sins x r
  end.
Fixpoint ssort (l : list (nat * nat)) : list (nat * nat) :=
  match l with [] => [] | x :: r => sins x (ssort r) end.
(* sorted (wrapped index, order) pairs *)
Definition sorted_pairs (idx : list nat) : list (nat * nat) := ssort (zip idx (seq 0 (length idx))).
(* np.searchsorted(sorted, i, side="right") *)
Fixpoint searchsorted_right (s : list nat) (i : nat) : nat :=
  match s with [] => 0%nat | x :: r => if (x <=? i)%nat then S (searchsorted_right r i) else 0%nat end.
(* out[order] = wrapped[order] + arange(k), as (j, position) pairs, then read out[j] *)
Fixpoint pos_pairs_from (p : nat) (s : list (nat * nat)) : list (nat * nat) :=
  match s with [] => [] | (i, j) :: r => (j, (i + p)%nat) :: pos_pairs_from (S p) r end.
Fixpoint lookup (j : nat) (m : list (nat * nat)) : nat :=
  match m with [] => 0%nat | (a, b) :: r => if (a =? j)%nat then b else lookup j r end.
Definition inserted_positions (idx : list nat) : list nat :=
  let m := pos_pairs_from 0 (sorted_pairs idx) in map (fun j => lookup j m) (seq 0 (length idx)).

Section NpInsert.
  Context {A : Type}.
  (* which inserted point (if any) lands on new position q *)
  Fixpoint slot_of (q : nat) (pos : list nat) (pts : list A) : option A :=
    match pos, pts with
    | p :: pr, x :: xr => if (p =? q)%nat then Some x else slot_of q pr xr
    | _, _ => None
    end.
  (* new[positions] = values; new[old_mask] = arr : walk over the new positions *)
  Fixpoint fill (fuel q : nat) (pos : list nat) (pts v : list A) : list A :=
    match fuel with
    | 0%nat => []
    | S f =>
        match slot_of q pos pts with
        | Some x => x :: fill f (S q) pos pts v
        | None => match v with [] => [] | y :: r => y :: fill f (S q) pos pts r end
        end
    end.
  (* np.insert(arr, indices, values, axis=0) for wrapped indices 0..n *)
  Definition np_insert (v : list A) (idx : list nat) (pts : list A) : list A :=
    fill (length v + length idx) 0 (inserted_positions idx) pts v.

  (* arr[0:m] for an integer m (negative counts from the end) *)
  Definition py_prefix (m : Z) (l : list A) : list A :=
    if (0 <=? m)%Z then firstn (Z.to_nat m) l else firstn (Z.to_nat (Z.of_nat (length l) + m)) l.
End NpInsert.

(* np.argmax: first index of the largest value *)
Section Code.
  Context {F : Type} (O : NumOps F).

  Definition c_new (v : list (vec3 F)) (c : bool) : polyline F := MkPolyline v c.   (* np.copy(v) *)
  Definition c_flipped (p : polyline F) : polyline F := MkPolyline (rev (pv p)) (pclosed p).  (* np.flipud *)

  Definition c_rolled (p : polyline F) (k : Z) : result (polyline F * list nat) :=
    if negb (pclosed p) then Raise ValueError
    else Ok (MkPolyline (roll (pv p) (- k)) true, roll (seq 0 (length (pv p))) (- k)).

  Definition c_sliced (p : polyline F) (start stop : nat) : result (polyline F) :=
    if (stop <=? start)%nat then
      if pclosed p then
        let keep := (Z.of_nat (length (pv p)) - Z.of_nat start + Z.of_nat stop)%Z in
        Ok (MkPolyline (py_prefix keep (roll (pv p) (- Z.of_nat start))) false)
      else Raise ValueError
    else Ok (MkPolyline (firstn (stop - start) (skipn start (pv p))) false).

  Definition c_sectioned (p : polyline F) (bps : list Z) : result (list (polyline F)) :=
    if pclosed p then Raise NotImplementedError else
    let starts := 0%Z :: bps in
    let ends := map (fun b => (b + 1)%Z) bps ++ [Z.of_nat (length (pv p))] in
    let eps := map2 (fun e s => (e - s - 1)%Z) ends starts in
    if existsb (fun x => (x <? 1)%Z) eps then Raise ValueError
    else Ok (map2 (fun s e => MkPolyline (zslice s e (pv p)) false) starts ends).

  Definition c_join (ps : list (polyline F)) (c : bool) : result (polyline F) :=
    if (length ps =? 0)%nat then Raise ValueError
    else if existsb pclosed ps then Raise ValueError
    else Ok (MkPolyline (concat (map pv ps)) c).     (* np.vstack *)

  (* with_insertions(points, indices, ret_new_indices=True), fixed code *)
  Definition c_insert (p : polyline F) (pts : list (vec3 F)) (idx : list Z)
    : result (polyline F * list nat * list nat) :=
    if negb (length pts =? length idx)%nat then Raise ValueError else    (* vg.shape.check(indices, (k,)) *)
    let n := length (pv p) in
    match wrap_indices n idx with
    | WUnmodelled => Raise OtherError                                     (* see M_polyline_spec.wrap_indices *)
    | WIndexError => Raise IndexError                                     (* np.insert *)
    | WOk w =>
        let sorted := map fst (sorted_pairs w) in
        Ok (MkPolyline (np_insert (pv p) w pts) (pclosed p),
            map (fun i => (i + searchsorted_right sorted i)%nat) (seq 0 n),
            inserted_positions w)
    end.

  (* np.isclose(self.v - point, 0, atol).all(axis=1).nonzero()[0][0] *)
  Definition c_index_of_at (atol : F) (p : polyline F) (pt : vec3 F) : result nat :=
    match flatnonzero (map (fun x => vclose O atol x pt) (pv p)) with
    | i :: _ => Ok i
    | [] => Raise ValueError
    end.
  Definition c_index_of (p : polyline F) (pt : vec3 F) : result nat := c_index_of_at (atol8 O) p pt.

  (* aligned_with: vg.project / vg.scale_factor, with the NaN outcomes (zero vector, zero projection) explicit *)
  Definition c_aligned (p : polyline F) (v : vec3 F) : result (polyline F) :=
    if pclosed p then Raise ValueError else
    if (length (pv p) <? 2)%nat then Ok p else
    match pv p with
    | [] => Ok p
    | a :: _ =>
        let extent := vsub O (last (pv p) a) a in
        let nv := vnorm O v in
        if neqb O nv (n0 O) then Ok p                      (* normalize(0) is NaN: comparison false *)
        else
          let u := vdivs O v nv in
          let projected := vscale O (vdot O extent u) u in
          let d11 := vdot O projected projected in
          if neqb O d11 (n0 O) then Ok p                   (* scale_factor returns NaN *)
          else if nltb O (ndiv O (vdot O projected v) d11) (n0 O) then Ok (c_flipped p) else Ok p
    end.

  (* vg.apex: points[argmax(points.dot(along))] *)
  Definition argmax_step (st : nat * nat * option F) (c : F) : nat * nat * option F :=
    let '(i, best, bv) := st in
    match bv with
    | None => (S i, i, Some c)
    | Some b => if nltb O b c then (S i, i, Some c) else (S i, best, bv)
    end.
  Definition argmax (l : list F) : option nat :=
    let '(_, best, bv) := fold_left argmax_step l (0%nat, 0%nat, None) in
    match bv with Some _ => Some best | None => None end.
  Definition c_apex (p : polyline F) (ax : vec3 F) : result (vec3 F) :=
    match argmax (map (fun x => vdot O x ax) (pv p)) with
    | None => Raise ValueError
    | Some i => match nth_error (pv p) i with Some x => Ok x | None => Raise IndexError end
    end.

  (* Box.from_points: Box(np.min(points, axis=0), np.ptp(points, axis=0)) *)
  Definition c_bbox (p : polyline F) : option (vec3 F * vec3 F) :=
    match pv p with
    | [] => None
    | x :: r =>
        let lo := fold_left (vmin O) r x in
        let hi := fold_left (vmax O) r x in
        Some (lo, vsub O hi lo)
    end.

  Definition c_len (p : polyline F) : nat * nat * nat :=
    (length (pv p), length (pv p), length (edges_for (length (pv p)) (pclosed p))).

  Definition code_impl : impl F :=
    MkImpl F edges_for c_new c_flipped c_rolled c_sliced c_sectioned c_join c_insert c_index_of c_aligned
           c_apex c_bbox c_len.
End Code.

(* ---- flattening of results, used by the traced-kernel tie lemmas (outputs of a trace are flat lists) -------- *)
Definition flatv {F} (l : list (vec3 F)) : list F := flat_map vlist l.
Definition out_poly {F} (r : result (polyline F)) : list F :=
  match r with Ok q => flatv (pv q) | Raise _ => [] end.
Definition out_polys {F} (r : result (list (polyline F))) : list F :=
  match r with Ok qs => flat_map (fun q => flatv (pv q)) qs | Raise _ => [] end.
Definition out_rolled {F} (r : result (polyline F * list nat)) : list F * list nat :=
  match r with Ok (q, m) => (flatv (pv q), m) | Raise _ => ([], []) end.
Definition out_insert {F} (r : result (polyline F * list nat * list nat)) : list F * (list nat * list nat) :=
  match r with Ok (q, om, im) => (flatv (pv q), (om, im)) | Raise _ => ([], ([], [])) end.
Definition out_box {F} (b : option (vec3 F * vec3 F)) : list F :=
  match b with Some (o, s) => vlist o ++ vlist s | None => [] end.
Definition out_point {F} (r : result (vec3 F)) : list F := match r with Ok x => vlist x | Raise _ => [] end.
