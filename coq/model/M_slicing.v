(* polliwog/plane/_trimesh_intersections.py (slice_faces_plane, unique_bincount), polliwog/plane/_slicing.py
   (slice_triangles_by_plane) and the quad split of polliwog/tri/quad_faces.py (quads_to_tris).
   Definitions only.  Sign convention of the code is kept: -1 = in front ("inside"), 0 = on, 1 = behind. *)
From Coq Require Import ZArith List Bool Arith.
From PW Require Import Num Vec NpList Result.
Import ListNotations.

(* ---- index triples, coordinate triangles, sign triples --------------------------------------------- *)
Definition face := (nat * nat * nat)%type.
Definition mkface (a b c : nat) : face := (a, b, c).
Definition fget (f : face) (k : nat) : nat :=
  match k with 0%nat => fst (fst f) | 1%nat => snd (fst f) | _ => snd f end.
Definition tri (F : Type) := (vec3 F * vec3 F * vec3 F)%type.
Definition tget {F} (t : tri F) (k : nat) : vec3 F :=
  match k with 0%nat => fst (fst t) | 1%nat => snd (fst t) | _ => snd t end.
(* per-corner (snapped) distances of one face *)
Definition dget {F} (d : F * F * F) (k : nat) : F :=
  match k with 0%nat => fst (fst d) | 1%nat => snd (fst d) | _ => snd d end.
Definition sgn3 := (Z * Z * Z)%type.
Definition sget (s : sgn3) (k : nat) : Z :=
  match k with 0%nat => fst (fst s) | 1%nat => snd (fst s) | _ => snd s end.

(* ---- per-face case split (pure integer code) ------------------------------------------------------------ *)
(* signs_sum, signs_asum *)
Definition ssum (s : sgn3) : Z := (sget s 0 + sget s 1 + sget s 2)%Z.
Definition sasum (s : sgn3) : Z := (Z.abs (sget s 0) + Z.abs (sget s 1) + Z.abs (sget s 2))%Z.
(* onedge = (signs_asum >= 2) & (|signs_sum| <= 1) & mask ;  inside = (signs_sum == -signs_asum) | ~mask *)
Definition onedge (s : sgn3) (m : bool) : bool := ((2 <=? sasum s)%Z && (Z.abs (ssum s) <=? 1)%Z) && m.
Definition inside (s : sgn3) (m : bool) : bool := (ssum s =? - sasum s)%Z || negb m.
Definition is_quad (s : sgn3) (m : bool) : bool := onedge s m && (ssum s <? 0)%Z.
Definition is_tri (s : sgn3) (m : bool) : bool := onedge s m && (0 <=? ssum s)%Z.
(* np.where(row == v)[1]: the column holding v (exactly one in the rows it is applied to, see sign_cases) *)
Definition col_of (v : Z) (s : sgn3) : nat :=
  if (sget s 0 =? v)%Z then 0%nat else if (sget s 1 =? v)%Z then 1%nat else 2%nat.

Inductive fcase := Keep | Drop | CQuad (k : nat) | CTri (k : nat).
Definition face_case (s : sgn3) (m : bool) : fcase :=
  if inside s m then Keep
  else if is_quad s m then CQuad (col_of 1 s)
  else if is_tri s m then CTri (col_of (-1) s)
  else Drop.

(* ---- unique_bincount ------------------------------------------------------------------------------------ *)
Definition occ (vals : list nat) (v : nat) : bool := existsb (Nat.eqb v) vals.
(* unique = np.where(np.bincount(values).astype(bool))[0] *)
Definition ub_unique (vals : list nat) : list nat := filter (occ vals) (seq 0 (S (list_max vals))).
(* (np.cumsum(unique_bin) - 1)[v] *)
Definition ub_rank (vals : list nat) (v : nat) : nat := length (filter (occ vals) (seq 0 (S v))) - 1.
Definition unique_bincount (vals : list nat) : list nat * list nat := (ub_unique vals, map (ub_rank vals) vals).

Definition flat_faces (fs : list face) : list nat := flat_map (fun f => [fget f 0; fget f 1; fget f 2]) fs.
Definition map_face (g : nat -> nat) (f : face) : face := mkface (g (fget f 0)) (g (fget f 1)) (g (fget f 2)).
(* np.repeat(a, 2) *)
Definition repeat2 (l : list nat) : list nat := flat_map (fun i => [i; i]) l.

Fixpoint all_some {A} (l : list (option A)) : option (list A) :=
  match l with
  | [] => Some []
  | x :: r => match x, all_some r with Some a, Some r' => Some (a :: r') | _, _ => None end
  end.

(* what the public function returns.  The model always computes the face mapping; the code returns it only when
   ret_face_mapping is set (the correspondence compares it when it was requested).  A mask whose length is not the number of
   faces is outside the model: the code rejects it with ValueError in its shape check (property C20). *)
Record mesh_out (F : Type) := MkOut { mo_v : list (vec3 F); mo_f : list face; mo_map : list nat }.
Arguments MkOut {F}. Arguments mo_v {F}. Arguments mo_f {F}. Arguments mo_map {F}.

Section Slicing.
  Context {F : Type} (O : NumOps F).

  (* tol.merge = 1e-8 and the literal 1e-12, as the binary64 values the interpreter reads *)
  Definition merge_tol : F := nfrac O 3022314549036573 302231454903657293676544.
  Definition patch_eps : F := nfrac O 4951760157141521 4951760157141521099596496896.

  (* dots = einsum("i,ij->j", plane_normal, (vertices - plane_origin).T) *)
  Definition plane_dot (n o v : vec3 F) : F := vdot O n (vsub O v o).
  (* dots = np.where(np.abs(dots) <= tol.merge, 0.0, dots): a vertex closer to the plane than the merge tolerance
     counts as lying on it (fixes/C01-snap-on-plane-distances.diff) *)
  Definition snap (tol d : F) : F := if nleb O (nabs O d) tol then n0 O else d.
  Definition snapped_dot (tol : F) (n o v : vec3 F) : F := snap tol (plane_dot n o v).
  (* signs = 0; signs[dots < -tol] = 1; signs[dots > tol] = -1  (the later assignment wins); dots are the snapped ones *)
  Definition vsign (tol d : F) : Z :=
    if nltb O tol d then (-1)%Z else if nltb O d (nneg O tol) then 1%Z else 0%Z.
  Definition signs3 (tol : F) (ds : F * F * F) : sgn3 :=
    (vsign tol (dget ds 0), vsign tol (dget ds 1), vsign tol (dget ds 2)).
  (* dots[faces] for one face *)
  Definition tri_dists (tol : F) (n o : vec3 F) (t : tri F) : F * F * F :=
    (snapped_dot tol n o (tget t 0), snapped_dot tol n o (tget t 1), snapped_dot tol n o (tget t 2)).
  Definition tri_signs (tol : F) (n o : vec3 F) (t : tri F) : sgn3 := signs3 tol (tri_dists tol n o t).

  (* intersection of the edge p -> q with the plane, from the snapped distances da, db of its ends:
       d = q - p; num = -da; denom = db - da; denom[denom == 0] = 1e-12; p' = (num/denom) * d + p *)
  Definition int_point (eps da db : F) (p q : vec3 F) : vec3 F :=
    let d := vsub O q p in
    let num := nneg O da in
    let denom := nsub O db da in
    let denom' := if neqb O denom (n0 O) then eps else denom in
    vadd O (vscale O (ndiv O num denom') d) p.
  (* int_points[j] lies on the edge j -> j+1 (np.roll(..., -1, axis=1) - ...) *)
  Definition int_points (eps : F) (ds : F * F * F) (t : tri F) (j : nat) : vec3 F :=
    int_point eps (dget ds j) (dget ds (S j mod 3)) (tget t j) (tget t (S j mod 3)).

  (* quad branch: k = corner behind the plane; kept corners k+1, k+2; new vertices int_points[k+2], int_points[k];
     quads_to_tris: (0,1,2), (0,2,3) *)
  Definition quad_new (eps : F) (ds : F * F * F) (t : tri F) (k : nat) : list (vec3 F) :=
    [int_points eps ds t ((k + 2) mod 3); int_points eps ds t ((k + 0) mod 3)].
  Definition quad_tris (eps : F) (ds : F * F * F) (t : tri F) (k : nat) : list (tri F) :=
    let b := tget t ((k + 1) mod 3) in
    let c := tget t ((k + 2) mod 3) in
    let p := int_points eps ds t ((k + 2) mod 3) in
    let q := int_points eps ds t ((k + 0) mod 3) in
    [(b, c, p); (b, p, q)].
  (* triangle branch: k = the corner in front; new vertices int_points[k], int_points[k+2] *)
  Definition tri_new (eps : F) (ds : F * F * F) (t : tri F) (k : nat) : list (vec3 F) :=
    [int_points eps ds t ((k + 0) mod 3); int_points eps ds t ((k + 2) mod 3)].
  Definition cut_tris (eps : F) (ds : F * F * F) (t : tri F) (k : nat) : list (tri F) :=
    [(tget t k, int_points eps ds t ((k + 0) mod 3), int_points eps ds t ((k + 2) mod 3))].

  (* the per-face kernel: what one input face contributes, as coordinate triangles *)
  Definition slice_face_signs (eps : F) (ds : F * F * F) (s : sgn3) (m : bool) (t : tri F) : list (tri F) :=
    match face_case s m with
    | Keep => [t]
    | Drop => []
    | CQuad k => quad_tris eps ds t k
    | CTri k => cut_tris eps ds t k
    end.
  Definition slice_face (tol eps : F) (n o : vec3 F) (m : bool) (t : tri F) : list (tri F) :=
    slice_face_signs eps (tri_dists tol n o t) (tri_signs tol n o t) m t.

  (* ---- the mesh pipeline, as vectorised ---------------------------------------------------------------- *)
  (* one row of faces / vertices[faces] / dots[faces] / signs[faces] / mask *)
  Record fdata := FD { fd_f : face; fd_t : tri F; fd_d : F * F * F; fd_s : sgn3; fd_m : bool }.

  Definition lookup3 {A} (l : list A) (f : face) : option (A * A * A) :=
    match nth_error l (fget f 0), nth_error l (fget f 1), nth_error l (fget f 2) with
    | Some a, Some b, Some c => Some (a, b, c)
    | _, _, _ => None
    end.
  Definition resolve1 (vs : list (vec3 F)) (dots : list F) (vsigns : list Z) (fm : face * bool) : option fdata :=
    match lookup3 vs (fst fm), lookup3 dots (fst fm), lookup3 vsigns (fst fm) with
    | Some t, Some d, Some s => Some (FD (fst fm) t d s (snd fm))
    | _, _, _ => None
    end.
  (* vertices[faces], dots[faces], signs[faces]: None = an index is out of range (IndexError) *)
  Definition resolve (vs : list (vec3 F)) (dots : list F) (vsigns : list Z) (fs : list face) (mask : list bool)
    : option (list fdata) :=
    all_some (map (resolve1 vs dots vsigns) (zip fs mask)).

  Definition inside_mask (fds : list fdata) : list bool := map (fun d => inside (fd_s d) (fd_m d)) fds.
  Definition quad_mask (fds : list fdata) : list bool := map (fun d => is_quad (fd_s d) (fd_m d)) fds.
  Definition tri_mask (fds : list fdata) : list bool := map (fun d => is_tri (fd_s d) (fd_m d)) fds.

  (* new_quad_faces + quads_to_tris; base = index of this quad's first new vertex *)
  Definition quad_faces1 (base : nat) (d : fdata) : list face :=
    let k := col_of 1 (fd_s d) in
    let b := fget (fd_f d) ((k + 1) mod 3) in
    let c := fget (fd_f d) ((k + 2) mod 3) in
    [mkface b c base; mkface b base (S base)].
  Fixpoint quad_faces (base : nat) (qs : list fdata) : list face :=
    match qs with
    | [] => []
    | d :: r => quad_faces1 base d ++ quad_faces (S (S base)) r
    end.
  Definition quad_verts (eps : F) (qs : list fdata) : list (vec3 F) :=
    flat_map (fun d => quad_new eps (fd_d d) (fd_t d) (col_of 1 (fd_s d))) qs.

  Definition tri_faces1 (base : nat) (d : fdata) : list face :=
    [mkface (fget (fd_f d) (col_of (-1) (fd_s d))) base (S base)].
  Fixpoint tri_faces (base : nat) (ts : list fdata) : list face :=
    match ts with
    | [] => []
    | d :: r => tri_faces1 base d ++ tri_faces (S (S base)) r
    end.
  Definition tri_verts (eps : F) (ts : list fdata) : list (vec3 F) :=
    flat_map (fun d => tri_new eps (fd_d d) (fd_t d) (col_of (-1) (fd_s d))) ts.

  (* unique, inverse = unique_bincount(new_faces.ravel()); (new_vertices[unique], inverse.reshape((-1, 3))) *)
  Definition renumber (nvs : list (vec3 F)) (fs : list face) : list (vec3 F) * list face :=
    let vals := flat_faces fs in
    (take nvs (ub_unique vals), map (map_face (ub_rank vals)) fs).

  Definition slice_fds (eps : F) (vs : list (vec3 F)) (fds : list fdata) : mesh_out F :=
    let kept_idx := flatnonzero (inside_mask fds) in
    let kept := map fd_f (take fds kept_idx) in
    let quad_idx := flatnonzero (quad_mask fds) in
    let quads := take fds quad_idx in
    let tri_idx := flatnonzero (tri_mask fds) in
    let tris := take fds tri_idx in
    if (length quads + length tris =? 0)%nat then
      if (length kept =? 0)%nat then MkOut [] [] kept_idx
      else let r := renumber vs kept in MkOut (fst r) (snd r) kept_idx
    else
      let nv := length vs in
      let qf := quad_faces nv quads in
      let qv := quad_verts eps quads in
      let tf := tri_faces (nv + length qv) tris in
      let tv := tri_verts eps tris in
      let r := renumber (vs ++ qv ++ tv) (kept ++ qf ++ tf) in
      MkOut (fst r) (snd r) (kept_idx ++ repeat2 quad_idx ++ tri_idx).

  (* mask = ones, or zeros with mask[face_index] = True *)
  Definition mask_of (nf : nat) (face_index : option (list nat)) : result (list bool) :=
    match face_index with
    | None => Ok (repeat true nf)
    | Some idx =>
        if forallb (fun i => (i <? nf)%nat) idx
        then Ok (map (fun i => existsb (Nat.eqb i) idx) (seq 0 nf))
        else Raise IndexError
    end.

  (* slice_faces_plane.  The zero-vertex early return hands back its inputs (faces converted to the face dtype:
     fixes/C02-empty-int32-faces.diff) and arange(len(faces)) *)
  Definition slice_faces_plane (tol eps : F) (vs : list (vec3 F)) (fs : list face) (n o : vec3 F)
             (face_index : option (list nat)) : result (mesh_out F) :=
    if (length vs =? 0)%nat then Ok (MkOut vs fs (seq 0 (length fs)))
    else
      rbind (mask_of (length fs) face_index) (fun mask =>
        let dots := map (snapped_dot tol n o) vs in
        let vsigns := map (vsign tol) dots in
        match resolve vs dots vsigns fs mask with
        | None => Raise IndexError
        | Some fds => Ok (slice_fds eps vs fds)
        end).

  (* the public wrapper: faces_to_slice.nonzero()[0]; the dtype assertions hold on every path of the model
     (vertices are the float64 input rows or float64 arithmetic on them, index arrays are int64) *)
  Definition slice_triangles_by_plane (vs : list (vec3 F)) (fs : list face) (ref n : vec3 F)
             (faces_to_slice : option (list bool)) : result (mesh_out F) :=
    slice_faces_plane merge_tol patch_eps vs fs n ref (option_map flatnonzero faces_to_slice).

  (* coordinate triangles of an indexed mesh (None where an index is out of range) *)
  Definition mesh_tris (vs : list (vec3 F)) (fs : list face) : list (option (tri F)) := map (lookup3 vs) fs.
End Slicing.

(* ---- face arrays with negative (wrapping) entries ------------------------------------------------------------------
   NumPy accepts an index i with -k <= i < 0 for k vertices and reads vertex k + i.  slice_faces_plane reads coordinates and
   signs through such entries, but it copies the RAW entries into the faces it hands to unique_bincount, and np.bincount
   raises ValueError on a negative value.  So a wrapping entry is harmless exactly as long as it does not survive into an
   output face: all three entries of a kept face survive, entries k+1 and k+2 of a quad face, entry k of a cut triangle. *)
Definition zface := (Z * Z * Z)%type.
Definition mkzface (a b c : Z) : zface := (a, b, c).
Definition zget (f : zface) (k : nat) : Z :=
  match k with 0%nat => fst (fst f) | 1%nat => snd (fst f) | _ => snd f end.
Definition znonneg (f : zface) : bool := ((0 <=? zget f 0) && (0 <=? zget f 1) && (0 <=? zget f 2))%Z.
Definition zface_to_nat (f : zface) : face := mkface (Z.to_nat (zget f 0)) (Z.to_nat (zget f 1)) (Z.to_nat (zget f 2)).
Definition norm_face (nv : nat) (f : zface) : option face :=
  match python_index nv (zget f 0), python_index nv (zget f 1), python_index nv (zget f 2) with
  | Some a, Some b, Some c => Some (mkface a b c)
  | _, _, _ => None
  end.
Definition neg_survives (f : zface) (s : sgn3) (m : bool) : bool :=
  match face_case s m with
  | Keep => negb (znonneg f)
  | Drop => false
  | CQuad k => ((zget f ((k + 1) mod 3) <? 0) || (zget f ((k + 2) mod 3) <? 0))%Z
  | CTri k => (zget f k <? 0)%Z
  end.

Section SlicingZ.
  Context {F : Type} (O : NumOps F).

  Definition slice_faces_plane_z (tol eps : F) (vs : list (vec3 F)) (fsz : list zface) (n o : vec3 F)
             (face_index : option (list nat)) : result (mesh_out F) :=
    if (length vs =? 0)%nat then
      (* inputs handed back; a face array with negative entries and no vertices is not modelled (never a mesh) *)
      if forallb znonneg fsz then Ok (MkOut vs (map zface_to_nat fsz) (seq 0 (length fsz))) else Raise OtherError
    else
      match all_some (map (norm_face (length vs)) fsz) with
      | None => Raise IndexError
      | Some fsn =>
          rbind (mask_of (length fsn) face_index) (fun mask =>
            let dots := map (snapped_dot O tol n o) vs in
            let vsigns := map (vsign O tol) dots in
            match resolve vs dots vsigns fsn mask with
            | None => Raise IndexError
            | Some fds =>
                if existsb (fun p => neg_survives (fst p) (fd_s (snd p)) (fd_m (snd p))) (zip fsz fds)
                then Raise ValueError
                else Ok (slice_fds O eps vs fds)
            end)
      end.

  Definition slice_triangles_by_plane_z (vs : list (vec3 F)) (fsz : list zface) (ref n : vec3 F)
             (faces_to_slice : option (list bool)) : result (mesh_out F) :=
    slice_faces_plane_z (merge_tol O) (patch_eps O) vs fsz n ref (option_map flatnonzero faces_to_slice).
End SlicingZ.

(* ---- dtypes of the returned arrays ------------------------------------------------------------------------------------
   Which return statement of slice_faces_plane is taken decides the dtypes: the zero-vertex return hands back the vertex
   array it was given and faces.astype(FACE_DTYPE); the nothing-kept return builds float64 / int64 zeros; the nothing-cut
   return indexes the vertex array it was given (vertices[unique]: same dtype); the cut path appends float64 crossing points
   (np.append promotes to float64).  Index arrays (inverse, nonzero, arange, repeat) are int64 on every path.  The public
   wrapper first converts the vertices (np.asarray(vertices, dtype=np.float64), fixes/C02-vertex-dtype.diff) and finally asserts
   float64 / int64 / int64. *)
Inductive vdtype := VF64 | VF32 | VF16 | VInt.
(* integer dtypes a face array may come in; every index array that is returned is int64 *)
Inductive idtype := I64 | I32 | I16 | I8 | U8 | U32 | U64.
Definition signed_dtype (d : idtype) : bool := match d with U8 | U32 | U64 => false | _ => true end.
Record out_dtypes := MkDt { dt_v : vdtype; dt_f : idtype; dt_map : idtype }.
Inductive spath := PZeroVerts | PEmpty | PKeptOnly | PCut.

Definition kernel_dtypes (vdt : vdtype) (p : spath) : out_dtypes :=
  match p with
  | PZeroVerts => MkDt vdt I64 I64
  | PEmpty => MkDt VF64 I64 I64
  | PKeptOnly => MkDt vdt I64 I64
  | PCut => MkDt VF64 I64 I64
  end.
(* unique_bincount refuses an array whose dtype kind is not "i" (ValueError "input must be 1D integers!"): the nothing-cut return
   hands it faces[inside] in the dtype it was given; the cut path hands it np.append(faces[inside], <int64 faces>), which is int64
   except for uint64 input (promoted to float64); the other two returns do not renumber *)
Definition kernel_faces_ok (fdt : idtype) (p : spath) : bool :=
  match p with
  | PZeroVerts | PEmpty => true
  | PKeptOnly => signed_dtype fdt
  | PCut => match fdt with U64 => false | _ => true end
  end.
(* the wrapper: np.asarray(vertices, float64) and np.asarray(faces, FACE_DTYPE) on the way in (convert_v / convert_f = true: the
   code with fixes/C02-vertex-dtype.diff = /repo 1119c57 and fixes/C02-unsigned-faces.diff; false: the code before them), the
   three dtype assertions on the way out *)
Definition wrapper_dtypes (convert_v convert_f : bool) (vdt_given : vdtype) (fdt_given : idtype) (p : spath) : result out_dtypes :=
  if negb (kernel_faces_ok (if convert_f then I64 else fdt_given) p) then Raise ValueError else
  let d := kernel_dtypes (if convert_v then VF64 else vdt_given) p in
  match dt_v d, dt_f d, dt_map d with
  | VF64, I64, I64 => Ok d
  | _, _, _ => Raise AssertionError
  end.

Section SlicingDtypes.
  Context {F : Type} (O : NumOps F).

  Definition fds_path (fds : list (@fdata F)) : spath :=
    let kept := map (@fd_f F) (take fds (flatnonzero (inside_mask fds))) in
    let quads := take fds (flatnonzero (quad_mask fds)) in
    let tris := take fds (flatnonzero (tri_mask fds)) in
    if (length quads + length tris =? 0)%nat then (if (length kept =? 0)%nat then PEmpty else PKeptOnly) else PCut.

  (* the return path of slice_faces_plane, same control flow (and exceptions) as the value model *)
  Definition slice_faces_plane_path (tol : F) (vs : list (vec3 F)) (fs : list face) (n o : vec3 F)
             (face_index : option (list nat)) : result spath :=
    if (length vs =? 0)%nat then Ok PZeroVerts
    else
      rbind (mask_of (length fs) face_index) (fun mask =>
        let dots := map (snapped_dot O tol n o) vs in
        let vsigns := map (vsign O tol) dots in
        match resolve vs dots vsigns fs mask with
        | None => Raise IndexError
        | Some fds => Ok (fds_path fds)
        end).

  Definition slice_triangles_by_plane_dtypes (vdt_given : vdtype) (fdt_given : idtype) (vs : list (vec3 F)) (fs : list face) (ref n : vec3 F)
             (faces_to_slice : option (list bool)) : result out_dtypes :=
    rbind (slice_faces_plane_path (merge_tol O) vs fs n ref (option_map flatnonzero faces_to_slice)) (wrapper_dtypes true true vdt_given fdt_given).
End SlicingDtypes.
