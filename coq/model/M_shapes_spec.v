(* Specification vocabulary of C16 (over the reals): what the statements of props/C16.v are phrased in.
   Definitions only; nothing here is used by the executable model. *)
From Coq Require Import ZArith Reals List Bool.
From PW Require Import Num NumR Vec Result.
From PW.model Require Import M_shapes.
Import ListNotations.
Local Open Scope R_scope.

(* the eight vertices are exactly the corners origin + (0|sx, 0|sy, 0|sz) *)
Definition corner (o s : vec3 R) (bx by_ bz : bool) : vec3 R :=
  V3 (vx o + (if bx then vx s else 0)) (vy o + (if by_ then vy s else 0)) (vz o + (if bz then vz s else 0)).

(* every face normal points away from the centre of the box: (b-a)x(c-a) . (a - centre) > 0 *)
Definition outward_from (ctr : vec3 R) (t : vec3 R * vec3 R * vec3 R) : Prop :=
  let '(a, b, c) := t in 0 < vdot ROps (vcross ROps (vsub ROps b a) (vsub ROps c a)) (vsub ROps a ctr).

Definition noncollinear (p1 p2 p3 : vec3 R) : Prop := tri_cross ROps p1 p2 p3 <> V3 0 0 0.

(* area of the base triangle *)
Definition base_area (p1 p2 p3 : vec3 R) : R := vnorm ROps (tri_cross ROps p1 p2 p3) / 2.

Definition perimeter (p1 p2 p3 : vec3 R) : R := vdist ROps p2 p1 + vdist ROps p3 p2 + vdist ROps p1 p3.

(* outward orientation of the triangular prism: every face normal points away from the centroid      *)
Definition tri_prism_centre (p1 p2 p3 off : vec3 R) : vec3 R :=
  vadd ROps (vscale ROps (1 / 3) (vadd ROps (vadd ROps p1 p2) p3)) (vscale ROps (1 / 2) off).

Definition is_some {A} (o : option A) : bool := match o with Some _ => true | None => false end.
