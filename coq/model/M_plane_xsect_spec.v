(* Specification vocabulary for C14 (real numbers), used by the statements in props/C14.v; none of this models code.
   Definitions only. *)
From Coq Require Import ZArith Reals List Bool.
From PW Require Import Num NumR Vec NpList.
From PW.model Require Import M_plane M_polyline_base M_plane_xsect.
Import ListNotations.
Local Open Scope R_scope.

Notation sd := (plane_sd ROps).

(* the point a + t (b - a) of the segment / line through a and b *)
Definition seg_at (a b : vec3 R) (t : R) : vec3 R := vadd ROps a (vscale ROps t (vsub ROps b a)).
(* the point pt + s ray of a line *)
Definition line_at (pt ray : vec3 R) (s : R) : vec3 R := vadd ROps pt (vscale ROps s ray).
(* where the segment a b meets the plane when the distances of its ends differ *)
Definition crossing (pl : plane R) (a b : vec3 R) : vec3 R := seg_at a b (sd pl a / (sd pl a - sd pl b)).
Definition is_some {A} (o : option A) : bool := match o with Some _ => true | None => false end.


Definition row2 {A B} (f : vec3 R -> vec3 R -> A) (g : A -> B) (x y : option (vec3 R)) : option B :=
  match x, y with Some p, Some r => Some (g (f p r)) | _, _ => None end.


(* ---- Polyline.intersect_plane: every length ----------------------------------------------------------
   What running Plane.line_segment_xsection on every edge, in order, and keeping the hits would report. *)
Definition cons_xhit (pl : plane R) (i : nat) (ab : vec3 R * vec3 R) (rest : list (nat * option (vec3 R))) :=
  match line_segment_xsection ROps pl (fst ab) (snd ab) with Some p => (i, Some p) :: rest | None => rest end.
Fixpoint edgewise_from (pl : plane R) (i : nat) (segs : list (vec3 R * vec3 R)) : list (nat * option (vec3 R)) :=
  match segs with [] => [] | ab :: r => cons_xhit pl i ab (edgewise_from pl (S i) r) end.

Definition off_plane (pl : plane R) (v : vec3 R) : Prop := sd pl v <> 0.


(* the crossing points of the edges whose ends are strictly on opposite sides, with their edge indices, in order *)
Definition cons_crossing (pl : plane R) (i : nat) (ab : vec3 R * vec3 R) (rest : list (nat * option (vec3 R))) :=
  if Rltb (sd pl (fst ab) * sd pl (snd ab)) 0 then (i, Some (crossing pl (fst ab) (snd ab))) :: rest else rest.
Fixpoint crossings_from (pl : plane R) (i : nat) (segs : list (vec3 R * vec3 R)) : list (nat * option (vec3 R)) :=
  match segs with [] => [] | ab :: r => cons_crossing pl i ab (crossings_from pl (S i) r) end.

Definition seg_poly (a b : vec3 R) : polyline R := MkPolyline [a; b] false.

