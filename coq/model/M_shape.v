(* Model of the shape checking layer used at the top of polliwog's public callables (property C20):
   vg.shape.check / check_value (site-packages/vg/shape.py) and polliwog/_common/shape.py
   (columnize, check_shape_any).  Definitions only; everything computes under vm_compute.

   A NumPy shape is a `list nat`.  What a check sees of an argument is an `argv`:
     ANone        the Python value None
     ANumber      a builtin Python number (no .shape, no .ndim)
     AArr s       an ndarray of shape s
     ASeq ss      a Python tuple/list of ndarrays (only `*transforms` of compose_transforms)
   A pattern is the shape tuple written in the source; a dimension is an int literal, the wildcard -1,
   a name bound by an earlier check (`k = vg.shape.check(...)`; also `self.num_e`, supplied through the
   initial bindings), or the expression `-1 if k is None else k`.
   The exception classes are the ones the code really raises (ValueError for every shape mismatch;
   AttributeError where the code touches `.shape` / `.ndim` of something that is not an array). *)
From Coq Require Import List Bool Arith String.
From PW Require Import Result.
Import ListNotations.

Definition shape := list nat.
Inductive dim := DInt (n : nat) | DAny | DVar (x : string) | DVarOrAny (x : string).
Definition pattern := list dim.
Inductive argv := ANone | ANumber | AArr (s : shape) | ASeq (ss : list shape).
Definition aenv := string -> argv.
(* bindings made by earlier checks: name |-> Some n (an int) or None (Python None: the matched pattern had
   no wildcard); most recent first *)
Definition benv := list (string * option nat).

Fixpoint lookup (b : benv) (x : string) : option nat :=
  match b with
  | [] => None
  | (y, v) :: r => if String.eqb x y then v else lookup r x
  end.

Definition bind (b : benv) (x : option string) (v : option nat) : benv :=
  match x with Some x => (x, v) :: b | None => b end.

(* one dimension: `actual != expected` for non-wildcards.  A DVar whose value is None is not an int and not
   -1: vg raises ValueError("Expected shape dimensions to be int"), i.e. nothing matches. *)
Definition match_dim (b : benv) (d : dim) (n : nat) : bool :=
  match d with
  | DInt m => Nat.eqb n m
  | DAny => true
  | DVar x => match lookup b x with Some m => Nat.eqb n m | None => false end
  | DVarOrAny x => match lookup b x with Some m => Nat.eqb n m | None => true end
  end.

Fixpoint match_pattern (b : benv) (p : pattern) (s : shape) : bool :=
  match p, s with
  | [], [] => true
  | d :: p', n :: s' => match_dim b d n && match_pattern b p' s'
  | _, _ => false
  end.

Definition is_wild (b : benv) (d : dim) : bool :=
  match d with
  | DAny => true
  | DVarOrAny x => match lookup b x with None => true | Some _ => false end
  | _ => false
  end.

Fixpoint wild_dims (b : benv) (p : pattern) (s : shape) : list nat :=
  match p, s with
  | d :: p', n :: s' => if is_wild b d then n :: wild_dims b p' s' else wild_dims b p' s'
  | _, _ => []
  end.

(* return value of check_value: the wildcard dimension if there is exactly one, None if there is none.
   (Two or more give a tuple; the extractor refuses to bind such a result, so the model never uses it.) *)
Definition wild_value (b : benv) (p : pattern) (s : shape) : option nat :=
  match wild_dims b p s with [n] => Some n | _ => None end.

Fixpoint first_match (b : benv) (ps : list pattern) (s : shape) : option pattern :=
  match ps with
  | [] => None
  | p :: r => if match_pattern b p s then Some p else first_match b r s
  end.

Fixpoint shape_eqb (s t : shape) : bool :=
  match s, t with
  | [], [] => true
  | n :: s', m :: t' => Nat.eqb n m && shape_eqb s' t'
  | _, _ => false
  end.

Inductive check :=
| Check (a : string) (p : pattern) (bd : option string)           (* vg.shape.check / check_value *)
| CheckAny (a : string) (ps : list pattern) (bd : option string)   (* polliwog check_shape_any *)
| Columnize (a : string) (p : pattern)                             (* polliwog columnize *)
| CheckFlat (a : string) (p : pattern)                             (* a = a.flatten(); vg.shape.check_value(a, p) *)
| CheckSame (a other : string)                                     (* vg.shape.check(locals(), a, other.shape) *)
| CheckEach (a : string) (p : pattern)                             (* for x in a: vg.shape.check(locals(), "x", p) *)
| NeedsShape (a : string)                                          (* evaluation of `a.shape` outside a check *)
| IfPresent (a : string) (c : check).                              (* if a is not None: c *)

Definition vraise : result benv := Raise ValueError.

(* failure of check_shape_any: its message is built from shapes[-2], so with EXACTLY ONE shape every failure is an
   IndexError ("tuple index out of range") instead of the intended exception (no caller in polliwog passes one shape) *)
Definition any_fail (ps : list pattern) (e : exn) : result benv :=
  match ps with [_] => Raise IndexError | _ => Raise e end.

Definition size_of (s : shape) : nat := fold_right Nat.mul 1%nat s.

Definition columnize_pattern (p : pattern) (s : shape) : pattern :=
  if Nat.eqb (List.length s) (List.length p) then p else tl p.

Fixpoint run_check (c : check) (args : aenv) (b : benv) : result benv :=
  match c with
  | Check a p bd =>
      match args a with
      | AArr s => if match_pattern b p s then Ok (bind b bd (wild_value b p s)) else vraise
      | _ => vraise                       (* "got None" / "got float": ValueError *)
      end
  | CheckAny a ps bd =>
      match ps with
      | [] => vraise                      (* "At least one shape is required" *)
      | _ =>
        match args a with
        | AArr s => match first_match b ps s with
                    | Some p => Ok (bind b bd (wild_value b p s))
                    | None => any_fail ps ValueError
                    end
        | ANone => any_fail ps ValueError
        | _ => any_fail ps AttributeError   (* the error message is built from arr.shape *)
        end
      end
  | Columnize a p =>
      match p with
      | [_] =>
          match args a with
          | ANumber => Ok b
          | AArr s => if match_pattern b p s then Ok b else vraise
          | _ => vraise
          end
      | _ =>
          match args a with
          | AArr s => if match_pattern b (columnize_pattern p s) s then Ok b else vraise
          | _ => Raise AttributeError     (* arr.ndim *)
          end
      end
  | CheckFlat a p =>
      match args a with
      | AArr s => if match_pattern b p [size_of s] then Ok b else vraise
      | ANumber => if match_pattern b p [1%nat] then Ok b else vraise   (* np.array(5.0).flatten() has shape (1,) *)
      | _ => vraise                       (* np.array(None).flatten() is an object array of shape (1,): modelled as rejected *)
      end
  | CheckSame a other =>
      match args other with
      | AArr so =>
          match args a with
          | AArr s => if shape_eqb s so then Ok b else vraise
          | _ => vraise
          end
      | _ => Raise AttributeError         (* other.shape *)
      end
  | CheckEach a p =>
      match args a with
      | ASeq ss => if forallb (match_pattern b p) ss then Ok b else vraise
      | AArr (n :: s') => if Nat.eqb n 0 || match_pattern b p s' then Ok b else vraise
      | _ => Raise TypeError              (* not iterable *)
      end
  | NeedsShape a =>
      match args a with AArr _ => Ok b | _ => Raise AttributeError end
  | IfPresent a c' =>
      match args a with ANone => Ok b | _ => run_check c' args b end
  end.

Fixpoint run_contract_from (cs : list check) (args : aenv) (b : benv) : result benv :=
  match cs with
  | [] => Ok b
  | c :: r => rbind (run_check c args b) (fun b' => run_contract_from r args b')
  end.

Definition run_contract (cs : list check) (args : aenv) : result benv := run_contract_from cs args [].

Definition accepts (cs : list check) (args : aenv) (b : benv) : bool :=
  match run_contract_from cs args b with Ok _ => true | Raise _ => false end.

(* ---- the declarative reading of a check: "the argument matches one of its patterns under the bindings
        accumulated so far" ---------------------------------------------------------------------------- *)
Definition patterns_of (c : check) (args : aenv) : option (string * list pattern) :=
  match c with
  | Check a p _ => Some (a, [p])
  | CheckAny a ps _ => Some (a, ps)
  | Columnize a p => Some (a, match p with [_] => [p] | _ => [p; tl p] end)
  | CheckSame a other => match args other with AArr so => Some (a, [map DInt so]) | _ => None end
  | _ => None
  end.

(* argument names a check inspects *)
Fixpoint check_arg (c : check) : string :=
  match c with
  | Check a _ _ | CheckAny a _ _ | Columnize a _ | CheckFlat a _ | CheckSame a _ | CheckEach a _ | NeedsShape a => a
  | IfPresent _ c' => check_arg c'
  end.

(* does this check constrain the shape of its argument (NeedsShape does not) *)
Fixpoint constrains (c : check) : bool :=
  match c with
  | NeedsShape _ => false
  | IfPresent _ c' => constrains c'
  | _ => true
  end.

Definition checked_args (cs : list check) : list string :=
  map check_arg (filter constrains cs).

(* ---- boolean equality of contracts (diagnostics for the golden-contract tie) --------------------------- *)
Definition dim_eqb (x y : dim) : bool :=
  match x, y with
  | DInt n, DInt m => Nat.eqb n m
  | DAny, DAny => true
  | DVar a, DVar b => String.eqb a b
  | DVarOrAny a, DVarOrAny b => String.eqb a b
  | _, _ => false
  end.
Fixpoint list_eqb {A} (f : A -> A -> bool) (l m : list A) : bool :=
  match l, m with
  | [], [] => true
  | x :: l', y :: m' => f x y && list_eqb f l' m'
  | _, _ => false
  end.
Definition pattern_eqb := list_eqb dim_eqb.
Definition ostring_eqb (x y : option string) : bool :=
  match x, y with Some a, Some b => String.eqb a b | None, None => true | _, _ => false end.
Fixpoint check_eqb (x y : check) : bool :=
  match x, y with
  | Check a p bd, Check a' p' bd' => String.eqb a a' && pattern_eqb p p' && ostring_eqb bd bd'
  | CheckAny a ps bd, CheckAny a' ps' bd' => String.eqb a a' && list_eqb pattern_eqb ps ps' && ostring_eqb bd bd'
  | Columnize a p, Columnize a' p' => String.eqb a a' && pattern_eqb p p'
  | CheckFlat a p, CheckFlat a' p' => String.eqb a a' && pattern_eqb p p'
  | CheckSame a o, CheckSame a' o' => String.eqb a a' && String.eqb o o'
  | CheckEach a p, CheckEach a' p' => String.eqb a a' && pattern_eqb p p'
  | NeedsShape a, NeedsShape a' => String.eqb a a'
  | IfPresent a c, IfPresent a' c' => String.eqb a a' && check_eqb c c'
  | _, _ => false
  end.
Definition contract_eqb := list_eqb check_eqb.

(* ---- named contracts, argument environments from association lists, delegation ---------------------- *)
Definition contracts := list (string * list check).

Fixpoint assoc {A} (l : list (string * A)) (x : string) : option A :=
  match l with
  | [] => None
  | (y, v) :: r => if String.eqb x y then Some v else assoc r x
  end.

Definition contract_of (cs : contracts) (name : string) : list check :=
  match assoc cs name with Some c => c | None => [] end.

(* arguments not listed are None (a probe lists every parameter it passes) *)
Definition env_of (l : list (string * argv)) : aenv :=
  fun x => match assoc l x with Some v => v | None => ANone end.

(* A callable that hands (some of) its arguments to another callable which checks them.
   `wiring` says what the callee's parameters are: a parameter of the caller, or a value the caller
   constructs itself (e.g. self.equation, of shape (4,)). *)
Inductive source := FromArg (x : string) | Const (v : argv).
Record delegate := MkDelegate { callee : string; wiring : list (string * source) }.

Definition wire (w : list (string * source)) (args : aenv) : aenv :=
  fun x => match assoc w x with
           | Some (FromArg y) => args y
           | Some (Const v) => v
           | None => ANone
           end.

Fixpoint run_delegates (cs : contracts) (ds : list delegate) (args : aenv) : result unit :=
  match ds with
  | [] => Ok tt
  | d :: r =>
      match run_contract (contract_of cs (callee d)) (wire (wiring d) args) with
      | Ok _ => run_delegates cs r args
      | Raise e => Raise e
      end
  end.

(* own checks first (they are at the top of the body), then the callees' in call order *)
Definition run_effective (cs : contracts) (name : string) (b0 : benv) (ds : list delegate) (args : aenv)
  : result unit :=
  match run_contract_from (contract_of cs name) args b0 with
  | Ok _ => run_delegates cs ds args
  | Raise e => Raise e
  end.

(* ---- documented forms (the SPECIFICATION side: hand-written from the docstrings in tools/api_registry.py) ------ *)
(* a documented dimension is an int or a length symbol shared between arguments ("k"); minimum sizes such as
   "at least one point" are value checks, not shape checks, and are not part of a form *)
Inductive fdim := FInt (n : nat) | FSym (x : string).
Inductive fshape := FNone | FNumber | FArr (ds : list fdim).
Definition form := list (string * fshape).

Fixpoint match_fdims (env : benv) (ds : list fdim) (s : shape) : option benv :=
  match ds, s with
  | [], [] => Some env
  | FInt m :: ds', n :: s' => if Nat.eqb n m then match_fdims env ds' s' else None
  | FSym x :: ds', n :: s' =>
      match lookup env x with
      | Some m => if Nat.eqb n m then match_fdims env ds' s' else None
      | None => match_fdims ((x, Some n) :: env) ds' s'
      end
  | _, _ => None
  end.

Definition match_fshape (env : benv) (f : fshape) (v : argv) : option benv :=
  match f, v with
  | FNone, ANone => Some env
  | FNumber, ANumber => Some env
  | FArr ds, AArr s => match_fdims env ds s
  | _, _ => None
  end.

Fixpoint match_form (env : benv) (f : form) (args : aenv) : bool :=
  match f with
  | [] => true
  | (a, fs) :: r => match match_fshape env fs (args a) with Some env' => match_form env' r args | None => false end
  end.

Definition in_forms (b0 : benv) (fs : list form) (args : aenv) : bool := existsb (fun f => match_form b0 f args) fs.

Definition accepts_effective (cs : contracts) (deleg : list (string * list delegate)) (b0 : benv) (name : string)
  (args : aenv) : bool :=
  match run_effective cs name b0 (match assoc deleg name with Some ds => ds | None => [] end) args with
  | Ok _ => true
  | Raise _ => false
  end.

(* the finite universe over which "accepts exactly the documented forms" is decided by computation: every argument
   ranges over None, a Python number and the listed array shapes (fewer for callables with many arguments) *)
Definition shapes_large : list shape :=
  [[]; [1]; [2]; [3]; [4]; [0; 3]; [1; 3]; [2; 3]; [3; 3]; [2; 4]; [3; 4]; [2; 2]; [4; 4]; [3; 1]; [6]; [1; 1; 3];
   [2; 3; 3]; [3; 3; 3]; [2; 2; 3]; [1; 3; 3]; [2; 3; 1]; [1; 2; 3]].
Definition shapes_medium : list shape := [[]; [3]; [4]; [2]; [1; 3]; [2; 3]; [3; 3]; [2; 4]; [3; 1]; [2; 3; 3]].
Definition shapes_small : list shape := [[]; [3]; [2]; [2; 3]; [3; 3]; [4; 3]; [2; 3; 1]].
Definition universe (arity : nat) : list argv :=
  ANone :: ANumber :: map AArr (if Nat.leb arity 3 then shapes_large else if Nat.leb arity 4 then shapes_medium else shapes_small).

Fixpoint tuples (names : list string) (u : list argv) : list (list (string * argv)) :=
  match names with
  | [] => [[]]
  | a :: r => flat_map (fun t => map (fun v => (a, v) :: t) u) (tuples r u)
  end.

(* the same acceptance with the table lookups done once (what forms_agree evaluates) *)
Definition resolved := (list check * list (list check * list (string * source)))%type.
Definition resolve (cs : contracts) (deleg : list (string * list delegate)) (name : string) : resolved :=
  (contract_of cs name,
   map (fun d => (contract_of cs (callee d), wiring d)) (match assoc deleg name with Some ds => ds | None => [] end)).
Fixpoint accepts_delegates (ds : list (list check * list (string * source))) (args : aenv) : bool :=
  match ds with
  | [] => true
  | (c, w) :: r => match run_contract c (wire w args) with Ok _ => accepts_delegates r args | Raise _ => false end
  end.
Definition accepts_resolved (r : resolved) (b0 : benv) (args : aenv) : bool :=
  match run_contract_from (fst r) args b0 with Ok _ => accepts_delegates (snd r) args | Raise _ => false end.

Definition forms_agree (cs : contracts) (deleg : list (string * list delegate)) (b0 : benv) (name : string)
  (names : list string) (fs : list form) : bool :=
  let r := resolve cs deleg name in
  forallb (fun t => Bool.eqb (accepts_resolved r b0 (env_of t)) (in_forms b0 fs (env_of t)))
          (tuples names (universe (List.length names))).

(* ==== specification vocabulary used by the statements in props/C20.v (declarative readings; the proofs that the
   executable interpreter above agrees with them are in proofs/P_shape.v) ============================================ *)
Definition dim_ok (b : benv) (d : dim) (n : nat) : Prop :=
  match d with
  | DInt m => n = m
  | DAny => True
  | DVar x => lookup b x = Some n
  | DVarOrAny x => lookup b x = Some n \/ lookup b x = None
  end.


(* "argument a is an array whose shape matches one of the patterns ps under bindings b" *)
Definition matches_one_of (b : benv) (args : aenv) (a : string) (ps : list pattern) : Prop :=
  exists s, args a = AArr s /\ exists p, In p ps /\ match_pattern b p s = true.

Fixpoint check_holds (c : check) (args : aenv) (b : benv) : Prop :=
  match c with
  | Check a p _ => matches_one_of b args a [p]
  | CheckAny a ps _ => matches_one_of b args a ps
  | Columnize a p =>
      match p with
      | [_] => args a = ANumber \/ matches_one_of b args a [p]
      | _ => exists s, args a = AArr s /\ match_pattern b (columnize_pattern p s) s = true
      end
  | CheckFlat a p =>
      (exists s, args a = AArr s /\ match_pattern b p [size_of s] = true) \/
      (args a = ANumber /\ match_pattern b p [1%nat] = true)
  | CheckSame a other => exists s, args other = AArr s /\ args a = AArr s
  | CheckEach a p =>
      (exists ss, args a = ASeq ss /\ forall s, In s ss -> match_pattern b p s = true) \/
      (exists n s, args a = AArr (n :: s) /\ (n = 0%nat \/ match_pattern b p s = true))
  | NeedsShape a => exists s, args a = AArr s
  | IfPresent a c' => args a = ANone \/ check_holds c' args b
  end.

(* the bindings after a successful check *)
Fixpoint bindings_after (c : check) (args : aenv) (b : benv) : benv :=
  match c with
  | Check a p bd =>
      match args a with AArr s => bind b bd (wild_value b p s) | _ => b end
  | CheckAny a ps bd =>
      match args a with
      | AArr s => match first_match b ps s with Some p => bind b bd (wild_value b p s) | None => b end
      | _ => b
      end
  | IfPresent a c' => match args a with ANone => b | _ => bindings_after c' args b end
  | _ => b
  end.


Fixpoint contract_holds (cs : list check) (args : aenv) (b : benv) : Prop :=
  match cs with
  | [] => True
  | c :: r => check_holds c args b /\ contract_holds r args (bindings_after c args b)
  end.

Fixpoint final_bindings (cs : list check) (args : aenv) (b : benv) : benv :=
  match cs with
  | [] => b
  | c :: r => final_bindings r args (bindings_after c args b)
  end.


Definition is_arr (v : argv) : bool := match v with AArr _ => true | _ => false end.
Fixpoint kind_ok (args : aenv) (c : check) : bool :=
  match c with
  | Check _ _ _ => true
  | CheckAny a ps _ => match ps with
                       | [] => true
                       | [_] => false     (* a one-shape check_shape_any fails with IndexError: outside this lemma *)
                       | _ => match args a with AArr _ | ANone => true | _ => false end
                       end
  | Columnize a p => match p with [_] => true | _ => is_arr (args a) end
  | CheckFlat _ _ => true
  | CheckSame _ other => is_arr (args other)
  | CheckEach a _ => match args a with ASeq _ | AArr (_ :: _) => true | _ => false end
  | NeedsShape a => is_arr (args a)
  | IfPresent a c' => match args a with ANone => true | _ => kind_ok args c' end
  end.


Definition mem (x : string) (l : list string) : bool := existsb (String.eqb x) l.

(* every documented array argument of `name` is constrained by a check of its effective contract *)
Definition covered (cs : contracts) (deleg : list (string * list delegate)) (name : string) (arg : string) : bool :=
  mem arg (checked_args (contract_of cs name)) ||
  existsb (fun d : delegate =>
             existsb (fun w : string * source =>
                        match snd w with
                        | FromArg y => String.eqb y arg && mem (fst w) (checked_args (contract_of cs (callee d)))
                        | Const _ => false
                        end) (wiring d))
          (match assoc deleg name with Some ds => ds | None => [] end).


(* ==== canonical documented forms and the symbolic reading of a contract (all-shapes strictness) ====================
   A canonical form says, per argument, None / a Python number / an array whose every dimension is a literal, an
   external length (self.num_e) or EQUAL TO THE DIMENSION AT A NAMED POSITION (argument, axis) -- the first occurrence
   of its length symbol.  The semantics is declarative: no order, no unification. *)
Inductive cdim := CInt (n : nat) | CRef (a : string) (i : nat) | CExt (x : string).
Inductive cshape := CNone | CNumber | CArr (ds : list cdim).
Definition cform := list (string * cshape).

Definition dim_of (args : aenv) (a : string) (i : nat) : option nat :=
  match args a with AArr s => nth_error s i | _ => None end.
Definition cdim_val (b0 : benv) (args : aenv) (d : cdim) : option nat :=
  match d with CInt n => Some n | CRef a i => dim_of args a i | CExt x => lookup b0 x end.
Definition cdim_ok (b0 : benv) (args : aenv) (d : cdim) (n : nat) : bool :=
  match cdim_val b0 args d with Some m => Nat.eqb n m | None => false end.
Fixpoint all2b {A B} (f : A -> B -> bool) (l : list A) (m : list B) : bool :=
  match l, m with [], [] => true | x :: l', y :: m' => f x y && all2b f l' m' | _, _ => false end.
Definition cshape_ok (b0 : benv) (args : aenv) (cs : cshape) (v : argv) : bool :=
  match cs, v with
  | CNone, ANone => true
  | CNumber, ANumber => true
  | CArr ds, AArr s => all2b (cdim_ok b0 args) ds s
  | _, _ => false
  end.
Definition cform_ok (b0 : benv) (args : aenv) (f : cform) : bool :=
  forallb (fun p : string * cshape => cshape_ok b0 args (snd p) (args (fst p))) f.
Definition in_cforms (b0 : benv) (fs : list cform) (args : aenv) : bool := existsb (cform_ok b0 args) fs.

(* canonical form of a documented form: a length symbol becomes a reference to its first occurrence (or an external) *)
Fixpoint canon_dims (ext : list string) (seen : list (string * cdim)) (a : string) (i : nat) (ds : list fdim)
  : list cdim * list (string * cdim) :=
  match ds with
  | [] => ([], seen)
  | FInt n :: r => let '(out, seen') := canon_dims ext seen a (S i) r in (CInt n :: out, seen')
  | FSym x :: r =>
      if existsb (String.eqb x) ext then let '(out, seen') := canon_dims ext seen a (S i) r in (CExt x :: out, seen')
      else match assoc seen x with
           | Some c => let '(out, seen') := canon_dims ext seen a (S i) r in (c :: out, seen')
           | None => let '(out, seen') := canon_dims ext ((x, CRef a i) :: seen) a (S i) r in (CRef a i :: out, seen')
           end
  end.
Fixpoint canon_form (ext : list string) (seen : list (string * cdim)) (f : form) : cform :=
  match f with
  | [] => []
  | (a, FNone) :: r => (a, CNone) :: canon_form ext seen r
  | (a, FNumber) :: r => (a, CNumber) :: canon_form ext seen r
  | (a, FArr ds) :: r => let '(out, seen') := canon_dims ext seen a 0 ds in (a, CArr out) :: canon_form ext seen' r
  end.
Definition canon (ext : list string) (f : form) : cform := canon_form ext [] f.

(* symbolic execution of a contract: contract variables are bound to canonical dimensions *)
Definition senv := list (string * option cdim).
Fixpoint slookup (sg : senv) (x : string) : option cdim :=
  match sg with [] => None | (y, v) :: r => if String.eqb x y then v else slookup r x end.
Definition sym_dim (sg : senv) (a : string) (i : nat) (d : dim) : option cdim :=
  match d with
  | DInt n => Some (CInt n)
  | DAny => Some (CRef a i)
  | DVar x => slookup sg x
  | DVarOrAny x => match slookup sg x with Some c => Some c | None => Some (CRef a i) end
  end.
Fixpoint sym_pat (sg : senv) (a : string) (i : nat) (p : pattern) : option (list cdim) :=
  match p with
  | [] => Some []
  | d :: p' => match sym_dim sg a i d, sym_pat sg a (S i) p' with
               | Some c, Some r => Some (c :: r)
               | _, _ => None
               end
  end.
Definition swild (sg : senv) (d : dim) : bool :=
  match d with
  | DAny => true
  | DVarOrAny x => match slookup sg x with None => true | Some _ => false end
  | _ => false
  end.
Fixpoint wild_pos (sg : senv) (i : nat) (p : pattern) : list nat :=
  match p with
  | [] => []
  | d :: p' => if swild sg d then i :: wild_pos sg (S i) p' else wild_pos sg (S i) p'
  end.
Definition sbind (sg : senv) (bd : option string) (v : option cdim) : senv :=
  match bd with Some x => (x, v) :: sg | None => sg end.
Definition swild_value (sg : senv) (a : string) (p : pattern) : option cdim :=
  match wild_pos sg 0 p with [i] => Some (CRef a i) | _ => None end.
Definition sym_alt (sg : senv) (a : string) (p : pattern) (bd : option string) : list (cshape * senv) :=
  match sym_pat sg a 0 p with
  | Some ds => [(CArr ds, sbind sg bd (swild_value sg a p))]
  | None => []
  end.
Definition sym_check (c : check) (sg : senv) : list (cshape * senv) :=
  match c with
  | Check a p bd => sym_alt sg a p bd
  | CheckAny a ps bd => flat_map (fun p => sym_alt sg a p bd) ps
  | Columnize a p => match p with
                     | [_] => (CNumber, sg) :: sym_alt sg a p None
                     | _ => sym_alt sg a p None ++ sym_alt sg a (tl p) None
                     end
  | IfPresent a (Check a' p bd) => (CNone, sg) :: sym_alt sg a' p bd
  | _ => []
  end.
Fixpoint forms_of_contract (cs : list check) (sg : senv) : list cform :=
  match cs with
  | [] => [[]]
  | c :: r => flat_map (fun alt : cshape * senv => map (cons (check_arg c, fst alt)) (forms_of_contract r (snd alt)))
                       (sym_check c sg)
  end.

(* the normal form: Check / CheckAny with patterns of pairwise different rank / Columnize / IfPresent a (Check a ..) *)
Fixpoint distinct_nats (l : list nat) : bool :=
  match l with [] => true | n :: r => negb (existsb (Nat.eqb n) r) && distinct_nats r end.
Definition nf_ok (c : check) : bool :=
  match c with
  | Check _ _ _ => true
  | CheckAny _ ps _ => match ps with [] => false | _ => distinct_nats (map (@List.length dim) ps) end
  | Columnize _ p => match p with [] => false | _ => true end
  | IfPresent a (Check a' _ _) => String.eqb a a'
  | _ => false
  end.
Definition senv_of (b0 : benv) : senv := map (fun xv : string * option nat => (fst xv, Some (CExt (fst xv)))) b0.
