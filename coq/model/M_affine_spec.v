(* Spec vocabulary for C11 (builders, rotations, compose).
   Specification vocabulary (over the real-number instance) used by the statements in props/.  Definitions only:
   a statement in props/ can only change its meaning through props/ or model/. *)
From Coq Require Import ZArith Reals List Bool.
From PW Require Import Num NumR Vec Mat NpList Result.
From PW.model Require Import M_rodrigues M_affine M_rotation.
Import ListNotations.
Local Open Scope R_scope.

(* R R^T = I *)
Definition orthogonal3 (r : mat3 R) : Prop := m3mul ROps r (m3transpose r) = I3 ROps.

(* proper rotation: R R^T = I and det R = +1 *)
Definition proper3 (r : mat3 R) : Prop := orthogonal3 r /\ m3det ROps r = 1.

Definition collinear (a b : vec3 R) : Prop := vcross ROps a b = V3 0 0 0.

(* both products with the claimed inverse are the identity *)
Definition inverse_pair (f i : mat4 R) : Prop := mmul ROps i f = I4 ROps /\ mmul ROps f i = I4 ROps.

(* last row (0,0,0,1) *)
Definition last_row_0001 (m : mat4 R) : Prop := m30 m = 0 /\ m31 m = 0 /\ m32 m = 0 /\ m33 m = 1.

(* ---------------- scale ---------------- *)
Definition scale_fwd (x y z : R) : mat4 R := convert_33_to_44 ROps (M3 x 0 0 0 y 0 0 0 z).

Definition scale_accepted (x y z : R) (allow : bool) : Prop :=
  x <> 0 /\ y <> 0 /\ z <> 0 /\ (allow = true \/ (0 < x /\ 0 < y /\ 0 < z)).

(* the witness of C11_compose_projective_refuted *)
(* apply_transform drops w without dividing: with a projective matrix in front the sequential reading fails *)
Definition proj_witness_a : mat4 R := M4 1 0 0 0  0 1 0 0  0 0 1 0  1 0 0 1.

Definition proj_witness_b : mat4 R := M4 1 0 0 1  0 1 0 0  0 0 1 0  0 0 0 1.
