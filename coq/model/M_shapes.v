(* polliwog/shapes/_shapes.py (rectangular_prism, cube, triangular_prism), polliwog/tri/quad_faces.py (quads_to_tris),
   and the part of Plane.from_points they use.  Definitions only. *)
From Coq Require Import ZArith List Bool Arith.
From PW Require Import Num Vec Result.
Import ListNotations.

Definition face := (nat * nat * nat)%type.
Definition quad := (nat * nat * nat * nat)%type.

(* quads_to_tris: tris[0::2] = quads[:, [0,1,2]], tris[1::2] = quads[:, [0,2,3]] *)
Definition quad_to_tris (qd : quad) : list face :=
  let '(a, b, c, d) := qd in [(a, b, c); (a, c, d)].
Definition quads_to_tris (qs : list quad) : list face := flat_map quad_to_tris qs.

Definition rect_prism_quads : list quad :=
  [ (0, 1, 2, 3);   (* lower base (-y) *)
    (7, 6, 5, 4);   (* upper base (+y) *)
    (4, 5, 1, 0);   (* -z face *)
    (5, 6, 2, 1);   (* +x face *)
    (6, 7, 3, 2);   (* +z face *)
    (3, 7, 4, 0) ]%nat.  (* -x face *)
Definition rect_prism_faces : list face := quads_to_tris rect_prism_quads.

Definition tri_prism_faces : list face :=
  [ (0, 1, 2); (0, 3, 4); (0, 4, 1); (1, 4, 5); (1, 5, 2); (2, 5, 3); (2, 3, 0); (5, 4, 3) ]%nat.

(* ---- combinatorics of a face table (no numbers involved) ------------------------------------------- *)
Definition edge := (nat * nat)%type.
Definition face_edges (f : face) : list edge := let '(a, b, c) := f in [(a, b); (b, c); (c, a)].
Definition directed_edges (fs : list face) : list edge := flat_map face_edges fs.
Definition edge_eqb (e e' : edge) : bool := Nat.eqb (fst e) (fst e') && Nat.eqb (snd e) (snd e').
Definition count_edge (e : edge) (l : list edge) : nat := length (filter (edge_eqb e) l).
Definition rev_edge (e : edge) : edge := (snd e, fst e).
(* every directed edge occurs once, and its reverse occurs once: closed, consistently oriented 2-manifold *)
Definition closed_oriented (fs : list face) : bool :=
  let es := directed_edges fs in
  forallb (fun e => Nat.eqb (count_edge e es) 1 && Nat.eqb (count_edge (rev_edge e) es) 1) es.
Definition face_in_range (n : nat) (f : face) : bool :=
  let '(a, b, c) := f in Nat.ltb a n && Nat.ltb b n && Nat.ltb c n.
Definition face_proper (f : face) : bool :=
  let '(a, b, c) := f in negb (Nat.eqb a b) && negb (Nat.eqb b c) && negb (Nat.eqb c a).
(* every vertex index below n is used by some face *)
Definition all_used (n : nat) (fs : list face) : bool :=
  forallb (fun k => existsb (fun f => let '(a, b, c) := f in Nat.eqb a k || Nat.eqb b k || Nat.eqb c k) fs) (seq 0 n).

(* a Python argument that the code tests with isinstance(x, float) *)
Inductive pynum (F : Type) := PyFloat (x : F) | PyInt (z : Z) | PyOther.
Arguments PyFloat {F} _. Arguments PyInt {F} _. Arguments PyOther {F}.

Section Shapes.
  Context {F : Type} (O : NumOps F).
  Local Notation "0" := (n0 O).

  Definition triangle := (vec3 F * vec3 F * vec3 F)%type.

  (* vertices[faces]; None where an index is out of range (NumPy raises IndexError there) *)
  Definition tri_at (vs : list (vec3 F)) (f : face) : option triangle :=
    let '(a, b, c) := f in
    match nth_error vs a, nth_error vs b, nth_error vs c with
    | Some x, Some y, Some z => Some (x, y, z)
    | _, _, _ => None
    end.
  (* _maybe_flatten(vertices, faces, False) = vertices[faces]: one triangle of three vertices per face row *)
  Definition flatten (vs : list (vec3 F)) (fs : list face) : list (option triangle) := map (tri_at vs) fs.
  Fixpoint somes {A} (l : list (option A)) : list A :=
    match l with [] => [] | Some a :: r => a :: somes r | None :: r => somes r end.

  (* ---------------- rectangular_prism ---------------- *)
  Definition rect_prism_vertices (origin size : vec3 F) : list (vec3 F) :=
    let l0 := origin in
    let l1 := vadd O origin (V3 (vx size) 0 0) in
    let l2 := vadd O origin (V3 (vx size) 0 (vz size)) in
    let l3 := vadd O origin (V3 0 0 (vz size)) in
    let up := V3 0 (vy size) 0 in
    [l0; l1; l2; l3; vadd O l0 up; vadd O l1 up; vadd O l2 up; vadd O l3 up].
  Definition rectangular_prism (origin size : vec3 F) : list (vec3 F) * list face :=
    (rect_prism_vertices origin size, rect_prism_faces).
  Definition rectangular_prism_flat (origin size : vec3 F) : list (option triangle) :=
    flatten (rect_prism_vertices origin size) rect_prism_faces.

  (* ---------------- cube ---------------- *)
  Definition cube (origin : vec3 F) (size : pynum F) : result (list (vec3 F) * list face) :=
    match size with
    | PyFloat s => Ok (rectangular_prism origin (V3 s s s))   (* np.repeat(size, 3) *)
    | _ => Raise ValueError
    end.

  (* ---------------- triangular_prism ---------------- *)
  (* surface_normals without the final division: (p2 - p1) x (p3 - p1) *)
  Definition tri_cross (p1 p2 p3 : vec3 F) : vec3 F := vcross O (vsub O p2 p1) (vsub O p3 p1).
  Definition tri_normal (p1 p2 p3 : vec3 F) : vec3 F := vnormalize O (tri_cross p1 p2 p3).
  Definition tri_prism_vertices (p1 p2 p3 : vec3 F) (height : F) : list (vec3 F) :=
    let off := vscale O height (vneg O (tri_normal p1 p2 p3)) in   (* height * -base_plane.normal *)
    [p1; p2; p3; vadd O p1 off; vadd O p2 off; vadd O p3 off].
  (* collinear points: the normal is NaN and the Plane constructor raises ValueError("normal should have unit length") *)
  Definition collinear (p1 p2 p3 : vec3 F) : bool := neqb O (vnorm2 O (tri_cross p1 p2 p3)) 0.
  Definition triangular_prism (p1 p2 p3 : vec3 F) (height : pynum F) : result (list (vec3 F) * list face) :=
    match height with
    | PyFloat h =>
        if collinear p1 p2 p3 then Raise ValueError
        else Ok (tri_prism_vertices p1 p2 p3 h, tri_prism_faces)
    | _ => Raise ValueError
    end.

  (* ---------------- measures of an indexed triangle surface ---------------- *)
  (* 6 x signed volume of the tetrahedron (0, a, b, c) *)
  Definition tri_det (t : triangle) : F := let '(a, b, c) := t in vdot O a (vcross O b c).
  Definition six_volume (vs : list (vec3 F)) (fs : list face) : F :=
    nsum O (map tri_det (somes (flatten vs fs))).
  Definition signed_volume (vs : list (vec3 F)) (fs : list face) : F := ndiv O (six_volume vs fs) (nofZ O 6).
  (* |(b - a) x (c - a)| / 2 *)
  Definition tri_area (t : triangle) : F :=
    let '(a, b, c) := t in ndiv O (vnorm O (vcross O (vsub O b a) (vsub O c a))) (n2 O).
  Definition surface_area (vs : list (vec3 F)) (fs : list face) : F :=
    nsum O (map tri_area (somes (flatten vs fs))).
End Shapes.
