(* Specification vocabulary of C06 (DESIGN Appendix A): what Polyline.sliced_by_plane has to return.
   Definitions only; nothing here is computed from the code's algorithm.  props/C06.v states the model of
   M_polyline_slice.v against these. *)
From Coq Require Import ZArith Reals List Bool.
From PW Require Import Num NumR Vec.
From PW.model Require Import M_plane M_polyline_slice.
Import ListNotations.

Section SpecCore.
  (* generic in the vertex type A, the row type B, the sign function, the point constructor and the crossing *)
  Context {A B : Type} (sg : A -> Z) (pt : A -> B) (xs : A -> A -> B).

  (* a vertex is in front when its sign (np.sign of the signed distance) is 1 *)
  Definition front (v : A) : Prop := sg v = 1%Z.

  (* open polyline: l = pre ++ run ++ post, run non-empty and wholly in front, nothing else in front *)
  Inductive open_split (l pre run post : list A) : Prop :=
    OpenSplit : l = pre ++ run ++ post -> run <> [] -> Forall front run ->
                Forall (fun v => ~ front v) (pre ++ post) -> open_split l pre run post.

  (* extension at the start of the run: nothing when the path starts in front; the previous vertex when it is on
     the plane; otherwise the crossing of the segment from the previous vertex to the first vertex in front *)
  Definition enter (before first : option A) : list B :=
    match before, first with
    | Some v, Some f => if (sg v =? 0)%Z then [pt v] else [xs v f]
    | _, _ => []
    end.
  (* extension at the end: the crossing is taken from the last vertex in front towards the next vertex *)
  Definition leave (lastv after : option A) : list B :=
    match lastv, after with
    | Some l, Some v => if (sg v =? 0)%Z then [pt v] else [xs l v]
    | _, _ => []
    end.
  Definition spec_result (pre run post : list A) : list B :=
    enter (olast pre) (hd_error run) ++ map pt run ++ leave (olast run) (hd_error post).

  (* closed polyline: some rotation of l is run ++ rest, both non-empty, run wholly in front, rest not at all *)
  Definition cyclic_split (l run rest : list A) : Prop :=
    (exists x y, l = x ++ y /\ y ++ x = run ++ rest) /\ run <> [] /\ rest <> [] /\
    Forall front run /\ Forall (fun v => ~ front v) rest.
  (* the neighbours are taken cyclically: before = last of rest, after = first of rest *)
  Definition closed_spec_result (run rest : list A) : list B :=
    enter (olast rest) (hd_error run) ++ map pt run ++ leave (olast run) (hd_error rest).
End SpecCore.

Local Open Scope R_scope.

(* the point where the segment from a to b meets the plane: a + t (b - a), t = d_a / (d_a - d_b) with d the signed
   distances the two vertices are classified with *)
Definition crossing_t (pl : plane R) (a b : vec3 R) : R :=
  plane_sd ROps pl a / (plane_sd ROps pl a - plane_sd ROps pl b).
Definition crossing (pl : plane R) (a b : vec3 R) : vec3 R :=
  vadd ROps a (vscale ROps (crossing_t pl a b) (vsub ROps b a)).
(* strictly on opposite sides *)
Definition opposite (pl : plane R) (a b : vec3 R) : Prop :=
  (plane_sd ROps pl a < 0 /\ 0 < plane_sd ROps pl b) \/ (plane_sd ROps pl b < 0 /\ 0 < plane_sd ROps pl a).

Definition in_front (pl : plane R) (v : vec3 R) : Prop := front (plane_sign ROps pl) v.
Definition spec_points (pl : plane R) (pre run post : list (vec3 R)) : list (vec3 R) :=
  spec_result (plane_sign ROps pl) (fun v => v) (crossing pl) pre run post.
Definition closed_spec_points (pl : plane R) (run rest : list (vec3 R)) : list (vec3 R) :=
  closed_spec_result (plane_sign ROps pl) (fun v => v) (crossing pl) run rest.

(* the plane x = 0 with normal +x, used by the examples *)
Definition xplane : plane R := MkPlane (V3 0 0 0) (V3 1 0 0).
