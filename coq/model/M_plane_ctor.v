(* polliwog/plane/_plane_object.py: Plane.__init__, from_point_and_normal, from_points, from_points_and_vector,
   fit_from_points, tilted, xy/xz/yz; polliwog/plane/_plane_functions.py: plane_normal_from_points,
   plane_equation_from_points, normal_and_offset_from_plane_equations; polliwog/tri/functions.py: surface_normals;
   the vg helpers they call (normalize, almost_unit_length, perpendicular, reject, angle, signed_angle, rotate).
   Definitions only.  fit_from_points is the code of /repo commit 9820109 (np.linalg.eigh);
   the eigen-solver itself is a section argument (LAPACK is not modelled), see `eig_contract` in proofs/P_plane_fit.v. *)
From Coq Require Import ZArith List Bool Arith.
From PW Require Import Num Vec Mat NpList Result.
From PW.model Require Import M_plane.
Import ListNotations.

(* what the symmetric eigen-solver returns: eigenvalues and the matching eigenvectors (columns of `eigvec`) *)
Record eig3 (F : Type) := Eig3 { ev0 : F; ev1 : F; ev2 : F; eu0 : vec3 F; eu1 : vec3 F; eu2 : vec3 F }.
Arguments Eig3 {F}. Arguments ev0 {F}. Arguments ev1 {F}. Arguments ev2 {F}.
Arguments eu0 {F}. Arguments eu1 {F}. Arguments eu2 {F}.

Section PlaneCtor.
  Context {F : Type} (O : NumOps F).

  (* 0.1 ** 6 as binary64 computes it (0x1.0c6f7a0b5ed8fp-20): atol of the default direction_decimals = 6 *)
  Definition default_atol : F := nfrac O 4722366482869647 (2 ^ 72).

  (* vg.almost_unit_length(v, atol): np.isclose(norm(v), 1.0, rtol=0, atol=atol) *)
  Definition almost_unit_length (atol : F) (v : vec3 F) : bool :=
    nleb O (nabs O (nsub O (vnorm O v) (n1 O))) atol.

  (* Plane(reference_point, normal, direction_decimals): atol = 0.1 ** direction_decimals.  The model takes atol
     itself; the step decimals -> 0.1 ** d (a binary64 power) is made by the harness, which passes the value the
     code computes, and is therefore tied by the correspondence check only (default_atol is the d = 6 value). *)
  Definition plane_ctor (atol : F) (ref n : vec3 F) : result (plane F) :=
    if almost_unit_length atol n then Ok (MkPlane ref n) else Raise ValueError.

  (* vg.normalize of one vector; None when the norm is zero (the code produces a NaN/inf vector) *)
  Definition normalize_opt (v : vec3 F) : option (vec3 F) :=
    if neqb O (vnorm O v) (n0 O) then None else Some (vnormalize O v).

  (* a NaN normal fails the unit-length test: ValueError *)
  Definition ctor_opt (atol : F) (ref : vec3 F) (n : option (vec3 F)) : result (plane F) :=
    match n with Some n => plane_ctor atol ref n | None => Raise ValueError end.

  Definition from_point_and_normal (atol : F) (ref n : vec3 F) : result (plane F) :=
    ctor_opt atol ref (normalize_opt n).

  (* tri.surface_normals / plane_normal_from_points for one triangle *)
  Definition tri_cross (p1 p2 p3 : vec3 F) : vec3 F := vcross O (vsub O p2 p1) (vsub O p3 p1).
  Definition plane_normal_from_points (normalize : bool) (p1 p2 p3 : vec3 F) : option (vec3 F) :=
    if normalize then normalize_opt (tri_cross p1 p2 p3) else Some (tri_cross p1 p2 p3).
  Definition from_points (p1 p2 p3 : vec3 F) : result (plane F) :=
    ctor_opt default_atol p1 (plane_normal_from_points true p1 p2 p3).

  Definition from_points_and_vector (atol : F) (p1 p2 v : vec3 F) : result (plane F) :=
    from_point_and_normal atol p1 (vcross O (vsub O p2 p1) v).

  (* plane_equation_from_points: [unit normal, -dot(p1, unit normal)]; None = a NaN row (collinear points) *)
  Definition plane_equation_from_points (p1 p2 p3 : vec3 F) : option (peq F) :=
    match plane_normal_from_points true p1 p2 p3 with
    | Some n => Some (E4 (vx n) (vy n) (vz n) (nneg O (vdot O p1 n)))
    | None => None
    end.
  Definition tri3 : Type := (vec3 F * vec3 F * vec3 F)%type.
  Definition plane_normal_from_points_stack (normalize : bool) (ts : list tri3) : list (option (vec3 F)) :=
    map (fun t => match t with (p1, p2, p3) => plane_normal_from_points normalize p1 p2 p3 end) ts.
  Definition plane_equation_from_points_stack (ts : list tri3) : list (option (peq F)) :=
    map (fun t => match t with (p1, p2, p3) => plane_equation_from_points p1 p2 p3 end) ts.
  Definition normal_and_offset (e : peq F) : vec3 F * F := (eq_normal e, ed e).
  Definition normal_and_offset_stack (es : list (peq F)) : list (vec3 F) * list F :=
    (map eq_normal es, map ed es).

  (* Plane.xy, Plane.xz, Plane.yz *)
  Definition plane_xy : plane F := MkPlane (vzero O) (V3 (n0 O) (n0 O) (n1 O)).
  Definition plane_xz : plane F := MkPlane (vzero O) (V3 (n0 O) (n1 O) (n0 O)).
  Definition plane_yz : plane F := MkPlane (vzero O) (V3 (n1 O) (n0 O) (n0 O)).

  (* ---- fit_from_points -------------------------------------------------------------------------- *)
  Definition vsum (ps : list (vec3 F)) : vec3 F := fold_left (vadd O) ps (vzero O).
  Definition nlen (ps : list (vec3 F)) : F := nofZ O (Z.of_nat (length ps)).
  (* points.mean(axis=0) *)
  Definition centroid (ps : list (vec3 F)) : vec3 F := vdivs O (vsum ps) (nlen ps).
  (* np.cov(points.T): sum of products of the centred coordinates over N - 1 *)
  Definition cov_entry (ps : list (vec3 F)) (i j : nat) : F :=
    let c := centroid ps in
    ndiv O (nsum O (map (fun p => nmul O (vget (vsub O p c) i) (vget (vsub O p c) j)) ps))
           (nsub O (nlen ps) (n1 O)).
  Definition cov (ps : list (vec3 F)) : mat3 F :=
    M3 (cov_entry ps 0 0) (cov_entry ps 0 1) (cov_entry ps 0 2)
       (cov_entry ps 1 0) (cov_entry ps 1 1) (cov_entry ps 1 2)
       (cov_entry ps 2 0) (cov_entry ps 2 1) (cov_entry ps 2 2).

  (* np.argsort(eigval)[::-1] for three values (insertion sort, stable), then the two leading columns *)
  Definition argsort3 (a b c : F) : nat * nat * nat :=
    (* ascending, stable *)
    if nltb O b a then
      (if nltb O c b then (2, 1, 0) else if nltb O c a then (1, 2, 0) else (1, 0, 2))%nat
    else
      (if nltb O c a then (2, 0, 1) else if nltb O c b then (0, 2, 1) else (0, 1, 2))%nat.
  Definition eig_col (e : eig3 F) (i : nat) : vec3 F :=
    match i with 0%nat => eu0 e | 1%nat => eu1 e | _ => eu2 e end.
  Definition eig_val (e : eig3 F) (i : nat) : F :=
    match i with 0%nat => ev0 e | 1%nat => ev1 e | _ => ev2 e end.
  Definition fit_normal (e : eig3 F) : vec3 F :=
    match argsort3 (ev0 e) (ev1 e) (ev2 e) with
    | (lo, mid, hi) => vcross O (eig_col e hi) (eig_col e mid)
    end.
  (* index of the smallest eigenvalue: the direction the normal is (anti)parallel to *)
  Definition fit_min_index (e : eig3 F) : nat :=
    match argsort3 (ev0 e) (ev1 e) (ev2 e) with (lo, _, _) => lo end.

  Section Fit.
    Context (eigh : mat3 F -> eig3 F).
    (* with fewer than two points np.cov is NaN (division by N - 1 = 0, or the mean of nothing) and LAPACK gives up:
       LinAlgError.  This also keeps the model from dividing by zero in `centroid` / `cov_entry`. *)
    Definition fit_from_points (ps : list (vec3 F)) : result (plane F) :=
      if (length ps <=? 1)%nat then Raise LinAlgError
      else plane_ctor default_atol (centroid ps) (fit_normal (eigh (cov ps))).
  End Fit.
  (* dtype of the fitted normal (real float64 since 9820109) is not a real-arithmetic notion: it is part of the
     observed plane in the correspondence check (o_real) and of the oracle *)

  (* ---- tilted ------------------------------------------------------------------------------------- *)
  (* vg.reject(v, from_v=look) = v - dot(v, normalize(look)) * normalize(look) *)
  Definition vg_reject (v look : vec3 F) : vec3 F :=
    let l := vnormalize O look in vsub O v (vscale O (vdot O v l) l).
  Definition nclip (x : F) : F :=
    if nltb O x (nneg O (n1 O)) then nneg O (n1 O) else if nltb O (n1 O) x then n1 O else x.
  (* cosine of vg.angle(v1, v2, look) before the clip *)
  Definition vg_angle_cos (v1 v2 look : vec3 F) : F :=
    let a := vg_reject v1 look in let b := vg_reject v2 look in
    ndiv O (ndiv O (vdot O a b) (vnorm O a)) (vnorm O b).
  (* vg.signed_angle(v1, v2, look, units="rad") *)
  Definition vg_signed_angle (v1 v2 look : vec3 F) : F :=
    let sgn := nsign O (vdot O (vcross O v1 v2) look) in
    let ang := nacos O (nclip (vg_angle_cos v1 v2 look)) in
    if (sgn =? -1)%Z then nneg O ang else ang.
  (* vg.rotate(vector, around_axis, angle) given cos / sin of the angle (Rodrigues) *)
  Definition vg_rotate_cs (v axis : vec3 F) (c s : F) : vec3 F :=
    let a := vnormalize O axis in
    vadd O (vadd O (vscale O c v) (vscale O s (vcross O a v)))
           (vscale O (nmul O (nsub O (n1 O) c) (vdot O a v)) a).

  Definition tilt_old (pl : plane F) (new_point coplanar : vec3 F) : vec3 F :=
    vsub O (plane_project O pl new_point) coplanar.
  Definition tilt_new (new_point coplanar : vec3 F) : vec3 F := vsub O new_point coplanar.
  Definition tilt_axis (pl : plane F) (new_point coplanar : vec3 F) : vec3 F :=
    vnormalize O (vcross O (tilt_old pl new_point coplanar) (pnormal pl)).
  (* every division of the computation has a non-zero denominator *)
  Definition tilt_defined (pl : plane F) (new_point coplanar : vec3 F) : bool :=
    let vo := tilt_old pl new_point coplanar in
    let axis := tilt_axis pl new_point coplanar in
    negb (neqb O (vnorm O (vcross O vo (pnormal pl))) (n0 O)) &&
    negb (neqb O (vnorm O axis) (n0 O)) &&
    negb (neqb O (vnorm O (vg_reject vo axis)) (n0 O)) &&
    negb (neqb O (vnorm O (vg_reject (tilt_new new_point coplanar) axis)) (n0 O)).
  Definition tilt_angle (pl : plane F) (new_point coplanar : vec3 F) : F :=
    vg_signed_angle (tilt_old pl new_point coplanar) (tilt_new new_point coplanar) (tilt_axis pl new_point coplanar).
  (* the new plane, given the cosine and sine that math.cos / math.sin return for the angle *)
  Definition tilted_cs (pl : plane F) (new_point coplanar : vec3 F) (c s : F) : result (plane F) :=
    if tilt_defined pl new_point coplanar
    then plane_ctor default_atol coplanar (vg_rotate_cs (pnormal pl) (tilt_axis pl new_point coplanar) c s)
    else Raise ValueError.   (* a NaN normal fails the unit-length test *)
  Definition tilted (pl : plane F) (new_point coplanar : vec3 F) : result (plane F) :=
    let a := tilt_angle pl new_point coplanar in tilted_cs pl new_point coplanar (ncos O a) (nsin O a).
End PlaneCtor.
