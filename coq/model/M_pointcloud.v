(* polliwog/pointcloud/_pointcloud_functions.py: extent, percentile (property C17). Definitions only. *)
From Coq Require Import ZArith List Bool.
From PW Require Import Num Vec NpList Result.
Import ListNotations.

Section PointCloud.
  Context {F : Type} (O : NumOps F).

  (* np.argmax: index of the FIRST maximum *)
  Fixpoint argmax_from (best : F) (bi i : nat) (l : list F) : nat * F :=
    match l with
    | [] => (bi, best)
    | x :: r => if nltb O best x then argmax_from x i (S i) r else argmax_from best bi (S i) r
    end.
  Definition argmax (l : list F) : nat * F :=
    match l with [] => (0%nat, n0 O) | x :: r => argmax_from x 0%nat 1%nat r end.

  (* vg.euclidean_distance(points, probe) = sqrt(sum(square(probe - points))) *)
  Definition distances (ps : list (vec3 F)) (probe : vec3 F) : list F := map (fun p => vdist O probe p) ps.

  (* state of the double loop: (farthest_distance, farthest_i, farthest_j), initially (-1, -1, -1) *)
  Definition ext_state : Type := (F * Z * Z)%type.
  Definition ext_step (ps : list (vec3 F)) (st : ext_state) (i : nat) (probe : vec3 F) : ext_state :=
    let '(j, d) := argmax (distances ps probe) in
    let '(fd, fi, fj) := st in
    if nltb O fd d then (d, Z.of_nat i, Z.of_nat j) else st.
  Fixpoint ext_loop (ps : list (vec3 F)) (st : ext_state) (i : nat) (probes : list (vec3 F)) : ext_state :=
    match probes with [] => st | p :: r => ext_loop ps (ext_step ps st i p) (S i) r end.
  (* extent(points, ret_indices=True); k < 2 -> ValueError *)
  Definition extent (ps : list (vec3 F)) : result ext_state :=
    match ps with
    | [] | [_] => Raise ValueError
    | _ => Ok (ext_loop ps (nofZ O (-1), (-1)%Z, (-1)%Z) 0%nat ps)
    end.

  (* ---- percentile ------------------------------------------------------------------------------------ *)
  (* the sort inside np.percentile, modelled as insertion sort *)
  Fixpoint insert_sorted (x : F) (l : list F) : list F :=
    match l with [] => [x] | y :: r => if nleb O x y then x :: l else y :: insert_sorted x r end.
  Fixpoint isort (l : list F) : list F :=
    match l with [] => [] | x :: r => insert_sorted x (isort r) end.
  (* NumPy's default (linear) percentile of a non-empty list: virtual index (n-1) * q / 100 *)
  Definition percentile_value (l : list F) (q : F) : F :=
    let s := isort l in
    let n := length s in
    let vi := nmul O (nofZ O (Z.of_nat n - 1)) (ndiv O q (nofZ O 100)) in
    let lo := Z.to_nat (nfloor O vi) in
    let hi := Nat.min (S lo) (n - 1) in
    let g := nsub O vi (nofZ O (Z.of_nat lo)) in
    let a := nth lo s (n0 O) in let b := nth hi s (n0 O) in
    nadd O a (nmul O (nsub O b a) g).
  Definition vsum (ps : list (vec3 F)) : vec3 F := fold_left (vadd O) ps (vzero O).
  (* np.average(points, axis=0) *)
  Definition centroid (ps : list (vec3 F)) : vec3 F := vdivs O (vsum ps) (nofZ O (Z.of_nat (length ps))).
  (* vg.almost_zero(v): allclose(v, 0, rtol=0, atol=1e-8) *)
  (* the binary64 number written 1e-8 in the source, exactly *)
  Definition atol8 : F := nfrac O 3022314549036573 302231454903657293676544.
  Definition almost_zero (v : vec3 F) : bool :=
    nleb O (nabs O (vx v)) atol8 && nleb O (nabs O (vy v)) atol8 && nleb O (nabs O (vz v)) atol8.
  (* vg.reject(v, from_v) = v - dot(v, normalize(from_v)) * normalize(from_v) *)
  Definition vreject (v from_v : vec3 F) : vec3 F :=
    let u := vnormalize O from_v in vsub O v (vscale O (vdot O v u) u).
  Definition percentile (ps : list (vec3 F)) (axis : vec3 F) (q : F) : result (vec3 F) :=
    match ps with
    | [] => Raise ValueError
    | _ =>
      if almost_zero axis then Raise ValueError else
      (* np.percentile: "Percentiles must be in the range [0, 100]" *)
      if nltb O q (n0 O) || nltb O (nofZ O 100) q then Raise ValueError else
      let a := vnormalize O axis in
      let coords := map (fun p => vdot O p a) ps in
      let sel := percentile_value coords q in
      Ok (vadd O (vreject (centroid ps) a) (vscale O sel a))
    end.
End PointCloud.
