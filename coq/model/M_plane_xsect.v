(* Plane x line / segment intersection routines:
     polliwog/plane/_plane_object.py   Plane.line_xsection(s), Plane.line_segment_xsection(s)
     polliwog/plane/_plane_intersect.py intersect_segment_with_plane
     polliwog/polyline/_polyline_object.py Polyline.intersect_plane
   A NaN output row is the explicit marker `None` (never x/0). Definitions only. *)
From Coq Require Import ZArith List Bool.
From PW Require Import Num Vec NpList.
From PW.model Require Import M_plane M_polyline_base.
Import ListNotations.

Section PlaneXsect.
  Context {F : Type} (O : NumOps F).

  (* ---- Plane._line_xsection --------------------------------------------------------------------
       denom = np.dot(ray, self.normal); if denom == 0: return None
       p = np.dot(self.reference_point - pt, self.normal) / denom;  return p * ray + pt *)
  Definition xs_denom (pl : plane F) (ray : vec3 F) : F := vdot O ray (pnormal pl).
  Definition xs_param (pl : plane F) (pt ray : vec3 F) : F :=
    ndiv O (vdot O (vsub O (pref pl) pt) (pnormal pl)) (xs_denom pl ray).
  Definition xs_point (pl : plane F) (pt ray : vec3 F) : vec3 F :=
    vadd O (vscale O (xs_param pl pt ray) ray) pt.
  Definition line_xsection (pl : plane F) (pt ray : vec3 F) : option (vec3 F) :=
    if neqb O (xs_denom pl ray) (n0 O) then None else Some (xs_point pl pt ray).

  (* ---- Plane._line_segment_xsection: the coordinate-wise bound test ----------------------------
       any(logical_and(pt > a, pt > b)) or any(logical_and(pt < a, pt < b))  ->  None *)
  Definition above_both (p a b : F) : bool := nltb O a p && nltb O b p.
  Definition below_both (p a b : F) : bool := nltb O p a && nltb O p b.
  Definition coord_any (f : F -> F -> F -> bool) (pt a b : vec3 F) : bool :=
    f (vx pt) (vx a) (vx b) || f (vy pt) (vy a) (vy b) || f (vz pt) (vz a) (vz b).
  Definition out_of_bounds (pt a b : vec3 F) : bool :=
    coord_any above_both pt a b || coord_any below_both pt a b.
  Definition line_segment_xsection (pl : plane F) (a b : vec3 F) : option (vec3 F) :=
    match line_xsection pl a (vsub O b a) with
    | None => None
    | Some pt => if out_of_bounds pt a b then None else Some pt
    end.

  (* ---- Plane.line_xsections: one row of the vectorised code --------------------------------------
       denoms = np.dot(rays, normal); denom_is_zero = denoms == 0; denoms[denom_is_zero] = nan
       p = np.dot(ref - pts, normal) / denoms;  return vstack([p,p,p]).T * rays + pts, ~denom_is_zero
     A row whose denominator is zero is a NaN row (None) flagged invalid. *)
  Definition xsections_row (pl : plane F) (pt ray : vec3 F) : option (vec3 F) * bool :=
    let denom_is_zero := neqb O (xs_denom pl ray) (n0 O) in
    ((if denom_is_zero then None else Some (xs_point pl pt ray)), negb denom_is_zero).
  Definition line_xsections (pl : plane F) (pts rays : list (vec3 F)) : list (option (vec3 F)) * list bool :=
    let rows := map2 (xsections_row pl) pts rays in (map fst rows, map snd rows).

  (* ---- Plane.line_segment_xsections ------------------------------------------------------------------
       pts, valid = self.line_xsections(a, b - a); the bound test is applied to the valid rows;
       valid[valid] = ~out_of_bounds; pts[~valid] = nan *)
  Definition seg_xsections_row (pl : plane F) (a b : vec3 F) : option (vec3 F) * bool :=
    match xsections_row pl a (vsub O b a) with
    | (Some pt, true) => if out_of_bounds pt a b then (None, false) else (Some pt, true)
    | _ => (None, false)
    end.
  Definition line_segment_xsections (pl : plane F) (a b : list (vec3 F)) : list (option (vec3 F)) * list bool :=
    let rows := map2 (seg_xsections_row pl) a b in (map fst rows, map snd rows).

  (* ---- intersect_segment_with_plane ------------------------------------------------------------------
       t = nan_to_num(dot(points_on_plane - start, normal) / dot(segment_vector, normal))
       pts = start + t * segment_vector;  pts[t < 0] = nan;  pts[t > 1] = nan
     Denominator zero: 0/0 = NaN -> nan_to_num -> t = 0 (the start point is returned);
                       x/0 = +-inf -> nan_to_num -> +-1.8e308, rejected by t < 0 / t > 1 -> NaN row. *)
  Definition isp_num (start pop nrm : vec3 F) : F := vdot O (vsub O pop start) nrm.
  Definition isp_den (segv nrm : vec3 F) : F := vdot O segv nrm.
  Definition isp_at (start segv : vec3 F) (t : F) : vec3 F := vadd O start (vscale O t segv).
  Definition intersect_segment_with_plane (start segv pop nrm : vec3 F) : option (vec3 F) :=
    let num := isp_num start pop nrm in
    let den := isp_den segv nrm in
    if neqb O den (n0 O) then
      (if neqb O num (n0 O) then Some (isp_at start segv (n0 O)) else None)
    else
      let t := ndiv O num den in
      if nltb O t (n0 O) then None else if nltb O (n1 O) t then None else Some (isp_at start segv t).
  (* stacked form: pairwise over four kx3 stacks *)
  Definition isp_row (r : (vec3 F * vec3 F) * (vec3 F * vec3 F)) : option (vec3 F) :=
    intersect_segment_with_plane (fst (fst r)) (snd (fst r)) (fst (snd r)) (snd (snd r)).
  Definition intersect_segments_with_planes (starts segvs pops nrms : list (vec3 F)) : list (option (vec3 F)) :=
    map isp_row (zip (zip starts segvs) (zip pops nrms)).

  (* ---- Polyline.segments (self.v[self.e]) --------------------------------------------------------- *)
  Definition closing_segment (v : list (vec3 F)) : list (vec3 F * vec3 F) :=
    match v with [] => [] | h :: _ => [(last v h, h)] end.
  Definition segments (poly : polyline F) : list (vec3 F * vec3 F) :=
    zip (pv poly) (tl (pv poly)) ++ (if pclosed poly then closing_segment (pv poly) else []).

  (* ---- Polyline.intersect_plane ----------------------------------------------------------------------
       sd = plane.signed_distance(v); which_es = abs(sign(sd)[e].sum(axis=1)) != 2
       d = abs(sd[e[which_es]]); t = d / d.sum(axis=1)[:, newaxis]
       points = ((1 - t)[:, :, newaxis] * segments[which_es]).sum(axis=1);  indices = which_es.nonzero()[0]
     An edge with both ends on the plane is selected and gives 0/0: a NaN row (None). *)
  Definition edge_selected (pl : plane F) (a b : vec3 F) : bool :=
    negb (Z.abs (plane_sign O pl a + plane_sign O pl b) =? 2)%Z.
  Definition edge_point (pl : plane F) (a b : vec3 F) : option (vec3 F) :=
    let da := nabs O (plane_sd O pl a) in
    let db := nabs O (plane_sd O pl b) in
    let s := nadd O da db in
    if neqb O s (n0 O) then None
    else Some (vadd O (vscale O (nsub O (n1 O) (ndiv O da s)) a) (vscale O (nsub O (n1 O) (ndiv O db s)) b)).
  Definition cons_hit (pl : plane F) (i : nat) (ab : vec3 F * vec3 F) (rest : list (nat * option (vec3 F))) :=
    if edge_selected pl (fst ab) (snd ab) then (i, edge_point pl (fst ab) (snd ab)) :: rest else rest.
  Fixpoint hits_from (pl : plane F) (i : nat) (segs : list (vec3 F * vec3 F)) : list (nat * option (vec3 F)) :=
    match segs with
    | [] => []
    | ab :: r => cons_hit pl i ab (hits_from pl (S i) r)
    end.
  Definition intersect_plane_hits (pl : plane F) (poly : polyline F) : list (nat * option (vec3 F)) :=
    hits_from pl 0 (segments poly).
  (* (intersection_points, edge_indices) as returned with ret_edge_indices=True *)
  Definition intersect_plane (pl : plane F) (poly : polyline F) : list (option (vec3 F)) * list nat :=
    let h := intersect_plane_hits pl poly in (map snd h, map fst h).
End PlaneXsect.
