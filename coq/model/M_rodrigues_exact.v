(* Specification vocabulary for C10, second part: the exact rotation map and plane rotations (real numbers only). *)
From Coq Require Import ZArith Reals List.
From PW Require Import Num NumR Vec Mat.
From PW.model Require Import M_rodrigues.
Local Open Scope R_scope.

(* the exact rotation map (no eps shortcut): I at r = 0, the Rodrigues formula elsewhere *)
Definition rod_exact (r : vec3 R) : mat3 R :=
  if Reqb (vnorm ROps r) 0 then I3 ROps
  else rod_matrix ROps (cos (vnorm ROps r)) (sin (vnorm ROps r)) (rod_axis ROps r).

(* plane rotation by the angle t about coordinate axis j *)
Definition plane_rot (j : nat) (t : R) : mat3 R :=
  match j with
  | 0%nat => M3 1 0 0  0 (cos t) (- sin t)  0 (sin t) (cos t)
  | 1%nat => M3 (cos t) 0 (sin t)  0 1 0  (- sin t) 0 (cos t)
  | _ => M3 (cos t) (- sin t) 0  (sin t) (cos t) 0  0 0 1
  end.

(* rotation about x with cosine c and sine s (witnesses for the snapping zones) *)
Definition rot_x (c s : R) : mat3 R := M3 1 0 0 0 c (- s) 0 s c.
