(* polliwog/transform/_affine_transform.py and polliwog/transform/_apply.py.  Definitions only. *)
From Coq Require Import ZArith List Bool.
From PW Require Import Num Vec Mat NpList Result.
From PW.model Require Import M_rodrigues.
Import ListNotations.

(* `rotation` argument of transform_matrix_for_rotation: a 3x3 matrix or a Rodrigues vector *)
Inductive rotation_arg (F : Type) := RotMat (m : mat3 F) | RotVec (r : vec3 F).
Arguments RotMat {F}. Arguments RotVec {F}.

Section Affine.
  Context {F : Type} (O : NumOps F).
  Local Notation "0" := (n0 O).
  Local Notation "1" := (n1 O).

  (* _convert_33_to_44: np.pad with zeros, then result[3][3] = 1 *)
  Definition convert_33_to_44 (r : mat3 F) : mat4 F := m33to44 O r.

  (* transform_matrix_for_rotation: forward = pad(rotation or rodrigues(rotation)); inverse = forward.T *)
  Definition rotation3 (a : rotation_arg F) : mat3 F :=
    match a with RotMat m => m | RotVec r => rodrigues_fwd O r end.
  Definition tm_rotation (a : rotation_arg F) : mat4 F * mat4 F :=
    let f := convert_33_to_44 (rotation3 a) in (f, mtranspose f).

  (* transform_matrix_for_translation: eye(4) with last column = translation; inverse uses -translation *)
  Definition tm_translation (t : vec3 F) : mat4 F * mat4 F :=
    (mtranslation O t, mtranslation O (vneg O t)).

  (* transform_matrix_for_non_uniform_scale *)
  Definition tm_non_uniform_scale (x y z : F) (allow_flipping : bool) : result (mat4 F * mat4 F) :=
    if neqb O x 0 || neqb O y 0 || neqb O z 0 then Raise ValueError
    else if negb allow_flipping && (nltb O x 0 || nltb O y 0 || nltb O z 0) then Raise ValueError
    else Ok (convert_33_to_44 (M3 x 0 0 0 y 0 0 0 z),
             convert_33_to_44 (M3 (ndiv O 1 x) 0 0 0 (ndiv O 1 y) 0 0 0 (ndiv O 1 z))).

  (* transform_matrix_for_uniform_scale: its own two tests, then delegation *)
  Definition tm_uniform_scale (s : F) (allow_flipping : bool) : result (mat4 F * mat4 F) :=
    if neqb O s 0 then Raise ValueError
    else if negb allow_flipping && nltb O s 0 then Raise ValueError
    else tm_non_uniform_scale s s s allow_flipping.

  (* apply_transform(transform)(points, discard_z_coord, treat_input_as_vector):
     pad with w (0 for vectors, 1 for points), multiply, delete column 3, optionally keep only x, y *)
  Definition hom_w (treat_input_as_vector : bool) : F := if treat_input_as_vector then 0 else 1.
  Definition apply_point (m : mat4 F) (as_vector : bool) (p : vec3 F) : vec3 F :=
    mapply_w O m (hom_w as_vector) p.
  Definition out_row (discard_z : bool) (p : vec3 F) : list F :=
    if discard_z then [vx p; vy p] else [vx p; vy p; vz p].
  (* single point (3,) -> (3,) or (2,) *)
  Definition apply_single (m : mat4 F) (discard_z as_vector : bool) (p : vec3 F) : list F :=
    out_row discard_z (apply_point m as_vector p).
  (* stack kx3 -> kx3 or kx2 *)
  Definition apply_stack (m : mat4 F) (discard_z as_vector : bool) (ps : list (vec3 F)) : list (list F) :=
    map (apply_single m discard_z as_vector) ps.

  (* compose_transforms(ms...): eye(4) if empty else reduce(np.dot, reversed(ms)) *)
  Definition compose_transforms (ms : list (mat4 F)) : mat4 F :=
    match rev ms with
    | [] => I4 O
    | m :: r => fold_left (mmul O) r m
    end.
End Affine.
