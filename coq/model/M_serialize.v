(* C19: decimal rounding, JSON values, the Draft-7 subset used by polliwog/schema.json with its validator,
   and rounded / serialize / validate / deserialize of Polyline and Plane.
   The model is of the code as repaired by three /repo commits: b58b02b (fixes/C19-empty-polyline-deserialize.diff,
   reshape(-1, 3)), 981c15b (fixes/C19-plane-rounded-direction-decimals.diff, direction_decimals passed to the
   constructor) and 2b8d651 (fixes/C19-is-closed-bool.diff: serialize emits bool(is_closed); the model's closedness is a
   bool and pl_to_json emits JBool).
   Definitions only. *)
From Coq Require Import ZArith List Bool Arith String.
From PW Require Import Num Vec NpList Result.
From PW.model Require Import M_polyline_base M_plane.
Import ListNotations.
Local Open Scope string_scope.

(* ---- JSON values ----------------------------------------------------------------------------------- *)
Inductive json (F : Type) :=
| JNull | JBool (b : bool) | JNum (x : F) | JStr (s : string)
| JArr (l : list (json F)) | JObj (kv : list (string * json F)).
Arguments JNull {F}. Arguments JBool {F}. Arguments JNum {F}. Arguments JStr {F}. Arguments JArr {F}. Arguments JObj {F}.

(* ---- schema (the keywords polliwog/schema.json uses; the extractor refuses any other) -------------- *)
Inductive jtype := TObject | TArray | TNumber | TBoolean | TString | TNull | TInteger.
Inductive schema :=
| SRef (name : string)
| SNode (ty : option jtype) (props : list (string * schema)) (required : list string)
        (additional : option bool) (items : option schema) (min_items max_items : option nat).

Definition jtype_eqb (a b : jtype) : bool :=
  match a, b with
  | TObject, TObject | TArray, TArray | TNumber, TNumber | TBoolean, TBoolean | TString, TString
  | TNull, TNull | TInteger, TInteger => true
  | _, _ => false
  end.
Definition opt_eqb {A} (f : A -> A -> bool) (a b : option A) : bool :=
  match a, b with None, None => true | Some x, Some y => f x y | _, _ => false end.
Fixpoint strs_eqb (a b : list string) : bool :=
  match a, b with [], [] => true | x :: r, y :: r' => String.eqb x y && strs_eqb r r' | _, _ => false end.
Fixpoint schema_eqb (a b : schema) : bool :=
  match a, b with
  | SRef x, SRef y => String.eqb x y
  | SNode t p r ad it mi ma, SNode t' p' r' ad' it' mi' ma' =>
      opt_eqb jtype_eqb t t' &&
      (fix props_eqb (l l' : list (string * schema)) : bool :=
         match l, l' with
         | [], [] => true
         | (k, s) :: q, (k', s') :: q' => String.eqb k k' && schema_eqb s s' && props_eqb q q'
         | _, _ => false
         end) p p' &&
      strs_eqb r r' && opt_eqb Bool.eqb ad ad' &&
      match it, it' with None, None => true | Some s, Some s' => schema_eqb s s' | _, _ => false end &&
      opt_eqb Nat.eqb mi mi' && opt_eqb Nat.eqb ma ma'
  | _, _ => false
  end.
Fixpoint defs_eqb (a b : list (string * schema)) : bool :=
  match a, b with
  | [], [] => true
  | (k, s) :: q, (k', s') :: q' => String.eqb k k' && schema_eqb s s' && defs_eqb q q'
  | _, _ => false
  end.

(* polliwog/schema.json, "definitions", keys in sorted order (compared with the extracted term on every run) *)
Definition vector3_schema : schema :=
  SNode (Some TArray) [] [] None (Some (SNode (Some TNumber) [] [] None None None None)) (Some 3%nat) (Some 3%nat).
Definition polyline_schema : schema :=
  SNode (Some TObject)
        [("isClosed", SNode (Some TBoolean) [] [] None None None None);
         ("vertices", SNode (Some TArray) [] [] None (Some (SRef "Vector3")) None None)]
        ["vertices"; "isClosed"] (Some false) None None None.
Definition plane_schema : schema :=
  SNode (Some TObject) [("referencePoint", SRef "Vector3"); ("unitNormal", SRef "Vector3")]
        ["referencePoint"; "unitNormal"] (Some false) None None None.
Definition polliwog_defs : list (string * schema) :=
  [("Plane", plane_schema); ("Polyline", polyline_schema); ("Vector3", vector3_schema)].

Fixpoint assoc {B} (k : string) (l : list (string * B)) : option B :=
  match l with [] => None | (k', v) :: r => if String.eqb k k' then Some v else assoc k r end.

(* ---- the validator: an interpreter for the schema term (Draft 7 semantics of the keywords above) ------ *)
Section Validate.
  Context {F : Type}.
  Definition has_type (t : jtype) (j : json F) : bool :=
    match t, j with
    | TObject, JObj _ | TArray, JArr _ | TNumber, JNum _ | TBoolean, JBool _ | TString, JStr _ | TNull, JNull => true
    | _, _ => false       (* "integer" is not used by schema.json; a JNum is never accepted as one here *)
    end.
  Definition opt_le (a : option nat) (n : nat) : bool := match a with None => true | Some m => (m <=? n)%nat end.
  Definition opt_ge (a : option nat) (n : nat) : bool := match a with None => true | Some m => (n <=? m)%nat end.

  Fixpoint validate (fuel : nat) (defs : list (string * schema)) (s : schema) (j : json F) : bool :=
    match fuel with
    | 0%nat => false
    | S f =>
        match s with
        | SRef name => match assoc name defs with Some s' => validate f defs s' j | None => false end
        | SNode ty props required additional items mi ma =>
            match ty with None => true | Some t => has_type t j end &&
            match j with
            | JObj kv =>
                forallb (fun k => match assoc k kv with Some _ => true | None => false end) required &&
                forallb (fun ks => match assoc (fst ks) kv with
                                   | Some v => validate f defs (snd ks) v
                                   | None => true end) props &&
                match additional with
                | Some false => forallb (fun kv' => match assoc (fst kv') props with Some _ => true | None => false end) kv
                | _ => true
                end
            | JArr l =>
                opt_le mi (List.length l) && opt_ge ma (List.length l) &&
                match items with Some si => forallb (validate f defs si) l | None => true end
            | _ => true
            end
        end
    end.
  Definition fuel0 : nat := 12.
  Definition validate_ref (name : string) (j : json F) : bool := validate fuel0 polliwog_defs (SRef name) j.
End Validate.

(* ---- rounding and the two classes ----------------------------------------------------------------------- *)
Section Serialize.
  Context {F : Type} (O : NumOps F).

  (* np.rint: round half to even *)
  Definition rint (x : F) : Z :=
    let r := nfloor O x in
    let d := nsub O x (nofZ O r) in
    if nltb O d (nfrac O 1 2) then r
    else if nltb O (nfrac O 1 2) d then (r + 1)%Z
    else if Z.even r then r else (r + 1)%Z.
  Definition pow10 (d : nat) : F := nofZ O (10 ^ Z.of_nat d).
  (* np.around(x, d) = rint(x * 10^d) / 10^d *)
  Definition round_dec (d : nat) (x : F) : F := ndiv O (nofZ O (rint (nmul O x (pow10 d)))) (pow10 d).
  Definition vround (d : nat) (v : vec3 F) : vec3 F := V3 (round_dec d (vx v)) (round_dec d (vy v)) (round_dec d (vz v)).

  Definition jvec (v : vec3 F) : json F := JArr [JNum (vx v); JNum (vy v); JNum (vz v)].
  Definition unjvec (j : json F) : option (vec3 F) :=
    match j with JArr [JNum x; JNum y; JNum z] => Some (V3 x y z) | _ => None end.
  Fixpoint unjvecs (l : list (json F)) : option (list (vec3 F)) :=
    match l with
    | [] => Some []
    | j :: r => match unjvec j, unjvecs r with Some v, Some t => Some (v :: t) | _, _ => None end
    end.

  (* Polyline *)
  Definition pl_rounded (d : nat) (p : polyline F) : polyline F := MkPolyline (map (vround d) (pv p)) (pclosed p).
  Definition pl_to_json (p : polyline F) : json F :=
    JObj [("vertices", JArr (map jvec (pv p))); ("isClosed", JBool (pclosed p))].
  Definition pl_serialize (d : nat) (p : polyline F) : json F := pl_to_json (pl_rounded d p).
  Definition pl_validate (j : json F) : bool := validate_ref "Polyline" j.
  (* validate (jsonschema.ValidationError is not one of the modelled builtin classes: OtherError), then
     Polyline(np.array(vertices, float64).reshape(-1, 3), isClosed) *)
  Definition pl_deserialize (j : json F) : result (polyline F) :=
    if pl_validate j then
      match j with
      | JObj kv =>
          match assoc "vertices" kv, assoc "isClosed" kv with
          | Some (JArr l), Some (JBool c) =>
              match unjvecs l with Some vs => Ok (MkPolyline vs c) | None => Raise ValueError end
          | _, _ => Raise KeyError
          end
      | _ => Raise TypeError
      end
    else Raise OtherError.

  (* Plane.__init__: vg.almost_unit_length(normal, atol=0.1**direction_decimals) *)
  Definition plane_ctor (ref n : vec3 F) (dd : nat) : result (plane F) :=
    if nleb O (nabs O (nsub O (vnorm O n) (n1 O))) (ndiv O (n1 O) (pow10 dd)) then Ok (MkPlane ref n)
    else Raise ValueError.
  Definition default_dd : nat := 6.
  Definition plane_rounded (pd dd : nat) (pl : plane F) : result (plane F) :=
    plane_ctor (vround pd (pref pl)) (vround dd (pnormal pl)) dd.
  Definition plane_to_json (pl : plane F) : json F :=
    JObj [("referencePoint", jvec (pref pl)); ("unitNormal", jvec (pnormal pl))].
  Definition plane_serialize (pd dd : nat) (pl : plane F) : result (json F) :=
    rmap plane_to_json (plane_rounded pd dd pl).
  Definition plane_validate (j : json F) : bool := validate_ref "Plane" j.
  Definition plane_deserialize (j : json F) : result (plane F) :=
    if plane_validate j then
      match j with
      | JObj kv =>
          match assoc "referencePoint" kv, assoc "unitNormal" kv with
          | Some a, Some b =>
              match unjvec a, unjvec b with
              | Some r, Some n => plane_ctor r n default_dd
              | _, _ => Raise ValueError
              end
          | _, _ => Raise KeyError
          end
      | _ => Raise TypeError
      end
    else Raise OtherError.
End Serialize.
