(* Specification vocabulary for C08 (real numbers): what the statements in props/C08.v are written in.
   Declarative definitions only; nothing here is executed by the correspondence check. *)
From Coq Require Import ZArith Reals List Bool.
From PW Require Import Num NumR Vec NpList Result.
From PW.model Require Import M_polyline_base M_segment M_polyline_nearest M_polyline_length.
Import ListNotations.
Local Open Scope R_scope.

(* the point at arc length l of the path made of the given (start, end) segments (DESIGN appendix A): zero-length
   segments are skipped by the strict test; past the last segment the walk stays at that segment's end *)
Fixpoint walk (dflt : vec3 R) (segs : list (vec3 R * vec3 R)) (l : R) : vec3 R :=
  match segs with
  | [] => dflt
  | s :: rest =>
      let len := seg_len ROps s in
      if Rltb l len then vadd ROps (fst s) (vscale ROps (l / len) (vsub ROps (snd s) (fst s)))
      else walk (snd s) rest (l - len)
  end.
(* the end of the last segment (dflt if there is none) *)
Definition segs_end (dflt : vec3 R) (segs : list (vec3 R * vec3 R)) : vec3 R :=
  fold_left (fun _ s => snd s) segs dflt.
(* consecutive segments share their end / start vertex, the first one starts at `start` *)
Fixpoint chained (start : vec3 R) (segs : list (vec3 R * vec3 R)) : Prop :=
  match segs with [] => True | s :: r => fst s = start /\ chained (snd s) r end.
(* what with_segments_bisected inserts: (index of the end vertex of the chosen segment, its midpoint) *)
Definition bisect_ips (pl : polyline R) (idx : list nat) : list (nat * vec3 R) :=
  map (fun i => (edge_end pl i,
                 match nth_error (pl_segments pl) i with Some s => seg_mid ROps s | None => vzero ROps end)) idx.
