(* polliwog/transform/_composite_transform.py : CompositeTransform as a state machine.  Definitions only. *)
From Coq Require Import ZArith List Bool.
From PW Require Import Num Vec Mat NpList Result.
From PW.model Require Import M_rodrigues M_affine M_rotation.
Import ListNotations.

(* one appending method call *)
Inductive op (F : Type) :=
| OAppend (f : mat4 F) (r : option (mat4 F))          (* append_transform(forward, reverse=None) *)
| OUniformScale (s : F) (allow : bool)                (* uniform_scale(factor, allow_flipping) *)
| ONonUniformScale (x y z : F) (allow : bool)         (* non_uniform_scale(x, y, z, allow_flipping) *)
| OConvertUnits (factor : F)                          (* convert_units(a, b); factor = ounce.factor(a, b) is data *)
| OFlip (dim : Z)                                     (* flip(dim) *)
| OTranslate (t : vec3 F)                             (* translate(vector) *)
| ORotate (a : rotation_arg F)                        (* rotate(3x3 matrix | Rodrigues vector) *)
| OReorient (up look : vec3 F).                       (* reorient(up, look) *)
Arguments OAppend {F}. Arguments OUniformScale {F}. Arguments ONonUniformScale {F}. Arguments OConvertUnits {F}.
Arguments OFlip {F}. Arguments OTranslate {F}. Arguments ORotate {F}. Arguments OReorient {F}.

(* Python's l[start:stop] for integers start, stop (negative values count from the end, everything clamps) *)
Definition clampidx (n : nat) (i : Z) : nat :=
  if (i <? 0)%Z then Z.to_nat (Z.max 0 (i + Z.of_nat n)) else Nat.min (Z.to_nat i) n.
Definition pyslice {A} (start stop : Z) (l : list A) : list A :=
  let s := clampidx (length l) start in
  let e := clampidx (length l) stop in
  firstn (e - s) (skipn s l).

Section Composite.
  Context {F : Type} (O : NumOps F).

  (* self.transforms : list of (forward, inverse) *)
  Definition cstate := list (mat4 F * mat4 F).

  (* the (forward, inverse) pair an appending method computes, or the exception it raises before appending *)
  Definition op_pair (o : op F) : result (mat4 F * mat4 F) :=
    match o with
    | OAppend f (Some r) => Ok (f, r)
    | OAppend f None =>
        (* np.linalg.inv, modelled by the cofactor inverse; exactly singular -> LinAlgError *)
        if neqb O (mdet O f) (n0 O) then Raise LinAlgError else Ok (f, minv O f)
    | OUniformScale s allow => tm_uniform_scale O s allow
    | ONonUniformScale x y z allow => tm_non_uniform_scale O x y z allow
    | OConvertUnits factor => tm_uniform_scale O factor false
    | OFlip dim =>
        (* scale_factors = ones(3); scale_factors[dim] = -1; non_uniform_scale( *scale_factors, allow_flipping=True) *)
        if (dim =? 0)%Z then tm_non_uniform_scale O (nneg O (n1 O)) (n1 O) (n1 O) true
        else if (dim =? 1)%Z then tm_non_uniform_scale O (n1 O) (nneg O (n1 O)) (n1 O) true
        else if (dim =? 2)%Z then tm_non_uniform_scale O (n1 O) (n1 O) (nneg O (n1 O)) true
        else Raise ValueError
    | OTranslate t => Ok (tm_translation O t)
    | ORotate a => Ok (tm_rotation O a)
    | OReorient up look =>
        rbind (rotation_from_up_and_look O up look) (fun r => Ok (tm_rotation O (RotMat r)))
    end.

  (* new_index = len(self.transforms); self.transforms.append(pair); return new_index *)
  Definition step (st : cstate) (o : op F) : result (cstate * nat) :=
    rmap (fun fr => (st ++ [fr], length st)) (op_pair o).
  (* an exception leaves the object as it was *)
  Definition step_state (st : cstate) (o : op F) : cstate :=
    match step st o with Ok (st', _) => st' | Raise _ => st end.
  Definition run_ops (ops : list (op F)) (st : cstate) : cstate := fold_left step_state ops st.
  (* what each call returned *)
  Fixpoint run_results (ops : list (op F)) (st : cstate) : list (result nat) :=
    match ops with
    | [] => []
    | o :: r => rmap snd (step st o) :: run_results r (step_state st o)
    end.

  (* transform_matrix_for(from_range, reverse) *)
  Definition selected (st : cstate) (from_range : option (Z * Z)) : cstate :=
    match from_range with
    | None => st
    | Some (start, stop) => pyslice start stop st
    end.
  Definition selected_matrices (st : cstate) (from_range : option (Z * Z)) (reverse : bool) : list (mat4 F) :=
    if reverse then map snd (rev (selected st from_range)) else map fst (selected st from_range).
  Definition transform_matrix_for (st : cstate) (from_range : option (Z * Z)) (reverse : bool) : mat4 F :=
    compose_transforms O (selected_matrices st from_range reverse).

  (* __call__(points, from_range, reverse, discard_z_coord, treat_input_as_vector) *)
  Definition call_single st from_range reverse discard_z as_vector (p : vec3 F) : list F :=
    apply_single O (transform_matrix_for st from_range reverse) discard_z as_vector p.
  Definition call_stack st from_range reverse discard_z as_vector (ps : list (vec3 F)) : list (list F) :=
    apply_stack O (transform_matrix_for st from_range reverse) discard_z as_vector ps.
  Definition call_point st from_range reverse as_vector (p : vec3 F) : vec3 F :=
    apply_point O (transform_matrix_for st from_range reverse) as_vector p.
End Composite.
