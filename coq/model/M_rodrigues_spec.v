(* Specification vocabulary for C10 (statements in props/C10.v mention only model-level definitions).
   Real-number predicates; no proofs here. *)
From Coq Require Import ZArith Reals List.
From PW Require Import Num NumR Vec Mat NpList.
From PW.model Require Import M_rodrigues.
Import ListNotations.
Local Open Scope R_scope.

(* proper rotation: orthonormal both ways, determinant +1 *)
Definition proper (m : mat3 R) : Prop :=
  m3mul ROps (m3transpose m) m = I3 ROps /\ m3mul ROps m (m3transpose m) = I3 ROps /\ m3det ROps m = 1.

(* contract of the svd step (LAPACK, not modelled): u @ v is the input itself when the input is already orthogonal *)
Definition proj_ok (proj : mat3 R -> mat3 R) : Prop :=
  forall m, m3mul ROps (m3transpose m) m = I3 ROps -> proj m = m.

(* (3,9) @ (9,3): the forward Jacobian (rows kept as 3x3 matrices) times the inverse Jacobian *)
Definition jcol (i : nat) (ji : list (list R)) : list R := map (fun row => List.nth i row 0) ji.
Definition jac_compose (jf : list (mat3 R)) (ji : list (list R)) : list (list R) :=
  map (fun m => [ldot ROps (m3list m) (jcol 0 ji); ldot ROps (m3list m) (jcol 1 ji);
                 ldot ROps (m3list m) (jcol 2 ji)]) jf.
Definition I33 : list (list R) := [[1; 0; 0]; [0; 1; 0]; [0; 0; 1]].

(* exact half-turn about the unit axis k: 2 k k^T - I *)
Definition half_turn (k : vec3 R) : mat3 R :=
  m3add ROps (m3scale ROps 2 (m3outer ROps k)) (m3scale ROps (-1) (I3 ROps)).
