(* Specification vocabulary for C07 (real numbers) used by the statements in props/C07.v. *)
From Coq Require Import ZArith Reals List Bool.
From PW Require Import Num NumR Vec NpList Result.
From PW.model Require Import M_polyline_base M_segment M_polyline_nearest.
Local Open Scope R_scope.

(* the nearest point recorded in ra comes before the one recorded in rb along the polyline: earlier segment, or the
   same segment at a smaller parameter *)
Definition before_on (ra rb : near R) : Prop :=
  (n_idx ra < n_idx rb)%nat \/ (n_idx ra = n_idx rb /\ n_t ra < n_t rb).

(* m consecutive vertices of a closed polyline starting at vertex index i and going round cyclically
   (i <= number of vertices, m <= number of vertices) *)
Definition cyclic_from {A : Type} (vs : list A) (i m : nat) : list A := firstn m (skipn i vs ++ firstn i vs).

(* the index that segment k of a polyline gets when the vertex list is reversed (Polyline.flipped): the segments come in
   reverse order with their ends exchanged; on a closed polyline the closing edge stays the last one *)
Definition rev_seg_index (pl : polyline R) (k : nat) : nat :=
  if pclosed pl && Nat.eqb (S k) (length (pv pl)) then k else (length (pv pl) - 2 - k)%nat.
(* a segment with its ends exchanged *)
Definition swap_seg (s : vec3 R * vec3 R) : vec3 R * vec3 R := (snd s, fst s).

(* "the polyline does not touch itself near q": the nearest point recorded in r is the unique minimiser, every other
   segment is strictly farther from q *)
Definition unique_nearest (pl : polyline R) (q : vec3 R) (r : near R) : Prop :=
  forall j s, j <> n_idx r -> nth_error (pl_segments pl) j = Some s -> n_d r < h_d (seg_hit_of ROps q s).

(* what nearest reports on the reversed polyline: same point and distance, mirrored segment index, parameter 1 - t *)
Definition flipped_near (pl : polyline R) (r : near R) : near R :=
  Near (n_pt r) (rev_seg_index pl (n_idx r)) (n_d r) (1 - n_t r).
