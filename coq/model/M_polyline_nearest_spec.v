(* Specification vocabulary for C07 (real numbers) used by the statements in props/C07.v. *)
From Coq Require Import ZArith Reals List Bool.
From PW Require Import Num NumR Vec NpList Result.
From PW.model Require Import M_polyline_base M_segment M_polyline_nearest.
Local Open Scope R_scope.

(* the nearest point recorded in ra comes before the one recorded in rb along the polyline: earlier segment, or the
   same segment at a smaller parameter *)
Definition before_on (ra rb : near R) : Prop :=
  (n_idx ra < n_idx rb)%nat \/ (n_idx ra = n_idx rb /\ n_t ra < n_t rb).
