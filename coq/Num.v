(* Abstract numeric operations: one model, two instances (R for theorems, Q for execution). *)
From Coq Require Import ZArith List.
Import ListNotations.

Record NumOps (F : Type) := MkNumOps {
  nofZ : Z -> F;
  nadd : F -> F -> F;
  nsub : F -> F -> F;
  nmul : F -> F -> F;
  ndiv : F -> F -> F;
  nneg : F -> F;
  nabs : F -> F;
  nsqrt : F -> F;
  nltb : F -> F -> bool;
  nleb : F -> F -> bool;
  neqb : F -> F -> bool;
  nfloor : F -> Z;
  nceil : F -> Z;
  (* trigonometry: Reals' functions on R; rational approximations on Q *)
  ncos : F -> F;
  nsin : F -> F;
  nacos : F -> F
}.

Arguments nofZ {F} _ _.
Arguments nadd {F} _ _ _.
Arguments nsub {F} _ _ _.
Arguments nmul {F} _ _ _.
Arguments ndiv {F} _ _ _.
Arguments nneg {F} _ _.
Arguments nabs {F} _ _.
Arguments nsqrt {F} _ _.
Arguments nltb {F} _ _ _.
Arguments nleb {F} _ _ _.
Arguments neqb {F} _ _ _.
Arguments nfloor {F} _ _.
Arguments nceil {F} _ _.
Arguments ncos {F} _ _.
Arguments nsin {F} _ _.
Arguments nacos {F} _ _.

Section Derived.
  Context {F : Type} (O : NumOps F).
  Definition n0 : F := nofZ O 0.
  Definition n1 : F := nofZ O 1.
  Definition n2 : F := nofZ O 2.
  (* exact rational literal p/q *)
  Definition nfrac (p q : Z) : F := ndiv O (nofZ O p) (nofZ O q).
  Definition ngtb (a b : F) : bool := nltb O b a.
  Definition ngeb (a b : F) : bool := nleb O b a.
  (* numpy.sign *)
  Definition nsign (a : F) : Z :=
    if nltb O (nofZ O 0) a then 1%Z else if nltb O a (nofZ O 0) then (-1)%Z else 0%Z.
  Definition nmin (a b : F) : F := if nleb O a b then a else b.
  Definition nmax (a b : F) : F := if nleb O a b then b else a.
  Definition nsum (l : list F) : F := fold_left (nadd O) l (nofZ O 0).
End Derived.
