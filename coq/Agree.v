(* Agreement relations between model results (over Q) and observed implementation results. *)
From Coq Require Import ZArith QArith Qabs List Bool.
From PW Require Import Num NumQ Vec Mat Result.
Import ListNotations.
Local Open Scope Q_scope.

(* an observed IEEE double *)
Inductive fl := Fin (q : Q) | FNan | FPInf | FNInf.

(* relative tolerance 1e-9 (absolute below magnitude 1) *)
Definition tol : Q := 1 # 1000000000.
Definition Qmax' (a b : Q) : Q := if Qle_bool a b then b else a.
Definition close_tol (t a b : Q) : bool :=
  Qle_bool (Qabs (a - b)) (t * Qmax' 1 (Qmax' (Qabs a) (Qabs b))).
Definition close (a b : Q) : bool := close_tol tol a b.

(* closeness relative to the magnitude `mag` of the INPUT data: a result obtained by cancellation (e.g. a signed
   distance of 1e-8 between coordinates of size 1e8) carries rounding error relative to the inputs, not to itself *)
Definition close_mag (mag a b : Q) : bool :=
  Qle_bool (Qabs (a - b)) (tol * Qmax' 1 (Qmax' mag (Qmax' (Qabs a) (Qabs b)))).
Definition fl_close_mag (mag m : Q) (o : fl) : bool :=
  match o with Fin q => close_mag mag m q | _ => false end.

Definition fl_close (m : Q) (o : fl) : bool :=
  match o with Fin q => close m q | _ => false end.
Definition fl_is_nan (o : fl) : bool := match o with FNan => true | _ => false end.

Fixpoint all2 {A B} (f : A -> B -> bool) (l : list A) (l' : list B) : bool :=
  match l, l' with
  | [], [] => true
  | a :: r, b :: r' => f a b && all2 f r r'
  | _, _ => false
  end.

Definition list_close (m : list Q) (o : list fl) : bool := all2 fl_close m o.
Definition vec_close (m : vec3 Q) (o : list fl) : bool := list_close (vlist m) o.
Definition vecs_close (m : list (vec3 Q)) (o : list (list fl)) : bool := all2 vec_close m o.
Definition mat4_close (m : mat4 Q) (o : list fl) : bool := list_close (mlist m) o.
Definition mat3_close (m : mat3 Q) (o : list fl) : bool := list_close (m3list m) o.

Definition list_close_mag mag (m : list Q) (o : list fl) : bool := all2 (fl_close_mag mag) m o.
Definition vec_close_mag mag (m : vec3 Q) (o : list fl) : bool := list_close_mag mag (vlist m) o.
Definition vecs_close_mag mag (m : list (vec3 Q)) (o : list (list fl)) : bool := all2 (vec_close_mag mag) m o.

Definition nat_list_eqb (a b : list nat) : bool := all2 Nat.eqb a b.
Definition Z_list_eqb (a b : list Z) : bool := all2 Z.eqb a b.
Definition bool_list_eqb (a b : list bool) : bool := all2 Bool.eqb a b.

(* observed outcome of a call: value or exception *)
Definition res_agree {A B} (f : A -> B -> bool) (m : result A) (o : result B) : bool :=
  match m, o with
  | Ok a, Ok b => f a b
  | Raise e, Raise e' => exn_eqb e e'
  | _, _ => false
  end.

(* indices of the cases on which check fails *)
Fixpoint failing_from {C} (check : C -> bool) (i : nat) (l : list C) : list nat :=
  match l with
  | [] => []
  | c :: r => if check c then failing_from check (S i) r else i :: failing_from check (S i) r
  end.
Definition failing {C} (check : C -> bool) (l : list C) : list nat := failing_from check 0 l.
