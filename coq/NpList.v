(* NumPy-on-lists primitives used by the list-level models (definitions only). *)
From Coq Require Import ZArith List Bool Arith.
Import ListNotations.

(* np.flatnonzero(mask) *)
Fixpoint nonzero_from (i : nat) (m : list bool) : list nat :=
  match m with
  | [] => []
  | b :: r => if b then i :: nonzero_from (S i) r else nonzero_from (S i) r
  end.
Definition flatnonzero (m : list bool) : list nat := nonzero_from 0 m.

(* arr[indices] for in-range indices (an out-of-range index raises IndexError in NumPy; the callers
   modelled here only pass indices produced by flatnonzero of a mask of the same length) *)
Fixpoint take {A} (l : list A) (idx : list nat) : list A :=
  match idx with
  | [] => []
  | i :: r => match nth_error l i with Some x => x :: take l r | None => take l r end
  end.

(* Python's modular index: -n <= i < n  ->  Some position *)
Definition python_index (n : nat) (i : Z) : option nat :=
  if (0 <=? i)%Z then (if (i <? Z.of_nat n)%Z then Some (Z.to_nat i) else None)
  else (if (- Z.of_nat n <=? i)%Z then Some (Z.to_nat (Z.of_nat n + i)) else None).

(* np.roll(l, k) for k in Z (empty list unchanged) *)
Definition roll {A} (l : list A) (k : Z) : list A :=
  match l with
  | [] => []
  | _ => let n := Z.of_nat (length l) in
         let s := Z.to_nat ((n - (k mod n)) mod n) in
         skipn s l ++ firstn s l
  end.

Fixpoint cumsum_from (acc : Z) (l : list Z) : list Z :=
  match l with [] => [] | x :: r => (acc + x)%Z :: cumsum_from (acc + x)%Z r end.
Definition cumsumZ (l : list Z) : list Z := cumsum_from 0 l.

Fixpoint zip {A B} (l : list A) (l' : list B) : list (A * B) :=
  match l, l' with a :: r, b :: r' => (a, b) :: zip r r' | _, _ => [] end.

Definition map2 {A B C} (f : A -> B -> C) (l : list A) (l' : list B) : list C :=
  map (fun ab => f (fst ab) (snd ab)) (zip l l').
