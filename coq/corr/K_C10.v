(* Correspondence for C10: the Q instance of M_rodrigues.v against observed results of the implementation. *)
From Coq Require Import ZArith QArith Qround Qabs List Bool.
From PW Require Import Num NumQ Vec Mat NpList Result Agree.
From PW.model Require Import M_rodrigues.
Import ListNotations.
Local Open Scope Q_scope.

(* Execution instance for this property: 256-bit binary fixed point (numbers are n # 2^256, never reduced).
   The exact-rational QOps spends seconds per Jacobian in gcd normalisation (products of cos, sin, 1/theta with
   unrelated denominators); fixed point needs no gcd.  Rounding is below 1e-76 absolute, far under the 1e-9
   agreement tolerance; inputs below 2^-256 flush to zero, which is the `theta < eps` branch in code and model. *)
Definition fxP : Z := 256.
Definition fx1 : Z := 2 ^ fxP.
Definition fx_pos : positive := Z.to_pos fx1.
Definition fxn (x : Q) : Z := if Pos.eqb (Qden x) fx_pos then Qnum x else (Qnum x * fx1 / Zpos (Qden x))%Z.
Definition fx (n : Z) : Q := n # fx_pos.
Definition fx_div a b := let nb := fxn b in if (nb =? 0)%Z then fx 0 else fx (fxn a * fx1 / nb).
Definition fx_sqrt a := let na := fxn a in if (na <=? 0)%Z then fx 0 else fx (Z.sqrt (na * fx1)).
Definition fx_of_fp (z : Z) : Q := fx (Z.shiftl z (fxP - fpB)).
Definition fx_to_fp (x : Q) : Z := Z.shiftr (fxn x) (fxP - fpB).
(* arccos: answered by data t (the angle the implementation used, |r_out|); check_case verifies separately that
   cos t is the model's c.  Qacos costs seconds per call; a few cases per run use it (acos = None). *)
Definition QOpsF (acos : option Q) : NumOps Q := {|
  nofZ := fun z => fx (z * fx1);
  nadd := fun a b => fx (fxn a + fxn b); nsub := fun a b => fx (fxn a - fxn b);
  nmul := fun a b => fx (Z.shiftr (fxn a * fxn b) fxP); ndiv := fx_div;
  nneg := fun a => fx (- fxn a); nabs := fun a => fx (Z.abs (fxn a)); nsqrt := fx_sqrt;
  nltb := fun a b => (fxn a <? fxn b)%Z; nleb := fun a b => (fxn a <=? fxn b)%Z; neqb := fun a b => (fxn a =? fxn b)%Z;
  nfloor := Qfloor; nceil := Qceiling;
  ncos := fun x => fx_of_fp (fp_cos (fx_to_fp x)); nsin := fun x => fx_of_fp (fp_sin (fx_to_fp x));
  nacos := fun x => match acos with Some t => t | None => Qacos x end |}.
Definition QOpsT (t : Q) : NumOps Q := QOpsF (Some t).
Definition QF : NumOps Q := QOpsF None.

(* what a call returned: shapes and flattened values of the result and (if requested) the Jacobian *)
Inductive obs :=
| OArr (shape : list nat) (vals : list fl) (jshape : list nat) (jvals : list fl).

Inductive fn := FCv2 | FR2M | FM2R.

Inductive case :=
| CCall (f : fn) (shape : list nat) (data : list Q) (jac : bool)
        (P : mat3 Q)            (* u @ v of numpy's svd of the input (3x3 inputs only; else I3) *)
        (t : Q)                 (* |r_out| observed (inverse calls) *)
        (real_acos : bool)      (* evaluate Qacos itself instead of trusting t *)
        (o : result obs).

Definition nat_eqb_list := nat_list_eqb.

Definition close_abs (t a b : Q) : bool := Qle_bool (Qabs (a - b)) t.
Definition fl_close_tol (t : Q) (m : Q) (o : fl) : bool :=
  match o with Fin q => close_tol t m q | _ => false end.
Definition list_close_tol (t : Q) (m : list Q) (o : list fl) : bool := all2 (fl_close_tol t) m o.

(* forward Jacobian: 1 - cos(theta) cancels in binary64 (cos rounds to 1 below 1.5e-8): the error of c1 * itheta is
   min(theta, 1e-16 / theta), plus ulp(theta) for many turns.  Measured on 3000 vectors: <= 0.55 (1.4 for theta in 1..10)
   times that bound; allowed: 15 times (safety factor 10), i.e. at most 1.5e-7 (at theta = 1e-8), 1e-12 for theta < 1e-13. *)
Definition jac_tol (theta : Q) : Q :=
  let cancel := if Qle_bool theta (1 # 100000000) then theta else (1 # 10000000000000000) / theta in
  (1 # 10000000000000) + 15 * (cancel + (1 # 10000000000000000) * Qmax' 1 theta).

(* inverse Jacobian, generic branch: theta = arccos c carries the rounding dc ~ 1e-16 of c amplified by 1/sin, and the entries
   w_i/(4 s^2) (theta c / s - 1) amplify it again: absolute error k_i c dc / (2 s^3) (2e-4 at an angle of 6e-5 rad; measured).
   Only visible when arccos is evaluated exactly, so it is granted only to the real_acos cases; all other cases feed the
   implementation's own angle to the model and are compared at 1e-9. *)
Definition inv_jac_extra (real_acos halfturn : bool) (s : Q) : Q :=
  if halfturn || negb real_acos then 0 else (4 # 10000000000000000) / (s * s * s).
Definition fl_close_plus (extra : Q) (m : Q) (o : fl) : bool :=
  match o with
  | Fin q => Qle_bool (Qabs (m - q)) (tol * Qmax' 1 (Qmax' (Qabs m) (Qabs q)) + extra)
  | _ => false
  end.
Definition list_close_plus (extra : Q) (m : list Q) (o : list fl) : bool := all2 (fl_close_plus extra) m o.

Definition all_nan (l : list fl) : bool := forallb fl_is_nan l.

Definition qm3 (l : list Q) : mat3 Q :=
  match l with
  | [x0; x1; x2; x3; x4; x5; x6; x7; x8] => M3 x0 x1 x2 x3 x4 x5 x6 x7 x8
  | _ => I3 QOps
  end.
Definition qv3 (l : list Q) : vec3 Q :=
  match l with [x; y; z] => V3 x y z | _ => vzero QOps end.

Definition run_model (O : NumOps Q) (f : fn) (a : @ndarr Q) (jac : bool) (P : mat3 Q) : result (@rod_out Q) :=
  match f with
  | FCv2 => cv2_rodrigues O (fun _ => P) a jac
  | FR2M => r2m_entry O a jac
  | FM2R => m2r_entry O (fun _ => P) a jac
  end.

Definition half_tol : Q := 1 # 10000000.          (* sqrt of a rounding error in the half-turn branch *)
Definition cos_tol : Q := 1 # 10000000000000.

Definition check_case (c : case) : bool :=
  match c with
  | CCall f shape data jac P t real_acos o =>
      let O := if real_acos then QF else QOpsT t in
      let a := MkNd shape data in
      match run_model O f a jac P, o with
      | Raise e, Raise e' => exn_eqb e e'
      | Ok (OutMat m j), Ok (OArr sh vals jsh jvals) =>
          let theta := rod_theta QF (qv3 data) in
          nat_list_eqb sh [3; 3]%nat && list_close (m3list m) vals &&
          match j with
          | None => nat_list_eqb jsh [] && match jvals with [] => true | _ => false end
          | Some jm => nat_list_eqb jsh [3; 9]%nat && list_close_tol (jac_tol theta) (jac39_flat jm) jvals
          end
      | Ok (OutVec v j), Ok (OArr sh vals jsh jvals) =>
          let m := qm3 data in
          let s := rod_inv_s QF P in
          let cc := rod_inv_c QF P in
          let halfturn := nltb QF s (rod_small QF) in
          let zero_branch := halfturn && nltb QF 0 cc in
          (* contract of the svd step on (nearly) orthogonal inputs: projection = input *)
          list_close (m3list P) (map Fin (m3list m)) &&
          (* t is arccos of the model's c, in [0, pi] *)
          (real_acos || zero_branch || (Qle_bool 0 t && Qle_bool t (Qpi + cos_tol) && close_abs cos_tol (Qcos t) cc)) &&
          nat_list_eqb sh [3; 1]%nat &&
          match v with
          | None => all_nan vals
          | Some mv => list_close_tol (if halfturn then half_tol else tol) (vlist mv) vals
          end &&
          match j with
          | None => nat_list_eqb jsh [] && match jvals with [] => true | _ => false end
          | Some jm => nat_list_eqb jsh [9; 3]%nat && list_close_plus (inv_jac_extra real_acos halfturn s) (concat jm) jvals
          end
      | _, _ => false
      end
  end.
