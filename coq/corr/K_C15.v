(* Correspondence for C15: the Q instance of M_tri.v against observed results of the implementation. *)
From Coq Require Import ZArith QArith Qabs List Bool.
From PW Require Import Num NumQ Vec NpList Result Agree.
From PW.model Require Import M_tri.
Import ListNotations.
Local Open Scope Q_scope.

(* one row of tri_contains_coplanar_point / coplanar_points_are_on_same_side_of_line *)
Record row4 := Row4 { r_a : vec3 Q; r_b : vec3 Q; r_c : vec3 Q; r_d : vec3 Q }.

Inductive case :=
(* surface_normals(normalize=False / True), surface_area on a stack *)
| CNormals (ts : list (tri Q)) (raw : list (list fl)) (unit : list (list fl)) (areas : list fl)
(* isint: the arrays were int64 (a zero-area triangle then gives a NaN row, see bary_intarray) *)
| CBary (isint : bool) (ts : list (tri Q)) (ps : list (vec3 Q)) (w : list (list fl))
(* exact inputs: decisions must agree exactly *)
| CContains (rows : list row4) (obs : list bool)
| CSameSide (rows : list row4) (obs : list bool)
(* sample with supplied draws; exact = all arithmetic up to the face decision is exact in binary64 *)
(* dec: per draw, whether its face decision is judged (every draw when the arithmetic up to the decision is exact in
   binary64; otherwise only draws whose u*T is 1e-8 T away from every cumulative weight -- decided by the harness, which
   also counts the undecided ones in the evidence) *)
| CSample (dec : list bool) (ts : list (tri Q)) (weights : option (list Q)) (us : list Q) (abs : list (Q * Q))
          (obs : result (list (list fl) * list nat))
| CQuads (qs : list quad) (tris : list face) (mapping : list (Z * Z))
| CEdges (nz : bool) (fs : list face) (edges : list (Z * Z))
(* default-generator runs are judged by the oracle only *)
| COracleOnly.


(* closeness relative to the magnitude `mag` of the case's own data, WITHOUT the floor at 1 of the shared relation in
   Agree.v: at scale 2^-30 a wrong value is still told apart (tolerance 1e-9 of the larger of mag, |a|, |b|) *)
Definition close_rel (mag a b : Q) : bool :=
  Qle_bool (Qabs (a - b)) (tol * Qmax' mag (Qmax' (Qabs a) (Qabs b))).
Definition fl_close_rel (mag m : Q) (o : fl) : bool := match o with Fin q => close_rel mag m q | _ => false end.
Definition list_close_rel (mag : Q) (m : list Q) (o : list fl) : bool := all2 (fl_close_rel mag) m o.
Definition vec_close_rel (mag : Q) (m : vec3 Q) (o : list fl) : bool := list_close_rel mag (vlist m) o.
Definition vecs_close_rel (mag : Q) (m : list (vec3 Q)) (o : list (list fl)) : bool := all2 (vec_close_rel mag) m o.

Definition vmag (v : vec3 Q) : Q := Qmax' (Qabs (vx v)) (Qmax' (Qabs (vy v)) (Qabs (vz v))).
(* size of a triangle's own features: twice the square of its largest edge component bounds every component of the
   cross product (and hence the area) *)
Definition tri_nmag (t : tri Q) : Q :=
  let e := Qmax' (vmag (vsub QOps (tb t) (ta t))) (vmag (vsub QOps (tc t) (ta t))) in 2 * e * e.
Definition tri_pmag (t : tri Q) : Q := Qmax' (vmag (ta t)) (Qmax' (vmag (tb t)) (vmag (tc t))).
Definition tris_pmag (ts : list (tri Q)) : Q := fold_left (fun m t => Qmax' m (tri_pmag t)) ts 0.
Definition normals_close (ts : list (tri Q)) (o : list (list fl)) : bool :=
  all2 (fun t r => vec_close_rel (tri_nmag t) (surface_normal_raw QOps t) r) ts o.
Definition areas_close (ts : list (tri Q)) (o : list fl) : bool :=
  all2 (fun t r => fl_close_rel (tri_nmag t) (surface_area QOps t) r) ts o.

(* a normalised normal of a degenerate triangle is a row of NaN *)
Definition opt_vec_close (m : option (vec3 Q)) (o : list fl) : bool :=
  match m with
  | Some v => vec_close v o
  | None => match o with [a; b; c] => fl_is_nan a && fl_is_nan b && fl_is_nan c | _ => false end
  end.

Definition face_eqb (a b : face) : bool := (f0 a =? f0 b)%Z && (f1 a =? f1 b)%Z && (f2 a =? f2 b)%Z.
Definition pair_eqb (a b : Z * Z) : bool := (fst a =? fst b)%Z && (snd a =? snd b)%Z.

(* row-by-row agreement of a sample result; an undecided draw is not judged (neither its face nor its point) *)
Fixpoint rows_agree (mag : Q) (dec : list bool) (l : list (vec3 Q * nat)) (pts : list (list fl)) (fis : list nat) : bool :=
  match dec, l, pts, fis with
  | [], [], [], [] => true
  | d :: dr, (p, i) :: lr, o :: ptr, f :: fr =>
      (negb d || (Nat.eqb i f && vec_close_rel mag p o)) && rows_agree mag dr lr ptr fr
  | _, _, _, _ => false
  end.

(* the harness may only call a draw undecided when u * T really is near a cumulative weight (within 2e-8 T, twice the
   harness's own band, so that binary64 vs exact arithmetic cannot matter): a harness bug cannot mask decided draws *)
Definition near_threshold (ws : list Q) (u : Q) : bool :=
  let T := total_weight QOps ws in
  let x := u * T in
  existsb (fun c => Qle_bool (Qabs (x - c)) ((2 # 100000000) * Qabs T)) (cumsum QOps ws).
Definition dec_honest (ts : list (tri Q)) (weights : option (list Q)) (us : list Q) (dec : list bool) : bool :=
  let ws := match weights with Some w => w | None => surface_areas QOps ts end in
  all2 (fun d u => d || near_threshold ws u) dec us.

Definition check_case (c : case) : bool :=
  match c with
  | CNormals ts raw unit areas =>
      normals_close ts raw &&
      all2 opt_vec_close (surface_normals_unit QOps ts) unit &&
      areas_close ts areas
  | CBary isint ts ps w =>
      if isint then all2 opt_vec_close (bary_pairs_intarray QOps ts ps) w else vecs_close (bary_pairs QOps ts ps) w
  | CContains rows obs =>
      bool_list_eqb (map (fun r => tri_contains QOps (r_a r) (r_b r) (r_c r) (r_d r)) rows) obs
  | CSameSide rows obs =>
      bool_list_eqb (map (fun r => same_side QOps (r_a r) (r_b r) (r_c r) (r_d r)) rows) obs
  | CSample dec ts weights us abs obs =>
      dec_honest ts weights us dec &&
      match sample QOps ts weights us abs, obs with
      | Ok l, Ok (pts, fis) => rows_agree (tris_pmag ts) dec l pts fis
      | Raise e, Raise e' => exn_eqb e e'
      (* an index past the end on one side only (the draw sat on the last threshold) is forgiven when some draw is
         undecided; any other one-sided exception is a disagreement whatever `dec` says *)
      | Ok _, Raise IndexError | Raise IndexError, Ok _ => negb (forallb (fun d => d) dec)
      | _, _ => false
      end
  | CQuads qs tris mapping =>
      all2 face_eqb (quads_to_tris qs) tris && all2 pair_eqb (quads_mapping qs) mapping
  | CEdges nz fs edges => all2 pair_eqb (edges_of_faces nz fs) edges
  | COracleOnly => true
  end.
