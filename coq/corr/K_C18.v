(* Correspondence for C18: the Q instance of M_line.v against observed results of the implementation. *)
From Coq Require Import ZArith QArith Qabs List Bool.
From PW Require Import Num NumQ Vec NpList Result Agree.
From PW.model Require Import M_line.
Import ListNotations.
Local Open Scope Q_scope.

(* A routine that returns None is observed as []; a NaN row as [FNan; FNan; FNan]. Points are compared with a
   tolerance relative to the magnitude `mg` of the input POSITIONS only, without an absolute floor: geometry at scale
   1e-9 is compared as strictly as geometry at scale 1, and the length of a direction vector (which may be 1e-300 or
   1e300) does not loosen the comparison of a projection. *)
Definition close_rel (mg a b : Q) : bool :=
  Qle_bool (Qabs (a - b)) (tol * Qmax' mg (Qmax' (Qabs a) (Qabs b))).
(* far-offset closeness, per coordinate: the feature-relative term t plus 3/4 * 2^-51 of the coordinate itself, i.e.
   between 0.75 and 1.5 ulp of it (a correctly computed position carries half an ulp from its last addition) *)
Definition close_abs (t : Q) (_ a b : Q) : bool :=
  Qle_bool (Qabs (a - b)) (t + (3 # 4) * (1 # 2251799813685248) * Qmax' (Qabs a) (Qabs b)).

Section Cmp.
(* the closeness used for positions: close_rel, or an absolute tolerance for far-offset cases (CFar) *)
Context (cl : Q -> Q -> Q -> bool).
Definition fl_close_rel (mg m : Q) (o : fl) : bool := match o with Fin q => cl mg m q | _ => false end.
Definition vec_close_rel mg (m : vec3 Q) (o : list fl) : bool := all2 (fl_close_rel mg) (vlist m) o.
Definition vecs_close_rel mg (m : list (vec3 Q)) (o : list (list fl)) : bool := all2 (vec_close_rel mg) m o.
Definition row_opt (mg : Q) (m : option (vec3 Q)) (o : list fl) : bool :=
  match m with None => match o with [] => true | _ => false end | Some v => vec_close_rel mg v o end.
Definition row_nan (mg : Q) (m : option (vec3 Q)) (o : list fl) : bool :=
  match m with
  | None => match o with [x; y; z] => fl_is_nan x && fl_is_nan y && fl_is_nan z | _ => false end
  | Some v => vec_close_rel mg v o
  end.
Definition rows_nan mg := all2 (row_nan mg).
End Cmp.
Definition vmag (v : vec3 Q) : Q := Qmax' (Qabs (vx v)) (Qmax' (Qabs (vy v)) (Qabs (vz v))).
Definition mag (ps : list (vec3 Q)) : Q := fold_left (fun m p => Qmax' m (vmag p)) ps 0.

Inductive case :=
(* project_point_to_line(p, ref, a) and Line(ref, a).project(p): the Line form goes through the constructor,
   which raises ValueError for an almost-zero direction *)
| CProj (p ref a : vec3 Q) (fn : list fl) (meth : result (list fl))
(* kx3 points, one line: the function and Line.project *)
| CProjStack (ps : list (vec3 Q)) (ref a : vec3 Q) (fn : list (list fl)) (meth : result (list (list fl)))
(* kx3 points, kx3 lines *)
| CProjPairs (ps refs alongs : list (vec3 Q)) (rows : list (list fl))
(* Line(point, along): ValueError, or the two reference points *)
| CLineCtor (point along : vec3 Q) (o : result (list (list fl)))
| CFromPoints (p1 p2 : vec3 Q) (o : result (list (list fl)))
(* intersect_lines(p0, q0, p1, q1) and Line.from_points(p0, q0).intersect_line(Line.from_points(p1, q1)) *)
| CIsect (p0 q0 p1 q1 : vec3 Q) (fn meth : list fl)
| CIsect2 (p0 q0 p1 q1 : Q * Q) (o : list fl)
(* a case judged by the oracle only (inputs outside what the exact model can usefully evaluate) *)
| CSkip
(* a small scene far from the origin: positions compared with the ABSOLUTE tolerance ptol *)
| CFar (ptol : Q) (c : case).

Definition ref_rows (l : line Q) : list (vec3 Q) := [fst (reference_points QOps l); snd (reference_points QOps l)].
Definition meth_isect (p0 q0 p1 q1 : vec3 Q) : option (vec3 Q) :=
  match line_from_points QOps p0 q0, line_from_points QOps p1 q1 with
  | Ok l, Ok l' => line_intersect_line QOps l l'
  | _, _ => None
  end.

Definition check_with (cl : Q -> Q -> Q -> bool) (c : case) : bool :=
  let row_opt := row_opt cl in let row_nan := row_nan cl in let rows_nan := rows_nan cl in
  let vecs_close_rel := vecs_close_rel cl in let fl_close_rel := fl_close_rel cl in
  match c with
  | CProj p ref a fn meth =>
      let m := mag [p; ref] in
      row_nan m (project_point_to_line QOps p ref a) fn &&
      res_agree (row_nan m) (rmap (fun l => line_project QOps l p) (line_ctor QOps ref a)) meth
  | CProjStack ps ref a fn meth =>
      let m := mag (ref :: ps) in
      rows_nan m (project_points_to_line QOps ps ref a) fn &&
      res_agree (rows_nan m) (rmap (fun l => line_project_stack QOps l ps) (line_ctor QOps ref a)) meth
  | CProjPairs ps refs alongs rows =>
      rows_nan (mag (ps ++ refs)) (project_points_to_lines QOps ps refs alongs) rows
  | CLineCtor point along o =>
      res_agree (vecs_close_rel (mag [point; along])) (rmap ref_rows (line_ctor QOps point along)) o
  | CFromPoints p1 p2 o =>
      res_agree (vecs_close_rel (mag [p1; p2])) (rmap ref_rows (line_from_points QOps p1 p2)) o
  | CIsect p0 q0 p1 q1 fn meth =>
      let m := mag [p0; q0; p1; q1] in
      row_opt m (intersect_lines QOps p0 q0 p1 q1) fn && row_opt m (meth_isect p0 q0 p1 q1) meth
  | CIsect2 p0 q0 p1 q1 o =>
      let m := (Qmax' (Qmax' (Qabs (fst p0)) (Qabs (snd p0))) (Qmax' (Qmax' (Qabs (fst q0)) (Qabs (snd q0)))
                 (Qmax' (Qmax' (Qabs (fst p1)) (Qabs (snd p1))) (Qmax' (Qabs (fst q1)) (Qabs (snd q1)))))) in
      match intersect_2d_lines QOps p0 q0 p1 q1, o with
      | None, [] => true
      | Some x, [ox; oy] => fl_close_rel m (fst x) ox && fl_close_rel m (snd x) oy
      | _, _ => false
      end
  | CSkip => true
  | CFar _ _ => false
  end.

Definition check_case (c : case) : bool :=
  match c with
  | CFar t c' => check_with (close_abs t) c'
  | _ => check_with close_rel c
  end.
