(* Correspondence for C01 (shared machinery in K_slicing.v). *)
From PW.corr Require Export K_slicing.
Definition check_case (c : case) : bool := check_slicing c.
