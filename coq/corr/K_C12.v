(* Correspondence for C12: the Q instance of M_viewing.v against observed matrices of the implementation.
   Every case records what the implementation returned for inverse=False and for inverse=True. *)
From Coq Require Import ZArith QArith Qabs List Bool.
From PW Require Import Num NumQ Vec Mat Result Agree.
From PW.model Require Import M_viewing.
Import ListNotations.
Local Open Scope Q_scope.

(* observed: an exception class, or the 16 entries (row major) *)
Definition obs := result (list fl).

Inductive case :=
| CW2V (position target up : vec3 Q) (fwd inv : obs)
| COrtho (w h near far : Q) (fwd inv : obs)
| CViewport (xr yb xl yt : Q) (fwd inv : obs)
| CCanvas (w h : Q) (position target : vec3 Q) (zoom : Q) (fwd inv : obs).

Definition Qmaxabs (l : list Q) : Q := fold_left (fun acc x => Qmax' acc (Qabs x)) l 1.

(* entries compared relative to the largest entry of the matrix and to the magnitude `mag` of the inputs that are
   added up in the translation column (those entries are obtained by cancellation) *)
Definition vabs1 (v : vec3 Q) : Q := Qabs (vx v) + Qabs (vy v) + Qabs (vz v).
Definition mat_close_scaled (mag : Q) (m : mat4 Q) (o : list fl) : bool :=
  let s := Qmax' mag (Qmaxabs (mlist m)) in
  all2 (fun a b => match b with Fin q => Qle_bool (Qabs (a - q)) (tol * s) | _ => false end) (mlist m) o.
(* entries compared one by one, relative to their own size (no cancellation in these matrices) *)
Definition entry_close (a : Q) (b : fl) : bool :=
  match b with Fin q => Qle_bool (Qabs (a - q)) (tol * Qmax' (Qabs a) (Qabs q)) | _ => false end.
Definition mat_close_entrywise (m : mat4 Q) (o : list fl) : bool := all2 entry_close (mlist m) o.

Definition has_nan (o : list fl) : bool := existsb fl_is_nan o.

Definition agree_opt (mag : Q) (m : option (mat4 Q)) (o : obs) : bool :=
  match m, o with
  | Some a, Ok l => mat_close_scaled mag a l
  | None, Ok l => has_nan l && Nat.eqb (length l) 16
  | _, Raise _ => false
  end.
Definition agree_res (m : result (mat4 Q)) (o : obs) : bool :=
  match m, o with
  | Ok a, Ok l => mat_close_entrywise a l
  | Raise e, Raise e' => exn_eqb e e'
  | _, _ => false
  end.
Definition agree_res_opt (mag : Q) (m : result (option (mat4 Q))) (o : obs) : bool :=
  match m, o with
  | Ok a, Ok _ => agree_opt mag a o
  | Raise e, Raise e' => exn_eqb e e'
  | _, _ => false
  end.

Definition check_case (c : case) : bool :=
  match c with
  | CW2V p t u fwd inv =>
      let mag := vabs1 p in
      agree_opt mag (world_to_view QOps p t u false) fwd && agree_opt mag (world_to_view QOps p t u true) inv
  | COrtho w h n f fwd inv =>
      agree_res (view_to_orthographic_projection QOps w h n f false) fwd &&
      agree_res (view_to_orthographic_projection QOps w h n f true) inv
  | CViewport xr yb xl yt fwd inv =>
      agree_res (viewport_transform QOps xr yb xl yt false) fwd &&
      agree_res (viewport_transform QOps xr yb xl yt true) inv
  | CCanvas w h p t zoom fwd inv =>
      (* forward entries are sums of terms of size zoom*|position|, w, h; inverse entries of size |position|, w/zoom, h/zoom, far+near *)
      agree_res_opt (Qabs zoom * vabs1 p + Qabs w + Qabs h) (world_to_canvas QOps w h p t zoom false) fwd &&
      agree_res_opt (if Qeq_bool zoom 0 then 1 else vabs1 p + (Qabs w + Qabs h) / Qabs zoom + 2001)
                    (world_to_canvas QOps w h p t zoom true) inv
  end.
