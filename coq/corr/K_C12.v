(* Correspondence for C12: the Q instance of M_viewing.v against observed matrices of the implementation.
   Every case records what the implementation returned for inverse=False and for inverse=True. *)
From Coq Require Import ZArith QArith Qabs List Bool.
From PW Require Import Num NumQ Vec Mat Result Agree.
From PW.model Require Import M_viewing.
Import ListNotations.
Local Open Scope Q_scope.

(* observed: an exception class, or the 16 entries (row major) *)
Definition obs := result (list fl).

Inductive case :=
| CW2V (position target up : vec3 Q) (fwd inv : obs)
| COrtho (w h near far : Q) (fwd inv : obs)
| CViewport (xr yb xl yt : Q) (fwd inv : obs)
| CCanvas (w h : Q) (position target : vec3 Q) (zoom : Q) (fwd inv : obs)
(* generated and observed, judged by the Python oracle only or not at all (all-float32 inputs: single precision results;
   magnitudes outside about 1e-154..1e154: binary64 overflow/underflow inside vg.normalize) — counted by kind in the evidence *)
| CUnjudged.

Definition Qmaxabs (l : list Q) : Q := fold_left (fun acc x => Qmax' acc (Qabs x)) l 1.

(* entries compared relative to the largest entry of the matrix and to the magnitude `mag` of the inputs that are
   added up in the translation column (those entries are obtained by cancellation) *)
Definition vabs1 (v : vec3 Q) : Q := Qabs (vx v) + Qabs (vy v) + Qabs (vz v).
(* Camera / canvas matrices, compared part by part (no absolute floor anywhere):
   - the 3x3 block: products without cancellation across rows; entry (i,j) is compared relative to the largest entry of
     its row (forward matrices: row i carries the factor of stage scale i) or of its column (inverse matrices: column j
     carries it).  Input magnitudes play no role here, so a camera at |position| ~ 1e9 is compared as strictly as one at 0;
   - the translation column: obtained by cancellation of terms of the size of the inputs, compared relative to `tmag`
     (per row) or to the entry itself;
   - the last row 0 0 0 1: to 1e-9. *)
Definition maxabs3 (a b c : Q) : Q := Qmax' (Qabs a) (Qmax' (Qabs b) (Qabs c)).
Definition within (t a : Q) (b : fl) : bool :=
  match b with Fin q => Qle_bool (Qabs (a - q)) t | _ => false end.
Definition mat_close_parts (byrow : bool) (tmag : vec3 Q) (m : mat4 Q) (o : list fl) : bool :=
  let r0 := maxabs3 (m00 m) (m01 m) (m02 m) in
  let r1 := maxabs3 (m10 m) (m11 m) (m12 m) in
  let r2 := maxabs3 (m20 m) (m21 m) (m22 m) in
  let c0 := maxabs3 (m00 m) (m10 m) (m20 m) in
  let c1 := maxabs3 (m01 m) (m11 m) (m21 m) in
  let c2 := maxabs3 (m02 m) (m12 m) (m22 m) in
  let s (r c : Q) := tol * (if byrow then r else c) in
  let t (g a : Q) := tol * Qmax' g (Qabs a) in
  match o with
  | [o00; o01; o02; o03; o10; o11; o12; o13; o20; o21; o22; o23; o30; o31; o32; o33] =>
      within (s r0 c0) (m00 m) o00 && within (s r0 c1) (m01 m) o01 && within (s r0 c2) (m02 m) o02 &&
      within (t (vx tmag) (m03 m)) (m03 m) o03 &&
      within (s r1 c0) (m10 m) o10 && within (s r1 c1) (m11 m) o11 && within (s r1 c2) (m12 m) o12 &&
      within (t (vy tmag) (m13 m)) (m13 m) o13 &&
      within (s r2 c0) (m20 m) o20 && within (s r2 c1) (m21 m) o21 && within (s r2 c2) (m22 m) o22 &&
      within (t (vz tmag) (m23 m)) (m23 m) o23 &&
      within tol (m30 m) o30 && within tol (m31 m) o31 && within tol (m32 m) o32 && within tol (m33 m) o33
  | _ => false
  end.
(* entries compared one by one, relative to their own size (no cancellation in these matrices) *)
Definition entry_close (a : Q) (b : fl) : bool :=
  match b with Fin q => Qle_bool (Qabs (a - q)) (tol * Qmax' (Qabs a) (Qabs q)) | _ => false end.
Definition mat_close_entrywise (m : mat4 Q) (o : list fl) : bool := all2 entry_close (mlist m) o.

Definition has_nan (o : list fl) : bool := existsb fl_is_nan o.

Definition agree_opt (byrow : bool) (tmag : vec3 Q) (m : option (mat4 Q)) (o : obs) : bool :=
  match m, o with
  | Some a, Ok l => mat_close_parts byrow tmag a l
  | None, Ok l => has_nan l && Nat.eqb (length l) 16
  | _, Raise _ => false
  end.
Definition agree_res (m : result (mat4 Q)) (o : obs) : bool :=
  match m, o with
  | Ok a, Ok l => mat_close_entrywise a l
  | Raise e, Raise e' => exn_eqb e e'
  | _, _ => false
  end.
Definition agree_res_opt (byrow : bool) (tmag : vec3 Q) (m : result (option (mat4 Q))) (o : obs) : bool :=
  match m, o with
  | Ok a, Ok _ => agree_opt byrow tmag a o
  | Raise e, Raise e' => exn_eqb e e'
  | _, _ => false
  end.

Definition check_case (c : case) : bool :=
  match c with
  | CW2V p t u fwd inv =>
      let g := vabs1 p in
      agree_opt true (V3 g g g) (world_to_view QOps p t u false) fwd &&
      agree_opt false (V3 g g g) (world_to_view QOps p t u true) inv
  | COrtho w h n f fwd inv =>
      agree_res (view_to_orthographic_projection QOps w h n f false) fwd &&
      agree_res (view_to_orthographic_projection QOps w h n f true) inv
  | CViewport xr yb xl yt fwd inv =>
      agree_res (viewport_transform QOps xr yb xl yt false) fwd &&
      agree_res (viewport_transform QOps xr yb xl yt true) inv
  | CCanvas w h p t zoom fwd inv =>
      (* forward translation entries: x row zoom*(left.position) + w/2, y row zoom*(up.position) + h/2,
         z row (look.position)/1999.9 + constants below 2; inverse: position + terms of size (w+h)/zoom and far+near *)
      let g := vabs1 p in
      agree_res_opt true (V3 (Qabs zoom * g + Qabs w) (Qabs zoom * g + Qabs h) (g / 1000 + 2))
                    (world_to_canvas QOps w h p t zoom false) fwd &&
      let gi := if Qeq_bool zoom 0 then 1 else g + (Qabs w + Qabs h) / Qabs zoom + 2001 in
      agree_res_opt false (V3 gi gi gi) (world_to_canvas QOps w h p t zoom true) inv
  | CUnjudged => true
  end.
