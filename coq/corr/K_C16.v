(* Correspondence for C16: the Q instance of M_shapes.v against what rectangular_prism / cube / triangular_prism returned
   (indexed form: vertices and faces; flattened form: 3x3 coordinate blocks). *)
From Coq Require Import ZArith QArith Qabs List Bool.
From PW Require Import Num NumQ Vec Result Agree.
From PW.model Require Import M_shapes.
Import ListNotations.
Local Open Scope Q_scope.

(* observed: exception class, or (vertex rows, face rows, flattened rows of 9 numbers) *)
Definition oshape := result (list (list fl) * list (list nat) * list (list fl)).

Inductive case :=
| CRect (origin size : vec3 Q) (o : oshape)
| CCube (origin : vec3 Q) (size : pynum Q) (o : oshape)
| CTri (p1 p2 p3 : vec3 Q) (height : pynum Q) (o : oshape).

Definition vmaxabs (v : vec3 Q) : Q := Qmax' (Qabs (vx v)) (Qmax' (Qabs (vy v)) (Qabs (vz v))).
Definition face_row (f : face) : list nat := let '(a, b, c) := f in [a; b; c].
Definition tri_row (t : option (vec3 Q * vec3 Q * vec3 Q)) : list Q :=
  match t with Some (a, b, c) => vlist a ++ vlist b ++ vlist c | None => [] end.

(* closeness relative to the magnitude of the inputs only (no absolute floor): a prism of size 1e-9 is compared as
   strictly as one of size 1 *)
Definition close_rel (mag a b : Q) : bool :=
  Qle_bool (Qabs (a - b)) (tol * Qmax' mag (Qmax' (Qabs a) (Qabs b))).
Definition fl_close_rel (mag m : Q) (o : fl) : bool := match o with Fin q => close_rel mag m q | _ => false end.
Definition list_close_rel mag (m : list Q) (o : list fl) : bool := all2 (fl_close_rel mag) m o.
Definition vecs_close_rel mag (m : list (vec3 Q)) (o : list (list fl)) : bool :=
  all2 (fun v r => list_close_rel mag (vlist v) r) m o.

Definition agree (mag : Q) (m : result (list (vec3 Q) * list face)) (o : oshape) : bool :=
  match m, o with
  | Ok (vs, fs), Ok (ov, ofs, oflat) =>
      vecs_close_rel mag vs ov && all2 nat_list_eqb (map face_row fs) ofs &&
      all2 (list_close_rel mag) (map tri_row (flatten vs fs)) oflat
  | Raise e, Raise e' => exn_eqb e e'
  | _, _ => false
  end.

Definition pymag (x : pynum Q) : Q := match x with PyFloat q => Qabs q | _ => 0 end.

Definition check_case (c : case) : bool :=
  match c with
  | CRect origin size o => agree (vmaxabs origin + vmaxabs size) (Ok (rectangular_prism QOps origin size)) o
  | CCube origin size o => agree (vmaxabs origin + pymag size) (cube QOps origin size) o
  | CTri p1 p2 p3 h o =>
      agree (Qmax' (vmaxabs p1) (Qmax' (vmaxabs p2) (vmaxabs p3)) + pymag h) (triangular_prism QOps p1 p2 p3 h) o
  end.
