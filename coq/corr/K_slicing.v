(* Correspondence shared by C01 and C02: the Q instance of M_slicing.v against observed results of
   polliwog.plane.slice_triangles_by_plane and of unique_bincount. *)
From Coq Require Import ZArith QArith Qabs List Bool Arith.
From PW Require Import Num NumQ Vec NpList Result Agree.
From PW.model Require Import M_slicing.
Import ListNotations.
Local Open Scope Q_scope.

(* everything observed of one returned tuple: rows, dtypes and shapes included *)
Record obs := Obs {
  ob_v : list (list fl);          (* returned vertices, row by row *)
  ob_f : list (list nat);         (* returned faces, row by row *)
  ob_map : option (list nat);     (* face mapping when requested *)
  ob_vcols : nat; ob_fcols : nat; (* shape[1] of vertices / faces (3 also for empty arrays) *)
  ob_ndims_ok : bool;             (* vertices.ndim = faces.ndim = 2, mapping.ndim = 1 *)
  ob_vf64 : bool; ob_fi64 : bool; ob_mapi64 : bool  (* dtypes: float64, int64, int64 *) }.

Inductive case :=
| CSlice (vdt : vdtype) (fdt : idtype) (vs : list (vec3 Q)) (fs : list face) (ref n : vec3 Q) (mask : option (list bool)) (o : result obs)
(* a face array with negative (wrapping) entries *)
| CSliceZ (vs : list (vec3 Q)) (fsz : list zface) (ref n : vec3 Q) (mask : option (list bool)) (o : result obs)
(* slice_faces_plane called directly (no wrapper): dtype of the returned vertices, faces int64? *)
| CKernelDt (vdt : vdtype) (fdt : idtype) (vs : list (vec3 Q)) (fs : list face) (ref n : vec3 Q) (mask : option (list bool))
            (o : result (vdtype * bool))
| CUnique (vals uniq inv : list nat).

Definition face_rows (fs : list face) : list (list nat) := map (fun f => [fget f 0; fget f 1; fget f 2]) fs.

(* Tolerance on the returned coordinates, ABSOLUTE and made of two parts:
   - 1e-11 * feature size, the feature size being the largest |v - reference point| over the input vertices: a cut vertex is
     p + t (q - p) with t computed from offsets of that size in a handful of flops.  It is NOT relative to the magnitude of the
     coordinates: a small mesh far from the origin is compared as strictly as the same mesh at the origin (a formula that
     subtracts two large dot products instead of taking differences first must not pass);
   - 2^-50 * coordinate magnitude (4 units in the last place): binary64 cannot store a coordinate more precisely.
   No absolute floor: meshes of size 1e-12 are compared as strictly, relative to their size, as meshes of size 1. *)
Definition vmag (v : vec3 Q) : Q := Qmax' (Qabs (vx v)) (Qmax' (Qabs (vy v)) (Qabs (vz v))).
Definition mesh_mag (vs : list (vec3 Q)) (ref : vec3 Q) : Q :=
  fold_left (fun m p => Qmax' m (vmag p)) vs (vmag ref).
Definition mesh_feat (vs : list (vec3 Q)) (ref : vec3 Q) : Q :=
  fold_left (fun m p => Qmax' m (vmag (vsub QOps p ref))) vs 0.
Definition stol : Q := 1 # 100000000000.
Definition ueps : Q := 1 # 1125899906842624.
Definition coord_tol (vs : list (vec3 Q)) (ref : vec3 Q) : Q := stol * mesh_feat vs ref + ueps * mesh_mag vs ref.
Definition close_abs (t a b : Q) : bool := Qle_bool (Qabs (a - b)) t.
Definition fl_close_abs (t m : Q) (o : fl) : bool := match o with Fin q => close_abs t m q | _ => false end.
Definition vec_close_abs t (m : vec3 Q) (o : list fl) : bool := all2 (fl_close_abs t) (vlist m) o.
Definition vecs_close_abs t (m : list (vec3 Q)) (o : list (list fl)) : bool := all2 (vec_close_abs t) m o.

Definition check_obs (t : Q) (m : mesh_out Q) (o : obs) : bool :=
  vecs_close_abs t (mo_v m) (ob_v o) &&
  all2 nat_list_eqb (face_rows (mo_f m)) (ob_f o) &&
  match ob_map o with None => true | Some mp => nat_list_eqb (mo_map m) mp end &&
  Nat.eqb (ob_vcols o) 3 && Nat.eqb (ob_fcols o) 3 && ob_ndims_ok o &&
  ob_vf64 o && ob_fi64 o && ob_mapi64 o.

(* the dtype model of the wrapper against the observed dtypes (or the exception class) *)
Definition is_f64 (d : vdtype) : bool := match d with VF64 => true | _ => false end.
Definition is_i64 (d : idtype) : bool := match d with I64 => true | _ => false end.
Definition check_dtypes (m : result out_dtypes) (o : result obs) : bool :=
  match m, o with
  | Ok d, Ok ob => Bool.eqb (ob_vf64 ob) (is_f64 (dt_v d)) && Bool.eqb (ob_fi64 ob) (is_i64 (dt_f d)) &&
                   Bool.eqb (ob_mapi64 ob) (is_i64 (dt_map d))
  | Raise e, Raise e' => exn_eqb e e'
  | _, _ => false
  end.

Definition vdtype_eqb (a b : vdtype) : bool :=
  match a, b with VF64, VF64 | VF32, VF32 | VF16, VF16 | VInt, VInt => true | _, _ => false end.

Definition check_slicing (c : case) : bool :=
  match c with
  | CSlice vdt fdt vs fs ref n mask o =>
      res_agree (check_obs (coord_tol vs ref)) (slice_triangles_by_plane QOps vs fs ref n mask) o &&
      check_dtypes (slice_triangles_by_plane_dtypes QOps vdt fdt vs fs ref n mask) o
  | CSliceZ vs fsz ref n mask o => res_agree (check_obs (coord_tol vs ref)) (slice_triangles_by_plane_z QOps vs fsz ref n mask) o
  | CKernelDt vdt fdt vs fs ref n mask o =>
      res_agree (fun d ob => vdtype_eqb (dt_v d) (fst ob) && Bool.eqb (is_i64 (dt_f d)) (snd ob))
                (rbind (slice_faces_plane_path QOps (merge_tol QOps) vs fs n ref (option_map flatnonzero mask))
                       (fun p => if kernel_faces_ok fdt p then Ok (kernel_dtypes vdt p) else Raise ValueError)) o
  | CUnique vals u i => nat_list_eqb (fst (unique_bincount vals)) u && nat_list_eqb (snd (unique_bincount vals)) i
  end.
