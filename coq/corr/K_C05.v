(* Correspondence for C05: the Q instance of M_plane.v against observed results of the implementation. *)
From Coq Require Import ZArith QArith Qabs List Bool.
From PW Require Import Num NumQ Vec NpList Result Agree.
From PW.model Require Import M_plane.
Import ListNotations.
Local Open Scope Q_scope.

(* everything observed for one Plane object and one stack of points *)
Record plane_obs := PlaneObs {
  o_sd : list fl; o_sign : list Z; o_dist : list fl;
  o_front : list nat; o_front_inv : list nat; o_onfront : list nat; o_onfront_inv : list nat;
  o_front_pts : list (list fl); o_onfront_inv_pts : list (list fl);
  o_front_inv_pts : list (list fl); o_onfront_pts : list (list fl);
  o_single_sign : list Z; o_single_dist : list fl; o_single_mirror : list (list fl);
  o_proj : list (list fl); o_mirror : list (list fl);
  o_eq : list fl; o_canon : list fl; o_flip_eq : list fl;
  o_single_sd : list fl  (* signed_distance of each point passed alone *) }.

Inductive case :=
| CPlane (exact : bool) (pl : plane Q) (ps : list (vec3 Q)) (o : plane_obs)
(* module-level functions with one shared equation *)
| CShared (ps : list (vec3 Q)) (e : peq Q) (sd : list fl) (proj mirr : list (list fl))
(* one equation per point *)
| CPairs (ps : list (vec3 Q)) (es : list (peq Q)) (sd : list fl) (proj mirr : list (list fl)).

Definition eqlist (e : peq Q) : list Q := [ea e; eb e; ec e; ed e].

(* a sign may only be compared when the exact value is away from zero, unless arithmetic was exact *)
Definition band : Q := 1 # 100000000.
Definition vmag (v : vec3 Q) : Q := Qmax' (Qabs (vx v)) (Qmax' (Qabs (vy v)) (Qabs (vz v))).
(* magnitude of the data: rounding of a signed distance is relative to it *)
Definition mag (pl : plane Q) (ps : list (vec3 Q)) : Q :=
  fold_left (fun m p => Qmax' m (vmag p)) ps (Qmax' 1 (vmag (pref pl))).
Definition decided (exact : bool) (m sd : Q) : bool := exact || negb (Qle_bool (Qabs sd) (band * m)).
Definition all_decided exact pl ps := forallb (fun p => decided exact (mag pl ps) (plane_sd QOps pl p)) ps.
(* per-point decisions: rows whose exact signed distance sits inside the rounding band are left out of the discrete
   comparisons, all other rows are compared *)
Definition decided_rows exact pl ps : list bool := map (fun p => decided exact (mag pl ps) (plane_sd QOps pl p)) ps.
Definition keep_decided (dec : list bool) (idx : list nat) : list nat :=
  filter (fun i => nth i dec false) idx.
Fixpoint signs_agree (dec : list bool) (m o : list Z) : bool :=
  match dec, m, o with
  | [], [], [] => true
  | d :: dr, a :: mr, b :: or_ => (negb d || Z.eqb a b) && signs_agree dr mr or_
  | _, _, _ => false
  end.
Definition idx_agree dec (m o : list nat) : bool := nat_list_eqb (keep_decided dec m) (keep_decided dec o).

Definition check_case (c : case) : bool :=
  match c with
  | CPlane exact pl ps o =>
      let dec := all_decided exact pl ps in
      let m := mag pl ps in
      list_close_mag m (map (plane_sd QOps pl) ps) (o_sd o) &&
      list_close_mag m (map (plane_sd QOps pl) ps) (o_single_sd o) &&
      list_close_mag m (map (plane_distance QOps pl) ps) (o_dist o) &&
      vecs_close_mag m (map (plane_project QOps pl) ps) (o_proj o) &&
      vecs_close_mag m (map (plane_mirror QOps pl) ps) (o_mirror o) &&
      list_close_mag m (eqlist (plane_equation QOps pl)) (o_eq o) &&
      list_close_mag m (eqlist (plane_equation QOps (flipped QOps pl))) (o_flip_eq o) &&
      vec_close_mag m (canonical_point QOps pl) (o_canon o) &&
      list_close_mag m (map (plane_distance QOps pl) ps) (o_single_dist o) &&
      vecs_close_mag m (map (plane_mirror QOps pl) ps) (o_single_mirror o) &&
      (let dr := decided_rows exact pl ps in
       signs_agree dr (map (plane_sign QOps pl) ps) (o_sign o) &&
       signs_agree dr (map (plane_sign QOps pl) ps) (o_single_sign o) &&
       idx_agree dr (points_in_front_idx QOps pl false ps) (o_front o) &&
       idx_agree dr (points_in_front_idx QOps pl true ps) (o_front_inv o) &&
       idx_agree dr (points_on_or_in_front_idx QOps pl false ps) (o_onfront o) &&
       idx_agree dr (points_on_or_in_front_idx QOps pl true ps) (o_onfront_inv o)) &&
      (negb dec ||
       (vecs_close (points_in_front QOps pl false ps) (o_front_pts o) &&
        vecs_close (points_in_front QOps pl true ps) (o_front_inv_pts o) &&
        vecs_close (points_on_or_in_front QOps pl false ps) (o_onfront_pts o) &&
        vecs_close (points_on_or_in_front QOps pl true ps) (o_onfront_inv_pts o)))
  | CShared ps e sd proj mirr =>
      list_close (sd_stack QOps ps e) sd &&
      vecs_close (project_stack QOps ps e) proj &&
      vecs_close (mirror_stack QOps ps e) mirr
  | CPairs ps es sd proj mirr =>
      list_close (sd_pairs QOps ps es) sd &&
      vecs_close (project_pairs QOps ps es) proj &&
      vecs_close (mirror_pairs QOps ps es) mirr
  end.
