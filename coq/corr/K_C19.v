(* Correspondence for C19: the Q instance of M_serialize.v against what rounded / serialize / validate /
   deserialize of the implementation returned (documents also after json.dumps / json.loads), the verdicts of
   the real jsonschema validator on corrupted documents, and the schema term against the extracted schema.json. *)
From Coq Require Import ZArith QArith Qabs Qround List Bool String.
From PW Require Import Num NumQ Vec NpList Result Agree.
From PW.model Require Import M_polyline_base M_plane M_serialize.
Import ListNotations.
Local Open Scope Q_scope.
Local Open Scope string_scope.

(* k / 10^d is not a double: the observed value is its correctly rounded quotient.  Purely relative (no absolute
   floor): a result at scale 1e-9 is compared as strictly as one at scale 1; an exact 0 must be observed as 0. *)
Definition tol15 : Q := 1 # 1000000000000000.
Definition close15 (a b : Q) : bool := Qle_bool (Qabs (a - b)) (tol15 * Qmax' (Qabs a) (Qabs b)).
Definition num_agree (m : Q) (o : fl) : bool := match o with Fin q => close15 m q | _ => false end.
Definition vec_agree (m : vec3 Q) (o : list fl) : bool := all2 num_agree (vlist m) o.

Fixpoint json_agree (m : json Q) (o : json fl) : bool :=
  match m, o with
  | JNull, JNull => true
  | JBool a, JBool b => Bool.eqb a b
  | JNum x, JNum y => num_agree x y
  | JStr a, JStr b => String.eqb a b
  | JArr l, JArr l' =>
      (fix go (a : list (json Q)) (b : list (json fl)) : bool :=
         match a, b with [], [] => true | x :: r, y :: r' => json_agree x y && go r r' | _, _ => false end) l l'
  | JObj l, JObj l' =>
      (fix go (a : list (string * json Q)) (b : list (string * json fl)) : bool :=
         match a, b with
         | [], [] => true
         | (k, x) :: r, (k', y) :: r' => String.eqb k k' && json_agree x y && go r r'
         | _, _ => false
         end) l l'
  | _, _ => false
  end.

Record opoly := OPoly { o_v : list (list fl); o_closed : bool }.
Definition poly_agree (p : polyline Q) (o : opoly) : bool :=
  all2 vec_agree (pv p) (o_v o) && Bool.eqb (pclosed p) (o_closed o).
Record oplane := OPlane { o_ref : list fl; o_normal : list fl }.
Definition plane_agree (p : plane Q) (o : oplane) : bool := vec_agree (pref p) (o_ref o) && vec_agree (pnormal p) (o_normal o).

(* observed outcome: a value, a builtin exception class, or a refusal by the validator (jsonschema.ValidationError).
   The models mark a refusal with OtherError; it agrees with ORefused only, never with an unrelated exception. *)
Inductive ores (A : Type) := OOk (a : A) | ORaise (e : exn) | ORefused.
Arguments OOk {A}. Arguments ORaise {A}. Arguments ORefused {A}.
Definition ores_agree {A B} (f : A -> B -> bool) (m : result A) (o : ores B) : bool :=
  match m, o with
  | Ok a, OOk b => f a b
  | Raise OtherError, ORefused => true
  | Raise OtherError, _ => false
  | Raise e, ORaise e' => exn_eqb e e'
  | _, _ => false
  end.

(* Rounding of one coordinate.  When x * 10^d is exact in binary64 (<= 20 significant bits) np.around is the exact
   decimal rounding, ties to even, and is compared as such.  For a full-mantissa x the product is rounded before rint:
   within the noise of a tie (1e-3 of a unit, plus 2^-52 relative to the scaled value: twice the rounding error of the product) the neighbouring decimal is also
   possible, and only the property's own bound (half a unit of the last kept decimal) is demanded there. *)
Definition near_tie (d : nat) (x : Q) : bool :=
  let y := x * inject_Z (10 ^ Z.of_nat d) in
  let f := y - inject_Z (Qfloor y) in
  Qle_bool (Qabs (f - (1 # 2))) ((1 # 1000) + (1 # 4503599627370496) * Qabs y).
Definition within_half_unit (d : nat) (x : Q) (o : fl) : bool :=
  match o with
  | Fin q => Qle_bool (Qabs (q - x)) ((1 # 2) / inject_Z (10 ^ Z.of_nat d) + tol15 * Qmax' (Qabs x) (Qabs q))
  | _ => false
  end.
Definition round_agree (exact : bool) (d : nat) (x : Q) (o : fl) : bool :=
  within_half_unit d x o &&
  (num_agree (round_dec QOps d x) o || (negb exact && near_tie d x)).
Definition vec_round (exact : bool) d (v : vec3 Q) (o : list fl) : bool := all2 (round_agree exact d) (vlist v) o.
Definition poly_round (exact : bool) d (p : polyline Q) (o : opoly) : bool :=
  all2 (vec_round exact d) (pv p) (o_v o) && Bool.eqb (pclosed p) (o_closed o).
Definition jvec_round (exact : bool) d (v : vec3 Q) (j : json fl) : bool :=
  match j with JArr [JNum a; JNum b; JNum c] => vec_round exact d v [a; b; c] | _ => false end.
Definition poly_ser_round (exact : bool) d (p : polyline Q) (j : json fl) : bool :=
  match j with
  | JObj [(k1, JArr rows); (k2, JBool c)] =>
      String.eqb k1 "vertices" && String.eqb k2 "isClosed" && Bool.eqb c (pclosed p) &&
      all2 (jvec_round exact d) (pv p) rows
  | _ => false
  end.
Definition plane_round (er en : bool) pd dd (pl : plane Q) (o : oplane) : bool :=
  vec_round er pd (pref pl) (o_ref o) && vec_round en dd (pnormal pl) (o_normal o).
Definition plane_ser_round (er en : bool) pd dd (pl : plane Q) (j : json fl) : bool :=
  match j with
  | JObj [(k1, a); (k2, b)] =>
      String.eqb k1 "referencePoint" && String.eqb k2 "unitNormal" && jvec_round er pd (pref pl) a && jvec_round en dd (pnormal pl) b
  | _ => false
  end.

Inductive case :=
(* Polyline p, decimals d: serialize(d); validate verdict; deserialize(loads(dumps(serialize(d)))); rounded(d) *)
| CPolyline (exact : bool) (p : polyline Q) (d : nat) (ser : json fl) (valid : bool) (deser : ores opoly) (rounded : opoly)
(* Plane: serialize(pd, dd) or its exception; validate verdict; deserialize of the text round trip; rounded(pd, dd);
   er / en: reference point / normal have <= 20 significant bits *)
| CPlane (er en : bool) (pl : plane Q) (pd dd : nat) (ser : ores (json fl)) (valid : bool)
         (deser : ores oplane) (rounded : ores oplane)
(* a (possibly corrupted) document: jsonschema's verdict and the outcome of deserialize *)
| CDocPolyline (doc : json Q) (accepted : bool) (deser : ores opoly)
| CDocPlane (doc : json Q) (accepted : bool) (deser : ores oplane)
(* "definitions" of schema.json as extracted on this run *)
| CSchema (defs : list (string * schema))
(* a document the rational model cannot represent (NaN / Infinity tokens): recorded, not compared *)
| CSkip
| CFail.

Definition check_case (c : case) : bool :=
  match c with
  | CPolyline exact p d ser valid deser rounded =>
      poly_ser_round exact d p ser &&
      Bool.eqb (pl_validate (pl_serialize QOps d p)) valid &&
      ores_agree (fun _ o => poly_round exact d p o) (pl_deserialize (pl_serialize QOps d p)) deser &&
      poly_round exact d p rounded
  | CPlane er en pl pd dd ser valid deser rounded =>
      ores_agree (fun _ o => plane_round er en pd dd pl o) (plane_rounded QOps pd dd pl) rounded &&
      ores_agree (fun _ j => plane_ser_round er en pd dd pl j) (plane_serialize QOps pd dd pl) ser &&
      match plane_serialize QOps pd dd pl with
      | Ok j => Bool.eqb (plane_validate j) valid &&
                ores_agree (fun _ o => plane_round er en pd dd pl o) (plane_deserialize QOps j) deser
      | Raise _ => true
      end
  | CDocPolyline doc accepted deser =>
      Bool.eqb (pl_validate doc) accepted && ores_agree poly_agree (pl_deserialize doc) deser
  | CDocPlane doc accepted deser =>
      Bool.eqb (plane_validate doc) accepted && ores_agree plane_agree (plane_deserialize QOps doc) deser
  | CSchema defs => defs_eqb defs polliwog_defs
  | CSkip => true
  | CFail => false
  end.
