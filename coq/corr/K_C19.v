(* Correspondence for C19: the Q instance of M_serialize.v against what rounded / serialize / validate /
   deserialize of the implementation returned (documents also after json.dumps / json.loads), the verdicts of
   the real jsonschema validator on corrupted documents, and the schema term against the extracted schema.json. *)
From Coq Require Import ZArith QArith Qabs Qround List Bool String.
From PW Require Import Num NumQ Vec NpList Result Agree.
From PW.model Require Import M_polyline_base M_plane M_serialize.
Import ListNotations.
Local Open Scope Q_scope.

(* k / 10^d is not a double: the observed value is its correctly rounded quotient *)
Definition tol15 : Q := 1 # 1000000000000000.
Definition num_agree (m : Q) (o : fl) : bool := match o with Fin q => close_tol tol15 m q | _ => false end.
Definition vec_agree (m : vec3 Q) (o : list fl) : bool := all2 num_agree (vlist m) o.

Fixpoint json_agree (m : json Q) (o : json fl) : bool :=
  match m, o with
  | JNull, JNull => true
  | JBool a, JBool b => Bool.eqb a b
  | JNum x, JNum y => num_agree x y
  | JStr a, JStr b => String.eqb a b
  | JArr l, JArr l' =>
      (fix go (a : list (json Q)) (b : list (json fl)) : bool :=
         match a, b with [], [] => true | x :: r, y :: r' => json_agree x y && go r r' | _, _ => false end) l l'
  | JObj l, JObj l' =>
      (fix go (a : list (string * json Q)) (b : list (string * json fl)) : bool :=
         match a, b with
         | [], [] => true
         | (k, x) :: r, (k', y) :: r' => String.eqb k k' && json_agree x y && go r r'
         | _, _ => false
         end) l l'
  | _, _ => false
  end.

Record opoly := OPoly { o_v : list (list fl); o_closed : bool }.
Definition poly_agree (p : polyline Q) (o : opoly) : bool :=
  all2 vec_agree (pv p) (o_v o) && Bool.eqb (pclosed p) (o_closed o).
Record oplane := OPlane { o_ref : list fl; o_normal : list fl }.
Definition plane_agree (p : plane Q) (o : oplane) : bool := vec_agree (pref p) (o_ref o) && vec_agree (pnormal p) (o_normal o).

(* a coordinate whose scaled value is within 1e-3 of a rounding tie is not judged unless the inputs make
   x * 10^d exact in binary64 (<= 20 significant bits) *)
Definition near_tie (d : nat) (x : Q) : bool :=
  let y := x * inject_Z (10 ^ Z.of_nat d) in
  let f := y - inject_Z (Qfloor y) in
  Qle_bool (Qabs (f - (1 # 2))) (1 # 1000).
Definition vec_near_tie d (v : vec3 Q) := near_tie d (vx v) || near_tie d (vy v) || near_tie d (vz v).
(* error bound of the property: half a unit in the last kept decimal (1e-15 slack for the final division) *)
Definition within_half_unit (d : nat) (x : Q) (o : fl) : bool :=
  match o with
  | Fin q => Qle_bool (Qabs (q - x)) ((1 # 2) / inject_Z (10 ^ Z.of_nat d) + tol15 * Qmax' 1 (Qabs x))
  | _ => false
  end.

Inductive case :=
(* Polyline p, decimals d: serialize(d); validate verdict; deserialize(loads(dumps(serialize(d)))); rounded(d) *)
| CPolyline (p : polyline Q) (d : nat) (ser : json fl) (valid : bool) (deser : result opoly) (rounded : opoly)
(* Plane: serialize(pd, dd) or its exception; validate verdict; deserialize of the text round trip; rounded(pd, dd) *)
| CPlane (exact : bool) (pl : plane Q) (pd dd : nat) (ser : result (json fl)) (valid : bool)
         (deser : result oplane) (rounded : result oplane)
(* a (possibly corrupted) document: jsonschema's verdict and the outcome of deserialize *)
| CDocPolyline (doc : json Q) (accepted : bool) (deser : result opoly)
| CDocPlane (doc : json Q) (accepted : bool) (deser : result oplane)
(* "definitions" of schema.json as extracted on this run *)
| CSchema (defs : list (string * schema))
| CFail.

Definition check_case (c : case) : bool :=
  match c with
  | CPolyline p d ser valid deser rounded =>
      json_agree (pl_serialize QOps d p) ser &&
      Bool.eqb (pl_validate (pl_serialize QOps d p)) valid &&
      res_agree poly_agree (pl_deserialize (pl_serialize QOps d p)) deser &&
      poly_agree (pl_rounded QOps d p) rounded &&
      forallb (fun vo => all2 (within_half_unit d) (vlist (fst vo)) (snd vo)) (zip (pv p) (o_v rounded))
  | CPlane exact pl pd dd ser valid deser rounded =>
      negb (exact || negb (vec_near_tie dd (pnormal pl) || vec_near_tie pd (pref pl))) ||
      (res_agree json_agree (plane_serialize QOps pd dd pl) ser &&
       res_agree plane_agree (plane_rounded QOps pd dd pl) rounded &&
       match plane_serialize QOps pd dd pl with
       | Ok j => Bool.eqb (plane_validate j) valid && res_agree plane_agree (plane_deserialize QOps j) deser
       | Raise _ => true
       end)
  | CDocPolyline doc accepted deser =>
      Bool.eqb (pl_validate doc) accepted && res_agree poly_agree (pl_deserialize doc) deser
  | CDocPlane doc accepted deser =>
      Bool.eqb (plane_validate doc) accepted && res_agree plane_agree (plane_deserialize QOps doc) deser
  | CSchema defs => defs_eqb defs polliwog_defs
  | CFail => false
  end.
