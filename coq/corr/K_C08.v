(* Correspondence for C08: the Q instance of M_polyline_length.v against observed results. *)
From Coq Require Import ZArith QArith Qabs Qround List Bool.
From PW Require Import Num NumQ Vec NpList Result Agree.
From PW.model Require Import M_polyline_base M_segment M_polyline_nearest M_polyline_length.
Import ListNotations.
Local Open Scope Q_scope.

Definition vmag (v : vec3 Q) : Q := Qmax' (Qabs (vx v)) (Qmax' (Qabs (vy v)) (Qabs (vz v))).
Definition mag_of (vs : list (vec3 Q)) : Q := fold_left (fun m p => Qmax' m (vmag p)) vs 0.

(* closeness relative to the magnitude of the input data only (no absolute floor): geometry at scale 1e-9 is
   compared as strictly as geometry at scale 1 *)
Definition close_rel (mag a b : Q) : bool :=
  Qle_bool (Qabs (a - b)) (tol * Qmax' mag (Qmax' (Qabs a) (Qabs b))).
Definition fl_close_rel (mag m : Q) (o : fl) : bool := match o with Fin q => close_rel mag m q | _ => false end.
Definition list_close_rel mag (m : list Q) (o : list fl) : bool := all2 (fl_close_rel mag) m o.
Definition vec_close_rel mag (m : vec3 Q) (o : list fl) : bool := list_close_rel mag (vlist m) o.
Definition vecs_close_rel mag (m : list (vec3 Q)) (o : list (list fl)) : bool := all2 (vec_close_rel mag) m o.

Inductive case :=
| CLengths (pl : polyline Q) (lens : list fl) (total : fl) (centroid : result (list fl))
| CPointAlong (pl : polyline Q) (fs : list Q) (obs : result (list (list fl)))
| CSubdivSeg (p1 p2 : vec3 Q) (num : Z) (endpoint : bool) (obs : result (list (list fl)))
| CSubdivSegs (vs : list (vec3 Q)) (num : nat) (obs : list (list fl))
| CSubdivLen (exact : bool) (pl : polyline Q) (max_length : Q) (mask : option (list bool))
             (obs : result (list (list fl) * bool * list nat))
| CBisect (pl : polyline Q) (idx : list nat) (obs : result (list (list fl) * bool * list nat * list nat)).

(* FEATURE-relative comparison (a polyline may sit far from the origin): points are compared after subtracting the
   first vertex, with a tolerance relative to the spread of the vertices around it; fr = (spread, reference) *)
Definition spread_of (vs : list (vec3 Q)) : Q * vec3 Q :=
  match vs with
  | [] => (0, V3 0 0 0)
  | r :: _ => (mag_of (map (fun v => vsub QOps v r) vs), r)
  end.
Definition fl_shift (r : Q) (o : fl) : fl := match o with Fin q => Fin (q - r) | x => x end.
Definition vec_close_feat (fr : Q * vec3 Q) (m : vec3 Q) (o : list fl) : bool :=
  match o with
  | [a; b; c] =>
      fl_close_rel (fst fr) (vx m - vx (snd fr)) (fl_shift (vx (snd fr)) a) &&
      fl_close_rel (fst fr) (vy m - vy (snd fr)) (fl_shift (vy (snd fr)) b) &&
      fl_close_rel (fst fr) (vz m - vz (snd fr)) (fl_shift (vz (snd fr)) c)
  | _ => false
  end.
Definition vecs_close_feat fr (m : list (vec3 Q)) (o : list (list fl)) : bool := all2 (vec_close_feat fr) m o.
Definition row_agree (mag : Q * vec3 Q) (m : option (vec3 Q)) (o : list fl) : bool :=
  match m with
  | Some v => vec_close_feat mag v o
  | None => forallb fl_is_nan o && Nat.eqb (length o) 3
  end.

(* ceil(len / max) may be compared only when the quotient is not within 1e-6 of an integer, unless exact *)
Definition parts_decided (exact : bool) (max_length : Q) (s : vec3 Q * vec3 Q) : bool :=
  exact || Qle_bool max_length 0 ||
  (let r := seg_len QOps s / max_length in
   let fr := r - inject_Z (Qfloor r) in
   negb (Qle_bool fr (1 # 1000000)) && negb (Qle_bool (1 - fr) (1 # 1000000))).

Definition check_case (c : case) : bool :=
  match c with
  | CLengths pl lens total centroid =>
      let mag := mag_of (pv pl) in
      let sp := fst (spread_of (pv pl)) in
      list_close_rel sp (segment_lengths QOps pl) lens &&
      fl_close_rel sp (total_length QOps pl) total &&
      (* the centroid divides by the total length: its rounding is relative to the coordinates, not to the spread *)
      res_agree (vec_close_rel mag) (path_centroid QOps pl) centroid
  | CPointAlong pl fs obs =>
      res_agree (vecs_close_feat (spread_of (pv pl))) (point_along_path QOps pl fs) obs
  | CSubdivSeg p1 p2 num endpoint obs =>
      res_agree (vecs_close_feat (spread_of [p1; p2])) (subdivide_segment QOps p1 p2 num endpoint) obs
  | CSubdivSegs vs num obs =>
      all2 (row_agree (spread_of vs)) (subdivide_segments QOps vs num) obs
  | CSubdivLen exact pl max_length mask obs =>
      negb (forallb (parts_decided exact max_length) (pl_segments pl)) ||
      res_agree (fun m o => vecs_close_feat (spread_of (pv pl)) (pv (fst m)) (fst (fst o)) &&
                            Bool.eqb (pclosed (fst m)) (snd (fst o)) && nat_list_eqb (snd m) (snd o))
                (subdivided_by_length QOps pl max_length mask) obs
  | CBisect pl idx obs =>
      res_agree (fun m o =>
                   match m, o with
                   | (mp, mo, mi), (ov, oc, oo, oi) =>
                       vecs_close_feat (spread_of (pv pl)) (pv mp) ov && Bool.eqb (pclosed mp) oc &&
                       nat_list_eqb mo oo && nat_list_eqb mi oi
                   end)
                (bisect QOps pl idx) obs
  end.
