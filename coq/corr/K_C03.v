(* Correspondence for C03: the Q instance of M_composite.v against an observed CompositeTransform history. *)
From Coq Require Import ZArith QArith Qabs Qround List Bool.
From PW Require Import Num NumQ Vec Mat NpList Result Agree.
From PW.model Require Import M_rodrigues M_affine M_rotation M_composite.
Import ListNotations.
Local Open Scope Q_scope.

Inductive query :=
(* transform_matrix_for(from_range, reverse) *)
| QMatrix (range : option (Z * Z)) (rev : bool) (o : list fl)
(* __call__(points, from_range, reverse, discard_z_coord, treat_input_as_vector): stacked, and each row alone *)
| QCall (range : option (Z * Z)) (rev discard asvec : bool) (ps : list (vec3 Q))
        (stack : list (list fl)) (singles : list (list fl)).

(* one object, events in call order: an appending call with what it returned (index) or raised, or a query that is
   answered by the object AS IT IS AT THAT POINT of the history (queries are interleaved with appends, the same
   query may be repeated later); at the end the stored pairs *)
Inductive event := EOp (o : op Q) (r : result nat) | EQ (q : query).
Inductive case := CTimeline (evs : list event) (pairs : list (list fl * list fl)).

Definition mat_mag (m : mat4 Q) : Q := fold_left (fun a x => Qmax' a (Qabs x)) (mlist m) 0.
Definition state_mag (st : cstate (F:=Q)) : Q :=
  fold_left (fun a fr => Qmax' a (Qmax' (mat_mag (fst fr)) (mat_mag (snd fr)))) st 1.
Definition pts_mag (ps : list (vec3 Q)) : Q :=
  fold_left (fun a p => Qmax' a (Qmax' (Qabs (vx p)) (Qmax' (Qabs (vy p)) (Qabs (vz p))))) ps 1.

(* The stored pairs are snapped to multiples of 2^-90 before they are multiplied together: entries produced by the
   1e-30 square roots / trigonometry of NumQ carry several hundred bits, and products of eight of them make the
   evaluation needlessly slow.  The snap moves an entry by < 1e-27, far below the 1e-9 agreement tolerance. *)
Definition snap_den : positive := (2 ^ 90)%positive.
Definition qsnap (x : Q) : Q := Qred (Qfloor (x * (Zpos snap_den # 1)) # snap_den).
Definition msnap (m : mat4 Q) : mat4 Q :=
  M4 (qsnap (m00 m)) (qsnap (m01 m)) (qsnap (m02 m)) (qsnap (m03 m))
     (qsnap (m10 m)) (qsnap (m11 m)) (qsnap (m12 m)) (qsnap (m13 m))
     (qsnap (m20 m)) (qsnap (m21 m)) (qsnap (m22 m)) (qsnap (m23 m))
     (qsnap (m30 m)) (qsnap (m31 m)) (qsnap (m32 m)) (qsnap (m33 m)).
Definition snap_state (st : cstate (F:=Q)) : cstate (F:=Q) := map (fun fr => (msnap (fst fr), msnap (snd fr))) st.

Definition res_nat_agree (m o : result nat) : bool := res_agree Nat.eqb m o.

Definition pair_close (fr : mat4 Q * mat4 Q) (o : list fl * list fl) : bool :=
  mat4_close (fst fr) (fst o) && mat4_close (snd fr) (snd o).

(* tolerance from the steps a query actually traverses: product over the selected steps of max(1, largest |entry| of
   the matrix used), as the Python oracle does; times the size of the points for calls *)
Definition steps_mag (sel : cstate (F:=Q)) (rev : bool) : Q :=
  fold_left (fun a fr => a * Qmax' 1 (mat_mag (if rev then snd fr else fst fr))) sel 1.
Definition check_query (st : cstate (F:=Q)) (q : query) : bool :=
  match q with
  | QMatrix range rev o =>
      list_close_mag (steps_mag (selected st range) rev) (mlist (transform_matrix_for QOps st range rev)) o
  | QCall range rev discard asvec ps stack singles =>
      let mag := steps_mag (selected st range) rev * pts_mag ps in
      all2 (list_close_mag mag) (call_stack QOps st range rev discard asvec ps) stack &&
      all2 (list_close_mag mag) (map (call_single QOps st range rev discard asvec) ps) singles
  end.

Fixpoint run_events (evs : list event) (st : cstate (F:=Q)) : bool * cstate (F:=Q) :=
  match evs with
  | [] => (true, st)
  | EOp o r :: rest =>
      match step QOps st o with
      | Ok (st', i) => let (b, fin) := run_events rest (snap_state st') in (res_nat_agree (Ok i) r && b, fin)
      | Raise e => let (b, fin) := run_events rest st in (res_nat_agree (Raise e) r && b, fin)
      end
  | EQ q :: rest => let (b, fin) := run_events rest st in (check_query st q && b, fin)
  end.

Definition check_case (c : case) : bool :=
  match c with
  | CTimeline evs pairs =>
      let (b, fin) := run_events evs [] in b && all2 pair_close fin pairs
  end.
