(* Correspondence for C13: the Q instance of M_plane_ctor.v against the Plane constructors of the implementation. *)
From Coq Require Import ZArith QArith Qabs List Bool.
From PW Require Import Num NumQ Vec Mat NpList Result Agree.
From PW.model Require Import M_plane M_plane_ctor.
Import ListNotations.
Local Open Scope Q_scope.

(* an observed Plane: reference point, normal, and whether the normal's dtype is real float64 *)
Record oplane := OPlane { o_ref : list fl; o_normal : list fl; o_real : bool }.

Inductive case :=
| CCtor (atol : Q) (ref n : vec3 Q) (o : result oplane)
| CFpn (atol : Q) (ref n : vec3 Q) (o : result oplane)
| CFromPoints (p1 p2 p3 : vec3 Q) (o : result oplane)
| CFpv (atol : Q) (p1 p2 v : vec3 Q) (o : result oplane)
(* fit_from_points: the points, what np.linalg.eigh returned for np.cov(points.T) (data), the resulting plane *)
| CFit (ps : list (vec3 Q)) (e : eig3 Q) (o : result oplane)
(* fit_from_points on a cloud whose covariance has tied eigenvalues: the eigenbasis, hence the plane, is not unique.
   lam = smallest eigenvalue eigh reported (data).  Checked: what every correct answer has in common. *)
| CFitTie (ps : list (vec3 Q)) (lam : Q) (o : result oplane)
(* tilted: cosine and sine of the signed angle as math.cos / math.sin returned them (data);
   full = also compare them with the model's own trigonometry (slow) *)
| CTilted (full : bool) (pl : plane Q) (newp cop : vec3 Q) (c s : Q) (o : result oplane)
(* plane_normal_from_points (normalized / not), plane_equation_from_points, normal_and_offset_from_plane_equations:
   stacked call on all triangles and single calls on each *)
| CEq (ts : list (vec3 Q * vec3 Q * vec3 Q))
      (n_stack n_single raw_stack : list (list fl)) (e_stack e_single : list (list fl))
      (no_normals : list (list fl)) (no_offsets : list fl)
| CCoord (xy xz yz : oplane)
(* a case judged by the oracle only (eigenvalue ties: the solver's choice of basis is not determined) *)
| CSkip.

Definition vmag (v : vec3 Q) : Q := Qmax' (Qabs (vx v)) (Qmax' (Qabs (vy v)) (Qabs (vz v))).
(* largest |coordinate| of the case's own data; no absolute floor *)
Definition mag_of (vs : list (vec3 Q)) : Q := fold_left (fun m p => Qmax' m (vmag p)) vs 0.
(* closeness relative to the magnitude of the input data only: a triangle of size 1e-9 is compared as strictly as one of
   size 1 *)
Definition close_rel (mag a b : Q) : bool :=
  Qle_bool (Qabs (a - b)) (tol * Qmax' mag (Qmax' (Qabs a) (Qabs b))).
Definition fl_close_rel (mag m : Q) (o : fl) : bool := match o with Fin q => close_rel mag m q | _ => false end.
Definition list_close_rel mag (m : list Q) (o : list fl) : bool := all2 (fl_close_rel mag) m o.
Definition vec_close_rel mag (m : vec3 Q) (o : list fl) : bool := list_close_rel mag (vlist m) o.

Definition plane_close (m : Q) (pl : plane Q) (o : oplane) : bool :=
  vec_close_rel m (pref pl) (o_ref o) && vec_close (pnormal pl) (o_normal o) && o_real o.
Definition agree (m : Q) (r : result (plane Q)) (o : result oplane) : bool := res_agree (plane_close m) r o.

(* a row of an observed stack: a vector, or NaN (collinear points) *)
Definition optvec_close (v : option (vec3 Q)) (o : list fl) : bool :=
  match v with Some v => vec_close v o | None => forallb fl_is_nan o && Nat.eqb (length o) 3 end.
Definition eqlist (e : peq Q) : list Q := [ea e; eb e; ec e; ed e].
Definition opteq_close (m : Q) (e : option (peq Q)) (o : list fl) : bool :=
  match e with
  | Some e => list_close_rel m (eqlist e) o
  | None => forallb fl_is_nan o && Nat.eqb (length o) 4
  end.

(* the eigen data passed in must be an eigen-decomposition of the model's covariance (to tolerance): orthonormal
   columns, cov u = lambda u *)
Definition mat_scale (c : mat3 Q) : Q :=
  fold_left (fun m x => Qmax' m (Qabs x)) (m3list c) 0.
Definition eig_ok (c : mat3 Q) (e : eig3 Q) : bool :=
  let sc := mat_scale c in
  let chk (l : Q) (u : vec3 Q) :=
    Qle_bool (vmag (vsub QOps (m3apply QOps c u) (vscale QOps l u))) ((1 # 10000000) * sc) &&
    close (vdot QOps u u) 1 in
  chk (ev0 e) (eu0 e) && chk (ev1 e) (eu1 e) && chk (ev2 e) (eu2 e) &&
  Qle_bool (Qabs (vdot QOps (eu0 e) (eu1 e))) (1 # 10000000) &&
  Qle_bool (Qabs (vdot QOps (eu0 e) (eu2 e))) (1 # 10000000) &&
  Qle_bool (Qabs (vdot QOps (eu1 e) (eu2 e))) (1 # 10000000).

(* observed finite vector *)
Definition fl_q (o : fl) : option Q := match o with Fin q => Some q | _ => None end.
Definition fl_vec (l : list fl) : option (vec3 Q) :=
  match l with
  | [a; b; c] => match fl_q a, fl_q b, fl_q c with Some x, Some y, Some z => Some (V3 x y z) | _, _, _ => None end
  | _ => None
  end.
(* M is positive semidefinite up to tolerance t (scale sc): all principal minors >= -tolerance (Sylvester) *)
Definition psd_tol (m : mat3 Q) (t sc : Q) : bool :=
  let ge x y := Qle_bool y x in
  let m2 a b c d := a * d - b * c in
  ge (a00 m) (- t) && ge (a11 m) (- t) && ge (a22 m) (- t) &&
  ge (m2 (a00 m) (a01 m) (a10 m) (a11 m)) (- (t * sc)) && ge (m2 (a00 m) (a02 m) (a20 m) (a22 m)) (- (t * sc)) &&
  ge (m2 (a11 m) (a12 m) (a21 m) (a22 m)) (- (t * sc)) && ge (m3det QOps m) (- (t * sc * sc)).
(* the observed plane passes through the centroid, has a real unit normal n with cov n = lam n, and lam is the
   smallest eigenvalue (cov - lam I is positive semidefinite): by C13_min_eigenvector_is_least_squares it is a
   least-squares plane *)
Definition fit_tie_ok (ps : list (vec3 Q)) (lam : Q) (o : oplane) : bool :=
  let c := cov QOps ps in
  let sc := mat_scale c in
  let t := (1 # 10000000) * sc in
  match fl_vec (o_normal o) with
  | Some n =>
      o_real o && vec_close_rel (mag_of ps) (centroid QOps ps) (o_ref o) &&
      close (vdot QOps n n) 1 &&
      Qle_bool (vmag (vsub QOps (m3apply QOps c n) (vscale QOps lam n))) t &&
      psd_tol (M3 (a00 c - lam) (a01 c) (a02 c) (a10 c) (a11 c - lam) (a12 c) (a20 c) (a21 c) (a22 c - lam)) t sc
  | None => false
  end.

Definition check_case (c : case) : bool :=
  match c with
  | CCtor atol ref n o => agree (mag_of [ref]) (plane_ctor QOps atol ref n) o
  | CFpn atol ref n o => agree (mag_of [ref]) (from_point_and_normal QOps atol ref n) o
  | CFromPoints p1 p2 p3 o => agree (mag_of [p1]) (from_points QOps p1 p2 p3) o
  | CFpv atol p1 p2 v o => agree (mag_of [p1]) (from_points_and_vector QOps atol p1 p2 v) o
  | CFit ps e o =>
      eig_ok (cov QOps ps) e && agree (mag_of ps) (fit_from_points QOps (fun _ => e) ps) o
  | CFitTie ps lam o => match o with Ok op => fit_tie_ok ps lam op | Raise _ => false end
  | CTilted full pl newp cop cs sn o =>
      close (cs * cs + sn * sn) 1 &&
      agree (mag_of [cop]) (tilted_cs QOps pl newp cop cs sn) o &&
      (if full
       then (let a := tilt_angle QOps pl newp cop in
             close_tol (1 # 1000000) (ncos QOps a) cs && close_tol (1 # 1000000) (nsin QOps a) sn)
       else true)
  | CEq ts n_stack n_single raw_stack e_stack e_single no_normals no_offsets =>
      let m := mag_of (flat_map (fun t => match t with (a, b, c) => [a; b; c] end) ts) in
      let ns := plane_normal_from_points_stack QOps true ts in
      let es := plane_equation_from_points_stack QOps ts in
      all2 optvec_close ns n_stack && all2 optvec_close ns n_single &&
      all2 (fun v o => match v with Some v => vec_close_rel (m * m) v o | None => false end)
           (plane_normal_from_points_stack QOps false ts) raw_stack &&
      all2 (opteq_close m) es e_stack && all2 (opteq_close m) es e_single &&
      (* normal_and_offset_from_plane_equations applied to the observed stack returns its own columns: compared in
         the oracle bit for bit; here against the model's equations *)
      all2 optvec_close (map (option_map (fun e => fst (normal_and_offset e))) es) no_normals &&
      all2 (fun e o => match e with Some e => fl_close_rel m (snd (normal_and_offset e)) o | None => fl_is_nan o end)
           es no_offsets
  | CCoord xy xz yz =>
      plane_close 1 (plane_xy QOps) xy && plane_close 1 (plane_xz QOps) xz && plane_close 1 (plane_yz QOps) yz
  | CSkip => true
  end.
