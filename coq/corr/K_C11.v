(* Correspondence for C11: the Q instance of M_affine.v / M_rotation.v against observed results. *)
From Coq Require Import ZArith QArith Qabs List Bool.
From PW Require Import Num NumQ Vec Mat NpList Result Agree.
From PW.model Require Import M_rodrigues M_affine M_rotation.
Import ListNotations.
Local Open Scope Q_scope.

Inductive case :=
| CEuler (deg : bool) (angles : list Q) (order : list axis) (o : list fl)
| CUpLook (up look : vec3 Q) (o : result (list fl))
(* near-collinear pairs: tolerance t = 1e-9 amplified by 1 / sin(angle between up and look) *)
| CUpLookTol (t : Q) (up look : vec3 Q) (o : result (list fl))
| CRotation (a : rotation_arg Q) (fwd inv : list fl)
| CTranslation (t : vec3 Q) (fwd inv : list fl)
| CScaleNU (x y z : Q) (allow : bool) (o : result (list fl * list fl))
| CScaleU (s : Q) (allow : bool) (o : result (list fl * list fl))
| CConvert (r : mat3 Q) (o : list fl)
(* exact = inputs on a dyadic grid: every + - * of the implementation is exact in binary64 *)
| CApply (exact : bool) (m : mat4 Q) (discard asvec : bool) (ps : list (vec3 Q))
         (stack : list (list fl)) (singles : list (list fl))
| CCompose (exact : bool) (ms : list (mat4 Q)) (o : list fl).

(* exact equality of a model value and an observed float *)
Definition fl_eq (m : Q) (o : fl) : bool := match o with Fin q => Qeq_bool m q | _ => false end.
(* purely relative 1e-12 (correctly rounded single operations) *)
Definition fl_rel (m : Q) (o : fl) : bool :=
  match o with
  | Fin q => Qle_bool (Qabs (m - q)) ((1 # 1000000000000) * Qmax' (Qabs m) (Qabs q))
  | _ => false
  end.
Definition list_eq_fl (m : list Q) (o : list fl) : bool := all2 fl_eq m o.
Definition list_rel_fl (m : list Q) (o : list fl) : bool := all2 fl_rel m o.
Definition cmp (exact : bool) (m : list Q) (o : list fl) : bool :=
  if exact then list_eq_fl m o else list_close m o.

Definition pair_agree (fi : mat4 Q * mat4 Q) (o : list fl * list fl) : bool :=
  list_eq_fl (mlist (fst fi)) (fst o) && list_rel_fl (mlist (snd fi)) (snd o).

Definition check_case (c : case) : bool :=
  match c with
  | CEuler deg angles order o => mat3_close (euler QOps deg angles order) o
  | CUpLook up look o => res_agree mat3_close (rotation_from_up_and_look QOps up look) o
  | CUpLookTol t up look o =>
      res_agree (fun m ob => all2 (fun a b => match b with Fin q => close_tol t a q | _ => false end) (m3list m) ob)
                (rotation_from_up_and_look QOps up look) o
  | CRotation a fwd inv =>
      match a with
      | RotMat _ => list_eq_fl (mlist (fst (tm_rotation QOps a))) fwd && list_eq_fl (mlist (snd (tm_rotation QOps a))) inv
      | RotVec _ => mat4_close (fst (tm_rotation QOps a)) fwd && mat4_close (snd (tm_rotation QOps a)) inv
      end
  | CTranslation t fwd inv =>
      list_eq_fl (mlist (fst (tm_translation QOps t))) fwd && list_eq_fl (mlist (snd (tm_translation QOps t))) inv
  | CScaleNU x y z allow o => res_agree pair_agree (tm_non_uniform_scale QOps x y z allow) o
  | CScaleU s allow o => res_agree pair_agree (tm_uniform_scale QOps s allow) o
  | CConvert r o => list_eq_fl (mlist (convert_33_to_44 QOps r)) o
  | CApply exact m discard asvec ps stack singles =>
      all2 (cmp exact) (apply_stack QOps m discard asvec ps) stack &&
      all2 (cmp exact) (map (apply_single QOps m discard asvec) ps) singles
  | CCompose exact ms o => cmp exact (mlist (compose_transforms QOps ms)) o
  end.
