(* Correspondence for C07: the Q instance of M_segment.v / M_polyline_nearest.v against observed results. *)
From Coq Require Import ZArith QArith Qabs List Bool.
From PW Require Import Num NumQ Vec NpList Result Agree.
From PW.model Require Import M_polyline_base M_segment M_polyline_nearest.
Import ListNotations.
Local Open Scope Q_scope.

(* one returned array *)
Inductive ocol := OV (l : list (list fl)) | OI (l : list nat) | OF (l : list fl).
(* what a nearest() call handed back: a bare point array, or a tuple of arrays in order *)
Inductive onear := OBare (pts : list (list fl)) | OTuple (cols : list ocol).

Inductive mcol := MV (l : list (vec3 Q)) | MI (l : list nat) | MF (l : list Q) | MT (l : list Q).
Definition opt_col {A} (f : A -> mcol) (o : option A) : list mcol := match o with Some a => [f a] | None => [] end.
(* magnitude of the input data: rounding errors of points and distances are relative to it *)
Definition vmag (v : vec3 Q) : Q := Qmax' (Qabs (vx v)) (Qmax' (Qabs (vy v)) (Qabs (vz v))).
Definition mag_of (vs : list (vec3 Q)) : Q := fold_left (fun m p => Qmax' m (vmag p)) vs 0.
(* closeness relative to the magnitude of the input data only (no absolute floor): geometry at scale 1e-9 is
   compared as strictly as geometry at scale 1; t values are dimensionless and compared absolutely *)
Definition close_rel (mag a b : Q) : bool :=
  Qle_bool (Qabs (a - b)) (tol * Qmax' mag (Qmax' (Qabs a) (Qabs b))).
Definition fl_close_rel (mag m : Q) (o : fl) : bool := match o with Fin q => close_rel mag m q | _ => false end.
Definition list_close_rel mag (m : list Q) (o : list fl) : bool := all2 (fl_close_rel mag) m o.
Definition vec_close_rel mag (m : vec3 Q) (o : list fl) : bool := list_close_rel mag (vlist m) o.
Definition vecs_close_rel mag (m : list (vec3 Q)) (o : list (list fl)) : bool := all2 (vec_close_rel mag) m o.
(* FEATURE-relative comparison: a scene may sit far from the origin (coordinates 2^31 + k/8). Points are compared
   after subtracting a reference input point, with a tolerance relative to the spread of the inputs around it, so
   that an error of the size of the scene is seen however large the coordinates are. fr = (spread, reference). *)
Definition spread_of (vs : list (vec3 Q)) : Q * vec3 Q :=
  match vs with
  | [] => (0, V3 0 0 0)
  | r :: _ => (mag_of (map (fun v => vsub QOps v r) vs), r)
  end.
Definition fl_shift (r : Q) (o : fl) : fl := match o with Fin q => Fin (q - r) | x => x end.
Definition vec_close_feat (fr : Q * vec3 Q) (m : vec3 Q) (o : list fl) : bool :=
  match o with
  | [a; b; c] =>
      fl_close_rel (fst fr) (vx m - vx (snd fr)) (fl_shift (vx (snd fr)) a) &&
      fl_close_rel (fst fr) (vy m - vy (snd fr)) (fl_shift (vy (snd fr)) b) &&
      fl_close_rel (fst fr) (vz m - vz (snd fr)) (fl_shift (vz (snd fr)) c)
  | _ => false
  end.
Definition vecs_close_feat fr (m : list (vec3 Q)) (o : list (list fl)) : bool := all2 (vec_close_feat fr) m o.
Definition col_agree (mag : Q * vec3 Q) (m : mcol) (o : ocol) : bool :=
  match m, o with
  | MV a, OV b => vecs_close_feat mag a b
  | MI a, OI b => nat_list_eqb a b
  | MF a, OF b => list_close_rel (fst mag) a b
  | MT a, OF b => list_close a b
  | _, _ => false
  end.
Definition near_agree (mag : Q * vec3 Q) (m : nearest_out Q) (o : onear) : bool :=
  match m, o with
  | NBare p, OBare q => vecs_close_feat mag p q
  | NTuple p i d t, OTuple cols =>
      all2 (col_agree mag) (MV p :: opt_col MI i ++ opt_col MF d ++ opt_col MT t) cols
  | _, _ => false
  end.
(* row-wise comparison that skips the rows (queries) whose winning segment rounding could change *)
Fixpoint masked2 {A B} (f : A -> B -> bool) (mask : list bool) (l : list A) (l' : list B) : bool :=
  match mask, l, l' with
  | [], [], [] => true
  | d :: mask', x :: r, y :: r' => (negb d || f x y) && masked2 f mask' r r'
  | _, _, _ => false
  end.
Definition col_agree_m (mag : Q * vec3 Q) (mask : list bool) (m : mcol) (o : ocol) : bool :=
  match m, o with
  | MV a, OV b => masked2 (vec_close_feat mag) mask a b
  | MI a, OI b => masked2 Nat.eqb mask a b
  | MF a, OF b => masked2 (fl_close_rel (fst mag)) mask a b
  | MT a, OF b => masked2 fl_close mask a b
  | _, _ => false
  end.
Definition near_agree_m (mag : Q * vec3 Q) (mask : list bool) (m : nearest_out Q) (o : onear) : bool :=
  match m, o with
  | NBare p, OBare q => masked2 (vec_close_feat mag) mask p q
  | NTuple p i d t, OTuple cols =>
      all2 (col_agree_m mag mask) (MV p :: opt_col MI i ++ opt_col MF d ++ opt_col MT t) cols
  | _, _ => false
  end.
(* same shape (bare / tuple, number and kinds of columns, row counts), values ignored *)
Definition col_shape (m : mcol) (o : ocol) : bool :=
  match m, o with
  | MV a, OV b => Nat.eqb (length a) (length b)
  | MI a, OI b => Nat.eqb (length a) (length b)
  | MF a, OF b => Nat.eqb (length a) (length b)
  | MT a, OF b => Nat.eqb (length a) (length b)
  | _, _ => false
  end.
Definition near_shape (m : nearest_out Q) (o : onear) : bool :=
  match m, o with
  | NBare p, OBare q => Nat.eqb (length p) (length q)
  | NTuple p i d t, OTuple cols => all2 col_shape (MV p :: opt_col MI i ++ opt_col MF d ++ opt_col MT t) cols
  | _, _ => false
  end.

(* A query is "decided" when rounding cannot change which segment wins: every other segment is either
   clearly farther, or ties exactly with both parameters clamped (then the floats tie exactly as well). *)
Definition band : Q := 1 # 1000000.
Definition clamped (h : seg_hit Q) : bool := Qeq_bool (h_t h) 0 || Qeq_bool (h_t h) 1.
Definition decided_query (mag : Q) (pl : polyline Q) (p : vec3 Q) : bool :=
  let hs := hits QOps pl p in
  match amin_by QOps h_d hs with
  | None => true
  | Some (j, h) =>
      forallb (fun kh => Nat.eqb (fst kh) j ||
                         negb (Qle_bool (h_d (snd kh)) (h_d h + band * mag)) ||
                         (Qeq_bool (h_d (snd kh)) (h_d h) && clamped h && clamped (snd kh)))
              (combine (seq 0 (length hs)) hs)
  end.

Inductive case :=
(* Polyline.nearest with one flag subset; `full` is the observation with all three flags on *)
| CNearest (pl : polyline Q) (ps : list (vec3 Q)) (ri rd rt : bool) (obs full : result onear)
(* closest_point_of_line_segment(ret_t_values=True) and is_point_on_line_segment, pairwise *)
| CClosest (exact : bool) (ps sa sv : list (vec3 Q)) (eps : Q) (pts : list (list fl)) (ts : list fl) (on : list bool)
(* sliced_at_points: vertices of the (always open) result *)
| CSliced (pl : polyline Q) (a b : vec3 Q) (obs : result (list (list fl) * bool))
(* aligned_along_subsegment: vertices and closedness of the result *)
| CAligned (pl : polyline Q) (a b : vec3 Q) (obs : result (list (list fl) * bool)).

Definition pl_agree (mag : Q * vec3 Q) (m : polyline Q) (o : list (list fl) * bool) : bool :=
  vecs_close_feat mag (pv m) (fst o) && Bool.eqb (pclosed m) (snd o).

(* decision of is_point_on_line_segment is compared only away from the threshold unless arithmetic is exact *)
Definition on_decided (exact : bool) (p a v : vec3 Q) (eps : Q) : bool :=
  let m := Qmax' (vmag p) (Qmax' (vmag a) (vmag v)) in
  exact || negb (Qle_bool (Qabs (sqdist QOps (closest_point QOps p a v) p - eps * eps))
                          ((1 # 1000000) * Qmax' (eps * eps) (m * m))).
Fixpoint on_agree (exact : bool) (ps sa sv : list (vec3 Q)) (eps : Q) (on : list bool) : bool :=
  match ps, sa, sv, on with
  | [], [], [], [] => true
  | p :: ps', a :: sa', v :: sv', o :: on' =>
      (negb (on_decided exact p a v eps) || Bool.eqb (on_segment QOps p a v eps) o) && on_agree exact ps' sa' sv' eps on'
  | _, _, _, _ => false
  end.

Definition check_case (c : case) : bool :=
  match c with
  | CNearest pl ps ri rd rt obs full =>
      let mag := spread_of (pv pl ++ ps) in
      let decs := map (decided_query (fst mag) pl) ps in      (* per query: undecided rows are skipped, the others compared *)
      let m := nearest QOps pl ps ri rd rt in
      let mf := nearest QOps pl ps true true true in
      res_agree near_shape m obs && res_agree near_shape mf full &&
      res_agree (near_agree_m mag decs) m obs && res_agree (near_agree_m mag decs) mf full
  | CClosest exact ps sa sv eps pts ts on =>
      vecs_close_feat (spread_of (sa ++ ps ++ map2 (vadd QOps) sa sv)) (closest_points_pairs QOps ps sa sv) pts &&
      list_close (closest_ts_pairs QOps ps sa sv) ts &&
      on_agree exact ps sa sv eps on
  | CSliced pl a b obs => res_agree (pl_agree (spread_of (pv pl ++ [a; b]))) (sliced_at_points QOps pl a b) obs
  | CAligned pl a b obs => res_agree (pl_agree (spread_of (pv pl ++ [a; b]))) (aligned_along_subsegment QOps pl a b) obs
  end.
