(* Correspondence for C04: the Q instance of M_coordmgr.v against an observed CoordinateManager script. *)
From Coq Require Import ZArith QArith Qabs Qround List Bool String.
From PW Require Import Num NumQ Vec Mat NpList Result Agree.
From PW.model Require Import M_rodrigues M_affine M_rotation M_composite M_coordmgr.
From PW.corr Require Import K_C03.
Import ListNotations.
Local Open Scope Q_scope.

(* observed outcome of one call: nothing, points, or an exception *)
Inductive obs := ONone | OPts (pts : list (list fl)) | OOther.
(* attrs = dir(CoordinateManager()) as read from the code on this run; pa = the instance attribute holding the points *)
Inductive case := CScript (attrs : list string) (pa : string) (ops : list (cm_op Q)) (results : list (result obs)).

(* run the model with the stored pairs snapped to dyadics after every step (see K_C03.snap_state) *)
Definition snap_cm (st : cm_state (F:=Q)) : cm_state (F:=Q) :=
  MkCM (cm_tags st) (cm_points st) (snap_state (cm_tr st)).
(* magnitude of the steps between two tag positions (either direction): product of max(1, largest |entry|) *)
Definition between_mag (st : cm_state (F:=Q)) (a b : string) : Q :=
  match tag_lookup a (cm_tags st), tag_lookup b (cm_tags st) with
  | Some i, Some j =>
      let lo := Nat.min i j in let hi := Nat.max i j in
      let sel := firstn (hi - lo) (skipn lo (cm_tr st)) in
      Qmax' (steps_mag sel false) (steps_mag sel true)
  | _, _ => 1
  end.
Definition read_mag (st : cm_state (F:=Q)) (o : cm_op Q) : Q :=
  match o with
  | CDoTransform _ a b => between_mag st a b
  | CGetAttr n => match cm_points st with Some (tag, _) => between_mag st tag n | None => 1 end
  | _ => 1
  end.
Fixpoint run (attrs : list string) (pa : string) (ops : list (cm_op Q)) (st : cm_state (F:=Q)) : list (result (cm_out Q) * Q) :=
  match ops with
  | [] => []
  | o :: r => let sr := cm_step QOps attrs pa st o in
              (snd sr, read_mag st o) :: run attrs pa r (snap_cm (fst sr))
  end.

Definition out_agree (mag : Q) (m : cm_out Q) (o : obs) : bool :=
  match m, o with
  | OutNone, ONone => true
  | OutPoints ps, OPts rows => vecs_close_mag (mag * pts_mag ps) ps rows
  | OutOther, OOther => true
  | _, _ => false
  end.
Definition check_case (c : case) : bool :=
  match c with
  | CScript attrs pa ops results =>
      all2 (fun mr o => res_agree (out_agree (snd mr)) (fst mr) o) (run attrs pa ops (cm_init (F:=Q))) results
  end.
