(* Correspondence for C04: the Q instance of M_coordmgr.v against an observed CoordinateManager script. *)
From Coq Require Import ZArith QArith Qabs Qround List Bool String.
From PW Require Import Num NumQ Vec Mat NpList Result Agree.
From PW.model Require Import M_rodrigues M_affine M_rotation M_composite M_coordmgr.
From PW.corr Require Import K_C03.
Import ListNotations.
Local Open Scope Q_scope.

(* observed outcome of one call: nothing, points, or an exception *)
Inductive obs := ONone | OPts (pts : list (list fl)).
Inductive case := CScript (ops : list (cm_op Q)) (results : list (result obs)).

(* run the model with the stored pairs snapped to dyadics after every step (see K_C03.snap_state) *)
Definition snap_cm (st : cm_state (F:=Q)) : cm_state (F:=Q) :=
  MkCM (cm_tags st) (cm_points st) (snap_state (cm_tr st)).
Fixpoint run (ops : list (cm_op Q)) (st : cm_state (F:=Q)) : list (result (cm_out Q) * Q) :=
  match ops with
  | [] => []
  | o :: r => let sr := cm_step QOps st o in
              (snd sr, state_mag (cm_tr st)) :: run r (snap_cm (fst sr))
  end.

Definition op_mag (o : cm_op Q) : Q :=
  match o with CDoTransform pts _ _ => pts_mag pts | _ => 1 end.
Definition out_agree (mag : Q) (m : cm_out Q) (o : obs) : bool :=
  match m, o with
  | OutNone, ONone => true
  | OutPoints ps, OPts rows => vecs_close_mag (mag * Qmax' 1 (pts_mag ps)) ps rows
  | _, _ => false
  end.
Definition check_case (c : case) : bool :=
  match c with
  | CScript ops results =>
      all2 (fun mr o => res_agree (out_agree (snd mr * snd mr)) (fst mr) o) (run ops (cm_init (F:=Q))) results
  end.
