(* Correspondence for C14: the Q instance of M_plane_xsect.v against observed results of the implementation. *)
From Coq Require Import ZArith QArith Qabs List Bool.
From PW Require Import Num NumQ Vec NpList Result Agree.
From PW.model Require Import M_plane M_polyline_base M_plane_xsect.
Import ListNotations.
Local Open Scope Q_scope.

(* A routine that returns None is observed as []; a routine that writes a NaN row as [FNan; FNan; FNan]. *)
(* Points are compared with a tolerance relative to the magnitude `mg` of the input data, without an absolute floor
   (geometry at scale 1e-9 is compared as strictly as geometry at scale 1): a coordinate of a crossing point can vanish by
   cancellation while its rounding error is relative to the inputs. *)
Definition close_rel (mg a b : Q) : bool :=
  Qle_bool (Qabs (a - b)) (tol * Qmax' mg (Qmax' (Qabs a) (Qabs b))).
(* far-offset closeness, per coordinate: the feature-relative term t plus 3/4 * 2^-51 of the coordinate itself, i.e.
   between 0.75 and 1.5 ulp of it (a correctly computed position carries half an ulp from its last addition) *)
Definition close_abs (t : Q) (_ a b : Q) : bool :=
  Qle_bool (Qabs (a - b)) (t + (3 # 4) * (1 # 2251799813685248) * Qmax' (Qabs a) (Qabs b)).

Section Cmp.
(* the closeness used for positions: close_rel, or an absolute tolerance for far-offset cases (CFar) *)
Context (cl : Q -> Q -> Q -> bool).
Definition fl_close_rel (mg m : Q) (o : fl) : bool := match o with Fin q => cl mg m q | _ => false end.
Definition vec_close_rel mg (m : vec3 Q) (o : list fl) : bool := all2 (fl_close_rel mg) (vlist m) o.
Definition row_opt (mg : Q) (m : option (vec3 Q)) (o : list fl) : bool :=
  match m with None => match o with [] => true | _ => false end | Some v => vec_close_rel mg v o end.
Definition row_nan (mg : Q) (m : option (vec3 Q)) (o : list fl) : bool :=
  match m with
  | None => match o with [x; y; z] => fl_is_nan x && fl_is_nan y && fl_is_nan z | _ => false end
  | Some v => vec_close_rel mg v o
  end.
Definition rows_opt mg := all2 (row_opt mg).
Definition rows_nan mg := all2 (row_nan mg).
End Cmp.
Definition vmag (v : vec3 Q) : Q := Qmax' (Qabs (vx v)) (Qmax' (Qabs (vy v)) (Qabs (vz v))).
Definition mag (ps : list (vec3 Q)) : Q := fold_left (fun m p => Qmax' m (vmag p)) ps 0.

Inductive case :=
(* one plane, a stack of segments a_i b_i: single and stacked form of line_segment_xsection(s), and
   intersect_segment_with_plane (a_i, b_i - a_i, ref, normal) single and stacked *)
| CSegs (exact : bool) (band : Q) (pl : plane Q) (a b : list (vec3 Q))
        (single : list (list fl)) (st_rows : list (list fl)) (st_valid : list bool)
        (isp_single isp_stack : list (list fl))
(* one plane, a stack of lines pt_i + s ray_i *)
| CLines (exact : bool) (band : Q) (pl : plane Q) (pts rays : list (vec3 Q))
        (single : list (list fl)) (st_rows : list (list fl)) (st_valid : list bool)
(* Polyline(v, closed).intersect_plane(plane, ret_edge_indices=True), and without indices *)
| CPoly (exact : bool) (band : Q) (pl : plane Q) (v : list (vec3 Q)) (closed : bool)
        (pts : list (list fl)) (idx : list nat) (pts_only : list (list fl))
(* pairwise intersect_segment_with_plane on exact inputs, any normals *)
| CIsp (starts segvs pops nrms : list (vec3 Q)) (rows : list (list fl)) (single : list (list fl))
(* a small scene far from the origin: positions are compared per coordinate with ptol (1e-9 of the scene size) plus
   0.75..1.5 ulp of that coordinate, instead of 1e-9 of the coordinates *)
| CFar (ptol : Q) (c : case).

(* a side / parallelism decision may be compared when arithmetic was exact or the value is away from zero *)
Definition away (band x : Q) : bool := negb (Qle_bool (Qabs x) band).
Definition robust_pts exact band pl (ps : list (vec3 Q)) : bool :=
  exact || forallb (fun p => away band (plane_sd QOps pl p)) ps.

(* rows of a stack are independent: a row whose decision is not robust is skipped, the other rows are still judged
   (the structure - one observed row per input row - is checked in any case) *)
Fixpoint all2m {A B} (f : A -> B -> bool) (mask : list bool) (l : list A) (l' : list B) : bool :=
  match mask, l, l' with
  | [], [], [] => true
  | m :: ms, a :: r, b :: r' => (negb m || f a b) && all2m f ms r r'
  | _, _, _ => false
  end.

Definition check_with (cl : Q -> Q -> Q -> bool) (c : case) : bool :=
  let row_opt := row_opt cl in let row_nan := row_nan cl in let rows_nan := rows_nan cl in
  match c with
  | CSegs exact band pl a b single st_rows st_valid isp_single isp_stack =>
      let mask := map2 (fun x y => robust_pts exact band pl [x; y]) a b in
      let segv := map2 (vsub QOps) b a in
      let k := length a in
      let mg := mag (pref pl :: a ++ b) in
      Nat.eqb (length a) (length b) &&
      all2m (row_opt mg) mask (map2 (line_segment_xsection QOps pl) a b) single &&
      all2m (row_nan mg) mask (fst (line_segment_xsections QOps pl a b)) st_rows &&
      all2m Bool.eqb mask (snd (line_segment_xsections QOps pl a b)) st_valid &&
      all2m (row_nan mg) mask
            (map2 (fun s v => intersect_segment_with_plane QOps s v (pref pl) (pnormal pl)) a segv) isp_single &&
      all2m (row_nan mg) mask
            (intersect_segments_with_planes QOps a segv (repeat (pref pl) k) (repeat (pnormal pl) k)) isp_stack
  | CLines exact band pl pts rays single st_rows st_valid =>
      (* the rounding error of ray.normal is relative to the length of the ray: band 1e-12 |ray| *)
      let mask := map (fun r => exact || away ((1 # 1000000000000) * vmag r) (xs_denom QOps pl r)) rays in
      let m := mag (pref pl :: pts ++ rays) in
      Nat.eqb (length pts) (length rays) &&
      all2m (row_opt m) mask (map2 (line_xsection QOps pl) pts rays) single &&
      all2m (row_nan m) mask (fst (line_xsections QOps pl pts rays)) st_rows &&
      all2m Bool.eqb mask (snd (line_xsections QOps pl pts rays)) st_valid
  | CPoly exact band pl v closed pts idx pts_only =>
      (* per edge (C14_intersect_plane_per_edge): whether an edge is reported, and with which point, depends on its own
         two ends only; edges with an undecided end are left out of the comparison on both sides, all others are judged *)
      let dec := map (fun p => exact || away band (plane_sd QOps pl p)) v in
      let n := length v in
      let edge_ok (k : nat) := nth k dec false && nth (Nat.modulo (S k) n) dec false in
      let keep {A} (l : list (nat * A)) := filter (fun x => edge_ok (fst x)) l in
      let m := mag (pref pl :: v) in
      let same (x : nat * option (vec3 Q)) (y : nat * list fl) := Nat.eqb (fst x) (fst y) && row_nan m (snd x) (snd y) in
      Nat.eqb (length idx) (length pts) && Nat.eqb (length idx) (length pts_only) &&
      all2 same (keep (intersect_plane_hits QOps pl (MkPolyline v closed))) (keep (zip idx pts)) &&
      all2 same (keep (intersect_plane_hits QOps pl (MkPolyline v closed))) (keep (zip idx pts_only))
  | CIsp starts segvs pops nrms rows single =>
      let m := mag (starts ++ segvs ++ pops) in
      rows_nan m (intersect_segments_with_planes QOps starts segvs pops nrms) rows &&
      rows_nan m (intersect_segments_with_planes QOps starts segvs pops nrms) single
  | CFar _ _ => false
  end.

Definition check_case (c : case) : bool :=
  match c with
  | CFar t c' => check_with (close_abs t) c'
  | _ => check_with close_rel c
  end.
