(* GOLDEN shape contracts of polliwog (C20): what every function / method of every non-test module checks
   directly, in program order, as reviewed against the documented single / stacked forms of each docstring.
   Produced with `python tools/props/C20.py golden` on /repo after the fix commits 41f0cd6 (euler), e40d90b
   (intersect_lines / intersect_2d_lines), 0ead1a8 (Plane point selection / line_segment_xsections), 647303a
   (slice_triangles_by_plane mask length), 529236b (subdivide_segment(s)), 5ca020b (Polyline.aligned_along_subsegment,
   with_segments_bisected; later 9cca2eb), then reviewed by hand.  Every check re-extracts the contracts from the source and proves
   `extracted = expected` (build/C20/Traced_contracts.v); a deleted or weakened check breaks that lemma.
   `delegation` says which callee performs the checks for callables that do none themselves (each row is
   validated by probing on every run); `documented_args` lists the array parameters each public callable
   documents.  Both are mirrored from tools/api_registry.py and re-compared on every run. *)
From Coq Require Import List String.
From PW.model Require Import M_shape.
Import ListNotations.
Local Open Scope string_scope.

Definition expected : contracts := [
  ("polliwog._common.pathlib.project_relative_path", []);
  ("polliwog._common.pathlib.root_package_relative_path", []);
  ("polliwog._common.serialization.try_load_jsonschema_and_simplejson", []);
  ("polliwog._common.serialization.validator_for", []);
  ("polliwog.box._box_object.Box.__init__", [
     Check "origin" [DInt 3] None;
     Check "size" [DInt 3] None]);
  ("polliwog.box._box_object.Box.center_point", []);
  ("polliwog.box._box_object.Box.contains", [
     Check "point" [DInt 3] None]);
  ("polliwog.box._box_object.Box.depth", []);
  ("polliwog.box._box_object.Box.floor_point", []);
  ("polliwog.box._box_object.Box.from_points", [
     Check "points" [DAny; DInt 3] (Some "k")]);
  ("polliwog.box._box_object.Box.height", []);
  ("polliwog.box._box_object.Box.max_x", []);
  ("polliwog.box._box_object.Box.max_x_plane", []);
  ("polliwog.box._box_object.Box.max_y", []);
  ("polliwog.box._box_object.Box.max_y_plane", []);
  ("polliwog.box._box_object.Box.max_z", []);
  ("polliwog.box._box_object.Box.max_z_plane", []);
  ("polliwog.box._box_object.Box.mid_x", []);
  ("polliwog.box._box_object.Box.mid_y", []);
  ("polliwog.box._box_object.Box.mid_z", []);
  ("polliwog.box._box_object.Box.min_x", []);
  ("polliwog.box._box_object.Box.min_x_plane", []);
  ("polliwog.box._box_object.Box.min_y", []);
  ("polliwog.box._box_object.Box.min_y_plane", []);
  ("polliwog.box._box_object.Box.min_z", []);
  ("polliwog.box._box_object.Box.min_z_plane", []);
  ("polliwog.box._box_object.Box.ranges", []);
  ("polliwog.box._box_object.Box.surface_area", []);
  ("polliwog.box._box_object.Box.v", []);
  ("polliwog.box._box_object.Box.volume", []);
  ("polliwog.box._box_object.Box.width", []);
  ("polliwog.line._line_functions.coplanar_points_are_on_same_side_of_line", [
     CheckAny "a" [[DInt 3]; [DAny; DInt 3]] None;
     CheckSame "b" "a";
     CheckSame "p1" "a";
     CheckSame "p2" "a"]);
  ("polliwog.line._line_functions.project_point_to_line", [
     CheckAny "points" [[DInt 3]; [DAny; DInt 3]] (Some "k");
     CheckAny "reference_points_of_lines" [[DInt 3]; [DVarOrAny "k"; DInt 3]] None;
     CheckSame "vectors_along_lines" "reference_points_of_lines"]);
  ("polliwog.line._line_intersect.intersect_2d_lines", [
     Check "p0" [DInt 2] None;
     Check "q0" [DInt 2] None;
     Check "p1" [DInt 2] None;
     Check "q1" [DInt 2] None]);
  ("polliwog.line._line_intersect.intersect_lines", [
     Check "p0" [DInt 3] None;
     Check "q0" [DInt 3] None;
     Check "p1" [DInt 3] None;
     Check "q1" [DInt 3] None]);
  ("polliwog.line._line_object.Line.__init__", [
     Check "point" [DInt 3] None;
     Check "along" [DInt 3] None]);
  ("polliwog.line._line_object.Line.from_points", [
     Check "p1" [DInt 3] None;
     Check "p2" [DInt 3] None]);
  ("polliwog.line._line_object.Line.intersect_line", []);
  ("polliwog.line._line_object.Line.project", []);
  ("polliwog.line._line_object.Line.reference_points", []);
  ("polliwog.plane._plane_functions.mirror_point_across_plane", [
     CheckAny "points" [[DInt 3]; [DAny; DInt 3]] (Some "k");
     CheckAny "plane_equations" [[DInt 4]; [DVarOrAny "k"; DInt 4]] None]);
  ("polliwog.plane._plane_functions.normal_and_offset_from_plane_equations", [
     CheckAny "plane_equations" [[DInt 4]; [DAny; DInt 4]] None]);
  ("polliwog.plane._plane_functions.plane_equation_from_points", [
     Columnize "points" [DAny; DInt 3; DInt 3]]);
  ("polliwog.plane._plane_functions.plane_normal_from_points", []);
  ("polliwog.plane._plane_functions.project_point_to_plane", [
     CheckAny "points" [[DInt 3]; [DAny; DInt 3]] (Some "k");
     CheckAny "plane_equations" [[DInt 4]; [DVarOrAny "k"; DInt 4]] None]);
  ("polliwog.plane._plane_functions.signed_distance_to_plane", [
     CheckAny "points" [[DInt 3]; [DAny; DInt 3]] (Some "k");
     CheckAny "plane_equations" [[DInt 4]; [DVarOrAny "k"; DInt 4]] None]);
  ("polliwog.plane._plane_functions.translate_points_along_plane_normal", [
     CheckAny "points" [[DInt 3]; [DAny; DInt 3]] (Some "k");
     CheckAny "plane_equations" [[DInt 4]; [DVarOrAny "k"; DInt 4]] None]);
  ("polliwog.plane._plane_intersect.intersect_segment_with_plane", [
     NeedsShape "start_points";
     Columnize "start_points" [DAny; DInt 3];
     CheckSame "segment_vectors" "start_points";
     CheckSame "points_on_plane" "start_points";
     CheckSame "plane_normals" "start_points"]);
  ("polliwog.plane._plane_object.Plane.__init__", [
     Check "reference_point" [DInt 3] None;
     Check "normal" [DInt 3] None]);
  ("polliwog.plane._plane_object.Plane.__repr__", []);
  ("polliwog.plane._plane_object.Plane.canonical_point", []);
  ("polliwog.plane._plane_object.Plane.deserialize", []);
  ("polliwog.plane._plane_object.Plane.distance", []);
  ("polliwog.plane._plane_object.Plane.equation", []);
  ("polliwog.plane._plane_object.Plane.fit_from_points", [
     Check "points" [DAny; DInt 3] None]);
  ("polliwog.plane._plane_object.Plane.flipped", []);
  ("polliwog.plane._plane_object.Plane.flipped_if", []);
  ("polliwog.plane._plane_object.Plane.from_point_and_normal", []);
  ("polliwog.plane._plane_object.Plane.from_points", [
     Check "p1" [DInt 3] None;
     Check "p2" [DInt 3] None;
     Check "p3" [DInt 3] None]);
  ("polliwog.plane._plane_object.Plane.from_points_and_vector", [
     Check "p1" [DInt 3] None;
     Check "p2" [DInt 3] None;
     Check "vector" [DInt 3] None]);
  ("polliwog.plane._plane_object.Plane.line_segment_xsection", [
     Check "a" [DInt 3] None;
     Check "b" [DInt 3] None]);
  ("polliwog.plane._plane_object.Plane.line_segment_xsections", [
     Check "a" [DAny; DInt 3] (Some "k");
     Check "b" [DVar "k"; DInt 3] None]);
  ("polliwog.plane._plane_object.Plane.line_xsection", [
     Check "pt" [DInt 3] None;
     Check "ray" [DInt 3] None]);
  ("polliwog.plane._plane_object.Plane.line_xsections", [
     Check "pts" [DAny; DInt 3] (Some "k");
     Check "rays" [DVar "k"; DInt 3] None]);
  ("polliwog.plane._plane_object.Plane.mirror_point", []);
  ("polliwog.plane._plane_object.Plane.points_in_front", [
     Check "points" [DAny; DInt 3] None]);
  ("polliwog.plane._plane_object.Plane.points_on_or_in_front", [
     Check "points" [DAny; DInt 3] None]);
  ("polliwog.plane._plane_object.Plane.project_point", []);
  ("polliwog.plane._plane_object.Plane.rounded", []);
  ("polliwog.plane._plane_object.Plane.serialize", []);
  ("polliwog.plane._plane_object.Plane.sign", []);
  ("polliwog.plane._plane_object.Plane.signed_distance", []);
  ("polliwog.plane._plane_object.Plane.tilted", [
     Check "new_point" [DInt 3] None;
     Check "coplanar_point" [DInt 3] None]);
  ("polliwog.plane._plane_object.Plane.validate", []);
  ("polliwog.plane._slicing.slice_triangles_by_plane", [
     Check "vertices" [DAny; DInt 3] None;
     Check "faces" [DAny; DInt 3] (Some "num_faces");
     Check "plane_reference_point" [DInt 3] None;
     Check "plane_normal" [DInt 3] None;
     IfPresent "faces_to_slice" (Check "faces_to_slice" [DVar "num_faces"] None)]);
  ("polliwog.plane._trimesh_intersections.ToleranceMesh.__init__", []);
  ("polliwog.plane._trimesh_intersections.slice_faces_plane", []);
  ("polliwog.plane._trimesh_intersections.unique_bincount", []);
  ("polliwog.pointcloud._pointcloud_functions.extent", [
     Check "points" [DAny; DInt 3] (Some "k")]);
  ("polliwog.pointcloud._pointcloud_functions.percentile", [
     Check "points" [DAny; DInt 3] (Some "k");
     Check "axis" [DInt 3] None]);
  ("polliwog.polyline._array.find_changes", []);
  ("polliwog.polyline._array.find_repeats", []);
  ("polliwog.polyline._edges.edges_for", []);
  ("polliwog.polyline._inflection_points.inflection_points", [
     Check "points" [DAny; DInt 3] None;
     Check "rise_axis" [DInt 3] None;
     Check "run_axis" [DInt 3] None]);
  ("polliwog.polyline._inflection_points.point_of_max_acceleration", [
     Check "points" [DAny; DInt 3] (Some "k");
     Check "rise_axis" [DInt 3] None;
     Check "run_axis" [DInt 3] None]);
  ("polliwog.polyline._polyline_object.Polyline.__init__", [
     Check "v" [DAny; DInt 3] (Some "num_v")]);
  ("polliwog.polyline._polyline_object.Polyline.__len__", []);
  ("polliwog.polyline._polyline_object.Polyline.__repr__", []);
  ("polliwog.polyline._polyline_object.Polyline.aligned_along_subsegment", [
     Check "p1" [DInt 3] None;
     Check "p2" [DInt 3] None]);
  ("polliwog.polyline._polyline_object.Polyline.aligned_with", [
     Check "vector" [DInt 3] None]);
  ("polliwog.polyline._polyline_object.Polyline.apex", []);
  ("polliwog.polyline._polyline_object.Polyline.bounding_box", []);
  ("polliwog.polyline._polyline_object.Polyline.deserialize", []);
  ("polliwog.polyline._polyline_object.Polyline.flipped", []);
  ("polliwog.polyline._polyline_object.Polyline.flipped_if", []);
  ("polliwog.polyline._polyline_object.Polyline.index_of_vertex", [
     Check "point" [DInt 3] None]);
  ("polliwog.polyline._polyline_object.Polyline.intersect_plane", []);
  ("polliwog.polyline._polyline_object.Polyline.join", []);
  ("polliwog.polyline._polyline_object.Polyline.nearest", [
     Columnize "points" [DAny; DInt 3]]);
  ("polliwog.polyline._polyline_object.Polyline.num_e", []);
  ("polliwog.polyline._polyline_object.Polyline.num_v", []);
  ("polliwog.polyline._polyline_object.Polyline.path_centroid", []);
  ("polliwog.polyline._polyline_object.Polyline.point_along_path", [
     Columnize "fraction_of_total" [DAny]]);
  ("polliwog.polyline._polyline_object.Polyline.rolled", []);
  ("polliwog.polyline._polyline_object.Polyline.rounded", []);
  ("polliwog.polyline._polyline_object.Polyline.sectioned", [
     Check "section_breakpoints" [DAny] None]);
  ("polliwog.polyline._polyline_object.Polyline.segment_lengths", []);
  ("polliwog.polyline._polyline_object.Polyline.segment_vectors", []);
  ("polliwog.polyline._polyline_object.Polyline.segments", []);
  ("polliwog.polyline._polyline_object.Polyline.serialize", []);
  ("polliwog.polyline._polyline_object.Polyline.sliced_at_indices", []);
  ("polliwog.polyline._polyline_object.Polyline.sliced_at_points", [
     Check "start_point" [DInt 3] None;
     Check "end_point" [DInt 3] None]);
  ("polliwog.polyline._polyline_object.Polyline.sliced_by_plane", []);
  ("polliwog.polyline._polyline_object.Polyline.subdivided_by_length", [
     IfPresent "edges_to_subdivide" (Check "edges_to_subdivide" [DVar "self.num_e"] None)]);
  ("polliwog.polyline._polyline_object.Polyline.total_length", []);
  ("polliwog.polyline._polyline_object.Polyline.validate", []);
  ("polliwog.polyline._polyline_object.Polyline.with_insertions", [
     Check "points" [DAny; DInt 3] (Some "k");
     Check "indices" [DVar "k"] None]);
  ("polliwog.polyline._polyline_object.Polyline.with_segments_bisected", [
     Check "segment_indices" [DAny] None]);
  ("polliwog.polyline._slice_by_plane.slice_open_polyline_by_plane", [
     Check "vertices" [DAny; DInt 3] (Some "num_v")]);
  ("polliwog.polyline._try_inflection_points.load_front_torso_mesh", []);
  ("polliwog.polyline._try_inflection_points.main", []);
  ("polliwog.segment._segment_functions.closest_point_of_line_segment", [
     Check "points" [DAny; DInt 3] (Some "k");
     Check "start_points" [DVar "k"; DInt 3] None;
     Check "segment_vectors" [DVar "k"; DInt 3] None]);
  ("polliwog.segment._segment_functions.is_point_on_line_segment", [
     Check "query_points" [DAny; DInt 3] (Some "k");
     Check "start_points" [DVar "k"; DInt 3] None;
     Check "segment_vectors" [DVar "k"; DInt 3] None]);
  ("polliwog.segment._segment_functions.path_centroid", [
     Check "segments" [DAny; DInt 2; DInt 3] None]);
  ("polliwog.segment._segment_functions.subdivide_segment", [
     Check "p1" [DAny] (Some "n");
     Check "p2" [DVar "n"] None]);
  ("polliwog.segment._segment_functions.subdivide_segments", [
     Check "v" [DAny; DAny] None]);
  ("polliwog.shapes._shapes.cube", [
     Check "origin" [DInt 3] None]);
  ("polliwog.shapes._shapes.rectangular_prism", [
     Check "origin" [DInt 3] None;
     Check "size" [DInt 3] None]);
  ("polliwog.shapes._shapes.triangular_prism", [
     Check "p1" [DInt 3] None;
     Check "p2" [DInt 3] None;
     Check "p3" [DInt 3] None]);
  ("polliwog.transform._affine_transform.transform_matrix_for_non_uniform_scale", []);
  ("polliwog.transform._affine_transform.transform_matrix_for_rotation", [
     NeedsShape "rotation";
     CheckAny "rotation" [[DInt 3; DInt 3]; [DInt 3]] None]);
  ("polliwog.transform._affine_transform.transform_matrix_for_translation", [
     Check "translation" [DInt 3] None]);
  ("polliwog.transform._affine_transform.transform_matrix_for_uniform_scale", []);
  ("polliwog.transform._apply.apply_transform", [
     Check "transform" [DInt 4; DInt 4] None]);
  ("polliwog.transform._apply.apply_transform.<locals>.apply", [
     Columnize "points" [DAny; DInt 3]]);
  ("polliwog.transform._apply.compose_transforms", [
     CheckEach "transforms" [DInt 4; DInt 4]]);
  ("polliwog.transform._composite_transform.CompositeTransform.__call__", []);
  ("polliwog.transform._composite_transform.CompositeTransform.__init__", []);
  ("polliwog.transform._composite_transform.CompositeTransform.append_transform", [
     Check "forward" [DInt 4; DInt 4] None;
     IfPresent "reverse" (Check "reverse" [DInt 4; DInt 4] None)]);
  ("polliwog.transform._composite_transform.CompositeTransform.convert_units", []);
  ("polliwog.transform._composite_transform.CompositeTransform.flip", []);
  ("polliwog.transform._composite_transform.CompositeTransform.non_uniform_scale", []);
  ("polliwog.transform._composite_transform.CompositeTransform.reorient", []);
  ("polliwog.transform._composite_transform.CompositeTransform.rotate", []);
  ("polliwog.transform._composite_transform.CompositeTransform.transform_matrix_for", []);
  ("polliwog.transform._composite_transform.CompositeTransform.translate", []);
  ("polliwog.transform._composite_transform.CompositeTransform.uniform_scale", []);
  ("polliwog.transform._coordinate_manager.CoordinateManager.__getattr__", []);
  ("polliwog.transform._coordinate_manager.CoordinateManager.__init__", []);
  ("polliwog.transform._coordinate_manager.CoordinateManager.__setattr__", [
     Check "points" [DAny; DInt 3] None]);
  ("polliwog.transform._coordinate_manager.CoordinateManager.append_transform", []);
  ("polliwog.transform._coordinate_manager.CoordinateManager.convert_units", []);
  ("polliwog.transform._coordinate_manager.CoordinateManager.do_transform", []);
  ("polliwog.transform._coordinate_manager.CoordinateManager.flip", []);
  ("polliwog.transform._coordinate_manager.CoordinateManager.non_uniform_scale", []);
  ("polliwog.transform._coordinate_manager.CoordinateManager.reorient", []);
  ("polliwog.transform._coordinate_manager.CoordinateManager.rotate", []);
  ("polliwog.transform._coordinate_manager.CoordinateManager.tag_as", []);
  ("polliwog.transform._coordinate_manager.CoordinateManager.translate", []);
  ("polliwog.transform._coordinate_manager.CoordinateManager.uniform_scale", []);
  ("polliwog.transform._rodrigues.cv2_rodrigues", []);
  ("polliwog.transform._rodrigues.rodrigues_vector_to_rotation_matrix", [
     CheckFlat "r" [DInt 3]]);
  ("polliwog.transform._rodrigues.rotation_matrix_to_rodrigues_vector", [
     Check "r" [DInt 3; DInt 3] None]);
  ("polliwog.transform._rotation.euler", [
     Check "xyz" [DAny] None]);
  ("polliwog.transform._rotation.rotation_from_up_and_look", [
     Check "up" [DInt 3] None;
     Check "look" [DInt 3] None]);
  ("polliwog.transform._testing_helper.write_canvas_points_to_png", [
     Check "canvas_coords" [DAny; DInt 2] None]);
  ("polliwog.transform._viewing.view_to_orthographic_projection", []);
  ("polliwog.transform._viewing.viewport_transform", []);
  ("polliwog.transform._viewing.world_to_canvas_orthographic_projection", [
     Check "position" [DInt 3] None;
     Check "target" [DInt 3] None]);
  ("polliwog.transform._viewing.world_to_view", [
     Check "position" [DInt 3] None;
     Check "target" [DInt 3] None]);
  ("polliwog.transform.make_rodrigues_test_data.main", []);
  ("polliwog.tri.functions.barycentric_coordinates_of_points", [
     Check "vertices_of_tris" [DAny; DInt 3; DInt 3] (Some "k");
     Check "points" [DVar "k"; DInt 3] None]);
  ("polliwog.tri.functions.edges_of_faces", [
     Check "faces" [DAny; DInt 3] None]);
  ("polliwog.tri.functions.sample", [
     Check "vertices_of_tris" [DAny; DInt 3; DInt 3] (Some "k");
     IfPresent "weights" (Check "weights" [DVar "k"] None)]);
  ("polliwog.tri.functions.surface_area", [
     Columnize "vertices_of_tris" [DAny; DInt 3; DInt 3]]);
  ("polliwog.tri.functions.surface_normals", [
     Columnize "points" [DAny; DInt 3; DInt 3]]);
  ("polliwog.tri.functions.tri_contains_coplanar_point", [
     CheckAny "a" [[DInt 3]; [DAny; DInt 3]] None;
     CheckSame "b" "a";
     CheckSame "c" "a";
     CheckSame "point" "a"]);
  ("polliwog.tri.quad_faces.quads_to_tris", [
     Check "quads" [DAny; DInt 4] None])
].

Definition delegation : list (string * list delegate) := [
  ("polliwog.line._line_object.Line.project", [
     MkDelegate "polliwog.line._line_functions.project_point_to_line" [("points", FromArg "points"); ("reference_points_of_lines", Const (AArr [3])); ("vectors_along_lines", Const (AArr [3]))]]);
  ("polliwog.plane._plane_functions.plane_normal_from_points", [
     MkDelegate "polliwog.tri.functions.surface_normals" [("points", FromArg "points")]]);
  ("polliwog.plane._plane_object.Plane.distance", [
     MkDelegate "polliwog.plane._plane_functions.signed_distance_to_plane" [("points", FromArg "points"); ("plane_equations", Const (AArr [4]))]]);
  ("polliwog.plane._plane_object.Plane.from_point_and_normal", [
     MkDelegate "polliwog.plane._plane_object.Plane.__init__" [("reference_point", FromArg "reference_point"); ("normal", FromArg "normal")]]);
  ("polliwog.plane._plane_object.Plane.line_segment_xsections", [
     MkDelegate "polliwog.plane._plane_object.Plane.line_xsections" [("pts", FromArg "a"); ("rays", FromArg "b")]]);
  ("polliwog.plane._plane_object.Plane.mirror_point", [
     MkDelegate "polliwog.plane._plane_functions.mirror_point_across_plane" [("points", FromArg "points"); ("plane_equations", Const (AArr [4]))]]);
  ("polliwog.plane._plane_object.Plane.points_in_front", [
     MkDelegate "polliwog.plane._plane_functions.signed_distance_to_plane" [("points", FromArg "points"); ("plane_equations", Const (AArr [4]))]]);
  ("polliwog.plane._plane_object.Plane.points_on_or_in_front", [
     MkDelegate "polliwog.plane._plane_functions.signed_distance_to_plane" [("points", FromArg "points"); ("plane_equations", Const (AArr [4]))]]);
  ("polliwog.plane._plane_object.Plane.project_point", [
     MkDelegate "polliwog.plane._plane_functions.project_point_to_plane" [("points", FromArg "points"); ("plane_equations", Const (AArr [4]))]]);
  ("polliwog.plane._plane_object.Plane.sign", [
     MkDelegate "polliwog.plane._plane_functions.signed_distance_to_plane" [("points", FromArg "points"); ("plane_equations", Const (AArr [4]))]]);
  ("polliwog.plane._plane_object.Plane.signed_distance", [
     MkDelegate "polliwog.plane._plane_functions.signed_distance_to_plane" [("points", FromArg "points"); ("plane_equations", Const (AArr [4]))]]);
  ("polliwog.polyline._polyline_object.Polyline.aligned_along_subsegment", [
     MkDelegate "polliwog.polyline._polyline_object.Polyline.nearest" [("points", FromArg "p1")];
     MkDelegate "polliwog.polyline._polyline_object.Polyline.nearest" [("points", FromArg "p2")]]);
  ("polliwog.polyline._polyline_object.Polyline.apex", [
     MkDelegate "vg.core.apex" [("points", Const (AArr [7; 3])); ("along", FromArg "axis")]]);
  ("polliwog.transform._composite_transform.CompositeTransform.__call__", [
     MkDelegate "polliwog.transform._apply.apply_transform.<locals>.apply" [("points", FromArg "points")]]);
  ("polliwog.transform._composite_transform.CompositeTransform.reorient", [
     MkDelegate "polliwog.transform._rotation.rotation_from_up_and_look" [("up", FromArg "up"); ("look", FromArg "look")]]);
  ("polliwog.transform._composite_transform.CompositeTransform.rotate", [
     MkDelegate "polliwog.transform._affine_transform.transform_matrix_for_rotation" [("rotation", FromArg "rotation")]]);
  ("polliwog.transform._composite_transform.CompositeTransform.translate", [
     MkDelegate "polliwog.transform._affine_transform.transform_matrix_for_translation" [("translation", FromArg "translation")]]);
  ("polliwog.transform._coordinate_manager.CoordinateManager.append_transform", [
     MkDelegate "polliwog.transform._composite_transform.CompositeTransform.append_transform" [("forward", FromArg "forward"); ("reverse", FromArg "reverse")]]);
  ("polliwog.transform._coordinate_manager.CoordinateManager.do_transform", [
     MkDelegate "polliwog.transform._composite_transform.CompositeTransform.__call__" [("points", FromArg "points")];
     MkDelegate "polliwog.transform._apply.apply_transform.<locals>.apply" [("points", FromArg "points")]]);
  ("polliwog.transform._coordinate_manager.CoordinateManager.reorient", [
     MkDelegate "polliwog.transform._composite_transform.CompositeTransform.reorient" [("up", FromArg "up"); ("look", FromArg "look")];
     MkDelegate "polliwog.transform._rotation.rotation_from_up_and_look" [("up", FromArg "up"); ("look", FromArg "look")]]);
  ("polliwog.transform._coordinate_manager.CoordinateManager.rotate", [
     MkDelegate "polliwog.transform._composite_transform.CompositeTransform.rotate" [("rotation", FromArg "rotation")];
     MkDelegate "polliwog.transform._affine_transform.transform_matrix_for_rotation" [("rotation", FromArg "rotation")]]);
  ("polliwog.transform._coordinate_manager.CoordinateManager.translate", [
     MkDelegate "polliwog.transform._composite_transform.CompositeTransform.translate" [("translation", FromArg "translation")];
     MkDelegate "polliwog.transform._affine_transform.transform_matrix_for_translation" [("translation", FromArg "translation")]]);
  ("polliwog.transform._viewing.world_to_canvas_orthographic_projection", [
     MkDelegate "polliwog.transform._viewing.world_to_view" [("position", FromArg "position"); ("target", FromArg "target")]])
].

Definition documented_args : list (string * list string) := [
  ("polliwog.box._box_object.Box.__init__", ["origin"; "size"]);
  ("polliwog.box._box_object.Box.contains", ["point"]);
  ("polliwog.box._box_object.Box.from_points", ["points"]);
  ("polliwog.line._line_functions.coplanar_points_are_on_same_side_of_line", ["a"; "b"; "p1"; "p2"]);
  ("polliwog.line._line_functions.project_point_to_line", ["points"; "reference_points_of_lines"; "vectors_along_lines"]);
  ("polliwog.line._line_intersect.intersect_2d_lines", ["p0"; "q0"; "p1"; "q1"]);
  ("polliwog.line._line_intersect.intersect_lines", ["p0"; "q0"; "p1"; "q1"]);
  ("polliwog.line._line_object.Line.__init__", ["point"; "along"]);
  ("polliwog.line._line_object.Line.from_points", ["p1"; "p2"]);
  ("polliwog.line._line_object.Line.project", ["points"]);
  ("polliwog.plane._plane_functions.mirror_point_across_plane", ["points"; "plane_equations"]);
  ("polliwog.plane._plane_functions.normal_and_offset_from_plane_equations", ["plane_equations"]);
  ("polliwog.plane._plane_functions.plane_equation_from_points", ["points"]);
  ("polliwog.plane._plane_functions.plane_normal_from_points", ["points"]);
  ("polliwog.plane._plane_functions.project_point_to_plane", ["points"; "plane_equations"]);
  ("polliwog.plane._plane_functions.signed_distance_to_plane", ["points"; "plane_equations"]);
  ("polliwog.plane._plane_intersect.intersect_segment_with_plane", ["start_points"; "segment_vectors"; "points_on_plane"; "plane_normals"]);
  ("polliwog.plane._plane_object.Plane.__init__", ["reference_point"; "normal"]);
  ("polliwog.plane._plane_object.Plane.distance", ["points"]);
  ("polliwog.plane._plane_object.Plane.fit_from_points", ["points"]);
  ("polliwog.plane._plane_object.Plane.from_point_and_normal", ["reference_point"; "normal"]);
  ("polliwog.plane._plane_object.Plane.from_points", ["p1"; "p2"; "p3"]);
  ("polliwog.plane._plane_object.Plane.from_points_and_vector", ["p1"; "p2"; "vector"]);
  ("polliwog.plane._plane_object.Plane.line_segment_xsection", ["a"; "b"]);
  ("polliwog.plane._plane_object.Plane.line_segment_xsections", ["a"; "b"]);
  ("polliwog.plane._plane_object.Plane.line_xsection", ["pt"; "ray"]);
  ("polliwog.plane._plane_object.Plane.line_xsections", ["pts"; "rays"]);
  ("polliwog.plane._plane_object.Plane.mirror_point", ["points"]);
  ("polliwog.plane._plane_object.Plane.points_in_front", ["points"]);
  ("polliwog.plane._plane_object.Plane.points_on_or_in_front", ["points"]);
  ("polliwog.plane._plane_object.Plane.project_point", ["points"]);
  ("polliwog.plane._plane_object.Plane.sign", ["points"]);
  ("polliwog.plane._plane_object.Plane.signed_distance", ["points"]);
  ("polliwog.plane._plane_object.Plane.tilted", ["new_point"; "coplanar_point"]);
  ("polliwog.plane._slicing.slice_triangles_by_plane", ["vertices"; "faces"; "plane_reference_point"; "plane_normal"; "faces_to_slice"]);
  ("polliwog.pointcloud._pointcloud_functions.extent", ["points"]);
  ("polliwog.pointcloud._pointcloud_functions.percentile", ["points"; "axis"]);
  ("polliwog.polyline._inflection_points.inflection_points", ["points"; "rise_axis"; "run_axis"]);
  ("polliwog.polyline._inflection_points.point_of_max_acceleration", ["points"; "rise_axis"; "run_axis"]);
  ("polliwog.polyline._polyline_object.Polyline.__init__", ["v"]);
  ("polliwog.polyline._polyline_object.Polyline.aligned_along_subsegment", ["p1"; "p2"]);
  ("polliwog.polyline._polyline_object.Polyline.aligned_with", ["vector"]);
  ("polliwog.polyline._polyline_object.Polyline.apex", ["axis"]);
  ("polliwog.polyline._polyline_object.Polyline.index_of_vertex", ["point"]);
  ("polliwog.polyline._polyline_object.Polyline.nearest", ["points"]);
  ("polliwog.polyline._polyline_object.Polyline.point_along_path", ["fraction_of_total"]);
  ("polliwog.polyline._polyline_object.Polyline.sectioned", ["section_breakpoints"]);
  ("polliwog.polyline._polyline_object.Polyline.sliced_at_points", ["start_point"; "end_point"]);
  ("polliwog.polyline._polyline_object.Polyline.subdivided_by_length", ["edges_to_subdivide"]);
  ("polliwog.polyline._polyline_object.Polyline.with_insertions", ["points"; "indices"]);
  ("polliwog.polyline._polyline_object.Polyline.with_segments_bisected", ["segment_indices"]);
  ("polliwog.segment._segment_functions.closest_point_of_line_segment", ["points"; "start_points"; "segment_vectors"]);
  ("polliwog.segment._segment_functions.is_point_on_line_segment", ["query_points"; "start_points"; "segment_vectors"]);
  ("polliwog.segment._segment_functions.path_centroid", ["segments"]);
  ("polliwog.segment._segment_functions.subdivide_segment", ["p1"; "p2"]);
  ("polliwog.segment._segment_functions.subdivide_segments", ["v"]);
  ("polliwog.shapes._shapes.cube", ["origin"]);
  ("polliwog.shapes._shapes.rectangular_prism", ["origin"; "size"]);
  ("polliwog.shapes._shapes.triangular_prism", ["p1"; "p2"; "p3"]);
  ("polliwog.transform._affine_transform.transform_matrix_for_rotation", ["rotation"]);
  ("polliwog.transform._affine_transform.transform_matrix_for_translation", ["translation"]);
  ("polliwog.transform._apply.apply_transform", ["transform"]);
  ("polliwog.transform._apply.apply_transform.<locals>.apply", ["points"]);
  ("polliwog.transform._composite_transform.CompositeTransform.__call__", ["points"]);
  ("polliwog.transform._composite_transform.CompositeTransform.append_transform", ["forward"; "reverse"]);
  ("polliwog.transform._composite_transform.CompositeTransform.reorient", ["up"; "look"]);
  ("polliwog.transform._composite_transform.CompositeTransform.rotate", ["rotation"]);
  ("polliwog.transform._composite_transform.CompositeTransform.translate", ["translation"]);
  ("polliwog.transform._coordinate_manager.CoordinateManager.__setattr__", ["points"]);
  ("polliwog.transform._coordinate_manager.CoordinateManager.append_transform", ["forward"; "reverse"]);
  ("polliwog.transform._coordinate_manager.CoordinateManager.do_transform", ["points"]);
  ("polliwog.transform._coordinate_manager.CoordinateManager.reorient", ["up"; "look"]);
  ("polliwog.transform._coordinate_manager.CoordinateManager.rotate", ["rotation"]);
  ("polliwog.transform._coordinate_manager.CoordinateManager.translate", ["translation"]);
  ("polliwog.transform._rodrigues.cv2_rodrigues", ["r"]);
  ("polliwog.transform._rodrigues.rodrigues_vector_to_rotation_matrix", ["r"]);
  ("polliwog.transform._rodrigues.rotation_matrix_to_rodrigues_vector", ["r"]);
  ("polliwog.transform._rotation.euler", ["xyz"]);
  ("polliwog.transform._rotation.rotation_from_up_and_look", ["up"; "look"]);
  ("polliwog.transform._viewing.world_to_canvas_orthographic_projection", ["position"; "target"]);
  ("polliwog.transform._viewing.world_to_view", ["position"; "target"]);
  ("polliwog.tri.functions.barycentric_coordinates_of_points", ["vertices_of_tris"; "points"]);
  ("polliwog.tri.functions.edges_of_faces", ["faces"]);
  ("polliwog.tri.functions.sample", ["vertices_of_tris"; "weights"]);
  ("polliwog.tri.functions.surface_area", ["vertices_of_tris"]);
  ("polliwog.tri.functions.surface_normals", ["points"]);
  ("polliwog.tri.functions.tri_contains_coplanar_point", ["a"; "b"; "c"; "point"]);
  ("polliwog.tri.quad_faces.quads_to_tris", ["quads"])
].

(* checks performed outside polliwog (vg), hand-written from site-packages/vg/core.py *)
Definition external_contracts : contracts := [
  ("vg.core.apex", [Check "points" [DAny; DInt 3] None; Check "along" [DInt 3] None])
].

(* callables whose acceptance logic is not a sequence of shape checks (judged by the oracle only) *)
Definition not_modelled : list string := ["polliwog.transform._rodrigues.cv2_rodrigues"].

(* (callable, array parameter) pairs that are rejected by something else than a shape check (world_to_view's `up`:
   by vg.cross / np.array); the callable is modelled with that parameter ignored, the tables below omit it, and
   probes that pass it are judged by the oracle only *)
Definition not_modelled_args : list (string * string) := [("polliwog.transform._viewing.world_to_view", "up")].

(* the documented single / stacked forms of every registered array-taking callable (arguments in the order of
   documented_args; length symbols shared between arguments; minimum sizes are value checks and omitted) *)
Definition documented_forms : list (string * list form) := [
  ("polliwog.box._box_object.Box.__init__", [
     [("origin", FArr [FInt 3]); ("size", FArr [FInt 3])]]);
  ("polliwog.box._box_object.Box.contains", [
     [("point", FArr [FInt 3])]]);
  ("polliwog.box._box_object.Box.from_points", [
     [("points", FArr [FSym "k"; FInt 3])]]);
  ("polliwog.line._line_functions.coplanar_points_are_on_same_side_of_line", [
     [("a", FArr [FInt 3]); ("b", FArr [FInt 3]); ("p1", FArr [FInt 3]); ("p2", FArr [FInt 3])];
     [("a", FArr [FSym "k"; FInt 3]); ("b", FArr [FSym "k"; FInt 3]); ("p1", FArr [FSym "k"; FInt 3]); ("p2", FArr [FSym "k"; FInt 3])]]);
  ("polliwog.line._line_functions.project_point_to_line", [
     [("points", FArr [FInt 3]); ("reference_points_of_lines", FArr [FInt 3]); ("vectors_along_lines", FArr [FInt 3])];
     [("points", FArr [FSym "k"; FInt 3]); ("reference_points_of_lines", FArr [FInt 3]); ("vectors_along_lines", FArr [FInt 3])];
     [("points", FArr [FInt 3]); ("reference_points_of_lines", FArr [FSym "m"; FInt 3]); ("vectors_along_lines", FArr [FSym "m"; FInt 3])];
     [("points", FArr [FSym "k"; FInt 3]); ("reference_points_of_lines", FArr [FSym "k"; FInt 3]); ("vectors_along_lines", FArr [FSym "k"; FInt 3])]]);
  ("polliwog.line._line_intersect.intersect_2d_lines", [
     [("p0", FArr [FInt 2]); ("q0", FArr [FInt 2]); ("p1", FArr [FInt 2]); ("q1", FArr [FInt 2])]]);
  ("polliwog.line._line_intersect.intersect_lines", [
     [("p0", FArr [FInt 3]); ("q0", FArr [FInt 3]); ("p1", FArr [FInt 3]); ("q1", FArr [FInt 3])]]);
  ("polliwog.line._line_object.Line.__init__", [
     [("point", FArr [FInt 3]); ("along", FArr [FInt 3])]]);
  ("polliwog.line._line_object.Line.from_points", [
     [("p1", FArr [FInt 3]); ("p2", FArr [FInt 3])]]);
  ("polliwog.line._line_object.Line.project", [
     [("points", FArr [FInt 3])];
     [("points", FArr [FSym "k"; FInt 3])]]);
  ("polliwog.plane._plane_functions.mirror_point_across_plane", [
     [("points", FArr [FInt 3]); ("plane_equations", FArr [FInt 4])];
     [("points", FArr [FSym "k"; FInt 3]); ("plane_equations", FArr [FInt 4])];
     [("points", FArr [FInt 3]); ("plane_equations", FArr [FSym "m"; FInt 4])];
     [("points", FArr [FSym "k"; FInt 3]); ("plane_equations", FArr [FSym "k"; FInt 4])]]);
  ("polliwog.plane._plane_functions.normal_and_offset_from_plane_equations", [
     [("plane_equations", FArr [FInt 4])];
     [("plane_equations", FArr [FSym "k"; FInt 4])]]);
  ("polliwog.plane._plane_functions.plane_equation_from_points", [
     [("points", FArr [FInt 3; FInt 3])];
     [("points", FArr [FSym "k"; FInt 3; FInt 3])]]);
  ("polliwog.plane._plane_functions.plane_normal_from_points", [
     [("points", FArr [FInt 3; FInt 3])];
     [("points", FArr [FSym "k"; FInt 3; FInt 3])]]);
  ("polliwog.plane._plane_functions.project_point_to_plane", [
     [("points", FArr [FInt 3]); ("plane_equations", FArr [FInt 4])];
     [("points", FArr [FSym "k"; FInt 3]); ("plane_equations", FArr [FInt 4])];
     [("points", FArr [FInt 3]); ("plane_equations", FArr [FSym "m"; FInt 4])];
     [("points", FArr [FSym "k"; FInt 3]); ("plane_equations", FArr [FSym "k"; FInt 4])]]);
  ("polliwog.plane._plane_functions.signed_distance_to_plane", [
     [("points", FArr [FInt 3]); ("plane_equations", FArr [FInt 4])];
     [("points", FArr [FSym "k"; FInt 3]); ("plane_equations", FArr [FInt 4])];
     [("points", FArr [FInt 3]); ("plane_equations", FArr [FSym "m"; FInt 4])];
     [("points", FArr [FSym "k"; FInt 3]); ("plane_equations", FArr [FSym "k"; FInt 4])]]);
  ("polliwog.plane._plane_intersect.intersect_segment_with_plane", [
     [("start_points", FArr [FInt 3]); ("segment_vectors", FArr [FInt 3]); ("points_on_plane", FArr [FInt 3]); ("plane_normals", FArr [FInt 3])];
     [("start_points", FArr [FSym "k"; FInt 3]); ("segment_vectors", FArr [FSym "k"; FInt 3]); ("points_on_plane", FArr [FSym "k"; FInt 3]); ("plane_normals", FArr [FSym "k"; FInt 3])]]);
  ("polliwog.plane._plane_object.Plane.__init__", [
     [("reference_point", FArr [FInt 3]); ("normal", FArr [FInt 3])]]);
  ("polliwog.plane._plane_object.Plane.distance", [
     [("points", FArr [FInt 3])];
     [("points", FArr [FSym "k"; FInt 3])]]);
  ("polliwog.plane._plane_object.Plane.fit_from_points", [
     [("points", FArr [FSym "k"; FInt 3])]]);
  ("polliwog.plane._plane_object.Plane.from_point_and_normal", [
     [("reference_point", FArr [FInt 3]); ("normal", FArr [FInt 3])]]);
  ("polliwog.plane._plane_object.Plane.from_points", [
     [("p1", FArr [FInt 3]); ("p2", FArr [FInt 3]); ("p3", FArr [FInt 3])]]);
  ("polliwog.plane._plane_object.Plane.from_points_and_vector", [
     [("p1", FArr [FInt 3]); ("p2", FArr [FInt 3]); ("vector", FArr [FInt 3])]]);
  ("polliwog.plane._plane_object.Plane.line_segment_xsection", [
     [("a", FArr [FInt 3]); ("b", FArr [FInt 3])]]);
  ("polliwog.plane._plane_object.Plane.line_segment_xsections", [
     [("a", FArr [FSym "k"; FInt 3]); ("b", FArr [FSym "k"; FInt 3])]]);
  ("polliwog.plane._plane_object.Plane.line_xsection", [
     [("pt", FArr [FInt 3]); ("ray", FArr [FInt 3])]]);
  ("polliwog.plane._plane_object.Plane.line_xsections", [
     [("pts", FArr [FSym "k"; FInt 3]); ("rays", FArr [FSym "k"; FInt 3])]]);
  ("polliwog.plane._plane_object.Plane.mirror_point", [
     [("points", FArr [FInt 3])];
     [("points", FArr [FSym "k"; FInt 3])]]);
  ("polliwog.plane._plane_object.Plane.points_in_front", [
     [("points", FArr [FSym "k"; FInt 3])]]);
  ("polliwog.plane._plane_object.Plane.points_on_or_in_front", [
     [("points", FArr [FSym "k"; FInt 3])]]);
  ("polliwog.plane._plane_object.Plane.project_point", [
     [("points", FArr [FInt 3])];
     [("points", FArr [FSym "k"; FInt 3])]]);
  ("polliwog.plane._plane_object.Plane.sign", [
     [("points", FArr [FInt 3])];
     [("points", FArr [FSym "k"; FInt 3])]]);
  ("polliwog.plane._plane_object.Plane.signed_distance", [
     [("points", FArr [FInt 3])];
     [("points", FArr [FSym "k"; FInt 3])]]);
  ("polliwog.plane._plane_object.Plane.tilted", [
     [("new_point", FArr [FInt 3]); ("coplanar_point", FArr [FInt 3])]]);
  ("polliwog.plane._slicing.slice_triangles_by_plane", [
     [("vertices", FArr [FSym "n"; FInt 3]); ("faces", FArr [FSym "f"; FInt 3]); ("plane_reference_point", FArr [FInt 3]); ("plane_normal", FArr [FInt 3]); ("faces_to_slice", FNone)];
     [("vertices", FArr [FSym "n"; FInt 3]); ("faces", FArr [FSym "f"; FInt 3]); ("plane_reference_point", FArr [FInt 3]); ("plane_normal", FArr [FInt 3]); ("faces_to_slice", FArr [FSym "f"])]]);
  ("polliwog.pointcloud._pointcloud_functions.extent", [
     [("points", FArr [FSym "k"; FInt 3])]]);
  ("polliwog.pointcloud._pointcloud_functions.percentile", [
     [("points", FArr [FSym "k"; FInt 3]); ("axis", FArr [FInt 3])]]);
  ("polliwog.polyline._inflection_points.inflection_points", [
     [("points", FArr [FSym "k"; FInt 3]); ("rise_axis", FArr [FInt 3]); ("run_axis", FArr [FInt 3])]]);
  ("polliwog.polyline._inflection_points.point_of_max_acceleration", [
     [("points", FArr [FSym "k"; FInt 3]); ("rise_axis", FArr [FInt 3]); ("run_axis", FArr [FInt 3])]]);
  ("polliwog.polyline._polyline_object.Polyline.__init__", [
     [("v", FArr [FSym "k"; FInt 3])]]);
  ("polliwog.polyline._polyline_object.Polyline.aligned_along_subsegment", [
     [("p1", FArr [FInt 3]); ("p2", FArr [FInt 3])]]);
  ("polliwog.polyline._polyline_object.Polyline.aligned_with", [
     [("vector", FArr [FInt 3])]]);
  ("polliwog.polyline._polyline_object.Polyline.apex", [
     [("axis", FArr [FInt 3])]]);
  ("polliwog.polyline._polyline_object.Polyline.index_of_vertex", [
     [("point", FArr [FInt 3])]]);
  ("polliwog.polyline._polyline_object.Polyline.nearest", [
     [("points", FArr [FInt 3])];
     [("points", FArr [FSym "k"; FInt 3])]]);
  ("polliwog.polyline._polyline_object.Polyline.point_along_path", [
     [("fraction_of_total", FNumber)];
     [("fraction_of_total", FArr [FSym "k"])]]);
  ("polliwog.polyline._polyline_object.Polyline.sectioned", [
     [("section_breakpoints", FArr [FSym "m"])]]);
  ("polliwog.polyline._polyline_object.Polyline.sliced_at_points", [
     [("start_point", FArr [FInt 3]); ("end_point", FArr [FInt 3])]]);
  ("polliwog.polyline._polyline_object.Polyline.subdivided_by_length", [
     [("edges_to_subdivide", FNone)];
     [("edges_to_subdivide", FArr [FSym "self.num_e"])]]);
  ("polliwog.polyline._polyline_object.Polyline.with_insertions", [
     [("points", FArr [FSym "k"; FInt 3]); ("indices", FArr [FSym "k"])]]);
  ("polliwog.polyline._polyline_object.Polyline.with_segments_bisected", [
     [("segment_indices", FArr [FSym "m"])]]);
  ("polliwog.segment._segment_functions.closest_point_of_line_segment", [
     [("points", FArr [FSym "k"; FInt 3]); ("start_points", FArr [FSym "k"; FInt 3]); ("segment_vectors", FArr [FSym "k"; FInt 3])]]);
  ("polliwog.segment._segment_functions.is_point_on_line_segment", [
     [("query_points", FArr [FSym "k"; FInt 3]); ("start_points", FArr [FSym "k"; FInt 3]); ("segment_vectors", FArr [FSym "k"; FInt 3])]]);
  ("polliwog.segment._segment_functions.path_centroid", [
     [("segments", FArr [FSym "k"; FInt 2; FInt 3])]]);
  ("polliwog.segment._segment_functions.subdivide_segment", [
     [("p1", FArr [FSym "n"]); ("p2", FArr [FSym "n"])]]);
  ("polliwog.segment._segment_functions.subdivide_segments", [
     [("v", FArr [FSym "k"; FSym "n"])]]);
  ("polliwog.shapes._shapes.cube", [
     [("origin", FArr [FInt 3])]]);
  ("polliwog.shapes._shapes.rectangular_prism", [
     [("origin", FArr [FInt 3]); ("size", FArr [FInt 3])]]);
  ("polliwog.shapes._shapes.triangular_prism", [
     [("p1", FArr [FInt 3]); ("p2", FArr [FInt 3]); ("p3", FArr [FInt 3])]]);
  ("polliwog.transform._affine_transform.transform_matrix_for_rotation", [
     [("rotation", FArr [FInt 3; FInt 3])];
     [("rotation", FArr [FInt 3])]]);
  ("polliwog.transform._affine_transform.transform_matrix_for_translation", [
     [("translation", FArr [FInt 3])]]);
  ("polliwog.transform._apply.apply_transform", [
     [("transform", FArr [FInt 4; FInt 4])]]);
  ("polliwog.transform._apply.apply_transform.<locals>.apply", [
     [("points", FArr [FInt 3])];
     [("points", FArr [FSym "k"; FInt 3])]]);
  ("polliwog.transform._composite_transform.CompositeTransform.__call__", [
     [("points", FArr [FInt 3])];
     [("points", FArr [FSym "k"; FInt 3])]]);
  ("polliwog.transform._composite_transform.CompositeTransform.append_transform", [
     [("forward", FArr [FInt 4; FInt 4]); ("reverse", FNone)];
     [("forward", FArr [FInt 4; FInt 4]); ("reverse", FArr [FInt 4; FInt 4])]]);
  ("polliwog.transform._composite_transform.CompositeTransform.reorient", [
     [("up", FArr [FInt 3]); ("look", FArr [FInt 3])]]);
  ("polliwog.transform._composite_transform.CompositeTransform.rotate", [
     [("rotation", FArr [FInt 3; FInt 3])];
     [("rotation", FArr [FInt 3])]]);
  ("polliwog.transform._composite_transform.CompositeTransform.translate", [
     [("translation", FArr [FInt 3])]]);
  ("polliwog.transform._coordinate_manager.CoordinateManager.__setattr__", [
     [("points", FArr [FSym "k"; FInt 3])]]);
  ("polliwog.transform._coordinate_manager.CoordinateManager.append_transform", [
     [("forward", FArr [FInt 4; FInt 4]); ("reverse", FNone)];
     [("forward", FArr [FInt 4; FInt 4]); ("reverse", FArr [FInt 4; FInt 4])]]);
  ("polliwog.transform._coordinate_manager.CoordinateManager.do_transform", [
     [("points", FArr [FInt 3])];
     [("points", FArr [FSym "k"; FInt 3])]]);
  ("polliwog.transform._coordinate_manager.CoordinateManager.reorient", [
     [("up", FArr [FInt 3]); ("look", FArr [FInt 3])]]);
  ("polliwog.transform._coordinate_manager.CoordinateManager.rotate", [
     [("rotation", FArr [FInt 3; FInt 3])];
     [("rotation", FArr [FInt 3])]]);
  ("polliwog.transform._coordinate_manager.CoordinateManager.translate", [
     [("translation", FArr [FInt 3])]]);
  ("polliwog.transform._rodrigues.cv2_rodrigues", [
     [("r", FArr [FInt 3])];
     [("r", FArr [FInt 3; FInt 1])];
     [("r", FArr [FInt 1; FInt 3])];
     [("r", FArr [FInt 3; FInt 3])]]);
  ("polliwog.transform._rodrigues.rodrigues_vector_to_rotation_matrix", [
     [("r", FArr [FInt 3])];
     [("r", FArr [FInt 3; FInt 1])];
     [("r", FArr [FInt 1; FInt 3])]]);
  ("polliwog.transform._rodrigues.rotation_matrix_to_rodrigues_vector", [
     [("r", FArr [FInt 3; FInt 3])]]);
  ("polliwog.transform._rotation.euler", [
     [("xyz", FArr [FSym "n"])]]);
  ("polliwog.transform._rotation.rotation_from_up_and_look", [
     [("up", FArr [FInt 3]); ("look", FArr [FInt 3])]]);
  ("polliwog.transform._viewing.world_to_canvas_orthographic_projection", [
     [("position", FArr [FInt 3]); ("target", FArr [FInt 3])]]);
  ("polliwog.transform._viewing.world_to_view", [
     [("position", FArr [FInt 3]); ("target", FArr [FInt 3])]]);
  ("polliwog.tri.functions.barycentric_coordinates_of_points", [
     [("vertices_of_tris", FArr [FSym "k"; FInt 3; FInt 3]); ("points", FArr [FSym "k"; FInt 3])]]);
  ("polliwog.tri.functions.edges_of_faces", [
     [("faces", FArr [FSym "f"; FInt 3])]]);
  ("polliwog.tri.functions.sample", [
     [("vertices_of_tris", FArr [FSym "k"; FInt 3; FInt 3]); ("weights", FNone)];
     [("vertices_of_tris", FArr [FSym "k"; FInt 3; FInt 3]); ("weights", FArr [FSym "k"])]]);
  ("polliwog.tri.functions.surface_area", [
     [("vertices_of_tris", FArr [FInt 3; FInt 3])];
     [("vertices_of_tris", FArr [FSym "k"; FInt 3; FInt 3])]]);
  ("polliwog.tri.functions.surface_normals", [
     [("points", FArr [FInt 3; FInt 3])];
     [("points", FArr [FSym "k"; FInt 3; FInt 3])]]);
  ("polliwog.tri.functions.tri_contains_coplanar_point", [
     [("a", FArr [FInt 3]); ("b", FArr [FInt 3]); ("c", FArr [FInt 3]); ("point", FArr [FInt 3])];
     [("a", FArr [FSym "k"; FInt 3]); ("b", FArr [FSym "k"; FInt 3]); ("c", FArr [FSym "k"; FInt 3]); ("point", FArr [FSym "k"; FInt 3])]]);
  ("polliwog.tri.quad_faces.quads_to_tris", [
     [("quads", FArr [FSym "f"; FInt 4])]])
].

(* ---- specification vocabulary over these tables, used by the statements in props/C20.v ------------------------ *)
Definition all_contracts : contracts := (expected ++ external_contracts)%list.

(* every array argument a public callable documents reaches a shape check: of the callable itself, or of the callee it
   hands the argument to (delegation table).  NOTE: "reaches a check" -- not "the accepted shapes are the documented ones" *)
Definition strict_row (na : string * list string) : bool :=
  mem (fst na) not_modelled || forallb (covered all_contracts delegation (fst na)) (snd na).

Definition sd_name := "polliwog.plane._plane_functions.signed_distance_to_plane".
Definition cp_name := "polliwog.segment._segment_functions.closest_point_of_line_segment".
Definition rv_name := "polliwog.transform._rodrigues.rodrigues_vector_to_rotation_matrix".
(* documented: "a 3x1 or 1x3 Rodrigues vector" (and the plain 3-vector) *)
Definition rv_documented : list shape := [[3]; [3; 1]; [1; 3]].
Definition off_contract (doc : list shape) (s : shape) : Prop := ~ In s doc.

(* "accepts exactly the documented forms" is decided over the finite universe M_shape.universe, for all argument
   positions jointly; receiver-dependent lengths are fixed (a polyline with 6 edges).  Exempt: the callables that are
   not a sequence of shape checks, and the Rodrigues vector (known finding: flattened before the check). *)
Definition forms_b0 : benv := [("self.num_e", Some 6)].
Definition forms_exempt : list string := (rv_name :: not_modelled)%list.
Definition names_of (n : string) : list string := match assoc documented_args n with Some l => l | None => [] end.
Definition forms_row (nf : string * list form) : bool :=
  mem (fst nf) forms_exempt || forms_agree all_contracts delegation forms_b0 (fst nf) (names_of (fst nf)) (snd nf).

(* ALL-SHAPES strictness: a callable is covered when it has no delegation row, its own golden contract is in the normal
   form M_shape.nf_ok, and the canonical forms computed symbolically from the contract (forms_of_contract) are, as a
   set, the canonical forms of its documented forms. *)
Definition forms_ext : list string := map fst forms_b0.
Definition has_delegates (name : string) : bool :=
  match assoc delegation name with Some (_ :: _) => true | _ => false end.
Definition cdim_eq_dec (x y : cdim) : {x = y} + {x <> y}.
Proof. decide equality; try apply PeanoNat.Nat.eq_dec; apply string_dec. Defined.
Definition cshape_eq_dec (x y : cshape) : {x = y} + {x <> y}.
Proof. decide equality. apply (list_eq_dec cdim_eq_dec). Defined.
Definition cform_eq_dec : forall x y : cform, {x = y} + {x <> y}.
Proof. apply list_eq_dec. intros [a s] [a' s']. destruct (string_dec a a') as [->|H]; [|right; congruence].
  destruct (cshape_eq_dec s s') as [->|H]; [left; reflexivity|right; congruence]. Defined.
Definition cform_mem (f : cform) (l : list cform) : bool := existsb (fun g => if cform_eq_dec f g then true else false) l.
Definition all_shapes_row (nf : string * list form) : bool :=
  let c := contract_of all_contracts (fst nf) in
  let fs := forms_of_contract c (senv_of forms_b0) in
  let ds := map (canon forms_ext) (snd nf) in
  negb (has_delegates (fst nf)) && forallb nf_ok c &&
  forallb (fun f => cform_mem f ds) fs && forallb (fun f => cform_mem f fs) ds.
(* delegating callables: acceptance = own symbolic forms /\ every delegate's symbolic forms on the WIRED arguments *)
Definition delegates_list (name : string) : list delegate := match assoc delegation name with Some ds => ds | None => [] end.
Definition deleg_forms_ok (ds : list delegate) (args : aenv) : bool :=
  forallb (fun d => in_cforms [] (forms_of_contract (contract_of all_contracts (callee d)) []) (wire (wiring d) args)) ds.
Definition delegating_row (name : string) : bool :=
  has_delegates name && forallb nf_ok (contract_of all_contracts name) &&
  forallb (fun d => forallb nf_ok (contract_of all_contracts (callee d))) (delegates_list name).
Definition all_shapes_via_delegates : list string := filter delegating_row (map fst documented_forms).
(* status of a delegate's callee: itself covered for all shapes, an external (vg) contract, or a pass-through delegator
   with no checks of its own (its own delegates are listed as further rows of the caller) *)
Definition callee_status_ok (d : delegate) : bool :=
  mem (callee d) (map fst (filter all_shapes_row documented_forms)) || mem (callee d) (map fst external_contracts) ||
  match contract_of all_contracts (callee d) with [] => true | _ => false end.
Definition all_shapes_covered : list string := map fst (filter all_shapes_row documented_forms).
Definition all_shapes_not_covered : list string := map fst (filter (fun nf => negb (all_shapes_row nf)) documented_forms).
