(* GOLDEN shape contracts of polliwog (C20): what every function / method of every non-test module checks
   directly, in program order, as reviewed against the documented single / stacked forms of each docstring.
   Produced once with `python tools/props/C20.py golden` on the tree with the proposed fixes/C20-*.diff
   applied, then reviewed by hand.  Every check re-extracts the contracts from the source and proves
   `extracted = expected` (build/C20/Traced_contracts.v); a deleted or weakened check breaks that lemma.
   `delegation` says which callee performs the checks for callables that do none themselves (each row is
   validated by probing on every run); `documented_args` lists the array parameters each public callable
   documents.  Both are mirrored from tools/api_registry.py and re-compared on every run. *)
From Coq Require Import List String.
From PW.model Require Import M_shape.
Import ListNotations.
Local Open Scope string_scope.

Definition expected : contracts := [
  ("polliwog._common.pathlib.project_relative_path", []);
  ("polliwog._common.pathlib.root_package_relative_path", []);
  ("polliwog._common.serialization.try_load_jsonschema_and_simplejson", []);
  ("polliwog._common.serialization.validator_for", []);
  ("polliwog.box._box_object.Box.__init__", [
     Check "origin" [DInt 3] None;
     Check "size" [DInt 3] None]);
  ("polliwog.box._box_object.Box.center_point", []);
  ("polliwog.box._box_object.Box.contains", [
     Check "point" [DInt 3] None]);
  ("polliwog.box._box_object.Box.depth", []);
  ("polliwog.box._box_object.Box.floor_point", []);
  ("polliwog.box._box_object.Box.from_points", [
     Check "points" [DAny; DInt 3] (Some "k")]);
  ("polliwog.box._box_object.Box.height", []);
  ("polliwog.box._box_object.Box.max_x", []);
  ("polliwog.box._box_object.Box.max_x_plane", []);
  ("polliwog.box._box_object.Box.max_y", []);
  ("polliwog.box._box_object.Box.max_y_plane", []);
  ("polliwog.box._box_object.Box.max_z", []);
  ("polliwog.box._box_object.Box.max_z_plane", []);
  ("polliwog.box._box_object.Box.mid_x", []);
  ("polliwog.box._box_object.Box.mid_y", []);
  ("polliwog.box._box_object.Box.mid_z", []);
  ("polliwog.box._box_object.Box.min_x", []);
  ("polliwog.box._box_object.Box.min_x_plane", []);
  ("polliwog.box._box_object.Box.min_y", []);
  ("polliwog.box._box_object.Box.min_y_plane", []);
  ("polliwog.box._box_object.Box.min_z", []);
  ("polliwog.box._box_object.Box.min_z_plane", []);
  ("polliwog.box._box_object.Box.ranges", []);
  ("polliwog.box._box_object.Box.surface_area", []);
  ("polliwog.box._box_object.Box.v", []);
  ("polliwog.box._box_object.Box.volume", []);
  ("polliwog.box._box_object.Box.width", []);
  ("polliwog.line._line_functions.coplanar_points_are_on_same_side_of_line", [
     CheckAny "a" [[DInt 3]; [DAny; DInt 3]] None;
     CheckSame "b" "a";
     CheckSame "p1" "a";
     CheckSame "p2" "a"]);
  ("polliwog.line._line_functions.project_point_to_line", [
     CheckAny "points" [[DInt 3]; [DAny; DInt 3]] (Some "k");
     CheckAny "reference_points_of_lines" [[DInt 3]; [DVarOrAny "k"; DInt 3]] None;
     CheckSame "vectors_along_lines" "reference_points_of_lines"]);
  ("polliwog.line._line_intersect.intersect_2d_lines", [
     Check "p0" [DInt 2] None;
     Check "q0" [DInt 2] None;
     Check "p1" [DInt 2] None;
     Check "q1" [DInt 2] None]);
  ("polliwog.line._line_intersect.intersect_lines", [
     Check "p0" [DInt 3] None;
     Check "q0" [DInt 3] None;
     Check "p1" [DInt 3] None;
     Check "q1" [DInt 3] None]);
  ("polliwog.line._line_object.Line.__init__", [
     Check "point" [DInt 3] None;
     Check "along" [DInt 3] None]);
  ("polliwog.line._line_object.Line.from_points", [
     Check "p1" [DInt 3] None;
     Check "p2" [DInt 3] None]);
  ("polliwog.line._line_object.Line.intersect_line", []);
  ("polliwog.line._line_object.Line.project", []);
  ("polliwog.line._line_object.Line.reference_points", []);
  ("polliwog.plane._plane_functions.mirror_point_across_plane", [
     CheckAny "points" [[DInt 3]; [DAny; DInt 3]] (Some "k");
     CheckAny "plane_equations" [[DInt 4]; [DVarOrAny "k"; DInt 4]] None]);
  ("polliwog.plane._plane_functions.normal_and_offset_from_plane_equations", [
     CheckAny "plane_equations" [[DInt 4]; [DAny; DInt 4]] None]);
  ("polliwog.plane._plane_functions.plane_equation_from_points", [
     Columnize "points" [DAny; DInt 3; DInt 3]]);
  ("polliwog.plane._plane_functions.plane_normal_from_points", []);
  ("polliwog.plane._plane_functions.project_point_to_plane", [
     CheckAny "points" [[DInt 3]; [DAny; DInt 3]] (Some "k");
     CheckAny "plane_equations" [[DInt 4]; [DVarOrAny "k"; DInt 4]] None]);
  ("polliwog.plane._plane_functions.signed_distance_to_plane", [
     CheckAny "points" [[DInt 3]; [DAny; DInt 3]] (Some "k");
     CheckAny "plane_equations" [[DInt 4]; [DVarOrAny "k"; DInt 4]] None]);
  ("polliwog.plane._plane_functions.translate_points_along_plane_normal", [
     CheckAny "points" [[DInt 3]; [DAny; DInt 3]] (Some "k");
     CheckAny "plane_equations" [[DInt 4]; [DVarOrAny "k"; DInt 4]] None]);
  ("polliwog.plane._plane_intersect.intersect_segment_with_plane", [
     NeedsShape "start_points";
     Columnize "start_points" [DAny; DInt 3];
     CheckSame "segment_vectors" "start_points";
     CheckSame "points_on_plane" "start_points";
     CheckSame "plane_normals" "start_points"]);
  ("polliwog.plane._plane_object.Plane.__init__", [
     Check "reference_point" [DInt 3] None;
     Check "normal" [DInt 3] None]);
  ("polliwog.plane._plane_object.Plane.__repr__", []);
  ("polliwog.plane._plane_object.Plane._line_segment_xsection", []);
  ("polliwog.plane._plane_object.Plane._line_xsection", []);
  ("polliwog.plane._plane_object.Plane.canonical_point", []);
  ("polliwog.plane._plane_object.Plane.deserialize", []);
  ("polliwog.plane._plane_object.Plane.distance", []);
  ("polliwog.plane._plane_object.Plane.equation", []);
  ("polliwog.plane._plane_object.Plane.fit_from_points", [
     Check "points" [DAny; DInt 3] None]);
  ("polliwog.plane._plane_object.Plane.flipped", []);
  ("polliwog.plane._plane_object.Plane.flipped_if", []);
  ("polliwog.plane._plane_object.Plane.from_point_and_normal", []);
  ("polliwog.plane._plane_object.Plane.from_points", [
     Check "p1" [DInt 3] None;
     Check "p2" [DInt 3] None;
     Check "p3" [DInt 3] None]);
  ("polliwog.plane._plane_object.Plane.from_points_and_vector", [
     Check "p1" [DInt 3] None;
     Check "p2" [DInt 3] None;
     Check "vector" [DInt 3] None]);
  ("polliwog.plane._plane_object.Plane.line_segment_xsection", [
     Check "a" [DInt 3] None;
     Check "b" [DInt 3] None]);
  ("polliwog.plane._plane_object.Plane.line_segment_xsections", [
     Check "a" [DAny; DInt 3] (Some "k");
     Check "b" [DVar "k"; DInt 3] None]);
  ("polliwog.plane._plane_object.Plane.line_xsection", [
     Check "pt" [DInt 3] None;
     Check "ray" [DInt 3] None]);
  ("polliwog.plane._plane_object.Plane.line_xsections", [
     Check "pts" [DAny; DInt 3] (Some "k");
     Check "rays" [DVar "k"; DInt 3] None]);
  ("polliwog.plane._plane_object.Plane.mirror_point", []);
  ("polliwog.plane._plane_object.Plane.points_in_front", [
     Check "points" [DAny; DInt 3] None]);
  ("polliwog.plane._plane_object.Plane.points_on_or_in_front", [
     Check "points" [DAny; DInt 3] None]);
  ("polliwog.plane._plane_object.Plane.project_point", []);
  ("polliwog.plane._plane_object.Plane.rounded", []);
  ("polliwog.plane._plane_object.Plane.serialize", []);
  ("polliwog.plane._plane_object.Plane.sign", []);
  ("polliwog.plane._plane_object.Plane.signed_distance", []);
  ("polliwog.plane._plane_object.Plane.tilted", [
     Check "new_point" [DInt 3] None;
     Check "coplanar_point" [DInt 3] None]);
  ("polliwog.plane._plane_object.Plane.validate", []);
  ("polliwog.plane._slicing.slice_triangles_by_plane", [
     Check "vertices" [DAny; DInt 3] None;
     Check "faces" [DAny; DInt 3] (Some "num_faces");
     Check "plane_reference_point" [DInt 3] None;
     Check "plane_normal" [DInt 3] None;
     IfPresent "faces_to_slice" (Check "faces_to_slice" [DVar "num_faces"] None)]);
  ("polliwog.plane._trimesh_intersections.ToleranceMesh.__init__", []);
  ("polliwog.plane._trimesh_intersections.slice_faces_plane", []);
  ("polliwog.plane._trimesh_intersections.unique_bincount", []);
  ("polliwog.pointcloud._pointcloud_functions.extent", [
     Check "points" [DAny; DInt 3] (Some "k")]);
  ("polliwog.pointcloud._pointcloud_functions.percentile", [
     Check "points" [DAny; DInt 3] (Some "k");
     Check "axis" [DInt 3] None]);
  ("polliwog.polyline._array.find_changes", []);
  ("polliwog.polyline._array.find_repeats", []);
  ("polliwog.polyline._edges.edges_for", []);
  ("polliwog.polyline._inflection_points.inflection_points", [
     Check "points" [DAny; DInt 3] None;
     Check "rise_axis" [DInt 3] None;
     Check "run_axis" [DInt 3] None]);
  ("polliwog.polyline._inflection_points.point_of_max_acceleration", [
     Check "points" [DAny; DInt 3] (Some "k");
     Check "rise_axis" [DInt 3] None;
     Check "run_axis" [DInt 3] None]);
  ("polliwog.polyline._polyline_object.Polyline.__init__", [
     Check "v" [DAny; DInt 3] (Some "num_v")]);
  ("polliwog.polyline._polyline_object.Polyline.__len__", []);
  ("polliwog.polyline._polyline_object.Polyline.__repr__", []);
  ("polliwog.polyline._polyline_object.Polyline.aligned_along_subsegment", [
     Check "p1" [DInt 3] None;
     Check "p2" [DInt 3] None]);
  ("polliwog.polyline._polyline_object.Polyline.aligned_with", [
     Check "vector" [DInt 3] None]);
  ("polliwog.polyline._polyline_object.Polyline.apex", []);
  ("polliwog.polyline._polyline_object.Polyline.bounding_box", []);
  ("polliwog.polyline._polyline_object.Polyline.deserialize", []);
  ("polliwog.polyline._polyline_object.Polyline.flipped", []);
  ("polliwog.polyline._polyline_object.Polyline.flipped_if", []);
  ("polliwog.polyline._polyline_object.Polyline.index_of_vertex", [
     Check "point" [DInt 3] None]);
  ("polliwog.polyline._polyline_object.Polyline.intersect_plane", []);
  ("polliwog.polyline._polyline_object.Polyline.join", []);
  ("polliwog.polyline._polyline_object.Polyline.nearest", [
     Columnize "points" [DAny; DInt 3]]);
  ("polliwog.polyline._polyline_object.Polyline.num_e", []);
  ("polliwog.polyline._polyline_object.Polyline.num_v", []);
  ("polliwog.polyline._polyline_object.Polyline.path_centroid", []);
  ("polliwog.polyline._polyline_object.Polyline.point_along_path", [
     Columnize "fraction_of_total" [DAny]]);
  ("polliwog.polyline._polyline_object.Polyline.rolled", []);
  ("polliwog.polyline._polyline_object.Polyline.rounded", []);
  ("polliwog.polyline._polyline_object.Polyline.sectioned", [
     Check "section_breakpoints" [DAny] None]);
  ("polliwog.polyline._polyline_object.Polyline.segment_lengths", []);
  ("polliwog.polyline._polyline_object.Polyline.segment_vectors", []);
  ("polliwog.polyline._polyline_object.Polyline.segments", []);
  ("polliwog.polyline._polyline_object.Polyline.serialize", []);
  ("polliwog.polyline._polyline_object.Polyline.sliced_at_indices", []);
  ("polliwog.polyline._polyline_object.Polyline.sliced_at_points", [
     Check "start_point" [DInt 3] None;
     Check "end_point" [DInt 3] None]);
  ("polliwog.polyline._polyline_object.Polyline.sliced_by_plane", []);
  ("polliwog.polyline._polyline_object.Polyline.subdivided_by_length", [
     IfPresent "edges_to_subdivide" (Check "edges_to_subdivide" [DVar "self.num_e"] None)]);
  ("polliwog.polyline._polyline_object.Polyline.total_length", []);
  ("polliwog.polyline._polyline_object.Polyline.validate", []);
  ("polliwog.polyline._polyline_object.Polyline.with_insertions", [
     Check "points" [DAny; DInt 3] (Some "k");
     Check "indices" [DVar "k"] None]);
  ("polliwog.polyline._polyline_object.Polyline.with_segments_bisected", [
     Check "segment_indices" [DAny] None]);
  ("polliwog.polyline._slice_by_plane.slice_open_polyline_by_plane", [
     Check "vertices" [DAny; DInt 3] (Some "num_v")]);
  ("polliwog.polyline._try_inflection_points.load_front_torso_mesh", []);
  ("polliwog.polyline._try_inflection_points.main", []);
  ("polliwog.segment._segment_functions.closest_point_of_line_segment", [
     Check "points" [DAny; DInt 3] (Some "k");
     Check "start_points" [DVar "k"; DInt 3] None;
     Check "segment_vectors" [DVar "k"; DInt 3] None]);
  ("polliwog.segment._segment_functions.is_point_on_line_segment", [
     Check "query_points" [DAny; DInt 3] (Some "k");
     Check "start_points" [DVar "k"; DInt 3] None;
     Check "segment_vectors" [DVar "k"; DInt 3] None]);
  ("polliwog.segment._segment_functions.path_centroid", [
     Check "segments" [DAny; DInt 2; DInt 3] None]);
  ("polliwog.segment._segment_functions.subdivide_segment", [
     Check "p1" [DAny] (Some "n");
     Check "p2" [DVar "n"] None]);
  ("polliwog.segment._segment_functions.subdivide_segments", [
     Check "v" [DAny; DAny] None]);
  ("polliwog.shapes._shapes._maybe_flatten", []);
  ("polliwog.shapes._shapes.cube", [
     Check "origin" [DInt 3] None]);
  ("polliwog.shapes._shapes.rectangular_prism", [
     Check "origin" [DInt 3] None;
     Check "size" [DInt 3] None]);
  ("polliwog.shapes._shapes.triangular_prism", [
     Check "p1" [DInt 3] None;
     Check "p2" [DInt 3] None;
     Check "p3" [DInt 3] None]);
  ("polliwog.transform._affine_transform._convert_33_to_44", [
     Check "matrix" [DInt 3; DInt 3] None]);
  ("polliwog.transform._affine_transform.transform_matrix_for_non_uniform_scale", []);
  ("polliwog.transform._affine_transform.transform_matrix_for_rotation", [
     NeedsShape "rotation";
     CheckAny "rotation" [[DInt 3; DInt 3]; [DInt 3]] None]);
  ("polliwog.transform._affine_transform.transform_matrix_for_translation", [
     Check "translation" [DInt 3] None]);
  ("polliwog.transform._affine_transform.transform_matrix_for_uniform_scale", []);
  ("polliwog.transform._apply.apply_transform", [
     Check "transform" [DInt 4; DInt 4] None]);
  ("polliwog.transform._apply.apply_transform.<locals>.apply", [
     Columnize "points" [DAny; DInt 3]]);
  ("polliwog.transform._apply.compose_transforms", [
     CheckEach "transforms" [DInt 4; DInt 4]]);
  ("polliwog.transform._composite_transform.CompositeTransform.__call__", []);
  ("polliwog.transform._composite_transform.CompositeTransform.__init__", []);
  ("polliwog.transform._composite_transform.CompositeTransform.append_transform", [
     Check "forward" [DInt 4; DInt 4] None;
     IfPresent "reverse" (Check "reverse" [DInt 4; DInt 4] None)]);
  ("polliwog.transform._composite_transform.CompositeTransform.convert_units", []);
  ("polliwog.transform._composite_transform.CompositeTransform.flip", []);
  ("polliwog.transform._composite_transform.CompositeTransform.non_uniform_scale", []);
  ("polliwog.transform._composite_transform.CompositeTransform.reorient", []);
  ("polliwog.transform._composite_transform.CompositeTransform.rotate", []);
  ("polliwog.transform._composite_transform.CompositeTransform.transform_matrix_for", []);
  ("polliwog.transform._composite_transform.CompositeTransform.translate", []);
  ("polliwog.transform._composite_transform.CompositeTransform.uniform_scale", []);
  ("polliwog.transform._coordinate_manager.CoordinateManager.__getattr__", []);
  ("polliwog.transform._coordinate_manager.CoordinateManager.__init__", []);
  ("polliwog.transform._coordinate_manager.CoordinateManager.__setattr__", [
     Check "points" [DAny; DInt 3] None]);
  ("polliwog.transform._coordinate_manager.CoordinateManager.append_transform", []);
  ("polliwog.transform._coordinate_manager.CoordinateManager.convert_units", []);
  ("polliwog.transform._coordinate_manager.CoordinateManager.do_transform", []);
  ("polliwog.transform._coordinate_manager.CoordinateManager.flip", []);
  ("polliwog.transform._coordinate_manager.CoordinateManager.non_uniform_scale", []);
  ("polliwog.transform._coordinate_manager.CoordinateManager.reorient", []);
  ("polliwog.transform._coordinate_manager.CoordinateManager.rotate", []);
  ("polliwog.transform._coordinate_manager.CoordinateManager.tag_as", []);
  ("polliwog.transform._coordinate_manager.CoordinateManager.translate", []);
  ("polliwog.transform._coordinate_manager.CoordinateManager.uniform_scale", []);
  ("polliwog.transform._rodrigues.cv2_rodrigues", []);
  ("polliwog.transform._rodrigues.rodrigues_vector_to_rotation_matrix", [
     CheckFlat "r" [DInt 3]]);
  ("polliwog.transform._rodrigues.rotation_matrix_to_rodrigues_vector", [
     Check "r" [DInt 3; DInt 3] None]);
  ("polliwog.transform._rotation.euler", [
     Check "xyz" [DAny] None]);
  ("polliwog.transform._rotation.rotation_from_up_and_look", [
     Check "up" [DInt 3] None;
     Check "look" [DInt 3] None]);
  ("polliwog.transform._testing_helper.write_canvas_points_to_png", [
     Check "canvas_coords" [DAny; DInt 2] None]);
  ("polliwog.transform._viewing.view_to_orthographic_projection", []);
  ("polliwog.transform._viewing.viewport_transform", []);
  ("polliwog.transform._viewing.world_to_canvas_orthographic_projection", []);
  ("polliwog.transform._viewing.world_to_view", [
     Check "position" [DInt 3] None;
     Check "target" [DInt 3] None]);
  ("polliwog.transform.make_rodrigues_test_data.main", []);
  ("polliwog.tri.functions.barycentric_coordinates_of_points", [
     Check "vertices_of_tris" [DAny; DInt 3; DInt 3] (Some "k");
     Check "points" [DVar "k"; DInt 3] None]);
  ("polliwog.tri.functions.edges_of_faces", [
     Check "faces" [DAny; DInt 3] None]);
  ("polliwog.tri.functions.sample", [
     Check "vertices_of_tris" [DAny; DInt 3; DInt 3] (Some "k");
     IfPresent "weights" (Check "weights" [DVar "k"] None)]);
  ("polliwog.tri.functions.surface_area", [
     Columnize "vertices_of_tris" [DAny; DInt 3; DInt 3]]);
  ("polliwog.tri.functions.surface_normals", [
     Columnize "points" [DAny; DInt 3; DInt 3]]);
  ("polliwog.tri.functions.tri_contains_coplanar_point", [
     CheckAny "a" [[DInt 3]; [DAny; DInt 3]] None;
     CheckSame "b" "a";
     CheckSame "c" "a";
     CheckSame "point" "a"]);
  ("polliwog.tri.quad_faces.quads_to_tris", [
     Check "quads" [DAny; DInt 4] None])
].

Definition delegation : list (string * list delegate) := [
  ("polliwog.line._line_object.Line.project", [
     MkDelegate "polliwog.line._line_functions.project_point_to_line" [("points", FromArg "points"); ("reference_points_of_lines", Const (AArr [3])); ("vectors_along_lines", Const (AArr [3]))]]);
  ("polliwog.plane._plane_functions.plane_normal_from_points", [
     MkDelegate "polliwog.tri.functions.surface_normals" [("points", FromArg "points")]]);
  ("polliwog.plane._plane_object.Plane.distance", [
     MkDelegate "polliwog.plane._plane_functions.signed_distance_to_plane" [("points", FromArg "points"); ("plane_equations", Const (AArr [4]))]]);
  ("polliwog.plane._plane_object.Plane.from_point_and_normal", [
     MkDelegate "polliwog.plane._plane_object.Plane.__init__" [("reference_point", FromArg "reference_point"); ("normal", FromArg "normal")]]);
  ("polliwog.plane._plane_object.Plane.line_segment_xsections", [
     MkDelegate "polliwog.plane._plane_object.Plane.line_xsections" [("pts", FromArg "a"); ("rays", FromArg "b")]]);
  ("polliwog.plane._plane_object.Plane.mirror_point", [
     MkDelegate "polliwog.plane._plane_functions.mirror_point_across_plane" [("points", FromArg "points"); ("plane_equations", Const (AArr [4]))]]);
  ("polliwog.plane._plane_object.Plane.points_in_front", [
     MkDelegate "polliwog.plane._plane_functions.signed_distance_to_plane" [("points", FromArg "points"); ("plane_equations", Const (AArr [4]))]]);
  ("polliwog.plane._plane_object.Plane.points_on_or_in_front", [
     MkDelegate "polliwog.plane._plane_functions.signed_distance_to_plane" [("points", FromArg "points"); ("plane_equations", Const (AArr [4]))]]);
  ("polliwog.plane._plane_object.Plane.project_point", [
     MkDelegate "polliwog.plane._plane_functions.project_point_to_plane" [("points", FromArg "points"); ("plane_equations", Const (AArr [4]))]]);
  ("polliwog.plane._plane_object.Plane.sign", [
     MkDelegate "polliwog.plane._plane_functions.signed_distance_to_plane" [("points", FromArg "points"); ("plane_equations", Const (AArr [4]))]]);
  ("polliwog.plane._plane_object.Plane.signed_distance", [
     MkDelegate "polliwog.plane._plane_functions.signed_distance_to_plane" [("points", FromArg "points"); ("plane_equations", Const (AArr [4]))]]);
  ("polliwog.polyline._polyline_object.Polyline.aligned_along_subsegment", [
     MkDelegate "polliwog.polyline._polyline_object.Polyline.nearest" [("points", FromArg "p1")];
     MkDelegate "polliwog.polyline._polyline_object.Polyline.nearest" [("points", FromArg "p2")]]);
  ("polliwog.polyline._polyline_object.Polyline.apex", [
     MkDelegate "vg.core.apex" [("points", Const (AArr [7; 3])); ("along", FromArg "axis")]]);
  ("polliwog.transform._composite_transform.CompositeTransform.__call__", [
     MkDelegate "polliwog.transform._apply.apply_transform.<locals>.apply" [("points", FromArg "points")]]);
  ("polliwog.transform._composite_transform.CompositeTransform.reorient", [
     MkDelegate "polliwog.transform._rotation.rotation_from_up_and_look" [("up", FromArg "up"); ("look", FromArg "look")]]);
  ("polliwog.transform._composite_transform.CompositeTransform.rotate", [
     MkDelegate "polliwog.transform._affine_transform.transform_matrix_for_rotation" [("rotation", FromArg "rotation")]]);
  ("polliwog.transform._composite_transform.CompositeTransform.translate", [
     MkDelegate "polliwog.transform._affine_transform.transform_matrix_for_translation" [("translation", FromArg "translation")]]);
  ("polliwog.transform._coordinate_manager.CoordinateManager.append_transform", [
     MkDelegate "polliwog.transform._composite_transform.CompositeTransform.append_transform" [("forward", FromArg "forward"); ("reverse", FromArg "reverse")]]);
  ("polliwog.transform._coordinate_manager.CoordinateManager.do_transform", [
     MkDelegate "polliwog.transform._composite_transform.CompositeTransform.__call__" [("points", FromArg "points")];
     MkDelegate "polliwog.transform._apply.apply_transform.<locals>.apply" [("points", FromArg "points")]]);
  ("polliwog.transform._coordinate_manager.CoordinateManager.reorient", [
     MkDelegate "polliwog.transform._composite_transform.CompositeTransform.reorient" [("up", FromArg "up"); ("look", FromArg "look")];
     MkDelegate "polliwog.transform._rotation.rotation_from_up_and_look" [("up", FromArg "up"); ("look", FromArg "look")]]);
  ("polliwog.transform._coordinate_manager.CoordinateManager.rotate", [
     MkDelegate "polliwog.transform._composite_transform.CompositeTransform.rotate" [("rotation", FromArg "rotation")];
     MkDelegate "polliwog.transform._affine_transform.transform_matrix_for_rotation" [("rotation", FromArg "rotation")]]);
  ("polliwog.transform._coordinate_manager.CoordinateManager.translate", [
     MkDelegate "polliwog.transform._composite_transform.CompositeTransform.translate" [("translation", FromArg "translation")];
     MkDelegate "polliwog.transform._affine_transform.transform_matrix_for_translation" [("translation", FromArg "translation")]]);
  ("polliwog.transform._viewing.world_to_canvas_orthographic_projection", [
     MkDelegate "polliwog.transform._viewing.world_to_view" [("position", FromArg "position"); ("target", FromArg "target")]])
].

Definition documented_args : list (string * list string) := [
  ("polliwog.box._box_object.Box.__init__", ["origin"; "size"]);
  ("polliwog.box._box_object.Box.contains", ["point"]);
  ("polliwog.box._box_object.Box.from_points", ["points"]);
  ("polliwog.line._line_functions.coplanar_points_are_on_same_side_of_line", ["a"; "b"; "p1"; "p2"]);
  ("polliwog.line._line_functions.project_point_to_line", ["points"; "reference_points_of_lines"; "vectors_along_lines"]);
  ("polliwog.line._line_intersect.intersect_2d_lines", ["p0"; "q0"; "p1"; "q1"]);
  ("polliwog.line._line_intersect.intersect_lines", ["p0"; "q0"; "p1"; "q1"]);
  ("polliwog.line._line_object.Line.__init__", ["point"; "along"]);
  ("polliwog.line._line_object.Line.from_points", ["p1"; "p2"]);
  ("polliwog.line._line_object.Line.project", ["points"]);
  ("polliwog.plane._plane_functions.mirror_point_across_plane", ["points"; "plane_equations"]);
  ("polliwog.plane._plane_functions.normal_and_offset_from_plane_equations", ["plane_equations"]);
  ("polliwog.plane._plane_functions.plane_equation_from_points", ["points"]);
  ("polliwog.plane._plane_functions.plane_normal_from_points", ["points"]);
  ("polliwog.plane._plane_functions.project_point_to_plane", ["points"; "plane_equations"]);
  ("polliwog.plane._plane_functions.signed_distance_to_plane", ["points"; "plane_equations"]);
  ("polliwog.plane._plane_intersect.intersect_segment_with_plane", ["start_points"; "segment_vectors"; "points_on_plane"; "plane_normals"]);
  ("polliwog.plane._plane_object.Plane.__init__", ["reference_point"; "normal"]);
  ("polliwog.plane._plane_object.Plane.distance", ["points"]);
  ("polliwog.plane._plane_object.Plane.fit_from_points", ["points"]);
  ("polliwog.plane._plane_object.Plane.from_point_and_normal", ["reference_point"; "normal"]);
  ("polliwog.plane._plane_object.Plane.from_points", ["p1"; "p2"; "p3"]);
  ("polliwog.plane._plane_object.Plane.from_points_and_vector", ["p1"; "p2"; "vector"]);
  ("polliwog.plane._plane_object.Plane.line_segment_xsection", ["a"; "b"]);
  ("polliwog.plane._plane_object.Plane.line_segment_xsections", ["a"; "b"]);
  ("polliwog.plane._plane_object.Plane.line_xsection", ["pt"; "ray"]);
  ("polliwog.plane._plane_object.Plane.line_xsections", ["pts"; "rays"]);
  ("polliwog.plane._plane_object.Plane.mirror_point", ["points"]);
  ("polliwog.plane._plane_object.Plane.points_in_front", ["points"]);
  ("polliwog.plane._plane_object.Plane.points_on_or_in_front", ["points"]);
  ("polliwog.plane._plane_object.Plane.project_point", ["points"]);
  ("polliwog.plane._plane_object.Plane.sign", ["points"]);
  ("polliwog.plane._plane_object.Plane.signed_distance", ["points"]);
  ("polliwog.plane._plane_object.Plane.tilted", ["new_point"; "coplanar_point"]);
  ("polliwog.plane._slicing.slice_triangles_by_plane", ["vertices"; "faces"; "plane_reference_point"; "plane_normal"; "faces_to_slice"]);
  ("polliwog.pointcloud._pointcloud_functions.extent", ["points"]);
  ("polliwog.pointcloud._pointcloud_functions.percentile", ["points"; "axis"]);
  ("polliwog.polyline._inflection_points.inflection_points", ["points"; "rise_axis"; "run_axis"]);
  ("polliwog.polyline._inflection_points.point_of_max_acceleration", ["points"; "rise_axis"; "run_axis"]);
  ("polliwog.polyline._polyline_object.Polyline.__init__", ["v"]);
  ("polliwog.polyline._polyline_object.Polyline.aligned_along_subsegment", ["p1"; "p2"]);
  ("polliwog.polyline._polyline_object.Polyline.aligned_with", ["vector"]);
  ("polliwog.polyline._polyline_object.Polyline.apex", ["axis"]);
  ("polliwog.polyline._polyline_object.Polyline.index_of_vertex", ["point"]);
  ("polliwog.polyline._polyline_object.Polyline.nearest", ["points"]);
  ("polliwog.polyline._polyline_object.Polyline.point_along_path", ["fraction_of_total"]);
  ("polliwog.polyline._polyline_object.Polyline.sectioned", ["section_breakpoints"]);
  ("polliwog.polyline._polyline_object.Polyline.sliced_at_points", ["start_point"; "end_point"]);
  ("polliwog.polyline._polyline_object.Polyline.subdivided_by_length", ["edges_to_subdivide"]);
  ("polliwog.polyline._polyline_object.Polyline.with_insertions", ["points"; "indices"]);
  ("polliwog.polyline._polyline_object.Polyline.with_segments_bisected", ["segment_indices"]);
  ("polliwog.segment._segment_functions.closest_point_of_line_segment", ["points"; "start_points"; "segment_vectors"]);
  ("polliwog.segment._segment_functions.is_point_on_line_segment", ["query_points"; "start_points"; "segment_vectors"]);
  ("polliwog.segment._segment_functions.path_centroid", ["segments"]);
  ("polliwog.segment._segment_functions.subdivide_segment", ["p1"; "p2"]);
  ("polliwog.segment._segment_functions.subdivide_segments", ["v"]);
  ("polliwog.shapes._shapes.cube", ["origin"]);
  ("polliwog.shapes._shapes.rectangular_prism", ["origin"; "size"]);
  ("polliwog.shapes._shapes.triangular_prism", ["p1"; "p2"; "p3"]);
  ("polliwog.transform._affine_transform.transform_matrix_for_rotation", ["rotation"]);
  ("polliwog.transform._affine_transform.transform_matrix_for_translation", ["translation"]);
  ("polliwog.transform._apply.apply_transform", ["transform"]);
  ("polliwog.transform._apply.apply_transform.<locals>.apply", ["points"]);
  ("polliwog.transform._composite_transform.CompositeTransform.__call__", ["points"]);
  ("polliwog.transform._composite_transform.CompositeTransform.append_transform", ["forward"; "reverse"]);
  ("polliwog.transform._composite_transform.CompositeTransform.reorient", ["up"; "look"]);
  ("polliwog.transform._composite_transform.CompositeTransform.rotate", ["rotation"]);
  ("polliwog.transform._composite_transform.CompositeTransform.translate", ["translation"]);
  ("polliwog.transform._coordinate_manager.CoordinateManager.__setattr__", ["points"]);
  ("polliwog.transform._coordinate_manager.CoordinateManager.append_transform", ["forward"; "reverse"]);
  ("polliwog.transform._coordinate_manager.CoordinateManager.do_transform", ["points"]);
  ("polliwog.transform._coordinate_manager.CoordinateManager.reorient", ["up"; "look"]);
  ("polliwog.transform._coordinate_manager.CoordinateManager.rotate", ["rotation"]);
  ("polliwog.transform._coordinate_manager.CoordinateManager.translate", ["translation"]);
  ("polliwog.transform._rodrigues.cv2_rodrigues", ["r"]);
  ("polliwog.transform._rodrigues.rodrigues_vector_to_rotation_matrix", ["r"]);
  ("polliwog.transform._rodrigues.rotation_matrix_to_rodrigues_vector", ["r"]);
  ("polliwog.transform._rotation.euler", ["xyz"]);
  ("polliwog.transform._rotation.rotation_from_up_and_look", ["up"; "look"]);
  ("polliwog.transform._viewing.world_to_canvas_orthographic_projection", ["position"; "target"]);
  ("polliwog.transform._viewing.world_to_view", ["position"; "target"]);
  ("polliwog.tri.functions.barycentric_coordinates_of_points", ["vertices_of_tris"; "points"]);
  ("polliwog.tri.functions.edges_of_faces", ["faces"]);
  ("polliwog.tri.functions.sample", ["vertices_of_tris"; "weights"]);
  ("polliwog.tri.functions.surface_area", ["vertices_of_tris"]);
  ("polliwog.tri.functions.surface_normals", ["points"]);
  ("polliwog.tri.functions.tri_contains_coplanar_point", ["a"; "b"; "c"; "point"]);
  ("polliwog.tri.quad_faces.quads_to_tris", ["quads"])
].

(* checks performed outside polliwog (vg), hand-written from site-packages/vg/core.py *)
Definition external_contracts : contracts := [
  ("vg.core.apex", [Check "points" [DAny; DInt 3] None; Check "along" [DInt 3] None])
].

(* callables whose acceptance logic is not a sequence of shape checks (judged by the oracle only) *)
Definition not_modelled : list string := ["polliwog.transform._rodrigues.cv2_rodrigues"].
