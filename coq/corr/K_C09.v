(* Correspondence for C09: histories of Polyline value operations.  The Q instance of the code-shaped
   model (M_polyline_ops.v) AND of the list specification (M_polyline_spec.v) are both run on the history
   the implementation executed and compared with everything it returned (exact comparison: these
   operations only move data; the bounding box subtracts dyadic grid values exactly). *)
From Coq Require Import ZArith QArith Qabs List Bool.
From PW Require Import Num NumQ Vec NpList Result Agree.
From PW.model Require Import M_polyline_base M_polyline_spec M_polyline_ops.
Import ListNotations.
Local Open Scope Q_scope.

Record opoly := OPoly { o_v : list (list fl); o_closed : bool; o_e : list (nat * nat) }.
Inductive oobs :=
| XPoly (p : opoly)
| XPolys (ps : list opoly)
| XRolled (p : opoly) (m : list nat)
| XInsert (p : opoly) (om im : list nat)
| XIndex (i : nat)
| XPoint (p : list fl)
| XBox (b : option (list fl * list fl))
| XLen (a b c : nat)
| XRaise (e : exn).

Inductive case := CHist (ops : list (op Q)) (observed : list oobs).

Definition fl_exact (m : Q) (o : fl) : bool := match o with Fin q => Qeq_bool m q | _ => false end.
Definition vec_exact (m : vec3 Q) (o : list fl) : bool := all2 fl_exact (vlist m) o.
Definition pair_eqb (a b : nat * nat) : bool := Nat.eqb (fst a) (fst b) && Nat.eqb (snd a) (snd b).

Definition poly_agree (p : polyline Q) (e : edges) (o : opoly) : bool :=
  all2 vec_exact (pv p) (o_v o) && Bool.eqb (pclosed p) (o_closed o) && all2 pair_eqb e (o_e o).

Definition obs_agree (m : obs Q) (o : oobs) : bool :=
  match m, o with
  | ObPoly p e, XPoly x => poly_agree p e x
  | ObPolys ps, XPolys xs => all2 (fun pe x => poly_agree (fst pe) (snd pe) x) ps xs
  | ObRolled p e em, XRolled x m => poly_agree p e x && nat_list_eqb em m
  | ObInsert p e om im, XInsert x om' im' => poly_agree p e x && nat_list_eqb om om' && nat_list_eqb im im'
  | ObIndex i, XIndex j => Nat.eqb i j
  | ObPoint p, XPoint x => vec_exact p x
  | ObBox None, XBox None => true
  | ObBox (Some (a, b)), XBox (Some (x, y)) => vec_exact a x && vec_exact b y
  | ObLen a b c, XLen a' b' c' => Nat.eqb a a' && Nat.eqb b b' && Nat.eqb c c'
  (* OtherError is produced by the models for exactly one thing: an insertion index vector they do not model (two or
     more entries, one below -num_v, see M_polyline_spec.wrap_indices); whatever the implementation did there is not
     compared.  A missing receiver is ObMissing and agrees with nothing. *)
  | ObRaise OtherError, _ => true
  | ObRaise e, XRaise e' => exn_eqb e e'
  | _, _ => false
  end.

Definition check_case (c : case) : bool :=
  match c with
  | CHist ops observed =>
      all2 obs_agree (run (code_impl QOps) [] ops) observed &&
      all2 obs_agree (run (spec_impl QOps) [] ops) observed
  end.
