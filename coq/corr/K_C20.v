(* Correspondence for C20: the shape-contract model (M_shape.v) run on the GOLDEN contracts (C20_expected.v, proved
   equal to what the extractor finds in the source on every run) against the observed accept / exception class of
   the implementation on a probe: a public callable with arrays of given shapes (CProbe), or one of the shape
   helpers called directly (CHelper).  CNoModel: callables whose acceptance logic is not a sequence of shape
   checks (cv2_rodrigues dispatches on r.size); they are judged by the oracle only. *)
From Coq Require Import List Bool String.
From PW Require Import Result Agree.
From PW.model Require Import M_shape.
From PW.corr Require Import C20_expected.
Import ListNotations.

Inductive outcome := OAccept | ORaise (e : exn).

Inductive case :=
| CProbe (name : string) (b0 : benv) (args : list (string * argv)) (obs : outcome)
| CHelper (c : check) (b0 : benv) (args : list (string * argv)) (obs : outcome)
| CNoModel (name : string).

Definition agree {A} (m : result A) (o : outcome) : bool :=
  match m, o with
  | Ok _, OAccept => true
  | Raise e, ORaise e' => exn_eqb e e'
  | _, _ => false
  end.

Definition delegates_of (name : string) : list delegate :=
  match assoc delegation name with Some ds => ds | None => [] end.

Definition predicted (name : string) (b0 : benv) (args : list (string * argv)) : result unit :=
  run_effective (expected ++ external_contracts) name b0 (delegates_of name) (env_of args).

Definition check_case (c : case) : bool :=
  match c with
  | CProbe name b0 args obs => agree (predicted name b0 args) obs
  | CHelper ch b0 args obs => agree (run_check ch (env_of args) b0) obs
  | CNoModel _ => true
  end.
