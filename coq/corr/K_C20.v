(* Correspondence for C20: the shape-contract model (M_shape.v) run on the GOLDEN contracts (C20_expected.v, proved
   equal to what the extractor finds in the source on every run) against the observed accept / exception class of
   the implementation on a probe: a public callable with arrays of given shapes (CProbe), or one of the shape
   helpers called directly (CHelper).  CNoModel: callables whose acceptance logic is not a sequence of shape
   checks (cv2_rodrigues dispatches on r.size); they are judged by the oracle only. *)
From Coq Require Import List Bool String ZArith QArith Qabs.
From PW Require Import Num NumQ Vec NpList Result Agree.
From PW.model Require Import M_shape M_inflection M_array.
From PW.corr Require Import C20_expected.
Import ListNotations.

Inductive outcome := OAccept | ORaise (e : exn).

Inductive case :=
| CProbe (name : string) (b0 : benv) (args : list (string * argv)) (obs : outcome)
| CHelper (c : check) (b0 : benv) (args : list (string * argv)) (obs : outcome)
| CNoModel (name : string)
(* extra callables (M_inflection.v, M_array.v): observed = indices of the returned rows / exception class.
   exact = true: uniform power-of-two spacing, every quotient is exact in binary64, decisions compared exactly;
   exact = false: a decision is compared only when the model's value is away from its threshold *)
| CInflection (exact : bool) (pts : list (vec3 Q)) (rise run : vec3 Q) (obs : result (list nat))
| CMaxAcc (exact : bool) (pts : list (vec3 Q)) (rise run : vec3 Q) (obs : result (option nat))
| CFind (arr : list Q) (wrap : bool) (rep chg : list bool).

Definition agree {A} (m : result A) (o : outcome) : bool :=
  match m, o with
  | Ok _, OAccept => true
  | Raise e, ORaise e' => exn_eqb e e'
  | _, _ => false
  end.

Definition delegates_of (name : string) : list delegate :=
  match assoc delegation name with Some ds => ds | None => [] end.

Definition predicted (name : string) (b0 : benv) (args : list (string * argv)) : result unit :=
  run_effective (expected ++ external_contracts) name b0 (delegates_of name) (env_of args).

Definition band : Q := 1 # 1000000.
Definition far (x : Q) : bool := negb (Qle_bool (Qabs x) band).
Definition memn (i : nat) (l : list nat) : bool := existsb (Nat.eqb i) l.

(* membership of every row index agrees with the model's mask, wherever the decision is clear *)
Definition inflection_agree (exact : bool) (d2 : list Q) (obs : list nat) : bool :=
  forallb (fun i =>
             if Nat.ltb (S i) (List.length d2)
             then let p := Qmult (at_ QOps d2 i) (at_ QOps d2 (S i)) in
                  if exact || far p then Bool.eqb (memn i obs) (Qle_bool p 0) else true
             else negb (memn i obs))
          (seq 0 (List.length d2)) &&
  forallb (fun i => Nat.ltb i (List.length d2)) obs.

(* clear = every first difference used by the valid mask is away from 0 and the maximum is isolated *)
Definition maxacc_clear (d1 d2 : list Q) (r : option nat) : bool :=
  forallb far d1 &&
  match r with
  | None => true
  | Some i => forallb (fun j => Nat.eqb j i || negb (nth j (valid_mask QOps d1) false)
                                 || far (Qminus (at_ QOps d2 i) (at_ QOps d2 j)))
                      (seq 0 (List.length d2))
  end.

Definition onat_eqb (a b : option nat) : bool :=
  match a, b with Some x, Some y => Nat.eqb x y | None, None => true | _, _ => false end.

Definition check_case (c : case) : bool :=
  match c with
  | CProbe name b0 args obs => agree (predicted name b0 args) obs
  | CHelper ch b0 args obs => agree (run_check ch (env_of args) b0) obs
  | CNoModel _ => true
  | CInflection exact pts rise run obs =>
      match inflection_points QOps pts rise run, obs with
      | Raise e, Raise e' => exn_eqb e e'
      | Ok None, _ => true                                   (* outside the model (coordinates not increasing) *)
      | Ok (Some _), Ok o => inflection_agree exact (fd2 QOps pts rise run) o
      | _, _ => false
      end
  | CMaxAcc exact pts rise run obs =>
      match point_of_max_acceleration QOps pts rise run, obs with
      | Raise e, Raise e' => exn_eqb e e'
      | Ok None, _ => true
      | Ok (Some r), Ok o =>
          if exact || maxacc_clear (fd1 QOps pts rise run) (fd2 QOps pts rise run) r then onat_eqb r o else true
      | _, _ => false
      end
  | CFind arr wrap rep chg =>
      bool_list_eqb (find_repeats QOps arr wrap) rep && bool_list_eqb (find_changes QOps arr wrap) chg
  end.
