(* Correspondence for C06: the Q instance of M_polyline_slice.v against Polyline.sliced_by_plane and
   intersect_segment_with_plane of the implementation. *)
From Coq Require Import ZArith QArith Qabs List Bool.
From PW Require Import Num NumQ Vec NpList Result Agree.
From PW.model Require Import M_plane M_polyline_base M_polyline_slice.
Import ListNotations.
Local Open Scope Q_scope.

(* an observed result polyline: rows of .v and the is_closed flag *)
Record oslice := OSlice { o_rows : list (list fl); o_closed : bool }.

Inductive case :=
(* Polyline(vs, is_closed=closed).sliced_by_plane(Plane(ref, normal)): rows of the returned open polyline, or the exception *)
| CSlice (exact closed : bool) (pl : plane Q) (vs : list (vec3 Q)) (o : result oslice)
(* the same for a small scene translated far from the origin with exact coordinates and exact signed distances:
   rows are compared relative to `feat` = scene size + a few ulps of the coordinate magnitude, not to the magnitude *)
| CSliceFeat (feat : Q) (closed : bool) (pl : plane Q) (vs : list (vec3 Q)) (o : result oslice)
(* intersect_segment_with_plane(start, seg, ref, normal) for one segment: the returned row *)
| CXsect (start seg ref n : vec3 Q) (o : list fl).

Definition vmag (v : vec3 Q) : Q := Qmax' (Qabs (vx v)) (Qmax' (Qabs (vy v)) (Qabs (vz v))).
Definition mag_of (vs : list (vec3 Q)) (m0 : Q) : Q := fold_left (fun m p => Qmax' m (vmag p)) vs m0.

(* signs can be compared only when no exact signed distance is within rounding of zero (unless arithmetic was exact) *)
Definition band : Q := 1 # 100000000.
Definition decided (exact : bool) (m sd : Q) : bool := exact || negb (Qle_bool (Qabs sd) (band * m)).

(* closeness relative to the magnitude of the case's own coordinates only (no absolute floor): a polyline at scale
   2^-30 is compared as strictly as one at scale 1 *)
Definition close_rel (mag a b : Q) : bool :=
  Qle_bool (Qabs (a - b)) (tol * Qmax' mag (Qmax' (Qabs a) (Qabs b))).
Definition fl_close_rel (mag m : Q) (o : fl) : bool := match o with Fin q => close_rel mag m q | _ => false end.
Definition vec_close_rel (mag : Q) (m : vec3 Q) (o : list fl) : bool := all2 (fl_close_rel mag) (vlist m) o.

Definition row_close (m : Q) (r : xrow Q) (o : list fl) : bool :=
  match r with
  | XPt v => vec_close_rel m v o
  | XNan => forallb fl_is_nan o && Nat.eqb (length o) 3
  end.

(* what holds of every outcome whatever the signs: only ValueError is raised, every returned row is finite and
   there is at least one (C06_result_finite_not_behind, C06_only_value_error on the model) *)
Definition fl_finite (o : fl) : bool := match o with Fin _ => true | _ => false end.
Definition sane (o : result oslice) : bool :=
  match o with
  | Ok ob => let rows := o_rows ob in negb (o_closed ob) && forallb (fun r => forallb fl_finite r && Nat.eqb (length r) 3) rows && negb (Nat.eqb (length rows) 0)
  | Raise e => exn_eqb e ValueError
  end.

(* absolute closeness tol * feat (feature-relative cases) *)
Definition row_close_feat (feat : Q) (r : xrow Q) (o : list fl) : bool :=
  match r with
  | XPt v => all2 (fun m ob => match ob with Fin q => Qle_bool (Qabs (m - q)) (tol * feat) | _ => false end) (vlist v) o
  | XNan => false
  end.

Definition check_case (c : case) : bool :=
  match c with
  | CSlice exact closed pl vs o =>
      let m := mag_of vs (vmag (pref pl)) in   (* largest |coordinate| of the case, no floor *)
      if forallb (fun v => decided exact m (plane_sd QOps pl v)) vs
      then res_agree (fun r ob => all2 (row_close m) (s_rows r) (o_rows ob) && Bool.eqb (s_closed r) (o_closed ob))
                     (sliced_polyline QOps pl (MkPolyline vs closed)) o
      else sane o   (* some side is within rounding: only what does not depend on the classification *)
  | CSliceFeat feat closed pl vs o =>
      res_agree (fun r ob => all2 (row_close_feat feat) (s_rows r) (o_rows ob) && Bool.eqb (s_closed r) (o_closed ob))
                (sliced_polyline QOps pl (MkPolyline vs closed)) o
  | CXsect start seg ref n o =>
      let m := mag_of [start; seg; ref] 0 in
      row_close m (intersect_segment_with_plane QOps start seg ref n) o
  end.
