(* Correspondence for C17: the Q instance of M_box.v / M_pointcloud.v against observed results. *)
From Coq Require Import ZArith QArith Qabs List Bool.
From PW Require Import Num NumQ Vec NpList Result Agree.
From PW.model Require Import M_plane M_box M_pointcloud.
Import ListNotations.
Local Open Scope Q_scope.

Inductive case :=
(* Box(origin, size) and every accessor, flattened in the order of `box_observables` *)
| CBox (o s : vec3 Q) (obs : result (list fl))
(* Box.from_points: origin ++ size *)
| CFromPoints (ps : list (vec3 Q)) (obs : result (list fl))
(* contains on exact inputs: (point, atol) rows *)
| CContains (o s : vec3 Q) (rows : list (vec3 Q * Q)) (obs : list bool)
| CExtent (ps : list (vec3 Q)) (obs : result (fl * Z * Z))
| CPercentile (ps : list (vec3 Q)) (axis : vec3 Q) (q : Q) (obs : result (list fl))
(* Polyline(vs).bounding_box: None for an empty polyline, else the box (origin ++ size) *)
| CBBox (vs : list (vec3 Q)) (obs : option (result (list fl)))
| COracleOnly.

Definition vmag (v : vec3 Q) : Q := Qmax' (Qabs (vx v)) (Qmax' (Qabs (vy v)) (Qabs (vz v))).
(* largest |coordinate| of the input points (0 for no points) *)
Definition pts_mag (ps : list (vec3 Q)) : Q := fold_left (fun m p => Qmax' m (vmag p)) ps 0.

(* closeness relative to the magnitude `mag` of the case's own data, WITHOUT the floor at 1 of the shared relation in
   Agree.v: at scale 2^-30 a wrong value is still told apart (tolerance 1e-9 of the larger of mag, |a|, |b|) *)
Definition close_rel (mag a b : Q) : bool :=
  Qle_bool (Qabs (a - b)) (tol * Qmax' mag (Qmax' (Qabs a) (Qabs b))).
Definition fl_close_rel (mag m : Q) (o : fl) : bool := match o with Fin q => close_rel mag m q | _ => false end.
Definition list_close_rel (mag : Q) (m : list Q) (o : list fl) : bool := all2 (fl_close_rel mag) m o.
Definition vec_close_rel (mag : Q) (m : vec3 Q) (o : list fl) : bool := list_close_rel mag (vlist m) o.
Definition vecs_close_rel (mag : Q) (m : list (vec3 Q)) (o : list (list fl)) : bool := all2 (vec_close_rel mag) m o.

(* size of the cloud itself: the largest side of its bounding box (0 for no points / one point).  Distances between the
   points and the box size are judged relative to THIS, not to how far the cloud is from the origin: a formula that
   cancels for far-away clouds must not hide behind the magnitude of the coordinates *)
Definition pts_span (ps : list (vec3 Q)) : Q :=
  match ps with [] => 0 | p :: r => vmag (vsub QOps (points_max QOps p r) (points_min QOps p r)) end.

Definition plane_obs (pl : plane Q) : list Q := vlist (pref pl) ++ vlist (pnormal pl).
Definition box_observables (b : box Q) : list Q :=
  [min_x b; min_y b; min_z b; max_x QOps b; max_y QOps b; max_z QOps b; mid_x QOps b; mid_y QOps b; mid_z QOps b;
   width b; height b; depth b] ++ vlist (center_point QOps b) ++ vlist (floor_point QOps b) ++
  [volume QOps b; surface_area QOps b] ++
  flat_map (fun r => [fst r; snd r]) (ranges QOps b) ++ flat_map vlist (corners QOps b) ++
  flat_map plane_obs (six_planes QOps b).

Definition check_case (c : case) : bool :=
  match c with
  | CBox o s obs =>
      (* all box observables are exact on the dyadic inputs of the generators: judged relative to the SIZE of the box *)
      res_agree (fun b l => list_close_rel (vmag s) (box_observables b) l) (box_ctor QOps o s) obs
  | CFromPoints ps obs =>
      res_agree (fun b l => match l with
                           | [o0; o1; o2; s0; s1; s2] =>
                               list_close_rel (pts_mag ps) (vlist (borigin b)) [o0; o1; o2] &&
                               list_close_rel (pts_span ps) (vlist (bsize b)) [s0; s1; s2]
                           | _ => false end) (from_points QOps ps) obs
  | CContains o s rows obs =>
      bool_list_eqb (map (fun r => contains QOps (MkBox o s) (fst r) (snd r)) rows) obs
  | CExtent ps obs =>
      res_agree (fun (m : ext_state) (ob : fl * Z * Z) =>
                   let '(d, i, j) := m in let '(od, oi, oj) := ob in
                   fl_close_rel (pts_span ps) d od && (i =? oi)%Z && (j =? oj)%Z) (extent QOps ps) obs
  | CPercentile ps axis q obs =>
      res_agree (fun r l => list_close_rel (pts_mag ps) (vlist r) l) (percentile QOps ps axis q) obs
  | CBBox vs obs =>
      match bounding_box QOps vs, obs with
      | None, None => true
      | Some m, Some o =>
          res_agree (fun b l => list_close_rel (pts_mag vs) (vlist (borigin b) ++ vlist (bsize b)) l) m o
      | _, _ => false
      end
  | COracleOnly => true
  end.
