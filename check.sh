#!/bin/bash
# ./check.sh <ID> quick|thorough      ./check.sh <ID> --replay <file>
# POLLIWOG_REPO (default /repo) points the same check at a scratch copy (development / mutation testing only).
cd "$(dirname "$0")"
export POLLIWOG_REPO="${POLLIWOG_REPO:-/repo}"
export PYTHONHASHSEED=0 PYTHONPATH="$POLLIWOG_REPO" POLLIWOG_VERIF=1 PYTHONDONTWRITEBYTECODE=1
exec /venv/bin/python tools/driver.py "$@"
