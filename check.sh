#!/bin/bash
# ./check.sh <ID> quick|thorough      ./check.sh <ID> --replay <file>
cd "$(dirname "$0")"
export PYTHONHASHSEED=0 PYTHONPATH=/repo POLLIWOG_VERIF=1 PYTHONDONTWRITEBYTECODE=1
exec /venv/bin/python tools/driver.py "$@"
