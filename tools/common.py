"""Shared helpers for the property modules."""
import json
import math
import os
from fractions import Fraction

import numpy as np

VERIF = os.path.dirname(os.path.dirname(os.path.abspath(__file__)))


class Kernel:
    """One traced kernel: `call(**arrays)` runs the real polliwog code; `inputs` gives names, shapes and
    the concrete scenario values; `lemma` is Coq text ({T} = traced definition, {vars} = its variables)."""

    def __init__(self, name, inputs, call, lemma, imports=(), expect_structure=None, validate_n=8,
                 perturb=1e-3, timeout=300):
        self.name = name
        self.tname = "T_" + name
        self.inputs = inputs
        self.call = call
        self.lemma = lemma
        self.imports = list(imports)
        self.expect_structure = expect_structure
        self.validate_n = validate_n
        self.perturb = perturb
        self.timeout = timeout


_KF = None


def known_findings():
    global _KF
    if _KF is None:
        _KF = {}
        d = os.path.join(VERIF, "known_findings")
        for fn in sorted(os.listdir(d)) if os.path.isdir(d) else []:
            if fn.endswith(".json"):
                for f in json.load(open(os.path.join(d, fn))).get("findings", []):
                    _KF[(f["property"], f["class"])] = f
    return _KF


def fhex(x):
    return float(x).hex()


def to_jsonable(x):
    if isinstance(x, dict):
        return {str(k): to_jsonable(v) for k, v in x.items()}
    if isinstance(x, (list, tuple)):
        return [to_jsonable(v) for v in x]
    if isinstance(x, np.ndarray):
        return to_jsonable(x.tolist())
    if isinstance(x, (np.bool_,)):
        return bool(x)
    if isinstance(x, np.integer):
        return int(x)
    if isinstance(x, (float, np.floating)):
        f = float(x)
        if math.isnan(f):
            return "nan"
        if math.isinf(f):
            return "inf" if f > 0 else "-inf"
        return f
    if isinstance(x, complex):
        return {"re": x.real, "im": x.imag}
    if isinstance(x, Fraction):
        return str(x)
    return x


# ---- Coq literal writers ---------------------------------------------------------------------------
def q(x):
    """exact rational literal of a float / int / Fraction (scope Q)."""
    f = x if isinstance(x, Fraction) else Fraction(float(x)) if not isinstance(x, (int, np.integer)) else Fraction(int(x))
    return "(%d # %d)" % (f.numerator, f.denominator)


def fl(x):
    """observed float as Agree.fl"""
    x = float(x)
    if math.isnan(x):
        return "FNan"
    if math.isinf(x):
        return "FPInf" if x > 0 else "FNInf"
    return "(Fin %s)" % q(x)


def qv(v):
    v = list(v)
    assert len(v) == 3
    return "(V3 %s %s %s)" % (q(v[0]), q(v[1]), q(v[2]))


def flv(v):
    v = list(v)
    return "[%s]" % "; ".join(fl(x) for x in v)


def coq_list(items):
    return "[%s]" % "; ".join(items)


def coq_bool(b):
    return "true" if b else "false"


def coq_nat(n):
    return "%d%%nat" % n


def coq_Z(n):
    return "(%d)%%Z" % n


def coq_opt(x, f=lambda s: s):
    return "None" if x is None else "(Some %s)" % f(x)


EXN = {"ValueError", "IndexError", "KeyError", "AttributeError", "NotImplementedError", "TypeError",
       "AssertionError", "LinAlgError", "ZeroDivisionError"}


def exn_name(e):
    n = type(e).__name__
    for c in type(e).__mro__:
        if c.__name__ in EXN:
            return c.__name__
    return "OtherError"


def call_impl(f):
    """run f(); map an exception to {"raise": name}"""
    try:
        return f()
    except Exception as e:  # noqa
        return {"raise": exn_name(e), "msg": str(e)[:200]}


# ---- generators ---------------------------------------------------------------------------------------
def grid(rng, lo=-4, hi=4, denom=2):
    """a dyadic grid value (exact in binary64, exact products)"""
    return rng.randint(lo * denom, hi * denom) / denom


def grid_vec(rng, lo=-4, hi=4, denom=2):
    return [grid(rng, lo, hi, denom) for _ in range(3)]


def rational_unit_normal(rng, bound=3):
    """(2a, 2b, 1-a^2-b^2)/(1+a^2+b^2) for small rationals a, b; sign/axis shuffled. As Fractions."""
    a = Fraction(rng.randint(-bound, bound), rng.randint(1, bound))
    b = Fraction(rng.randint(-bound, bound), rng.randint(1, bound))
    d = 1 + a * a + b * b
    n = [2 * a / d, 2 * b / d, (1 - a * a - b * b) / d]
    rng.shuffle(n)
    if rng.random() < 0.5:
        n = [-x for x in n]
    return n
