#!/venv/bin/python
"""Confirm a seeded change and run our check against it, in a scratch copy (never in /repo).
usage: tools/seedtest.py <PROP_ID> <src_dir with patch.diff demo.py meta.json> <name> [check ids...]
Copies the change to /verif/seeded/<name>/, then in a scratch copy of /repo: apply -> pytest pass count -> demo fails;
unchanged -> demo passes; finally runs ./check.sh <id> quick with POLLIWOG_REPO pointing at the patched copy."""
import json, os, re, shutil, subprocess, sys, tempfile

pid, src, name = sys.argv[1:4]
checks = sys.argv[4:] or [pid]
V = os.path.dirname(os.path.dirname(os.path.abspath(__file__)))
dst = os.path.join(V, "seeded", name)
os.makedirs(dst, exist_ok=True)
for fn in ("patch.diff", "demo.py", "meta.json"):
    if os.path.abspath(src) != os.path.abspath(dst):
        shutil.copy(os.path.join(src, fn), os.path.join(dst, fn))
meta = json.load(open(os.path.join(dst, "meta.json")))
tmp = tempfile.mkdtemp(prefix="seedtest-")
repo = os.path.join(tmp, "repo")
try:
    subprocess.run(["git", "clone", "-q", "/repo", repo], check=True)
    env = dict(os.environ, PYTHONPATH=repo, PYTHONDONTWRITEBYTECODE="1")
    demo = os.path.join(dst, "demo.py")
    txt = open(demo).read()
    # demos written by the seeding agents may hard-code their own worktree path: strip it
    txt2 = re.sub(r"/tmp/seed\d*/(?:C|g)\d+", repo, txt)
    tmpdemo = os.path.join(tmp, "demo.py")
    open(tmpdemo, "w").write(txt2)
    r0 = subprocess.run(["/venv/bin/python", tmpdemo], env=env, cwd=tmp, capture_output=True, text=True)
    # a seed written against an earlier /repo may have been ported by hand to the lines a later "fix:" commit rewrote
    patch = os.path.join(dst, "patch_ported.diff")
    if not os.path.exists(patch):
        patch = os.path.join(dst, "patch.diff")
    ap = subprocess.run(["git", "-C", repo, "apply", patch])
    if ap.returncode != 0:  # the seed was written against the pinned commit; /repo has "fix:" commits on top
        subprocess.run(["git", "-C", repo, "apply", "-3", patch], check=True)
    r1 = subprocess.run(["/venv/bin/python", tmpdemo], env=env, cwd=tmp, capture_output=True, text=True)
    t = subprocess.run(["/venv/bin/python", "-m", "pytest", "-q", "-p", "no:cacheprovider", "--timeout=900"], cwd=repo,
                       capture_output=True, text=True, env=env)
    tail = t.stdout.strip().split("\n")[-1]
    m = re.search(r"(\d+) failed.*?(\d+) passed", tail) or re.search(r"(\d+) passed", tail)
    res = {}
    saved = {}
    for c in checks:
        ev = os.path.join(V, "evidence", c + ".json")
        saved[c] = open(ev).read() if os.path.exists(ev) else None
    for c in checks:
        p = subprocess.run(["./check.sh", c, "quick"], cwd=V, env=dict(os.environ, POLLIWOG_REPO=repo), capture_output=True, text=True)
        vio = [l for l in p.stdout.split("\n") if l.startswith("VIOLATION")]
        fails = [l[:300] for l in p.stdout.split("\n") if l.startswith("FAILS") or l.startswith("BROKEN")][:3]
        res[c] = {"exit": p.returncode, "violation_line": vio[0] if vio else None, "detail": fails}
    for c, txt in saved.items():  # the evidence of the unchanged tree must not be overwritten by a seeded run
        if txt is not None:
            open(os.path.join(V, "evidence", c + ".json"), "w").write(txt)
    meta["confirmed"] = {"demo_exit_unchanged": r0.returncode, "demo_exit_with_change": r1.returncode, "pytest_tail": tail,
                         "scratch": "git clone of /repo under $TMPDIR, removed afterwards"}
    meta["our_checks"] = res
    json.dump(meta, open(os.path.join(dst, "meta.json"), "w"), indent=1)
    print(name, "demo unchanged/with:", r0.returncode, r1.returncode, "|", tail)
    for c, r in res.items():
        print("  check", c, "exit", r["exit"], r["violation_line"])
        for d in r["detail"]:
            print("     ", d[:200])
finally:
    shutil.rmtree(tmp, ignore_errors=True)
    # restore evidence for the unchanged tree is the caller's job (re-run the check on /repo)
