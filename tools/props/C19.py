"""C19 — Serialization round-trips Polylines and Planes at the stated precision.

Tie: (A) polliwog/schema.json is re-extracted on every run (fail closed on any keyword outside the modelled
Draft-7 subset) and compared inside Coq with the schema term the theorems are about; (C) the Q instance of
M_serialize.v against rounded / serialize / validate / deserialize (documents also through json text) and against
the verdicts of the real jsonschema validator on single-fault corruptions of valid documents."""
import json
import os
import sys
from fractions import Fraction as Fr

import numpy as np

VERIF = os.path.dirname(os.path.dirname(os.path.dirname(os.path.abspath(__file__))))
if os.path.join(VERIF, ".deps") not in sys.path:
    sys.path.append(os.path.join(VERIF, ".deps"))  # jsonschema (needed by polliwog's validate); C19 only

from common import EXN, coq_bool, coq_list, coq_nat, exn_name, fl, flv, q, qv  # noqa: E402

ID = "C19"
N_CASES = {"quick": 360, "thorough": 5000, "search": 3000}
SHARD = 90
RULE = ("seeded streams: polylines with 0-6 vertices x decimals 0..12 - coordinates with <= 20 significant bits over "
        "power-of-two magnitudes (x*10^d exact in binary64, rounding ties are real ties, compared with exact decimal "
        "rounding), full-mantissa coordinates (judged per coordinate: exact rounding away from tie noise, the half-unit "
        "bound always), magnitudes just below the overflow of x*10^d, is_closed given as numpy.bool_, one int64 vertex "
        "array per run; planes with axis-aligned (exact) and exactly normalised generic normals, 20-bit or full-mantissa "
        "reference points x position decimals 0..12 x direction decimals 0..12; single-fault corruptions and harmless "
        "variations of valid documents (incl. NaN / Infinity number tokens: recorded, not modelled) judged by the real "
        "jsonschema; the extracted schema; non-trivial = no exception at top level; distinct by hash")
TRUSTED = ["Coq 8.16.1 kernel, vm_compute for the correspondence evaluation",
           "axioms (Print Assumptions): Coq stdlib Reals axioms only",
           "json (float text round trip), jsonschema 4.26 Draft7Validator, simplejson: trusted, compared with the model's "
           "validator on every corrupted document",
           "schema extractor in tools/props/C19.py (fail closed on unknown keywords)",
           "coq/corr/K_C19.v: numbers compared at 1e-15 purely relative (k/10^d is not a double); a full-mantissa coordinate "
           "within 1e-3 (+2^-52 relative to x*10^d) of a rounding tie is judged by the half-unit bound only, per coordinate; "
           "coordinates with <= 20 significant bits (incl. real ties) are compared with exact decimal rounding",
           "NumPy np.around = rint(x*10^d)/10^d (pinned by the correspondence on exact inputs incl. ties)"]
CASE_IMPORTS = [("PW.model", "M_polyline_base"), ("PW.model", "M_plane"), ("PW.model", "M_serialize")]
DEFINITIONAL = ["C19_deserialize_guarded_by_validate"]
ASSUMPTIONS = ["theorems are about exact decimal rounding (round-half-even of x*10^d, divided by 10^d) over the reals",
               "magnitude bound: np.around multiplies by 10^d first, so 'rounded/serialize succeed within half a unit' is "
               "claimed (and sampled, up to |x|*10^d ~ 1e307) only for |x| * 10^d < 1.79e308; beyond it binary64 overflows "
               "and the code emits inf (np.around(1e300, 12) = inf) - outside the real-number model",
               "closedness is a Python bool or numpy.bool_ (what comparisons on arrays return); other truthy values are "
               "not generated",
               "'three numbers' means JSON numbers; Python's json also reads the non-standard tokens NaN / Infinity, which "
               "jsonschema accepts as numbers and deserialize stores: the model's numbers are rationals, such documents are "
               "generated and recorded (kind doc_*_valid_nonfinite) but not modelled; only 'refused => not deserialized' is judged",
               "the model is of the code as repaired by /repo commits b58b02b (empty polyline deserialize), 981c15b "
               "(Plane.rounded passes direction_decimals on) and 2b8d651 (serialize emits bool(is_closed))"]


def kernels():
    return []     # np.around on object arrays needs a rint method: not traceable (see DESIGN 2.3)


def _call(f):
    """run f(); jsonschema's ValidationError is reported as its own class (not the catch-all OtherError), so that an
    unrelated exception can never pass for a refusal"""
    try:
        return f()
    except Exception as e:  # noqa
        if type(e).__name__ == "ValidationError" and type(e).__module__.startswith("jsonschema"):
            return {"raise": "ValidationError", "msg": str(e)[:200]}
        return {"raise": exn_name(e), "msg": str(e)[:200]}


# ---------------------------------------------------------------------------------------------------------
# (A) schema extraction, fail closed
class ExtractError(Exception):
    pass


_TYPES = {"object": "TObject", "array": "TArray", "number": "TNumber", "boolean": "TBoolean", "string": "TString",
          "null": "TNull", "integer": "TInteger"}
_NODE_KEYS = {"type", "properties", "required", "additionalProperties", "items", "minItems", "maxItems"}


def _s(x):
    if not isinstance(x, str) or '"' in x:
        raise ExtractError("unsupported string %r" % (x,))
    return '"%s"%%string' % x


def _opt(x, f):
    return "None" if x is None else "(Some %s)" % f(x)


def _schema_term(s):
    if not isinstance(s, dict):
        raise ExtractError("schema node is not an object: %r" % (s,))
    if "$ref" in s:
        if set(s) != {"$ref"} or not s["$ref"].startswith("#/definitions/"):
            raise ExtractError("unsupported $ref node %r" % (s,))
        return "(SRef %s)" % _s(s["$ref"][len("#/definitions/"):])
    unknown = set(s) - _NODE_KEYS
    if unknown:
        raise ExtractError("unsupported schema keywords %s" % sorted(unknown))
    ty = s.get("type")
    if ty is not None and ty not in _TYPES:
        raise ExtractError("unsupported type %r" % (ty,))
    props = s.get("properties", {})
    if not isinstance(props, dict):
        raise ExtractError("properties is not an object")
    req = s.get("required", [])
    if not isinstance(req, list):
        raise ExtractError("required is not a list")
    add = s.get("additionalProperties")
    if add is not None and not isinstance(add, bool):
        raise ExtractError("additionalProperties must be a boolean here")
    for k in ("minItems", "maxItems"):
        if k in s and (isinstance(s[k], bool) or not isinstance(s[k], int) or s[k] < 0):
            raise ExtractError("%s must be a natural number" % k)
    return "(SNode %s %s %s %s %s %s %s)" % (
        _opt(ty, lambda t: _TYPES[t]),
        coq_list("(%s, %s)" % (_s(k), _schema_term(props[k])) for k in sorted(props)),
        coq_list(_s(k) for k in req),
        _opt(add, coq_bool),
        _opt(s.get("items"), _schema_term),
        _opt(s.get("minItems"), coq_nat), _opt(s.get("maxItems"), coq_nat))


def extract_schema():
    from polliwog._common.pathlib import SCHEMA_PATH
    doc = json.load(open(SCHEMA_PATH))
    if set(doc) - {"$schema", "definitions"}:
        raise ExtractError("unsupported top-level keys %s" % sorted(set(doc) - {"$schema", "definitions"}))
    if doc.get("$schema") != "http://json-schema.org/draft-07/schema#":
        raise ExtractError("not a draft-07 schema")
    defs = doc["definitions"]
    return coq_list("(%s, %s)" % (_s(k), _schema_term(defs[k])) for k in sorted(defs))


# ---------------------------------------------------------------------------------------------------------
def _dy20(rng, tier):
    """a dyadic value with <= 20 significant bits at a random power-of-two magnitude"""
    m = rng.randint(-(2 ** 19), 2 ** 19)
    e = rng.randint(-24, 6) if tier != "thorough" else rng.randint(-40, 30)
    if rng.random() < 0.25:
        m, e = rng.randint(-64, 64), rng.randint(-7, 0)      # short binary fractions: many exact ties (x.5, x.125 ...)
    return float(m) * 2.0 ** e


def _full(rng):
    """a full-mantissa double (x*10^d is NOT exact in binary64) over many magnitudes"""
    return rng.uniform(-1.0, 1.0) * 10.0 ** rng.randint(-6, 7)


def _near_overflow(rng, d):
    """<= 20 significant bits with |x| * 10^d between 1e295 and 1e307 (just below the binary64 overflow of np.around)"""
    import math
    target = 10.0 ** (rng.uniform(295, 307) - d)
    e = int(math.floor(math.log2(target))) - 19
    return float(rng.choice([-1, 1]) * rng.randint(2 ** 19, 2 ** 20 - 1)) * 2.0 ** e


def _unit(rng):
    u = rng.random()
    if u < 0.3:
        n = [0.0, 0.0, 0.0]
        n[rng.randrange(3)] = rng.choice([1.0, -1.0])
        return n, True
    if u < 0.45:
        a, b, c = rng.choice([(2, 3, 6), (1, 2, 2), (3, 4, 12), (1, 4, 8), (2, 6, 9), (4, 4, 7)])
        d = (a * a + b * b + c * c) ** 0.5
        n = [s * x / d for s, x in zip((rng.choice([1, -1]) for _ in range(3)), rng.sample([a, b, c], 3))]
    else:
        n = [rng.gauss(0, 1) for _ in range(3)]
    nn = np.array(n)
    nn = nn / np.linalg.norm(nn)
    return [float(x) for x in nn], False


def _valid_polyline_doc(rng, tier):
    k = rng.choice([0, 1, 2, 3])
    return {"vertices": [[round(_dy20(rng, "quick"), 6) for _ in range(3)] for _ in range(k)], "isClosed": rng.random() < 0.5}


def _valid_plane_doc(rng, tier):
    n, _ = _unit(rng)
    if rng.random() < 0.3:
        n = [float(x) for x in rng.choice([[1, 2, 3], [0, 0, 0], [0.5, 0.5, 0.5], [0, 0, 1.01]])]   # clearly not unit
    return {"referencePoint": [round(_dy20(rng, "quick"), 6) for _ in range(3)], "unitNormal": n}


_BADVEC = [[1.0, 2.0], [1.0, 2.0, 3.0, 4.0], [], [1.0, 2.0, "3"], [1.0, None, 3.0], [True, 0.0, 1.0], 7.0, {"x": 1.0},
           "abc", None, [[1.0, 2.0, 3.0]]]


def _corrupt(rng, doc, which):
    """one single-fault corruption (or a harmless variation) of a valid document; returns (doc, fault)"""
    d = json.loads(json.dumps(doc))
    veckeys = ["referencePoint", "unitNormal"] if which == "plane" else []
    u = rng.random()
    if u < 0.14:
        k = rng.choice(sorted(d))
        del d[k]
        return d, "missing_key"
    if u < 0.28:
        d[rng.choice(["extra", "isclosed", "Vertices", "normal", ""])] = rng.choice([1.0, None, [], "x"])
        return d, "extra_key"
    if u < 0.42 and which == "polyline":
        d["isClosed"] = rng.choice([0, 1, "true", None, [], 0.0, [True]])
        return d, "non_boolean_isClosed"
    if u < 0.72:
        bad = rng.choice(_BADVEC)
        if which == "polyline":
            if d["vertices"] and rng.random() < 0.7:
                d["vertices"][rng.randrange(len(d["vertices"]))] = bad
            else:
                d["vertices"].append(bad)
        else:
            d[rng.choice(veckeys)] = bad
        return d, "bad_vector"
    if u < 0.8:
        if which == "polyline":
            d["vertices"] = rng.choice([{"0": [1.0, 2.0, 3.0]}, 3.0, "[]", None])
            return d, "bad_vector"
        return rng.choice([[d], 3.0, None, "x"]), "not_an_object"
    if u < 0.86:
        return rng.choice([[d], 3.0, None, "x", []]), "not_an_object"
    # harmless variations: still valid
    if u < 0.885:
        bad = float(rng.choice(["nan", "inf", "-inf"]))
        if which == "polyline":
            d["vertices"] = d["vertices"] + [[bad, 0.0, 1.0]]
        else:
            d["referencePoint"] = [1.0, bad, 0.0]
        return d, "valid_nonfinite"
    if u < 0.93:
        return {k: d[k] for k in reversed(list(d))}, "valid_reordered"
    if which == "polyline":
        d["vertices"] = [[int(rng.randint(-3, 3)) for _ in range(3)] for _ in range(rng.randint(0, 2))]
    else:
        d["referencePoint"] = [int(rng.randint(-3, 3)) for _ in range(3)]
    return d, "valid_integers"


def gen_cases(rng, n, tier):
    cases = [{"kind": "schema"}]
    # boundary: the empty polyline at every precision, exact ties
    for d in (0, 3, 6, 12):
        cases.append({"kind": "polyline_empty", "v": [], "closed": d % 2 == 0, "d": d, "exact": True})
    cases.append({"kind": "polyline_ties", "v": [[0.5, 1.5, 2.5], [-0.5, -1.5, 0.125], [0.375, 2.0 ** -20, -0.0]], "closed": True, "d": 0, "exact": True})
    cases.append({"kind": "polyline_ties", "v": [[0.125, 0.375, 0.625], [-0.125, 2.5, 1.0 / 1024]], "closed": False, "d": 2, "exact": True})
    cases.append({"kind": "plane_coarse", "ref": [1.0, 2.0, 3.0], "normal": [2.0 / 7, 3.0 / 7, 6.0 / 7], "exact": False, "exact_ref": True, "pd": 6, "dd": 2})
    cases.append({"kind": "polyline_numpy_bool_closed", "v": [[0.5, 1.0, 2.0]], "closed": True, "closed_np": True, "d": 3, "exact": True})
    cases.append({"kind": "polyline_int64_vertices", "v": [[1.0, -2.0, 3.0], [0.0, 7.0, -5.0]], "closed": True, "d": 4, "exact": True, "int": True})
    cases.append({"kind": "polyline_near_overflow", "v": [[1.5e295, -2.0 ** 970, 0.0]], "closed": False, "d": 12, "exact": True})
    while len(cases) < n:
        u = rng.random()
        if u < 0.4:
            k = rng.choice([0, 1, 1, 2, 3, 4, 6])
            d = rng.randint(0, 12)
            w = rng.random()
            if k and w < 0.2:
                cases.append({"kind": "polyline_full_mantissa", "v": [[_full(rng) for _ in range(3)] for _ in range(k)],
                              "closed": rng.random() < 0.5, "d": d, "exact": False})
            elif k and w < 0.26:
                cases.append({"kind": "polyline_near_overflow", "v": [[_near_overflow(rng, d) for _ in range(3)] for _ in range(k)],
                              "closed": rng.random() < 0.5, "d": d, "exact": True})
            elif w < 0.34:
                cases.append({"kind": "polyline_numpy_bool_closed", "v": [[_dy20(rng, tier) for _ in range(3)] for _ in range(k)],
                              "closed": rng.random() < 0.5, "closed_np": True, "d": d, "exact": True})
            else:
                cases.append({"kind": "polyline" if k else "polyline_empty", "v": [[_dy20(rng, tier) for _ in range(3)] for _ in range(k)],
                              "closed": rng.random() < 0.5, "d": d, "exact": True})
        elif u < 0.7:
            nrm, exact = _unit(rng)
            dd = 6 if rng.random() < 0.35 else rng.randint(0, 12)
            full_ref = rng.random() < 0.25
            cases.append({"kind": "plane_default_dd" if dd == 6 else ("plane_coarse" if dd < 6 else "plane_fine"),
                          "ref": [_full(rng) if full_ref else _dy20(rng, tier) for _ in range(3)], "normal": nrm, "exact": exact,
                          "exact_ref": not full_ref, "pd": rng.randint(0, 12), "dd": dd})
        elif u < 0.87:
            doc, fault = _corrupt(rng, _valid_polyline_doc(rng, tier), "polyline")
            cases.append({"kind": "doc_polyline_" + fault, "which": "polyline", "doc": doc, "fault": fault})
        else:
            doc, fault = _corrupt(rng, _valid_plane_doc(rng, tier), "plane")
            cases.append({"kind": "doc_plane_" + fault, "which": "plane", "doc": doc, "fault": fault})
    return cases


# ---------------------------------------------------------------------------------------------------------
def _plain(x):
    """JSON-compatible plain data only (exact builtin types)"""
    if type(x) in (bool, float, int, str) or x is None:
        return True
    if type(x) is list:
        return all(_plain(e) for e in x)
    if type(x) is dict:
        return all(type(k) is str and _plain(v) for k, v in x.items())
    return False


def _validate(cls, doc):
    """True / False (= ValidationError) ; any other exception is returned as {"raise": ...} (never aborts the run)"""
    r = _call(lambda: cls.validate(doc))
    if isinstance(r, dict) and "raise" in r:
        return False if r["raise"] == "ValidationError" else r
    return True


def _undecided(vals, d):
    """number of full-mantissa coordinates within the noise of a rounding tie (judged by the half-unit bound only)"""
    n = 0
    for x in vals:
        y = Fr(float(x)) * 10 ** d
        if abs((y - (y.numerator // y.denominator)) - Fr(1, 2)) <= Fr(1, 1000) + abs(y) / 2 ** 52:
            n += 1
    return n


def _poly(p):
    return {"v": p.v.tolist(), "closed": bool(p.is_closed) if isinstance(p.is_closed, (bool, np.bool_)) else repr(p.is_closed)}


def _plane(p):
    return {"ref": p.reference_point.tolist(), "normal": p.normal.tolist()}


def run_impl(c):
    from polliwog import Plane, Polyline

    k = c["kind"]
    if k == "schema":
        try:
            return {"schema": extract_schema()}
        except Exception as e:  # fail closed
            return {"raise": "ExtractError", "msg": str(e)[:300]}
    if k.startswith("polyline"):
        def go():
            v = np.array(c["v"], dtype=np.int64 if c.get("int") else np.float64).reshape(-1, 3)
            p = Polyline(v, is_closed=np.bool_(c["closed"]) if c.get("closed_np") else c["closed"])
            o = {"input_v": p.v.tolist()}
            with np.errstate(all="ignore"):
                ser = p.serialize(decimals=c["d"])
            o["ser_repr"] = repr(ser)[:300]
            o["plain"] = _plain(ser)
            o["ser"] = ser if o["plain"] else None
            o["valid"] = _validate(Polyline, ser)
            back = _call(lambda: json.loads(json.dumps(ser)))
            o["text_same"] = (back == ser) if not _is_raise(back) else back
            o["deser"] = _call(lambda: _poly(Polyline.deserialize(back if not _is_raise(back) else ser)))
            o["rounded"] = _call(lambda: _poly(p.rounded(decimals=c["d"])))
            with np.errstate(all="ignore"):
                o["default_same"] = bool(p.serialize() == p.serialize(decimals=6))
            o["unchanged"] = bool(np.array_equal(p.v, v))
            if not c.get("exact", True):
                o["undecided_coords"] = _undecided([x for row in o["input_v"] for x in row], c["d"])
            return o
        return _call(go)
    if k.startswith("plane"):
        def go():
            pl = Plane(np.array(c["ref"]), np.array(c["normal"]))
            o = {"ref": pl.reference_point.tolist(), "normal": pl.normal.tolist()}
            ser = _call(lambda: pl.serialize(position_decimals=c["pd"], direction_decimals=c["dd"]))
            o["ser"] = ser
            o["rounded"] = _call(lambda: _plane(pl.rounded(position_decimals=c["pd"], direction_decimals=c["dd"])))
            if not (isinstance(ser, dict) and "raise" in ser):
                o["plain"] = _plain(ser)
                o["valid"] = _validate(Plane, ser)
                back = json.loads(json.dumps(ser))
                o["text_same"] = back == ser
                o["deser"] = _call(lambda: _plane(Plane.deserialize(back)))
            o["undecided_coords"] = ((0 if c.get("exact_ref", True) else _undecided(o["ref"], c["pd"])) +
                                     (0 if c["exact"] else _undecided(o["normal"], c["dd"])))
            return o
        return _call(go)
    cls = Polyline if c["which"] == "polyline" else Plane
    doc = c["doc"]
    o = {"accepted": _validate(cls, doc)}
    o["deser"] = _call(lambda: (_poly if cls is Polyline else _plane)(cls.deserialize(json.loads(json.dumps(doc)))))
    return o


# ---------------------------------------------------------------------------------------------------------
def _json_term(x, num):
    if x is None:
        return "JNull"
    if isinstance(x, bool):
        return "(JBool %s)" % coq_bool(x)
    if isinstance(x, (int, float)):
        return "(JNum %s)" % num(x)
    if isinstance(x, str):
        return "(JStr %s)" % _s(x)
    if isinstance(x, list):
        return "(JArr %s)" % coq_list(_json_term(e, num) for e in x)
    if isinstance(x, dict):
        return "(JObj %s)" % coq_list("(%s, %s)" % (_s(k), _json_term(v, num)) for k, v in x.items())
    raise AssertionError(type(x))


def _is_raise(x):
    return isinstance(x, dict) and "raise" in x


def _res(x, f):
    if _is_raise(x):
        if x["raise"] == "ValidationError":
            return "ORefused"
        return "(ORaise %s)" % (x["raise"] if x["raise"] in EXN else "OtherError")
    return "(OOk %s)" % f(x)


def _opoly(p):
    return "(OPoly %s %s)" % (coq_list(flv(v) for v in p["v"]), coq_bool(p["closed"] is True))


def _oplane(p):
    return "(OPlane %s %s)" % (flv(p["ref"]), flv(p["normal"]))


def coq_case(c, o):
    k = c["kind"]
    if k == "schema":
        return "CFail" if "raise" in o else "CSchema %s" % o["schema"]
    if k.startswith("polyline"):
        if _is_raise(o):
            return "CFail"
        p = "(MkPolyline %s %s)" % (coq_list(qv(v) for v in o["input_v"]), coq_bool(c["closed"]))
        if _is_raise(o["rounded"]) or not o["plain"] or _is_raise(o["valid"]):
            return "CFail"
        return "CPolyline %s %s %s %s %s %s %s" % (coq_bool(c.get("exact", True)), p, coq_nat(c["d"]), _json_term(o["ser"], fl),
                                                  coq_bool(o["valid"]), _res(o["deser"], _opoly), _opoly(o["rounded"]))
    if k.startswith("plane"):
        if _is_raise(o):
            return "CFail"
        pl = "(MkPlane %s %s)" % (qv(o["ref"]), qv(o["normal"]))
        ser = o["ser"]
        if not _is_raise(ser) and (not o["plain"] or _is_raise(o["valid"])):
            return "CFail"
        return "CPlane %s %s %s %s %s %s %s %s %s" % (
            coq_bool(c.get("exact_ref", True)), coq_bool(c["exact"]), pl, coq_nat(c["pd"]), coq_nat(c["dd"]),
            _res(ser, lambda s: _json_term(s, fl)), coq_bool(o.get("valid", False) is True),
            _res(o.get("deser", {"raise": "OtherError"}), _oplane), _res(o["rounded"], _oplane))
    if c["fault"] == "valid_nonfinite":
        return "CSkip"      # NaN / Infinity tokens: no rational model; counted under its own kind in the histogram
    doc = _json_term(c["doc"], q)
    if _is_raise(o["accepted"]):
        return "CFail"
    if c["which"] == "polyline":
        return "CDocPolyline %s %s %s" % (doc, coq_bool(o["accepted"]), _res(o["deser"], _opoly))
    return "CDocPlane %s %s %s" % (doc, coq_bool(o["accepted"]), _res(o["deser"], _oplane))


# ---------------------------------------------------------------------------------------------------------
def _round_exact(x, d):
    """(nearest double of round_half_even(x*10^d)/10^d, distance of x*10^d from a tie)"""
    y = Fr(float(x)) * 10 ** d
    kk = round(y)                       # Fraction.__round__ rounds half to even
    tie = abs((y - (y.numerator // y.denominator)) - Fr(1, 2))
    return float(Fr(kk, 10 ** d)), tie


def _check_vec(name, orig, got, d, exact):
    for i, (x, g) in enumerate(zip(orig, got)):
        want, tie = _round_exact(x, d)
        fx, fg = Fr(float(x)), Fr(float(g)) if np.isfinite(g) else None
        if fg is None:
            return "%s[%d]: %r rounded to %d decimals is %r" % (name, i, x, d, g)
        if abs(fg - fx) > Fr(1, 2 * 10 ** d) + Fr(1, 10 ** 15) * max(abs(fx), abs(fg)):
            return "%s[%d]: %r differs from the original %r by more than half a unit of decimal %d" % (name, i, g, x, d)
        # exact decimal rounding is demanded wherever it is decided: always when x*10^d is exact in binary64, otherwise
        # away from the noise of a tie (1e-3 of a unit + 2^-52 relative to the scaled value = twice the rounding error of x*10^d)
        decided = exact or tie > Fr(1, 1000) + abs(fx) * 10 ** d / 2 ** 52
        if decided and abs(fg - Fr(want)) > Fr(1, 10 ** 15) * max(abs(Fr(want)), abs(fg)):
            return "%s[%d]: %r is not %r rounded to %d decimals (%r)" % (name, i, g, x, d, want)
    return None


def oracle(c, o):
    k = c["kind"]
    if k == "schema":
        return None     # compared inside Coq; a changed schema shows up on the corrupted documents
    if k.startswith("polyline"):
        if _is_raise(o):
            return "Polyline.serialize(decimals=%d) raised %s: %s" % (c["d"], o["raise"], o.get("msg"))
        if not o["plain"]:
            return "serialize returned data that is not plain JSON-compatible: %s" % (o["ser_repr"],)
        if o["valid"] is not True:
            return "serialize's own output does not pass validate: %s (%r)" % (o["ser_repr"], o["valid"])
        if o["text_same"] is not True:
            return "the serialized document does not survive json.dumps / json.loads: %r" % (o["text_same"],)
        if _is_raise(o["rounded"]):
            return "rounded(%d) raised %s" % (c["d"], o["rounded"]["raise"])
        if _is_raise(o["deser"]):
            return "deserialize(serialize(%d vertices, decimals=%d)) raised %s: %s" % (
                len(c["v"]), c["d"], o["deser"]["raise"], o["deser"].get("msg"))
        if not o["unchanged"]:
            return "serialize modified the polyline"
        r, dz = o["rounded"], o["deser"]
        if dz["closed"] is not c["closed"] or r["closed"] is not c["closed"]:
            return "closedness not preserved: %r / %r" % (dz["closed"], r["closed"])
        if dz["v"] != r["v"] or len(r["v"]) != len(c["v"]):
            return "deserialize(serialize(p)) has vertices %r, rounded() has %r" % (dz["v"], r["v"])
        if o["ser"].get("vertices") != r["v"] or o["ser"].get("isClosed") is not c["closed"] or set(o["ser"]) != {"vertices", "isClosed"}:
            return "serialized document %r is not the rounded polyline" % (o["ser"],)
        if not o["default_same"]:
            return "serialize() differs from serialize(decimals=6)"
        for j, (x, g) in enumerate(zip(o["input_v"], r["v"])):
            f = _check_vec("vertex %d" % j, x, g, c["d"], c.get("exact", True))
            if f:
                return f
        return None
    if k.startswith("plane"):
        if _is_raise(o):
            return "Plane construction raised %s" % o["raise"]
        pd, dd = c["pd"], c["dd"]
        if _is_raise(o["ser"]):
            return "Plane.serialize(position_decimals=%d, direction_decimals=%d) raised %s: %s" % (pd, dd, o["ser"]["raise"], o["ser"].get("msg"))
        if _is_raise(o["rounded"]):
            return "Plane.rounded(%d, %d) raised %s" % (pd, dd, o["rounded"]["raise"])
        if not o["plain"] or o["valid"] is not True:
            return "serialize's output is not plain JSON data passing validate: %r" % (o["ser"],)
        if o["text_same"] is not True:
            return "the serialized document does not survive json.dumps / json.loads"
        r = o["rounded"]
        if o["ser"] != {"referencePoint": r["ref"], "unitNormal": r["normal"]}:
            return "serialized document %r is not the rounded plane" % (o["ser"],)
        f = _check_vec("reference point", o["ref"], r["ref"], pd, c.get("exact_ref", True)) or _check_vec("normal", o["normal"], r["normal"], dd, c["exact"])
        if f:
            return f
        if dd == 6:   # the round trip is claimed for the default direction precision
            if _is_raise(o["deser"]):
                return "deserialize(serialize(plane)) raised %s at the default direction precision" % o["deser"]["raise"]
            if o["deser"] != r:
                return "deserialize(serialize(plane)) = %r, rounded() = %r" % (o["deser"], r)
        elif not _is_raise(o["deser"]) and o["deser"] != r:
            return "deserialize(serialize(plane)) = %r, rounded() = %r" % (o["deser"], r)
        return None
    fault = c["fault"]
    if _is_raise(o["accepted"]):
        return "validate raised %s instead of accepting or refusing: %s" % (o["accepted"]["raise"], o["accepted"].get("msg"))
    if not o["accepted"] and not _is_raise(o["deser"]):
        return "deserialize built an object from a document that validate refuses: %r" % (c["doc"],)
    if fault in ("missing_key", "extra_key", "non_boolean_isClosed", "bad_vector", "not_an_object") and o["accepted"]:
        return "validate accepts a document with fault %s: %r" % (fault, c["doc"])
    if fault.startswith("valid") and not o["accepted"]:
        return "validate refuses a well-formed document: %r" % (c["doc"],)
    return None


def classify(c, o, failure, disagrees):
    return None     # no open finding: is_closed=np.bool_ was repaired in /repo 2b8d651; a recurrence is a violation
