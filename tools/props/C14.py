"""C14 — Plane-segment and plane-line intersection routines agree on the crossing point."""
import warnings
from fractions import Fraction as Fr

import numpy as np

from common import (Kernel, call_impl, coq_bool, coq_list, coq_nat, fl, flv, grid_vec, q, qv,
                    rational_unit_normal)

ID = "C14"
N_CASES = {"quick": 400, "thorough": 6000, "search": 4000}
RULE = ("seeded streams: segments / lines / polylines (0-7 vertices, open and closed) on dyadic grids times a power "
        "of two against generic planes (rational unit normals normalised in binary64; a row / edge is judged when both "
        "its ends are farther than 1e-12 * (largest coordinate) from the plane, i.e. down to a thousand times the rounding "
        "error; one-end-near streams put endpoints at 1e-6..1e-10*scale from generic planes) and exact planes (axis or 22-bit dyadic normals, "
        "endpoints exactly on the plane, segments inside / parallel to the plane, axis-parallel segments with equal "
        "coordinates); extreme scales 2^-30..2^30 also in the quick tier; tiny features at unit-size positions (segments, "
        "polyline edges of length ~1e-9*scale across / beside / inside axis-normal planes, direction vectors ~1e-9*scale); "
        "far_offset_exact: unit-size dyadic scenes 2^24..2^31 away from the origin (16-bit non-axis normals, endpoints "
        "exactly on the plane; positions judged to 1e-9 of the scene plus 0.75..1.5 ulp per coordinate; the polyline routine, "
        "which works through the plane equation, only relative to the coordinates); "
        "pairwise intersect_segment_with_plane with arbitrary grid normals; non-trivial = the calls "
        "returned; distinct by hash of inputs")
TRUSTED = ["Coq 8.16.1 kernel, vm_compute for the correspondence evaluation",
           "axioms (Print Assumptions): ClassicalDedekindReals.sig_forall_dec, sig_not_dec, "
           "FunctionalExtensionality.functional_extensionality_dep, Classical_Prop.classic (all Coq stdlib Reals)",
           "tools/symtrace.py tracing translator + numpy shim (re-validated numerically each run)",
           "K_C14.v agreement relation (tolerance 1e-9 relative to the largest input coordinate, no floor; side decisions compared only when |sd| > 1e-12 * that magnitude "
           "unless arithmetic is exact)",
           "NumPy, vg"]
CASE_IMPORTS = [("PW.model", "M_plane"), ("PW.model", "M_plane_xsect")]
ASSUMPTIONS = ["*_tiny cases (features of size 1e-9*scale at unit-size positions) judge the DECISIONS of the routines (which "
               "rows / edges are reported, None / NaN / flags); the reported positions are compared relative to the size of "
               "the coordinates (1e-9 of it), which is coarser than the features themselves",
               "theorems are about exact real arithmetic; binary64 rounding is covered only by the tolerance of the "
               "correspondence check on sampled inputs",
               "endpoints within rounding error of the plane are excluded (their side is not determined)"]

IMPORTS = [("PW.model", "M_plane"), ("PW.model", "M_polyline_base"), ("PW.model", "M_plane_xsect"),
           ("PW.proofs", "P_plane_xsect")]
PL = "(MkPlane (V3 r0 r1 r2) (V3 n0 n1 n2))"
HEAD = "Proof. intros {vars} Hpath. unfold {T}_path in Hpath; rops. path_facts Hpath. unfold {T}. xunf. rewrite ?Rplus_0_l in *. abs_by_path. decide_ifs.\n"
NRM = [2.0 / 3, -1.0 / 3, 2.0 / 3]
REF = [1.0, 2.0, 3.0]


def _install_tracer_shims():
    """Two additive shims for tools/symtrace.NpShim that the stacked routines need when they are written with a NaN-filled
    output buffer (np.full(k, nan) + np.divide(num, den, out=..., where=mask)). Installed only if symtrace does not define
    them itself (the tracer is a shared tool: the same code is proposed for it in my report); fail-closed otherwise:
      * full(shape, nan, dtype=float): an object array of plain float NaN (flatten_result already reports such elements
        as {"nan": True}; arithmetic of a NaN element with a symbol still raises `non-finite constant`);
      * divide(a, b, out=, where=): elementwise a / b on object arrays where the (concrete) mask is true, `out` elsewhere."""
    import symtrace

    shim = symtrace.NpShim
    if "divide" not in shim.__dict__:
        def divide(self, a, b, out=None, where=True, **kw):
            aa, bb = np.asarray(a), np.asarray(b)
            if aa.dtype != object and bb.dtype != object and not isinstance(a, symtrace.Sym) and not isinstance(b, symtrace.Sym) \
                    and (out is None or np.asarray(out).dtype != object):
                return np.divide(a, b, out=out, where=where, **kw) if out is not None or where is not True else np.divide(a, b, **kw)
            aa, bb, ww = np.broadcast_arrays(aa, bb, np.asarray(where, dtype=bool))
            res = np.empty(aa.shape, dtype=object)
            if out is not None:
                res[...] = np.asarray(out, dtype=object)
            elif not ww.all():
                raise symtrace.TraceError("np.divide with where= but without out=")
            fr, fa, fb, fw = res.reshape(-1), aa.reshape(-1), bb.reshape(-1), ww.reshape(-1)
            for i in range(fr.shape[0]):
                if fw[i]:
                    fr[i] = self._t.lift(fa[i]) / self._t.lift(fb[i])
            return res

        shim.divide = divide
        shim.true_divide = divide
    if not getattr(shim.full, "_nan_aware", False):
        plain_full = shim.full

        def full(self, shape, fill_value, dtype=None, **kw):
            if isinstance(fill_value, float) and fill_value != fill_value:
                out = np.empty(shape, dtype=object)
                out[...] = float("nan")
                return out
            return plain_full(self, shape, fill_value, dtype=dtype, **kw)

        full._nan_aware = True
        shim.full = full


def kernels():
    _install_tracer_shims()
    from polliwog import Plane, Polyline
    from polliwog.plane import intersect_segment_with_plane

    ks = []
    A, B = "(V3 a0 a1 a2)", "(V3 b0 b1 b2)"
    A2, B2 = "(V3 a3 a4 a5)", "(V3 b3 b4 b5)"

    # ---- Plane.line_xsection ------------------------------------------------------------------------------
    ks.append(Kernel(
        "line_xsection", {"r": REF, "n": NRM, "p": [0.5, -1.0, 4.0], "q": [1.0, 2.0, -1.0]},
        lambda r, n, p, q: Plane(r, n).line_xsection(p, q),
        "Lemma {T}_ok : forall {vars} : R, {T}_path ROps {vars} ->\n"
        "  option_map vlist (line_xsection ROps %s (V3 p0 p1 p2) (V3 q0 q1 q2)) = Some ({T} ROps {vars}).\n" % PL
        + HEAD + "  all: same_values. Qed.",
        imports=IMPORTS, perturb=1e-9))
    ks.append(Kernel(
        "line_xsection_parallel", {"r": [0.0, 0.0, 1.0], "n": [0.0, 0.0, 1.0], "p": [0.5, -1.0, 4.0], "q": [1.0, 2.0, 0.0]},
        lambda r, n, p, q: (Plane(r, n).line_xsection(p, q) is None,),
        "Lemma {T}_ok : forall {vars} : R, {T}_path ROps {vars} ->\n"
        "  line_xsection ROps %s (V3 p0 p1 p2) (V3 q0 q1 q2) = None.\n" % PL
        + HEAD + "  all: reflexivity. Qed.",
        imports=IMPORTS, perturb=0.0, expect_structure={"tuple": [True]}))

    # ---- Plane.line_segment_xsection: crossing, same side (far intersection rejected by the bound test) ----
    ks.append(Kernel(
        "segment_xsection_cross", {"r": REF, "n": NRM, "a": [4.0, 0.0, 5.0], "b": [-2.0, 3.0, 1.0]},
        lambda r, n, a, b: Plane(r, n).line_segment_xsection(a, b),
        "Lemma {T}_ok : forall {vars} : R, {T}_path ROps {vars} ->\n"
        "  option_map vlist (line_segment_xsection ROps %s %s %s) = Some ({T} ROps {vars}).\n" % (PL, A, B)
        + HEAD + "  all: same_values. Qed.",
        imports=IMPORTS, perturb=1e-9))
    # an axis-parallel crossing segment with two equal coordinates: pt == a == b there
    ks.append(Kernel(
        "segment_xsection_axis", {"r": REF, "n": NRM, "a": [4.0, 0.0, 5.0], "bz": [-5.0]},
        lambda r, n, a, bz: Plane(r, n).line_segment_xsection(a, np.array([a[0], a[1], bz[0]], dtype=a.dtype)),
        "Lemma {T}_ok : forall {vars} : R, {T}_path ROps {vars} ->\n"
        "  option_map vlist (line_segment_xsection ROps %s %s (V3 a0 a1 bz0)) = Some ({T} ROps {vars}).\n" % (PL, A)
        + HEAD + "  all: same_values. Qed.",
        imports=IMPORTS, perturb=1e-9))
    ks.append(Kernel(
        "segment_xsection_same_side", {"r": REF, "n": NRM, "a": [4.0, 0.0, 5.0], "b": [5.0, 1.0, 7.0]},
        lambda r, n, a, b: (Plane(r, n).line_segment_xsection(a, b) is None,),
        "Lemma {T}_ok : forall {vars} : R, {T}_path ROps {vars} ->\n"
        "  line_segment_xsection ROps %s %s %s = None.\n" % (PL, A, B)
        + HEAD + "  all: reflexivity. Qed.",
        imports=IMPORTS, perturb=1e-9, expect_structure={"tuple": [True]}))

    # ---- stacked forms, two rows -------------------------------------------------------------------------------
    ks.append(Kernel(
        "line_xsections", {"r": REF, "n": NRM, "p": [[0.5, -1.0, 4.0], [2.0, 2.0, 2.0]], "q": [[1.0, 2.0, -1.0], [0.0, 1.0, 3.0]]},
        lambda r, n, p, q: Plane(r, n).line_xsections(p, q),
        "Lemma {T}_ok : forall {vars} : R, {T}_path ROps {vars} ->\n"
        "  let res := line_xsections ROps %s [V3 p0 p1 p2; V3 p3 p4 p5] [V3 q0 q1 q2; V3 q3 q4 q5] in\n"
        "  map (option_map vlist) (fst res) = [Some (firstn 3 ({T} ROps {vars})); Some (skipn 3 ({T} ROps {vars}))]\n"
        "  /\\ snd res = [true; true].\n" % PL
        + HEAD + "  all: (cbn [firstn skipn negb]; split; [|reflexivity]; repeat (apply cons_eq; [same_values|]); reflexivity). Qed.",
        imports=IMPORTS, perturb=1e-9))
    # row 0 crosses, row 1 has both ends on the same side: NaN row, flagged invalid
    ks.append(Kernel(
        "segment_xsections", {"r": REF, "n": NRM, "a": [[4.0, 0.0, 5.0], [4.0, 0.0, 5.0]], "b": [[-2.0, 3.0, 1.0], [5.0, 1.0, 7.0]]},
        lambda r, n, a, b: Plane(r, n).line_segment_xsections(a, b),
        "Lemma {T}_ok : forall {vars} : R, {T}_path ROps {vars} ->\n"
        "  let res := line_segment_xsections ROps %s [%s; %s] [%s; %s] in\n"
        "  map (option_map vlist) (fst res) = [Some ({T} ROps {vars}); None] /\\ snd res = [true; false].\n" % (PL, A, A2, B, B2)
        + HEAD + "  all: (cbn [negb]; split; [|reflexivity]; apply cons_eq; [same_values|reflexivity]). Qed.",
        imports=IMPORTS, perturb=1e-9,
        expect_structure={"tuple": [{"shape": [2, 3], "data": ["e", "e", "e", {"nan": True}, {"nan": True}, {"nan": True}]},
                                    {"shape": [2], "dtype": "bool", "data": [True, False]}]}))

    # ---- intersect_segment_with_plane ---------------------------------------------------------------------------
    # the trace divides by dot(segment_vector, normal): it exists only where that is non-zero (the zero case, which
    # goes through nan_to_num, is tied by the correspondence check), hence the explicit hypothesis
    DEN = "v0 * n0 + v1 * n1 + v2 * n2 <> 0"
    HEADD = HEAD.replace("intros {vars} Hpath", "intros {vars} Hden Hpath")
    ISP = "intersect_segment_with_plane ROps (V3 s0 s1 s2) (V3 v0 v1 v2) (V3 r0 r1 r2) (V3 n0 n1 n2)"
    ks.append(Kernel(
        "isp_cross", {"s": [4.0, 0.0, 5.0], "v": [-6.0, 3.0, -4.0], "r": REF, "n": [2.0, -1.0, 2.0]},
        lambda s, v, r, n: intersect_segment_with_plane(s, v, r, n),
        "Lemma {T}_ok : forall {vars} : R, %s -> {T}_path ROps {vars} -> option_map vlist (%s) = Some ({T} ROps {vars}).\n" % (DEN, ISP)
        + HEADD + "  all: same_values. Qed.",
        imports=IMPORTS))
    ks.append(Kernel(
        "isp_before", {"s": [4.0, 0.0, 5.0], "v": [1.0, 1.0, 2.0], "r": REF, "n": [2.0, -1.0, 2.0]},
        lambda s, v, r, n: intersect_segment_with_plane(s, v, r, n),
        "Lemma {T}_ok : forall {vars} : R, %s -> {T}_path ROps {vars} -> %s = None.\n" % (DEN, ISP)
        + HEADD + "  all: reflexivity. Qed.",
        imports=IMPORTS, expect_structure={"shape": [3], "data": [{"nan": True}] * 3}))
    ks.append(Kernel(
        "isp_beyond", {"s": [4.0, 0.0, 5.0], "v": [-1.0, 0.5, -1.0], "r": REF, "n": [2.0, -1.0, 2.0]},
        lambda s, v, r, n: intersect_segment_with_plane(s, v, r, n),
        "Lemma {T}_ok : forall {vars} : R, %s -> {T}_path ROps {vars} -> %s = None.\n" % (DEN, ISP)
        + HEADD + "  all: reflexivity. Qed.",
        imports=IMPORTS, expect_structure={"shape": [3], "data": [{"nan": True}] * 3}))
    ks.append(Kernel(
        "isp_stack", {"s": [[4.0, 0.0, 5.0], [4.0, 0.0, 5.0]], "v": [[-6.0, 3.0, -4.0], [1.0, 1.0, 2.0]],
                      "r": [REF, [0.0, 1.0, 0.0]], "n": [[2.0, -1.0, 2.0], [1.0, 1.0, 0.0]]},
        lambda s, v, r, n: intersect_segment_with_plane(s, v, r, n),
        "Lemma {T}_ok : forall {vars} : R, %s -> v3 * n3 + v4 * n4 + v5 * n5 <> 0 -> {T}_path ROps {vars} ->\n" % DEN +
        "  map (option_map vlist) (intersect_segments_with_planes ROps [V3 s0 s1 s2; V3 s3 s4 s5] [V3 v0 v1 v2; V3 v3 v4 v5]\n"
        "     [V3 r0 r1 r2; V3 r3 r4 r5] [V3 n0 n1 n2; V3 n3 n4 n5]) = [Some ({T} ROps {vars}); None].\n"
        + HEAD.replace("intros {vars} Hpath", "intros {vars} Hden Hden2 Hpath") + "  all: (apply cons_eq; [same_values|reflexivity]). Qed.",
        imports=IMPORTS,
        expect_structure={"shape": [2, 3], "data": ["e", "e", "e", {"nan": True}, {"nan": True}, {"nan": True}]}))

    # ---- Polyline.intersect_plane: closed triangle, edges 0 and 2 cross, edge 1 does not ------------------------
    def poly(r, n, v):
        return Polyline(v, is_closed=True).intersect_plane(Plane(r, n), ret_edge_indices=True)

    ks.append(Kernel(
        "intersect_plane", {"r": REF, "n": NRM, "v": [[4.0, 0.0, 5.0], [-2.0, 3.0, 1.0], [-3.0, 1.0, 0.0]]},
        poly,
        "Lemma {T}_ok : forall {vars} : R, {T}_path ROps {vars} ->\n"
        "  let res := intersect_plane ROps %s (MkPolyline [V3 v0 v1 v2; V3 v3 v4 v5; V3 v6 v7 v8] true) in\n"
        "  map (option_map vlist) (fst res) = [Some (firstn 3 ({T} ROps {vars})); Some (skipn 3 ({T} ROps {vars}))]\n"
        "  /\\ snd res = [0; 2]%%nat.\n" % PL
        + HEAD + "  all: (cbn [firstn skipn Z.add Z.abs Z.eqb Z.opp Pos.eqb negb Pos.add Z.pos_sub Pos.succ map fst snd option_map vlist vx vy vz];\n"
        "  split; [|reflexivity]; repeat (apply cons_eq; [same_values|]); reflexivity). Qed.",
        imports=IMPORTS, perturb=1e-9,
        expect_structure={"tuple": [{"shape": [2, 3], "data": ["e"] * 6}, {"shape": [2], "dtype": "int64", "data": [0, 2]}]}))
    return ks


# ---------------------------------------------------------------------------------------------------------
def _dyadic22(x):
    return round(x * 2 ** 22) / 2 ** 22


def _generic_plane(rng, scale):
    nn = np.array([float(x) for x in rational_unit_normal(rng)])
    nrm = list(nn / np.linalg.norm(nn))
    ref = [x * scale for x in grid_vec(rng)]
    return ref, nrm, None


def _exact_plane(rng, scale):
    """axis normals, or 22-bit dyadic normals with one zero component; returns two exact tangent vectors"""
    ax = rng.randrange(3)
    if rng.random() < 0.5:
        nrm = [0.0, 0.0, 0.0]
        nrm[ax] = rng.choice([1.0, -1.0])
        tang = [[1.0 if j == (ax + 1) % 3 else 0.0 for j in range(3)], [1.0 if j == (ax + 2) % 3 else 0.0 for j in range(3)]]
    else:
        a, b = rng.choice([(3, 4), (5, 12), (8, 15), (7, 24), (20, 21)])
        c = (a * a + b * b) ** 0.5
        a, b = _dyadic22(a / c) * rng.choice([1, -1]), _dyadic22(b / c) * rng.choice([1, -1])
        nrm = [0.0, 0.0, 0.0]
        nrm[(ax + 1) % 3], nrm[(ax + 2) % 3] = a, b
        t1 = [0.0, 0.0, 0.0]
        t1[(ax + 1) % 3], t1[(ax + 2) % 3] = -b, a
        tang = [t1, [1.0 if j == ax else 0.0 for j in range(3)]]
    ref = [x * scale for x in grid_vec(rng, -4, 4, 2)]
    return ref, nrm, tang


def _exact_point(rng, scale, ref, nrm, tang, off=None):
    k1, k2 = rng.randint(-4, 4) / 2 * scale, rng.randint(-4, 4) / 2 * scale
    if off is None:
        off = rng.choice([0, 0, 1, -1, 2, -3, 1, -2])
    off = off / 2 * scale
    return [ref[j] + k1 * tang[0][j] + k2 * tang[1][j] + off * nrm[j] for j in range(3)]


def _is_axis(nrm):
    return sorted(abs(x) for x in nrm) == [0.0, 0.0, 1.0]


def _tiny_point(rng, scale, plane, delta):
    """a point within a few `delta` (about 1e-9 * scale) of an exact axis-normal plane, at a unit-size position:
    every coordinate is a multiple of delta below 2^4 * scale, so all of the code's arithmetic on it is exact"""
    ref, nrm, tang = plane
    k1, k2 = rng.randint(-4, 4) / 2 * scale, rng.randint(-4, 4) / 2 * scale
    off = rng.choice([-3, -2, -1, -1, 0, 1, 1, 2, 3]) * delta
    o1, o2 = rng.randint(-3, 3) * delta, rng.randint(-3, 3) * delta
    return [ref[j] + (k1 + o1) * tang[0][j] + (k2 + o2) * tang[1][j] + off * nrm[j] for j in range(3)]


def _near_point(rng, scale, plane):
    """generic plane: a grid point moved (in binary64) to within 1e-6..1e-10 * scale of the plane, on a random side. Its
    side is still determined (the rounding error of a signed distance is about 1e-15 * scale). Used for ONE end of a
    segment / edge only: with both ends that close the crossing point itself would be ill-conditioned."""
    ref, nrm, _ = plane
    g = np.array([x * scale for x in grid_vec(rng)])
    n = np.array(nrm)
    p = g - np.dot(g - np.array(ref), n) * n + rng.choice([-1.0, 1.0]) * scale * 10.0 ** -rng.randint(6, 10) * n
    return [float(x) for x in p]


def _point(rng, scale, plane, tiny=None):
    ref, nrm, tang = plane
    if tiny is not None and rng.random() < 0.8:
        return _tiny_point(rng, scale, plane, tiny)
    if tang is not None and rng.random() < 0.6:
        return _exact_point(rng, scale, ref, nrm, tang)
    return [x * scale for x in grid_vec(rng)]


def _segment(rng, scale, plane, tiny=None):
    if plane[2] is None and rng.random() < 0.15:
        a, b = _near_point(rng, scale, plane), [x * scale for x in grid_vec(rng)]   # one end near the plane, the other far
        return (a, b) if rng.random() < 0.5 else (b, a)
    a = _point(rng, scale, plane, tiny)
    u = rng.random()
    if tiny is not None and u < 0.7:
        # a short segment (length about 1e-9 * scale) next to a, across / beside / inside the plane
        ref, nrm, tang = plane
        d = [rng.randint(-4, 4) * tiny for _ in range(3)]
        b = [a[j] + d[0] * nrm[j] + d[1] * tang[0][j] + d[2] * tang[1][j] for j in range(3)]
    elif u < 0.25:
        # axis-parallel: one or two coordinates differ, the others are equal
        b = list(a)
        for j in rng.sample(range(3), rng.choice([1, 1, 2])):
            b[j] = a[j] + rng.choice([-3, -2, -1, 1, 2, 3, 5]) / 2 * scale
    elif u < 0.3:
        b = list(a)  # zero-length segment
    else:
        b = _point(rng, scale, plane, tiny)
    return a, b


def c_closed_odd(k):
    """the closing edge (k-1, 0) joins an odd vertex to vertex 0 only when k is even: then vertex k-1 stays far"""
    return k >= 2 and (k - 1) % 2 == 1


def _scale(rng, tier):
    """power-of-two scale; the quick tier also gets a share of extreme ones (absolute tolerances in the code under
    test only bite far from unit size)"""
    if tier == "thorough":
        return 2.0 ** rng.randint(-30, 30)
    if rng.random() < 0.15:
        return 2.0 ** rng.choice([-30, -28, -26, -22, 20, 25, 30])
    return 2.0 ** rng.randint(-10, 10)


def _dyadic16_unit(rng):
    """a normal in general position whose components are multiples of 2^-16 (16-17 significant bits) and whose length
    is within 4e-7 of 1 (Plane accepts 1e-6); as Fractions"""
    while True:
        g = [rng.gauss(0, 1) for _ in range(3)]
        l = sum(x * x for x in g) ** 0.5
        a, b = round(g[0] / l * 65536), round(g[1] / l * 65536)
        rest = 65536 ** 2 - a * a - b * b
        if rest <= 0:
            continue
        cc = round(rest ** 0.5) * rng.choice([-1, 1])
        n = [Fr(a, 65536), Fr(b, 65536), Fr(cc, 65536)]
        if all(n) and abs(float(sum(x * x for x in n)) ** 0.5 - 1) < 4e-7:
            return n


def _far_case(rng):
    """far_offset_exact: a unit-size scene on a dyadic grid translated 2^24..2^31 away from the origin. Every coordinate
    is exactly representable; `point - reference` is exact in binary64 while `point . normal` is not (products need more
    than 53 bits), so a formula that does not take differences first must round. Points exactly on the plane:
    ref + i (b,-a,0) + j (0,c,-b); the others: such a point + (m/4) normal, signed distance (m/4)|n|^2."""
    if rng.random() < 0.25:
        n = [Fr(0), Fr(0), Fr(0)]
        n[rng.randrange(3)] = Fr(rng.choice([-1, 1]))
    else:
        n = _dyadic16_unit(rng)
    off = [Fr(rng.choice([-1, 1]) * 2 ** rng.randint(24, 31)) for _ in range(3)]
    ref = [o + Fr(rng.randint(-16, 16), 8) for o in off]
    a_, b_, c_ = n

    def point(m=None):
        i, j = rng.randint(-3, 3), rng.randint(-3, 3)
        if m is None:
            m = rng.choice([0, 0, -6, -3, -2, -1, 1, 2, 4, 5])
        v = [ref[0] + i * b_ + Fr(m, 4) * a_, ref[1] - i * a_ + j * c_ + Fr(m, 4) * b_, ref[2] - j * b_ + Fr(m, 4) * c_]
        assert all(Fr(float(x)) == x for x in v)
        return [float(x) for x in v], m

    base = {"exact": True, "far": True, "scale": 1.0, "ref": [float(x) for x in ref], "normal": [float(x) for x in n]}
    u = rng.random()
    if u < 0.5:
        A, B = [], []
        for _ in range(rng.choice([1, 2, 3, 5])):
            (a, ma), (b, mb) = point(), point()
            A.append(a)
            B.append(b)
        return dict(base, kind="segments_far_offset", a=A, b=B)
    if u < 0.7:
        pts, rays = [], []
        for _ in range(rng.choice([1, 2, 4])):
            (a, ma) = point()
            (b, mb) = point(rng.choice([x for x in (-6, -3, -2, -1, 1, 2, 4, 5) if x != ma]) if rng.random() < 0.8 else ma)
            pts.append(a)
            rays.append([float(Fr(y) - Fr(x)) for x, y in zip(a, b)])     # crossing parameter ma/(ma-mb): |s| <= 6
        return dict(base, kind="lines_far_offset", pts=pts, rays=rays)
    # polyline: Polyline.intersect_plane takes signed distances through the plane equation (p.n - ref.n), which cancels
    # far from the origin; its decisions are therefore compared away from the plane only and its points with the
    # tolerance relative to the coordinates (not wrapped in CFar)
    v = [point()[0] for _ in range(rng.choice([2, 3, 4, 6]))]
    return dict(base, exact=False, far=False, kind="polyline_far_offset", v=v, closed=rng.random() < 0.5)


def _int_case(rng):
    """whole-number data passed as int64 arrays (the plane's arrays, the stacks, or both): an axis-normal plane, and
    segments / rays / polylines / pairwise rows with crossing, same-side, on-plane, parallel and zero-length members"""
    ax = rng.randrange(3)
    nrm = [0.0, 0.0, 0.0]
    nrm[ax] = rng.choice([1.0, -1.0])
    ref = [float(rng.randint(-4, 4)) for _ in range(3)]

    def pt():
        v = [float(rng.randint(-5, 5)) for _ in range(3)]
        v[ax] = ref[ax] + rng.choice([-3, -2, -1, -1, 0, 1, 1, 2, 3])
        return v

    def seg():
        a = pt()
        w = rng.random()
        if w < 0.2:
            b = list(a)
            b[(ax + rng.choice([1, 2])) % 3] += rng.choice([-2, -1, 1, 3])      # parallel to the plane
        elif w < 0.3:
            b = list(a)                                                        # zero length
        elif w < 0.45:
            b = list(a)
            b[ax] += rng.choice([-4, -2, -1, 1, 2, 5])                          # along the normal: two equal coordinates
        else:
            b = pt()
        return a, b

    base = {"exact": True, "scale": 1.0, "ref": ref, "normal": nrm, "int": rng.choice(["plane", "stack", "both", "both"])}
    u = rng.random()
    if u < 0.4:
        segs = [seg() for _ in range(rng.choice([1, 1, 2, 3, 5]))]
        return dict(base, kind="segments_exact_int", a=[x[0] for x in segs], b=[x[1] for x in segs])
    if u < 0.6:
        k = rng.choice([1, 1, 2, 4])
        rays = []
        for _ in range(k):
            r = [float(rng.randint(-3, 3)) for _ in range(3)]
            if rng.random() < 0.3:
                r[ax] = 0.0                                                     # parallel to the plane (or zero)
            rays.append(r)
        return dict(base, kind="lines_exact_int", pts=[pt() for _ in range(k)], rays=rays)
    if u < 0.85:
        return dict(base, kind="polyline_exact_int", v=[pt() for _ in range(rng.choice([0, 1, 2, 3, 4, 6]))],
                    closed=rng.random() < 0.5)
    k = rng.choice([1, 2, 3])
    rows = []
    for _ in range(k):
        s0, v0_ = pt(), [float(rng.randint(-3, 3)) for _ in range(3)]
        n0_ = [float(rng.randint(-2, 2)) for _ in range(3)]
        p0_ = pt() if rng.random() < 0.7 else [a + rng.choice([0, 1]) * b for a, b in zip(s0, v0_)]
        rows.append((s0, v0_, p0_, n0_))
    return {"kind": "isp_pairs_int", "scale": 1.0, "int": "both", "starts": [r[0] for r in rows], "segvs": [r[1] for r in rows],
            "pops": [r[2] for r in rows], "nrms": [r[3] for r in rows]}


def gen_cases(rng, n, tier):
    cases = []
    for _ in range(n):
        if rng.random() < 0.12:
            cases.append(_int_case(rng))
            continue
        if rng.random() < 0.12:
            cases.append(_far_case(rng))
            continue
        u = rng.random()
        scale = _scale(rng, tier)
        exact = rng.random() < 0.5
        plane = _exact_plane(rng, scale) if exact else _generic_plane(rng, scale)
        base = {"exact": exact, "scale": scale, "ref": plane[0], "normal": plane[1]}
        tag = "_exact" if exact else "_generic"
        # tiny features at unit-size positions (exact arithmetic needs an axis normal)
        tiny = scale * 2.0 ** -rng.randint(26, 32) if exact and _is_axis(plane[1]) and rng.random() < 0.4 else None
        if tiny is not None:
            tag += "_tiny"
        if u < 0.4:
            segs = [_segment(rng, scale, plane, tiny) for _ in range(rng.choice([0, 1, 1, 2, 3, 4, 6]))]
            cases.append(dict(base, kind="segments" + tag, a=[s[0] for s in segs], b=[s[1] for s in segs]))
        elif u < 0.6:
            k = rng.choice([0, 1, 1, 2, 3, 5])
            pts = [_point(rng, scale, plane, tiny) for _ in range(k)]
            rays = []
            for _ in range(k):
                if rng.random() < 0.2:
                    # a very short direction vector (about 1e-9 * scale): the line is as well defined as any other
                    rays.append([x * scale * 2.0 ** -rng.randint(26, 34) for x in grid_vec(rng, -3, 3, 1)])
                elif exact and rng.random() < 0.3:
                    t = plane[2]
                    k1, k2 = rng.randint(-3, 3), rng.randint(-3, 3)
                    rays.append([(k1 * t[0][j] + k2 * t[1][j]) * scale for j in range(3)])  # parallel to the plane (or zero)
                elif rng.random() < 0.2:
                    r = [0.0, 0.0, 0.0]
                    r[rng.randrange(3)] = rng.choice([-2, -1, 1, 3]) / 2 * scale  # axis direction
                    rays.append(r)
                else:
                    rays.append([x * scale for x in grid_vec(rng)])
            cases.append(dict(base, kind="lines" + tag, pts=pts, rays=rays))
        elif u < 0.85:
            k = rng.choice([0, 1, 2, 2, 3, 4, 5, 7])
            v = [_point(rng, scale, plane, tiny) for _ in range(k)]
            if not exact and rng.random() < 0.3:
                for i in range(1, k, 2):          # odd vertices only: no edge gets two near ends
                    if rng.random() < 0.5:
                        v[i] = _near_point(rng, scale, plane)
                if c_closed_odd(k):
                    v[k - 1] = [x * scale for x in grid_vec(rng)]
            if k >= 2 and rng.random() < 0.15:
                v[rng.randrange(1, k)] = list(v[0])  # repeated vertex
            cases.append(dict(base, kind="polyline" + tag, v=v, closed=rng.random() < 0.5))
        else:
            k = rng.choice([1, 1, 2, 3, 5])
            rows = []
            for _ in range(k):
                nrm = grid_vec(rng, -3, 3, 2)
                if rng.random() < 0.05:
                    nrm = [0.0, 0.0, 0.0]
                pop = [x * scale for x in grid_vec(rng)]
                start = [x * scale for x in grid_vec(rng)]
                w = rng.random()
                if w < 0.25:
                    o = grid_vec(rng, -2, 2, 1)  # parallel to the plane: n x o is exact on the grid
                    segv = [(nrm[1] * o[2] - nrm[2] * o[1]) * scale, (nrm[2] * o[0] - nrm[0] * o[2]) * scale,
                            (nrm[0] * o[1] - nrm[1] * o[0]) * scale]
                    if rng.random() < 0.5:
                        pop = [start[j] + rng.randint(-2, 2) * segv[j] for j in range(3)]  # ... and inside the plane
                else:
                    segv = [x * scale for x in grid_vec(rng)]
                    if rng.random() < 0.2:
                        segv = [x * 2.0 ** -rng.randint(26, 32) for x in segv]  # a very short segment
                    if w < 0.4:
                        pop = list(start) if rng.random() < 0.5 else [start[j] + segv[j] for j in range(3)]  # t = 0 / t = 1
                rows.append((start, segv, pop, nrm))
            cases.append({"kind": "isp_pairs", "scale": scale, "starts": [r[0] for r in rows], "segvs": [r[1] for r in rows],
                          "pops": [r[2] for r in rows], "nrms": [r[3] for r in rows]})
    for c in cases:
        if not c["kind"].startswith("isp_pairs") and not c["exact"] and _undecided(c):
            c["kind"] += "_undecided"   # shows in the evidence histogram: (part of) the case is skipped, not judged
    return cases


def _band(c):
    """decision band of a generic-plane case: 1e-12 times the largest coordinate of its data. The rounding error of a
    signed distance is a few 1e-16 of that magnitude; coordinates that are on the plane over the reals land at about
    1e-16 of it, everything else on the dyadic grids at 1e-3 of it or farther, except the deliberately near points."""
    coords = [abs(Fr(x)) for x in c["ref"]]
    for key in ("a", "b", "v", "pts"):
        coords += [abs(Fr(x)) for p in c.get(key, []) for x in p]
    return (max(coords) if coords else Fr(0)) / 10 ** 12


def _undecided(c):
    """a generic-plane case with an endpoint within the band of the plane / a ray within the band of parallel:
    those rows (for a polyline: the whole case) are excluded by the property text and skipped by the check"""
    ref, nrm = [Fr(x) for x in c["ref"]], [Fr(x) for x in c["normal"]]
    band = _band(c)
    if c["kind"].startswith("lines"):
        return any(abs(sum(Fr(x) * n for x, n in zip(r, nrm))) <= Fr(1, 10 ** 12) * max(abs(Fr(x)) for x in r) for r in c["rays"])
    pts = c["v"] if c["kind"].startswith("polyline") else c["a"] + c["b"]
    return any(abs(sum((Fr(x) - r) * n for x, r, n in zip(p, ref, nrm))) <= band for p in pts)


def _arr(pts, dtype=np.float64):
    return np.array(pts, dtype=dtype).reshape(-1, 3)


def _row(x):
    return None if x is None else [float(e) for e in x]


def run_impl(c):
    from polliwog import Plane, Polyline
    from polliwog.plane import intersect_segment_with_plane

    def go():
        with warnings.catch_warnings(), np.errstate(all="ignore"):
            warnings.simplefilter("ignore")
            # whole-number cases may pass the plane's arrays, the stacks, or both as int64
            dt_plane = np.int64 if c.get("int") in ("plane", "both") else np.float64
            dt = np.int64 if c.get("int") in ("stack", "both") else np.float64
            if c["kind"].startswith("isp_pairs"):
                s, v, p, n = _arr(c["starts"], dt), _arr(c["segvs"], dt), _arr(c["pops"], dt), _arr(c["nrms"], dt)
                before = [x.copy() for x in (s, v, p, n)]
                rows = intersect_segment_with_plane(s, v, p, n).tolist()
                single = [intersect_segment_with_plane(s[i], v[i], p[i], n[i]).tolist() for i in range(len(s))]
                return {"rows": rows, "single": single,
                        "args_unchanged": all(np.array_equal(x, y) for x, y in zip(before, (s, v, p, n)))}
            pl = Plane(np.array(c["ref"], dtype=dt_plane), np.array(c["normal"], dtype=dt_plane))
            o = {"ref": pl.reference_point.tolist(), "normal": pl.normal.tolist()}
            if c["kind"].startswith("segments"):
                a, b = _arr(c["a"], dt), _arr(c["b"], dt)
                before = (a.copy(), b.copy())
                k = len(a)
                o["single"] = [_row(pl.line_segment_xsection(a[i], b[i])) for i in range(k)]
                pts, valid = pl.line_segment_xsections(a, b)
                o["st_rows"], o["st_valid"] = pts.tolist(), [bool(x) for x in valid]
                o["isp_single"] = [intersect_segment_with_plane(a[i], b[i] - a[i], pl.reference_point, pl.normal).tolist()
                                   for i in range(k)]
                o["isp_stack"] = intersect_segment_with_plane(
                    a, b - a, np.tile(pl.reference_point, (k, 1)), np.tile(pl.normal, (k, 1))).tolist()
                o["args_unchanged"] = bool(np.array_equal(a, before[0]) and np.array_equal(b, before[1]))
            elif c["kind"].startswith("lines"):
                pts, rays = _arr(c["pts"], dt), _arr(c["rays"], dt)
                before = (pts.copy(), rays.copy())
                o["single"] = [_row(pl.line_xsection(pts[i], rays[i])) for i in range(len(pts))]
                rows, valid = pl.line_xsections(pts, rays)
                o["st_rows"], o["st_valid"] = rows.tolist(), [bool(x) for x in valid]
                o["args_unchanged"] = bool(np.array_equal(pts, before[0]) and np.array_equal(rays, before[1]))
            else:
                poly = Polyline(_arr(c["v"], dt), is_closed=c["closed"])
                pts, idx = poly.intersect_plane(pl, ret_edge_indices=True)
                o["pts"], o["idx"] = pts.tolist(), [int(i) for i in idx]
                o["pts_only"] = poly.intersect_plane(pl).tolist()
                o["args_unchanged"] = bool(np.array_equal(poly.v, _arr(c["v"])))
            return o

    return call_impl(go)


def _rows(rs):
    return coq_list("[]" if r is None else flv(r) for r in rs)


def coq_case(c, o):
    t = _coq_case(c, o)
    if c.get("far") and not (isinstance(o, dict) and "raise" in o):
        return "CFar %s (%s)" % (q(_ptol(c)), t)     # positions compared with the absolute far-offset tolerance
    return t


def _coq_case(c, o):
    if isinstance(o, dict) and "raise" in o:
        # no call of this property's generators is expected to raise: make the case fail in Coq
        return "CIsp [] [] [] [] [[FNan]] []"
    if c["kind"].startswith("isp_pairs"):
        return "CIsp %s %s %s %s %s %s" % (coq_list(qv(p) for p in c["starts"]), coq_list(qv(p) for p in c["segvs"]),
                                           coq_list(qv(p) for p in c["pops"]), coq_list(qv(p) for p in c["nrms"]),
                                           _rows(o["rows"]), _rows(o["single"]))
    pl = "(MkPlane %s %s)" % (qv(o["ref"]), qv(o["normal"]))
    head = "%s %s %s" % (coq_bool(c["exact"]), q(_band(c)), pl)
    if c["kind"].startswith("segments"):
        return "CSegs %s %s %s %s %s %s %s %s" % (
            head, coq_list(qv(p) for p in c["a"]), coq_list(qv(p) for p in c["b"]), _rows(o["single"]), _rows(o["st_rows"]),
            coq_list(coq_bool(x) for x in o["st_valid"]), _rows(o["isp_single"]), _rows(o["isp_stack"]))
    if c["kind"].startswith("lines"):
        return "CLines %s %s %s %s %s %s" % (
            head, coq_list(qv(p) for p in c["pts"]), coq_list(qv(p) for p in c["rays"]), _rows(o["single"]),
            _rows(o["st_rows"]), coq_list(coq_bool(x) for x in o["st_valid"]))
    return "CPoly %s %s %s %s %s %s" % (head, coq_list(qv(p) for p in c["v"]), coq_bool(c["closed"]), _rows(o["pts"]),
                                        coq_list(coq_nat(i) for i in o["idx"]), _rows(o["pts_only"]))


# ---------------------------------------------------------------------------------------------------------
def _F(v):
    return [Fr(float(x)) for x in v]


def _dot(a, b):
    return sum(x * y for x, y in zip(a, b))


def _is_nan_row(r):
    return r is not None and len(r) == 3 and all(isinstance(x, float) and x != x for x in r)


def _near(row, x, mag):
    """observed row (floats) within 1e-8 * magnitude of the exact point x"""
    if row is None or len(row) != 3 or any(e != e or e in (float("inf"), float("-inf")) for e in row):
        return False
    if isinstance(mag, tuple):      # ("abs", tolerance): far-offset cases are judged feature-relative, see _ptol
        return all(abs(Fr(float(e)) - y) <= mag[1] + Fr(3, 4) * max(abs(Fr(float(e))), abs(y)) / 2 ** 51 for e, y in zip(row, x))
    return all(abs(Fr(float(e)) - y) <= Fr(1, 10 ** 8) * max(mag, abs(y)) for e, y in zip(row, x))


def _ptol(c):
    """feature-relative part of the position tolerance of a far-offset case: 1e-9 of the scene size (8). Each coordinate
    additionally gets 3/4 * 2^-51 of its own magnitude, i.e. 0.75..1.5 ulp (a correctly computed position carries half
    an ulp from its last addition); see close_abs in the K file"""
    return Fr(8, 10 ** 9)


def _expect_segment(da, db, a, b, decided, exact):
    """what the property demands for one segment: ('point', x) | ('none',) | None when the text is silent"""
    if not decided:
        return None
    if da * db < 0:
        t = da / (da - db)
        return ("point", [p + t * (r - p) for p, r in zip(a, b)])
    if da * db > 0:
        return ("none",)
    if exact and da == 0 and db != 0:
        return ("point", a)
    if exact and db == 0 and da != 0:
        return ("point", b)
    return None


def oracle(c, o):
    """The property text evaluated on the implementation's outputs with exact rational arithmetic."""
    if isinstance(o, dict) and "raise" in o:
        return "unexpected exception %s: %s" % (o["raise"], o.get("msg"))
    if not o["args_unchanged"]:
        return "an argument array was modified"
    scale = Fr(c["scale"])
    if c["kind"].startswith("isp_pairs"):
        if len(o["rows"]) != len(c["starts"]):
            return "stacked result has the wrong number of rows"
        for i, (s, v, p, n) in enumerate(zip(c["starts"], c["segvs"], c["pops"], c["nrms"])):
            s, v, p, n = _F(s), _F(v), _F(p), _F(n)
            e = [x + y for x, y in zip(s, v)]
            da, db = _dot([x - y for x, y in zip(s, p)], n), _dot([x - y for x, y in zip(e, p)], n)
            mag = max([scale] + [abs(x) for x in s + e + p])
            want = _expect_segment(da, db, s, e, True, True)
            for name, row in (("stacked", o["rows"][i]), ("single", o["single"][i])):
                if want and want[0] == "point" and not _near(row, want[1], mag):
                    return "intersect_segment_with_plane (%s) row %d: %r is not the crossing point %r" % (
                        name, i, row, [float(x) for x in want[1]])
                if want and want[0] == "none" and not _is_nan_row(row):
                    return "intersect_segment_with_plane (%s) row %d: same side but %r returned" % (name, i, row)
            if _is_nan_row(o["rows"][i]) != _is_nan_row(o["single"][i]) or (
                    not _is_nan_row(o["rows"][i]) and not _near(o["single"][i], _F(o["rows"][i]), mag)):
                return "intersect_segment_with_plane: stacked row %d differs from the single form" % i
        return None
    ref, nrm = _F(o["ref"]), _F(o["normal"])
    exact = c["exact"]
    band = _band(c)

    def sd(p):
        return _dot([x - y for x, y in zip(p, ref)], nrm)

    if c["kind"].startswith("segments"):
        k = len(c["a"])
        for name in ("single", "st_rows", "st_valid", "isp_single", "isp_stack"):
            if len(o[name]) != k:
                return "%s has %d rows for %d segments" % (name, len(o[name]), k)
        for i in range(k):
            a, b = _F(c["a"][i]), _F(c["b"][i])
            da, db = sd(a), sd(b)
            decided = exact or (abs(da) > band and abs(db) > band)
            mag = ("abs", _ptol(c)) if c.get("far") else max([scale] + [abs(x) for x in a + b + ref])
            want = _expect_segment(da, db, a, b, decided, exact)
            single, srow, sval = o["single"][i], o["st_rows"][i], o["st_valid"][i]
            if decided:
                # every stacked form equals its single form row by row
                if (single is None) != (not sval) or sval == _is_nan_row(srow):
                    return "row %d: single form %r but stacked row %r flagged %r" % (i, single, srow, sval)
                if single is not None and not _near(srow, _F(single), mag):
                    return "row %d: stacked line_segment_xsections differs from line_segment_xsection" % i
                if _is_nan_row(o["isp_single"][i]) != _is_nan_row(o["isp_stack"][i]) or (
                        not _is_nan_row(o["isp_stack"][i]) and not _near(o["isp_single"][i], _F(o["isp_stack"][i]), mag)):
                    return "row %d: stacked intersect_segment_with_plane differs from its single form" % i
            if want is None:
                continue
            if want[0] == "point":
                x = want[1]
                xf = [float(e) for e in x]
                if single is None or not _near(single, x, mag):
                    return "line_segment_xsection row %d returned %r, the point at distance zero is %r" % (i, single, xf)
                if not sval or not _near(srow, x, mag):
                    return "line_segment_xsections row %d returned %r (valid=%r), expected %r" % (i, srow, sval, xf)
                if not _near(o["isp_single"][i], x, mag) or not _near(o["isp_stack"][i], x, mag):
                    return "intersect_segment_with_plane row %d returned %r / %r, expected %r" % (
                        i, o["isp_single"][i], o["isp_stack"][i], xf)
            else:
                if single is not None:
                    return "line_segment_xsection row %d: ends on the same side but %r returned" % (i, single)
                if sval or not _is_nan_row(srow):
                    return "line_segment_xsections row %d: ends on the same side but %r valid=%r" % (i, srow, sval)
                if not _is_nan_row(o["isp_single"][i]) or not _is_nan_row(o["isp_stack"][i]):
                    return "intersect_segment_with_plane row %d: ends on the same side but a point was returned" % i
        return None
    if c["kind"].startswith("lines"):
        k = len(c["pts"])
        if len(o["single"]) != k or len(o["st_rows"]) != k or len(o["st_valid"]) != k:
            return "wrong number of rows"
        for i in range(k):
            pt, ray = _F(c["pts"][i]), _F(c["rays"][i])
            den = _dot(ray, nrm)
            # the rounding error of ray.normal is relative to the length of the ray, not to the positions
            if not (exact or abs(den) > Fr(1, 10 ** 12) * max(abs(x) for x in ray)):
                continue
            single, srow, sval = o["single"][i], o["st_rows"][i], o["st_valid"][i]
            mag = ("abs", _ptol(c)) if c.get("far") else max([scale] + [abs(x) for x in pt + ray + ref])
            if den == 0:
                if single is not None or sval or not _is_nan_row(srow):
                    return "line %d is parallel to the plane but %r / %r valid=%r returned" % (i, single, srow, sval)
                continue
            s = -sd(pt) / den
            x = [p + s * r for p, r in zip(pt, ray)]
            if single is None or not _near(single, x, mag):
                return "line_xsection row %d returned %r, the point of the line on the plane is %r" % (i, single, [float(e) for e in x])
            if not sval or not _near(srow, x, mag):
                return "line_xsections row %d returned %r (valid=%r), expected %r" % (i, srow, sval, [float(e) for e in x])
        return None
    # polyline
    v = [_F(p) for p in c["v"]]
    nv = len(v)
    ds = [sd(p) for p in v]
    ok = [exact or abs(d) > band for d in ds]     # per vertex; an edge is judged when both its ends are decided
    edges = [(i, i + 1) for i in range(nv - 1)] + ([(nv - 1, 0)] if c["closed"] and nv >= 1 else [])
    idx, pts = o["idx"], o["pts"]
    if len(idx) != len(pts):
        return "intersect_plane returns %d points for %d edge indices" % (len(pts), len(idx))

    def same_row(r1, r2):   # NaN-aware equality of two observed rows
        return len(r1) == len(r2) and all(x == y or (x != x and y != y) for x, y in zip(r1, r2))

    if len(o["pts_only"]) != len(pts) or not all(same_row(r1, r2) for r1, r2 in zip(o["pts_only"], pts)):
        return "intersect_plane returns different points with and without ret_edge_indices"
    if idx != sorted(set(idx)) or any(i < 0 or i >= len(edges) for i in idx):
        return "edge indices %r are not strictly ascending edge numbers" % (idx,)
    mag = max([scale] + [abs(x) for p in v for x in p] + [abs(x) for x in ref])
    for e, (i, j) in enumerate(edges):
        da, db = ds[i], ds[j]
        if not (ok[i] and ok[j]):
            continue
        if da * db < 0:
            t = da / (da - db)
            x = [p + t * (r - p) for p, r in zip(v[i], v[j])]
            if e not in idx:
                return "edge %d crosses the plane but is not reported (indices %r)" % (e, idx)
            if not _near(pts[idx.index(e)], x, mag):
                return "edge %d: reported %r, the crossing point is %r" % (e, pts[idx.index(e)], [float(y) for y in x])
        elif da * db > 0 and e in idx:
            return "edge %d has both ends on the same side but is reported" % e
    return None


def classify(c, o, failure, disagrees):
    # no listed finding: the int64-stack defect (ValueError in the stacked forms) was repaired in /repo commit 8280517
    return None
