"""C02 — the sliced mesh is a well-formed indexed mesh with correct face provenance."""
from fractions import Fraction as Fr

import numpy as np

from common import call_impl, coq_list, coq_nat
from props import slicing_shared as S
from props.slicing_shared import ASSUMPTIONS, CASE_IMPORTS, TRUSTED  # noqa: F401
from props.slicing_kernels import kernels  # noqa: F401  (same traced kernels as C01: faces and mapping tables)

ID = "C02"
N_CASES = {"quick": 240, "thorough": 5000, "search": 2500}
SHARD = 60
DEFINITIONAL = ["C02_slice_empty_inputs", "C02_dtypes_without_conversion", "C02_public_dtypes", "C02_public_dtypes_on_domain"]  # the model evaluated on empty lists (closed by reflexivity)
EXTRA_TARGETS = ["proofs/P_slicing_tie.vo"]  # imported by the generated tie lemmas only
RULE = ("seeded random meshes as for C01 with more empty inputs (zero vertices / zero faces / everything behind), "
        "int32 face arrays, unreferenced vertices, masks, both ret_face_mapping; each case is also re-sliced, sliced "
        "with the flipped plane, with permuted faces and with relabelled vertices; plus direct calls of "
        "unique_bincount on random integer vectors; non-trivial = the call returned; distinct by hash of inputs")


_BASE_RULE = RULE


def _private(name):
    """a private function of the anchored module that two auxiliary streams call on purpose — or None when this tree does not
    have it (a refactor may remove it; the public behaviour is covered by the mesh streams either way)"""
    import polliwog.plane._trimesh_intersections as mod

    f = getattr(mod, name, None)
    return f if callable(f) else None


def gen_cases(rng, n, tier):
    global RULE
    from props.C01 import NEAR_BAND

    have_ub, have_kernel = _private("unique_bincount") is not None, _private("slice_faces_plane") is not None
    RULE = _BASE_RULE + "".join(
        "; STREAM SKIPPED: %s (polliwog.plane._trimesh_intersections.%s does not exist in this tree)" % (what, name)
        for ok, what, name in ((have_ub, "direct unique_bincount cases", "unique_bincount"),
                               (have_kernel, "kernel dtype cases", "slice_faces_plane")) if not ok)
    cases = [dict(NEAR_BAND)]  # the near-band example (fixed by fixes/C01-snap-on-plane-distances.diff), always exercised
    while len(cases) < n:
        if rng.random() < 0.12:
            k = rng.randint(1, 20)
            hi = rng.choice([0, 3, 8, 30])
            ub = {"kind": "unique_bincount", "values": [rng.randint(0, hi) for _ in range(k)], "int32": rng.random() < 0.3}
            cases.append(ub if have_ub else S.gen_mesh_case(rng, tier, "struct"))
        else:
            c = S.gen_mesh_case(rng, tier, "struct")
            cases.append(c)
            if (have_kernel and c.get("vdtype", "float64") != "float64" and S.in_domain(c)
                    and not any(i < 0 for f in c["faces"] for i in f)):
                # the same input straight into slice_faces_plane: the kernel keeps the vertex dtype on its uncut returns
                cases.append(dict(c, kind="kernel_dtype", buckets=[]))
    for c in cases:
        if c["kind"] not in ("unique_bincount", "kernel_dtype"):
            c["kind"] = S.histogram_kind(c)
    return cases


def run_impl(c):
    if c["kind"] == "unique_bincount":
        unique_bincount = _private("unique_bincount")

        def go():
            u, inv = unique_bincount(np.array(c["values"], dtype=np.int32 if c["int32"] else np.int64))
            return {"unique": u.tolist(), "inverse": inv.tolist()}

        return call_impl(go)
    if c["kind"] == "kernel_dtype":
        slice_faces_plane = _private("slice_faces_plane")

        def go():
            V, Fa, ref, n, mask = S.arrays(c)
            r = slice_faces_plane(V, Fa, n, ref, face_index=None if mask is None else mask.nonzero()[0])
            return {"v_dtype": str(r[0].dtype), "f_dtype": str(r[1].dtype)}

        return call_impl(go)
    return S.run_slice(c, extras=("behind", "reslice", "perm"))


def coq_case(c, o):
    if c["kind"] == "unique_bincount":
        if "raise" in o:
            return "CUnique [] [1%nat] []"  # never expected: make the case fail
        return "CUnique %s %s %s" % (coq_list(coq_nat(i) for i in c["values"]), coq_list(coq_nat(i) for i in o["unique"]),
                                     coq_list(coq_nat(i) for i in o["inverse"]))
    if c["kind"] == "kernel_dtype":
        head = S.coq_slice_case(dict(c, kind="x"), {"main": {"raise": "OtherError"}}).rsplit("(Raise", 1)[0].replace("CSlice", "CKernelDt", 1)
        if "raise" in o:
            return head + "(Raise %s)" % o["raise"]
        vd = {"float64": "VF64", "float32": "VF32", "float16": "VF16"}.get(o["v_dtype"], "VInt")
        return head + "(Ok (%s, %s))" % (vd, "true" if o["f_dtype"] == "int64" else "false")
    return S.coq_slice_case(c, o)


# ---- oracle ---------------------------------------------------------------------------------------------------------
in_domain = S.in_domain


def wellformed(r, nfaces_in, ret, what):
    if "malformed" in r:
        return "%s: %s" % (what, r["malformed"])
    if "raise" in r:
        return "%s: unexpected exception %s: %s" % (what, r["raise"], r.get("msg"))
    if r["v_dtype"] != "float64":
        return "%s: vertices have dtype %s, not float64" % (what, r["v_dtype"])
    if r["f_dtype"] != "int64":
        return "%s: faces have dtype %s, not int64" % (what, r["f_dtype"])
    if len(r["v_shape"]) != 2 or r["v_shape"][1] != 3:
        return "%s: vertices have shape %s" % (what, r["v_shape"])
    if len(r["f_shape"]) != 2 or r["f_shape"][1] != 3:
        return "%s: faces have shape %s" % (what, r["f_shape"])
    nv = r["v_shape"][0]
    used = set()
    for f in r["f"]:
        for i in f:
            if not (0 <= i < nv):
                return "%s: face entry %d does not index the %d returned vertices" % (what, i, nv)
            used.add(i)
    if used != set(range(nv)):
        return "%s: returned vertices %s are used by no face" % (what, sorted(set(range(nv)) - used))
    if ret:
        if r["map_dtype"] != "int64":
            return "%s: face mapping has dtype %s" % (what, r["map_dtype"])
        if r["map_shape"] != [len(r["f"])]:
            return "%s: face mapping has shape %s for %d faces" % (what, r["map_shape"], len(r["f"]))
        if any(not (0 <= i < nfaces_in) for i in r["map"]):
            return "%s: face mapping names a face that does not exist" % what
    return None


def tris_of(r):
    return [[r["v"][i] for i in f] for f in r["f"]]


def by_source(r, ids=None):
    out = {}
    for j, i in enumerate(r["map"]):
        out.setdefault(i if ids is None else ids[i], []).append([r["v"][k] for k in r["f"][j]])
    return out


def same_groups(a, b, rel, mag):
    if set(a) != set(b):
        return False
    for i in a:
        if len(a[i]) != len(b[i]):
            return False
        for ta, tb in zip(a[i], b[i]):
            for p, qq in zip(ta, tb):
                for x, y in zip(p, qq):
                    if abs(Fr(x) - Fr(y)) > rel * mag:
                        return False
    return True


def oracle(c, o):
    if c["kind"] == "unique_bincount":
        if "raise" in o:
            return "unique_bincount raised %s" % o["raise"]
        u, inv, vals = o["unique"], o["inverse"], c["values"]
        if any(a >= b for a, b in zip(u, u[1:])) or set(u) != set(vals):
            return "unique is not the increasing list of occurring values: %s" % u
        if len(inv) != len(vals) or any(not (0 <= r < len(u)) or u[r] != v for r, v in zip(inv, vals)):
            return "unique[inverse] != values"
        return None
    if c["kind"] == "kernel_dtype":
        return None  # dtype behaviour of the kernel is judged by the correspondence (incl. the ValueError for unsigned faces)
    if not in_domain(c):
        return None
    main, full = o["main"], o["full"]
    nf = len(c["faces"])
    f = wellformed(main, nf, bool(c["ret_face_mapping"]), "result") or wellformed(full, nf, True, "result with mapping")
    if f:
        return f
    if not o["args_unchanged"]:
        return "an argument array was modified"
    if main["v"] != full["v"] or main["f"] != full["f"]:
        return "vertices / faces depend on ret_face_mapping"
    # provenance: each output face lies in the plane and outline of the input face it names (and tiles its clipped part)
    g = S.geometry_failure(c, full)
    if g:
        return "provenance: " + g
    V = [S.F3(v) for v in c["vertices"]]
    ref, n = S.F3(c["ref"]), S.F3(c["normal"])
    d = [S.dot(n, S.sub(v, ref)) for v in V]
    mask = c["mask"]
    sel = [True] * nf if mask is None else [bool(m) for m in mask]
    # empty results
    if not c["vertices"] or not c["faces"]:
        if full["v"] or full["f"] or full["map"]:
            return "empty input did not give empty arrays"
    if c["vertices"] and all(x < -S.TOL for x in d) and all(sel) and (full["v"] or full["f"] or full["map"]):
        return "mesh wholly behind the plane did not give empty arrays"
    ltol, feat = S.length_tolerance(c)  # 1e-11 * mesh size + 4 ulp of the coordinates; feature size
    # idempotence
    rs = o.get("reslice")
    if rs is not None and c.get("far") and any(v not in c["vertices"] for v in full["v"]):
        # far from the origin one ulp of a coordinate (up to 4.8e-7) exceeds the 1e-8 band: a cut vertex cannot be stored on
        # the plane, so the second call legitimately classifies it as in front / behind (see ASSUMPTIONS)
        rs = None
    if rs is not None:
        f = wellformed(rs, len(full["f"]), True, "re-slice")
        if f:
            return f
        if sorted(tris_of(rs)) != sorted(tris_of(full)):
            return "slicing the result again with the same plane changes the set of triangles"
    # complement, face by face (vector areas)
    bh = o.get("behind")
    if bh is not None:
        f = wellformed(bh, nf, True, "flipped-plane result")
        if f:
            return f
        fr_, bk_ = by_source(full), by_source(bh)
        for i, face in enumerate(c["faces"]):
            t = [V[k] for k in face]
            a = S.varea2(t)
            signs = [S.classify_d(d[k]) for k in face]
            both = (not sel[i]) or all(s == 0 for s in signs)
            tot = [Fr(0)] * 3
            for tri in fr_.get(i, []) + bk_.get(i, []):
                tot = [x + y for x, y in zip(tot, S.varea2([S.F3(p) for p in tri]))]
            want = [x * (2 if both else 1) for x in a]
            if not S.close_vec(tot, want, 100 * ltol, feat):
                return ("face %d: area kept in front plus area kept behind the flipped plane is %s, expected %s"
                        % (i, [float(x) for x in tot], [float(x) for x in want]))
    # independence of face order and of vertex numbering
    pm = o.get("perm")
    if pm is not None:
        f = wellformed(pm["res"], nf, True, "permuted-faces result")
        if f:
            return f
        if not same_groups(by_source(full), by_source(pm["res"], pm["perm"]), Fr(1), ltol):
            return "result depends on the order of the faces (permutation %s)" % pm["perm"]
    rl = o.get("relabel")
    if rl is not None:
        f = wellformed(rl["res"], nf, True, "relabelled-vertices result")
        if f:
            return f
        if not same_groups(by_source(full), by_source(rl["res"]), Fr(1), ltol):
            return "result depends on how the vertices are numbered"
    return None


def classify(c, o, failure, disagrees):
    if c.get("kind") in ("unique_bincount", "kernel_dtype"):
        return None
    return S.negative_index_class(c, o, failure, disagrees)
