"""C17 — Box (from_points, accessors, planes, contains), Polyline.bounding_box, pointcloud.extent / percentile."""
import math
from fractions import Fraction as Fr

import numpy as np

from common import Kernel, call_impl, coq_bool, coq_list, coq_Z, fl, flv, grid_vec, q, qv

ID = "C17"
N_CASES = {"quick": 340, "thorough": 5000, "search": 3000}
RULE = ("seeded streams: a far-offset share (20%: a small dyadic scene translated by 2^24..2^31 per axis, exactly representable; boxes, clouds, query points; distances, sizes and index pairs judged relative to the scene, not to the coordinates); grid boxes (zero-thickness sizes, negative sizes) each with a random call sequence of accessor reads "
        "on ONE Box (some returned arrays modified in place) compared with a fresh Box; extreme power-of-two scales and a 10% int64 share in "
        "every tier; round 3-D clouds whose farthest pair is inside the bounding box; grid clouds with coincident / coplanar / "
        "repeated points at power-of-two scales and far offsets, random float clouds (oracle + tolerance), query points "
        "on faces / at atol distance, extent on clouds with tied farthest pairs, percentile with integer and "
        "non-integer virtual indices and tiny / zero axes; non-trivial = the call returned values; distinct by hash")
TRUSTED = ["Coq 8.16.1 kernel, vm_compute for the correspondence evaluation",
           "axioms (Print Assumptions): ClassicalDedekindReals.sig_forall_dec, sig_not_dec, "
           "FunctionalExtensionality.functional_extensionality_dep, Classical_Prop.classic (all Coq stdlib Reals)",
           "tools/symtrace.py tracing translator + numpy shim (re-validated numerically each run)",
           "coq/Agree.v agreement relation (tolerance 1e-9 relative to the input magnitude)",
           "NumPy (np.percentile linear method = interpolation at virtual index (n-1)q/100 of the sorted data; "
           "np.argmax = first maximum), vg"]
CASE_IMPORTS = [("PW.model", "M_plane"), ("PW.model", "M_box"), ("PW.model", "M_pointcloud")]
ASSUMPTIONS = ["known finding percentile_tiny_axis_rejected: pointcloud.percentile raises ValueError for non-zero axes whose components "
               "are all <= 1e-8 in size (vg.almost_zero is absolute); the point theorem is therefore _partial (axes that are "
               "not almost zero) and the _refuted theorem carries the witness",
               "theorems are about exact real arithmetic; the clause 'a few units of rounding at the maximum faces' is a "
               "binary64 clause and is only sampled by the oracle (contains with atol = 4 ulp of the cloud magnitude)",
               "np.percentile's sort is modelled as insertion sort (proved a sorted permutation)"]
IMPORTS = [("PW.model", "M_plane"), ("PW.model", "M_box"), ("PW.model", "M_pointcloud")]

PLANES = ("min_x_plane", "min_y_plane", "min_z_plane", "max_x_plane", "max_y_plane", "max_z_plane")


def _box_observables(b):
    out = [b.min_x, b.min_y, b.min_z, b.max_x, b.max_y, b.max_z, b.mid_x, b.mid_y, b.mid_z, b.width, b.height, b.depth]
    out += list(b.center_point) + list(b.floor_point) + [b.volume, b.surface_area]
    out += list(np.asarray(b.ranges).reshape(-1)) + list(np.asarray(b.v).reshape(-1))
    for name in PLANES:
        pl = getattr(b, name)
        out += list(pl.reference_point) + list(pl.normal)
    return out


def kernels():
    from polliwog import Box
    from polliwog.pointcloud import extent

    ks = []
    BOX = "(MkBox (V3 o0 o1 o2) (V3 s0 s1 s2))"
    unf = ("min_x min_y min_z max_x max_y max_z mid_x mid_y mid_z width height depth center_point floor_point volume "
           "surface_area ranges corners six_planes min_x_plane min_y_plane min_z_plane max_x_plane max_y_plane max_z_plane "
           "set_x set_y set_z ex ey ez half nfrac n0 n1 n2 nmin nmax borigin bsize pref pnormal vlist vadd vsub vneg vscale "
           "vmul vx vy vz flat_map app fst snd")
    # every accessor and the six planes as expressions in (origin, size); np.min/np.max inside `ranges` decide
    # comparisons on the scenario (positive sizes), hence the path hypothesis
    ks.append(Kernel(
        "box_accessors", {"o": [1.0, 2.0, 3.0], "s": [1.0, 0.5, 2.0]},
        lambda o, s: _box_observables(Box(o, s)),
        "Lemma {T}_ok : forall {vars} : R, {T}_path ROps {vars} -> {T} ROps {vars} =\n"
        "  let b := %s in\n"
        "  [min_x b; min_y b; min_z b; max_x ROps b; max_y ROps b; max_z ROps b; mid_x ROps b; mid_y ROps b; mid_z ROps b;\n"
        "   width b; height b; depth b] ++ vlist (center_point ROps b) ++ vlist (floor_point ROps b) ++\n"
        "  [volume ROps b; surface_area ROps b] ++ flat_map (fun r => [fst r; snd r]) (ranges ROps b) ++\n"
        "  flat_map vlist (corners ROps b) ++\n"
        "  flat_map (fun pl => vlist (pref pl) ++ vlist (pnormal pl)) (six_planes ROps b).\n"
        "Proof. intros {vars} Hpath. unfold {T}_path in Hpath; rops. path_facts Hpath. unfold {T}.\n"
        "  cbv [%s]; rops.\n"
        "  repeat match goal with |- context [Rleb ?a ?b] => destruct (Rleb_spec a b); try (exfalso; lra) end;\n"
        "  list_eq ltac:(first [ring | field | lra]). Qed." % (BOX, unf), imports=IMPORTS))

    # contains: decisions on concrete scenarios
    dec = ("Proof. intros {vars} Hpath. unfold {T}_path in Hpath; rops. path_facts Hpath.\n"
           "  cbv [contains borigin bsize vx vy vz]; rops.\n"
           "  repeat match goal with |- context [Rleb ?a ?b] => destruct (Rleb_spec a b); try (exfalso; lra) end; reflexivity. Qed.")
    for name, p, atol, res in (("contains_inside", [1.5, 2.25, 3.0], 0.0, True), ("contains_outside", [2.5, 2.25, 3.5], 0.25, False),
                               ("contains_within_atol", [2.125, 2.0, 5.0], 0.25, True)):
        ks.append(Kernel(
            "box_" + name, {"o": [1.0, 2.0, 3.0], "s": [1.0, 0.5, 2.0], "p": p, "a": [atol]},
            lambda o, s, p, a: Box(o, s).contains(p, atol=a[0]),
            "Lemma {T}_ok : forall {vars} : R, {T}_path ROps {vars} -> contains ROps %s (V3 p0 p1 p2) a0 = %s.\n%s"
            % (BOX, coq_bool(res), dec), imports=IMPORTS, expect_structure=res,
            perturb=0.0 if name == "contains_inside" else 1e-3))

    # from_points on three symbolic points (one decided order of the coordinates)
    PS = "[V3 p0 p1 p2; V3 p3 p4 p5; V3 p6 p7 p8]"
    ks.append(Kernel(
        "from_points_three", {"p": [[1.0, 5.0, -2.0], [3.0, 4.0, 0.5], [2.0, 6.0, -1.0]]},
        lambda p: (Box.from_points(p).origin, Box.from_points(p).size),
        "Lemma {T}_ok : forall {vars} : R, {T}_path ROps {vars} ->\n"
        "  exists b, from_points ROps %s = Ok b /\\ vlist (borigin b) ++ vlist (bsize b) = {T} ROps {vars}.\n"
        "Proof. intros {vars} Hpath. unfold {T}_path in Hpath; rops. path_facts Hpath. unfold {T}.\n"
        "  cbv [from_points points_min points_max fold_left vmin vmax nmin nmax box_ctor vsub vx vy vz n0]; rops.\n"
        "  repeat match goal with |- context [Rleb ?a ?b] =>\n"
        "    lazymatch a with context [if _ then _ else _] => fail | _ => idtac end;\n"
        "    lazymatch b with context [if _ then _ else _] => fail | _ => idtac end;\n"
        "    destruct (Rleb_spec a b); try (exfalso; lra) end;\n"
        "  repeat match goal with |- context [Rltb ?a ?b] => destruct (Rltb_spec a b); try (exfalso; lra) end;\n"
        "  cbn [orb]; eexists; (split; [reflexivity|]); cbv [borigin bsize vlist vx vy vz app]; list_eq ltac:(lra). Qed." % PS,
        imports=IMPORTS))

    # a second decided order: every coordinate strictly descending along the rows
    ks.append(Kernel(
        "from_points_descending", {"p": [[3.0, 6.0, 0.5], [2.0, 5.0, -1.0], [1.0, 4.0, -2.0]]},
        lambda p: (Box.from_points(p).origin, Box.from_points(p).size),
        "Lemma {T}_ok : forall {vars} : R, {T}_path ROps {vars} ->\n"
        "  exists b, from_points ROps %s = Ok b /\\ vlist (borigin b) ++ vlist (bsize b) = {T} ROps {vars}.\n"
        "Proof. intros {vars} Hpath. unfold {T}_path in Hpath; rops. path_facts Hpath. unfold {T}.\n"
        "  cbv [from_points points_min points_max fold_left vmin vmax nmin nmax box_ctor vsub vx vy vz n0]; rops.\n"
        "  repeat match goal with |- context [Rleb ?a ?b] =>\n"
        "    lazymatch a with context [if _ then _ else _] => fail | _ => idtac end;\n"
        "    lazymatch b with context [if _ then _ else _] => fail | _ => idtac end;\n"
        "    destruct (Rleb_spec a b); try (exfalso; lra) end;\n"
        "  repeat match goal with |- context [Rltb ?a ?b] => destruct (Rltb_spec a b); try (exfalso; lra) end;\n"
        "  cbn [orb]; eexists; (split; [reflexivity|]); cbv [borigin bsize vlist vx vy vz app]; list_eq ltac:(lra). Qed." % PS,
        imports=IMPORTS))

    # extent on three symbolic points: the decided pair is (0, 1)
    ks.append(Kernel(
        "extent_three", {"p": [[0.0, 0.0, 0.0], [4.0, 3.0, 0.0], [1.0, 1.0, 1.0]]},
        lambda p: extent(p, ret_indices=True),
        "Lemma {T}_ok : forall {vars} : R, {T}_path ROps {vars} ->\n"
        "  exists d, extent ROps %s = Ok (d, 0%%Z, 1%%Z) /\\ [d] = {T} ROps {vars}.\n"
        "Proof. intros {vars} Hpath. unfold {T}_path in Hpath; rops. path_facts Hpath. unfold {T}.\n"
        "  cbv [extent ext_loop ext_step distances map argmax argmax_from vdist vnorm vnorm2 vdot vsub vx vy vz]; rops.\n"
        "  (* independent of HOW the code searches (per-probe loop, distance matrix + flat argmax, ...): name the distances,\n"
        "     d_ii = 0, d_ij = d_ji, 0 <= d; then decide the model's comparisons from the recorded order facts. A comparison\n"
        "     the code never made may stay open: both branches must then lead to the stated result *)\n"
        "  abstract_sqrts.\n"
        "  repeat (match goal with |- context [Rltb ?a ?b] => destruct (Rltb_spec a b); try (exfalso; lra) end; cbv beta iota);\n"
        "  (eexists; split; [reflexivity|]); list_eq ltac:(first [reflexivity | lra]). Qed." % PS,
        imports=IMPORTS + [("PW.proofs", "P_vec"), ("PW.proofs", "P_pointcloud")],
        expect_structure={"tuple": ["e", 0, 1]}))
    # extent with a tie inside np.argmax (probe 0 is equally far from both others) and a later, strictly larger pair (1, 2)
    ks.append(Kernel(
        "extent_tie", {"p": [[0.0, 0.0, 0.0], [4.0, 3.0, 0.0], [-4.0, -3.0, 0.0]]},
        lambda p: extent(p, ret_indices=True),
        "Lemma {T}_ok : forall {vars} : R, {T}_path ROps {vars} ->\n"
        "  exists d, extent ROps %s = Ok (d, 1%%Z, 2%%Z) /\\ [d] = {T} ROps {vars}.\n"
        "Proof. intros {vars} Hpath. unfold {T}_path in Hpath; rops. path_facts Hpath. unfold {T}.\n"
        "  cbv [extent ext_loop ext_step distances map argmax argmax_from vdist vnorm vnorm2 vdot vsub vx vy vz]; rops.\n"
        "  (* independent of HOW the code searches (per-probe loop, distance matrix + flat argmax, ...): name the distances,\n"
        "     d_ii = 0, d_ij = d_ji, 0 <= d; then decide the model's comparisons from the recorded order facts. A comparison\n"
        "     the code never made may stay open: both branches must then lead to the stated result *)\n"
        "  abstract_sqrts.\n"
        "  repeat (match goal with |- context [Rltb ?a ?b] => destruct (Rltb_spec a b); try (exfalso; lra) end; cbv beta iota);\n"
        "  (eexists; split; [reflexivity|]); list_eq ltac:(first [reflexivity | lra]). Qed." % PS,
        imports=IMPORTS + [("PW.proofs", "P_vec"), ("PW.proofs", "P_pointcloud")],
        expect_structure={"tuple": ["e", 1, 2]}, perturb=0.0))
    # percentile on three symbolic points and a symbolic axis (coordinates along the axis in increasing order), for two
    # percentiles whose virtual index is dyadic (so NumPy's float index arithmetic is exact): q = 25 -> index 1/2
    # (NumPy's upper-half form b - (b-a)(1-t)), q = 12.5 -> index 1/4 (lower-half form a + (b-a)t)
    from polliwog.pointcloud import percentile
    pct_lemma = (
        "Lemma {T}_ok : forall {vars} : R, {T}_path ROps {vars} ->\n"
        "  percentile ROps %s (V3 a0 a1 a2) (%s) =\n"
        "  Ok (V3 (List.nth 0 ({T} ROps {vars}) 0) (List.nth 1 ({T} ROps {vars}) 0) (List.nth 2 ({T} ROps {vars}) 0)).\n"
        "Proof. intros {vars} Hpath. unfold {T}_path in Hpath; rops. path_facts Hpath. unfold {T}.\n"
        "  rewrite Rminus_0_r in *.\n"
        "  assert (Haz : almost_zero ROps (V3 a0 a1 a2) = false).\n"
        "  { unfold almost_zero, atol8; rops; cbn [vx vy vz].\n"
        "    match goal with |- context [Rleb ?a ?b] => destruct (Rleb_spec a b); [exfalso; lra|reflexivity] end. }\n"
        "  unfold percentile. rewrite Haz. unfold n0; rops. rewrite percentile_q_in_range by lra. f_equal.\n"
        "  set (u := vnormalize ROps (V3 a0 a1 a2)).\n"
        "  set (c0 := vdot ROps (V3 p0 p1 p2) u). set (c1 := vdot ROps (V3 p3 p4 p5) u). set (c2 := vdot ROps (V3 p6 p7 p8) u).\n"
        "  assert (H01 : c0 < c1) by (unfold c0, c1, u; vunf; lra).\n"
        "  assert (H12 : c1 < c2) by (unfold c1, c2, u; vunf; lra).\n"
        "  assert (Es : isort ROps [c0; c1; c2] = [c0; c1; c2]).\n"
        "  { cbv [isort insert_sorted]; rops.\n"
        "    repeat match goal with |- context [Rleb ?a ?b] => destruct (Rleb_spec a b); try (exfalso; lra) end; reflexivity. }\n"
        "  assert (Ev : percentile_value ROps [c0; c1; c2] (%s) = %s).\n"
        "  { unfold percentile_value. rewrite Es. cbn [length]. rops.\n"
        "    replace (Rfloor (IZR (Z.of_nat 3 - 1) * (%s / 100))) with 0%%Z by (symmetry; apply Rfloor_unique; simpl; lra).\n"
        "    simpl. unfold n0; rops. field. }\n"
        "  cbn [map]. fold c0 c1 c2. rewrite Ev. clear Es Ev.\n"
        "  (* independent of HOW the code normalises and rejects (vg helpers, inline NumPy, one or two normalisations):\n"
        "     the axis is not almost zero, hence non-zero, so its norm s has s * s = a.a and an inverse i; every other\n"
        "     square root is the norm of the unit axis (= 1); what remains is ideal membership modulo these facts *)\n"
        "  pose proof (vnorm_pos _ (almost_zero_false_nonzero _ Haz)) as Hpos. pose proof (vnorm_sq (V3 a0 a1 a2)) as Hsq.\n"
        "  vunf_in Hpos. vunf_in Hsq.\n"
        "  unfold c0, c1, c2, u. cbv [centroid vsum fold_left length vreject vnormalize vnorm vnorm2 vdivs vdot vadd vsub vscale vzero vx vy vz n0 List.nth]; rops.\n"
        "  simpl Z.of_nat. unfold nfrac; rops.\n"
        "  set (s := sqrt (a0 * a0 + a1 * a1 + a2 * a2)) in *.\n"
        "  repeat match goal with |- context [sqrt ?e] => replace (sqrt e) with s by (unfold s; f_equal; ring) end.\n"
        "  unfold Rdiv in *. set (i := / s) in *. assert (Hi : i * s = 1) by (unfold i; field; lra).\n"
        "  clearbody i. clearbody s.\n"
        "  repeat match goal with |- context [sqrt ?e] => replace e with 1 by nsatz; rewrite sqrt_1 end.\n"
        "  rewrite ?Rinv_1.\n"
        "  apply V3_ext; nsatz.\nQed.")
    for name, qf, qc, val in (("percentile_q25", 25.0, "25", "c1 - (c1 - c0) * (1 / 2)"),
                              ("percentile_q12_5", 12.5, "25 / 2", "c0 + (c1 - c0) * (1 / 4)")):
        ks.append(Kernel(
            name, {"p": [[1.0, 5.0, -2.0], [3.0, 4.0, 0.5], [2.0, 6.0, -1.0]], "a": [1.0, 2.0, 1.0]},
            (lambda qf: lambda p, a: percentile(p, a, qf))(qf),
            pct_lemma % (PS, qc, qc, val, "(%s)" % qc),
            imports=[("Coq", "Nsatz")] + IMPORTS + [("PW.proofs", "P_vec"), ("PW.proofs", "P_pointcloud")]))
    return ks


# ---------------------------------------------------------------------------------------------------------
def _scale(rng, tier):
    """power-of-two scale; every tier draws a share of its cases at extreme scales (absolute thresholds only bite there)"""
    if tier in ("thorough", "search"):
        return 2.0 ** rng.randint(-30, 30)
    r = rng.random()
    if r < 0.15:
        return 2.0 ** rng.randint(-30, -12)
    if r < 0.25:
        return 2.0 ** rng.randint(12, 30)
    return 2.0 ** rng.randint(-10, 10)


ACCESSORS = ("min_x", "min_y", "min_z", "max_x", "max_y", "max_z", "mid_x", "mid_y", "mid_z", "width", "height", "depth",
             "center_point", "floor_point", "volume", "surface_area", "ranges", "v") + PLANES


def _read(b, name, mutate=False):
    """value of one accessor as a flat list of floats; with `mutate` the returned array (or the plane's reference
    point) is then overwritten in place, which must not influence any later answer of the box"""
    x = getattr(b, name)
    if name in PLANES:
        val = list(x.reference_point) + list(x.normal)
        arr = x.reference_point
    else:
        arr = x
        val = list(np.asarray(x, dtype=np.float64).reshape(-1))
    val = [float(t) for t in val]
    if mutate and isinstance(arr, np.ndarray) and arr.flags.writeable and name not in ("min_x",):
        try:
            arr += 1.0
        except Exception:
            pass
    return val


def _round_cloud(rng, scale):
    """a genuinely 3-D cloud: antipodal (or nearly antipodal) pairs well inside the bounding box plus the six axis
    points that alone attain the per-axis minima and maxima; the farthest pair is often strictly inside the box"""
    pts = []
    for _ in range(rng.randint(1, 4)):
        p = [rng.choice([-1, 1]) * rng.randint(2, 8) / 2 for _ in range(3)]
        pts.append(p)
        m = [-x for x in p]
        if rng.random() < 0.4:
            m[rng.randrange(3)] += rng.choice([-0.5, 0.5])
        pts.append(m)
    for _ in range(rng.randint(0, 3)):
        pts.append(grid_vec(rng, -2, 2))
    big = max(abs(x) for p in pts for x in p) + rng.choice([0.5, 0.5, 1.0])
    for ax in range(3):
        for sg in (-1, 1):
            e = [0.0, 0.0, 0.0]
            e[ax] = sg * big
            pts.append(e)
    rng.shuffle(pts)
    off = [0.0, 0.0, 0.0] if rng.random() < 0.6 else [x * 2.0 ** rng.choice([3, 8]) for x in grid_vec(rng)]
    return [[(x + o) * scale for x, o in zip(p, off)] for p in pts]


def _cloud(rng, scale, lo=1, hi=7):
    k = rng.randint(lo, hi)
    off = [0.0, 0.0, 0.0] if rng.random() < 0.6 else [x * 2.0 ** rng.choice([3, 8]) for x in grid_vec(rng)]
    pts = [[(x + o) * scale for x, o in zip(grid_vec(rng), off)] for _ in range(k)]
    m = rng.random()
    if m < 0.2 and k > 1:
        pts[rng.randrange(k)] = list(pts[rng.randrange(k)])  # coincident points
    elif m < 0.35:
        ax = rng.randrange(3)
        for p in pts:
            p[ax] = pts[0][ax]  # coplanar (zero thickness)
    elif m < 0.4:
        pts = [list(pts[0]) for _ in pts]  # all the same point
    return pts


def gen_cases(rng, n, tier):
    cases = []
    for _ in range(n):
        r = rng.random()
        scale = _scale(rng, tier)
        # integer-dtype stream: the same data as whole numbers in int64 arrays (moderate size)
        is_int = rng.random() < 0.1
        if is_int:
            scale = 2.0 ** rng.randint(2, 4)
        # far-offset stream: a small scene on a fine dyadic grid translated far from the origin (2^24..2^31 per axis,
        # mixed signs; every coordinate stays exactly representable).  Differences of points are exact there, whereas a
        # formula that subtracts large squares or products (|p|^2 + |q|^2 - 2 p.q, dot(p,n) - dot(o,n)) drowns in
        # rounding.  Distances, sizes and every discrete answer are judged relative to the SCENE, not to the coordinates.
        is_far = (not is_int) and rng.random() < 0.2
        if is_far:
            scale = 2.0 ** -rng.randint(2, 5)
            far = [rng.choice([-1, 1]) * float(2 ** rng.randint(24, 31) + rng.randint(0, 1023)) for _ in range(3)]
        if r < 0.2:
            o = [x * scale for x in grid_vec(rng)]
            s = [rng.choice([0, 0, 1, 2, 3, 5, 8]) / 2 * scale for _ in range(3)]
            kind = "box"
            if rng.random() < 0.2:
                s[rng.randrange(3)] = -rng.choice([1, 2, 3]) / 2 * scale
                kind = "box_negative"
            # a call sequence on ONE Box object: accessor reads in random order, some followed by an in-place
            # modification of the returned array; every answer is compared with that of a fresh Box
            seq = [[rng.choice(ACCESSORS if rng.random() < 0.5 else PLANES + ("center_point", "floor_point", "mid_x", "mid_y", "mid_z", "v")),
                    rng.random() < 0.25] for _ in range(rng.randint(4, 12))]
            cases.append({"kind": kind, "origin": o, "size": s, "sequence": seq})
        elif r < 0.4:
            v = rng.random()
            if v < 0.08:
                cases.append({"kind": "from_points_empty", "points": []})
            elif v < 0.25:
                # Polyline.bounding_box on empty (None) and non-empty polylines, open and closed
                cases.append({"kind": "bounding_box", "points": [] if rng.random() < 0.4 else _cloud(rng, scale), "closed": rng.random() < 0.5})
            else:
                cases.append({"kind": "from_points", "points": _cloud(rng, scale), "closed": rng.random() < 0.5})
        elif r < 0.47:
            k = rng.randint(1, 8)
            pts = [[rng.uniform(-3, 3) * scale for _ in range(3)] for _ in range(k)]
            cases.append({"kind": "from_points_float", "points": pts, "closed": False})
        elif r < 0.65:
            o = [x * scale for x in grid_vec(rng)]
            s = [rng.choice([0, 1, 2, 3, 5]) / 2 * scale for _ in range(3)]
            rows = []
            for _ in range(rng.randint(1, 6)):
                atol = rng.choice([0, 0, 0, 1, 2]) / 4 * scale
                p = []
                for j in range(3):
                    m = rng.random()
                    if m < 0.3:
                        p.append(o[j] + rng.choice([0.0, s[j]]))  # on a face
                    elif m < 0.5:
                        p.append(o[j] + rng.choice([-atol, s[j] + atol]))  # exactly at atol
                    elif m < 0.6:
                        p.append(o[j] + rng.choice([-atol - scale / 4, s[j] + atol + scale / 4]))  # just outside
                    else:
                        p.append(o[j] + rng.randint(-2, 12) / 4 * scale)
                rows.append([p, atol])
            cases.append({"kind": "contains", "origin": o, "size": s, "rows": rows})
        elif r < 0.83:
            if rng.random() < 0.1:
                cases.append({"kind": "extent_too_few", "points": _cloud(rng, scale, 0, 1)[:rng.randint(0, 1)]})
            else:
                cases.append({"kind": "extent", "points": _round_cloud(rng, scale) if rng.random() < 0.4 else _cloud(rng, scale, 2, 7)})
        else:
            pts = _cloud(rng, scale, 1, 7)
            m = rng.random()
            if m < 0.04:
                cases.append({"kind": "percentile_zero_axis", "points": pts, "axis": [0.0, 0.0, 0.0], "q": 50.0})
            elif m < 0.14:
                # a genuine (non-zero) axis whose components are all at most 1e-8 in size: the property demands a result
                ax = [0.0, 0.0, 0.0]
                for j in range(3):
                    if rng.random() < 0.6:
                        ax[j] = rng.choice([1e-9, -1e-9, 2.0 ** -30, 2.0 ** -27, -2.0 ** -40, 5e-9, 1e-8, -1e-8])
                if not any(ax):
                    ax[rng.randrange(3)] = 1e-9
                cases.append({"kind": "percentile_tiny_axis", "points": pts, "axis": ax, "q": float(rng.choice([0, 50, 100, 37]))})
            elif m < 0.22:
                cases.append({"kind": "percentile_bad_q", "points": pts, "axis": [x or 1.0 for x in grid_vec(rng)],
                              "q": rng.choice([-1.0, -0.5, 100.5, 150.0, -2.0 ** -20, 100.0 + 2.0 ** -20])})
            elif m < 0.25:
                cases.append({"kind": "percentile_empty", "points": [], "axis": [1.0, 0.0, 0.0], "q": 50.0})
            else:
                while True:
                    ax = grid_vec(rng)
                    if any(ax):
                        break
                v = rng.random()
                if v < 0.15:
                    ax = [x * 2.0 ** -20 for x in ax]
                elif v < 0.3:
                    # just above vg.almost_zero's threshold: one component a hair (one ulp, 2x, 10x) above 1e-8, the others
                    # at or below it -- must be accepted (the threshold itself, 1e-8, is in the tiny-axis stream)
                    ax = [rng.choice([0.0, 1e-8, -1e-9]) for _ in range(3)]
                    ax[rng.randrange(3)] = rng.choice([1, -1]) * rng.choice([1.0000000000000002e-8, 2e-8, 1e-7])
                qq = rng.choice([0.0, 100.0, 50.0, 25.0, 75.0, float(rng.randint(0, 100)), rng.randint(0, 800) / 8])
                cases.append({"kind": "percentile", "points": pts, "axis": ax, "q": qq})
        if is_int and cases[-1]["kind"] in INT_KINDS:
            cases[-1]["int"] = True
        if is_far and cases[-1]["kind"] in FAR_KINDS:
            _translate(cases[-1], far)
    return cases


FAR_KINDS = ("box", "from_points", "bounding_box", "contains", "extent", "percentile")
FAR = "_far_offset"


def _translate(c, far):
    def mv(p):
        return [x + d for x, d in zip(p, far)]

    if "points" in c:
        c["points"] = [mv(p) for p in c["points"]]
    if "origin" in c:
        c["origin"] = mv(c["origin"])
    if "rows" in c:
        c["rows"] = [[mv(p), a] for p, a in c["rows"]]
    c["kind"] += FAR


def _base_kind(c):
    k = c["kind"]
    return k[:-len(FAR)] if k.endswith(FAR) else k


INT_KINDS = ("box", "box_negative", "from_points", "bounding_box", "contains", "extent", "percentile")


def _a(x, c, shape=None):
    a = np.array(x, dtype=np.float64)
    a = a.reshape(shape) if shape is not None else a
    if c.get("int"):
        b = a.astype(np.int64)
        if np.array_equal(a, b):  # (a case whose data are not whole numbers simply stays float64)
            return b
    return a


# ---------------------------------------------------------------------------------------------------------


def run_impl(c):
    from polliwog import Box, Polyline
    from polliwog.pointcloud import extent, percentile

    def go():
        kind = _base_kind(c)
        if kind.startswith("box"):
            o, s = _a(c["origin"], c), _a(c["size"], c)
            b = Box(o, s)
            seq_vals, fresh_vals = [], []
            for name, mutate in c.get("sequence", []):
                seq_vals.append(_read(b, name, mutate))
                fresh_vals.append(_read(Box(_a(c["origin"], c), _a(c["size"], c)), name))
            obs = [float(x) for x in _box_observables(b)]
            fresh_obs = [float(x) for x in _box_observables(Box(_a(c["origin"], c), _a(c["size"], c)))]
            return {"obs": obs, "fresh_obs": fresh_obs, "seq_vals": seq_vals, "fresh_vals": fresh_vals, "args_unchanged": bool(np.array_equal(o, np.array(c["origin"])) and np.array_equal(s, np.array(c["size"])))}
        if kind.startswith("from_points"):
            ps = _a(c["points"], c, (-1, 3))
            before = ps.copy()
            b = Box.from_points(ps)
            mag = float(np.max(np.abs(ps))) if len(ps) else 1.0
            atol = 4 * np.finfo(np.float64).eps * max(mag, 1e-300)
            bb = Polyline(ps, is_closed=c.get("closed", False)).bounding_box
            return {"origin": b.origin.tolist(), "size": b.size.tolist(),
                    "contains_atol": [bool(b.contains(p, atol=atol)) for p in ps],
                    "contains_exact": [bool(b.contains(p)) for p in ps],
                    "bbox_same": bool(bb is not None and np.array_equal(bb.origin, b.origin) and np.array_equal(bb.size, b.size)),
                    "args_unchanged": bool(np.array_equal(before, ps))}
        if kind == "bounding_box":
            ps = _a(c["points"], c, (-1, 3))
            bb = Polyline(ps, is_closed=c["closed"]).bounding_box
            if bb is None:
                return {"none": True}
            fp = Box.from_points(ps)
            return {"none": False, "origin": bb.origin.tolist(), "size": bb.size.tolist(),
                    "same_as_from_points": bool(np.array_equal(bb.origin, fp.origin) and np.array_equal(bb.size, fp.size))}
        if kind == "contains":
            b = Box(_a(c["origin"], c), _a(c["size"], c))
            planes = [[getattr(b, nm).reference_point.tolist(), getattr(b, nm).normal.tolist()] for nm in PLANES]
            res, sds = [], []
            for p, atol in c["rows"]:
                p = _a(p, c)
                res.append(bool(b.contains(p, atol=atol) if atol else b.contains(p)))
                sds.append([float(getattr(b, nm).signed_distance(p)) for nm in PLANES])
            return {"res": res, "planes": planes, "sds": sds}
        if kind.startswith("extent"):
            ps = _a(c["points"], c, (-1, 3))
            d, i, j = extent(ps, ret_indices=True)
            return {"d": float(d), "i": int(i), "j": int(j), "d_only": float(extent(ps))}
        ps = _a(c["points"], c, (-1, 3))
        r = percentile(ps, np.array(c["axis"]), c["q"])
        return {"point": r.tolist()}

    return call_impl(go)


def _res(o, ok):
    if isinstance(o, dict) and "raise" in o:
        return "(Raise %s)" % o["raise"]
    return "(Ok %s)" % ok(o)


def coq_case(c, o):
    kind = _base_kind(c)
    if kind.startswith("box"):
        return "CBox %s %s %s" % (qv(c["origin"]), qv(c["size"]), _res(o, lambda o: flv(o["obs"])))
    if kind == "bounding_box":
        if isinstance(o, dict) and "raise" in o:
            return "CBBox %s (Some (Raise %s))" % (coq_list(qv(p) for p in c["points"]), o["raise"])
        if o["none"]:
            return "CBBox %s None" % coq_list(qv(p) for p in c["points"])
        return "CBBox %s (Some (Ok %s))" % (coq_list(qv(p) for p in c["points"]), flv(o["origin"] + o["size"]))
    if kind.startswith("from_points"):
        return "CFromPoints %s %s" % (coq_list(qv(p) for p in c["points"]), _res(o, lambda o: flv(o["origin"] + o["size"])))
    if kind == "contains":
        if "raise" in o:
            return "CContains (V3 0 0 0) (V3 0 0 0) [] [true]"
        return "CContains %s %s %s %s" % (qv(c["origin"]), qv(c["size"]),
                                          coq_list("(%s, %s)" % (qv(p), q(a)) for p, a in c["rows"]),
                                          coq_list(coq_bool(b) for b in o["res"]))
    if kind.startswith("extent"):
        return "CExtent %s %s" % (coq_list(qv(p) for p in c["points"]),
                                  _res(o, lambda o: "(%s, %s, %s)" % (fl(o["d"]), coq_Z(o["i"]), coq_Z(o["j"]))))
    return "CPercentile %s %s %s %s" % (coq_list(qv(p) for p in c["points"]), qv(c["axis"]), q(c["q"]),
                                         _res(o, lambda o: flv(o["point"])))


# ---------------------------------------------------------------------------------------------------------
TOL = Fr(1, 10 ** 9)


def _F(v):
    return [Fr(float(x)) for x in v]


def _near(a, b, mag):
    return abs(a - b) <= TOL * mag


def _box_oracle(c, o):
    if not o["args_unchanged"]:
        return "constructor arguments were modified"
    og, sz = _F(c["origin"]), _F(c["size"])
    # derived quantities follow from origin and size alone: whatever was read (or done to a returned array) before,
    # the same Box object must answer like a fresh Box
    done = []
    for (name, mutate), got, want in zip(c.get("sequence", []), o["seq_vals"], o["fresh_vals"]):
        if got != want:
            return "%s read after %s returned %r on the same Box, a fresh Box(origin, size) gives %r" % (name, done or "nothing", got, want)
        done.append(name + ("(returned array then modified)" if mutate else ""))
    if o["obs"] != o["fresh_obs"]:
        k = [i for i, (a, b) in enumerate(zip(o["obs"], o["fresh_obs"])) if a != b][0]
        return "after the reads %s, observable #%d of the same Box is %r, a fresh Box gives %r" % (done, k, o["obs"][k], o["fresh_obs"][k])
    v = _F(o["obs"])
    mag = max([abs(x) for x in og + sz] + [Fr(1, 2 ** 1000)])
    if c["kind"].endswith(FAR):
        mag = max([abs(x) for x in sz] + [Fr(1, 2 ** 1000)])  # exact data: judged relative to the size of the box
    mn, mx, mid, whd = v[0:3], v[3:6], v[6:9], v[9:12]
    center, floor, vol, area = v[12:15], v[15:18], v[18], v[19]
    ranges, corners, planes = v[20:26], v[26:50], v[50:86]
    for j in range(3):
        if mn[j] != og[j] or whd[j] != sz[j]:
            return "min / width-height-depth on axis %d are not origin / size" % j
        if not _near(mx[j], og[j] + sz[j], mag) or not _near(mid[j], og[j] + sz[j] / 2, mag):
            return "max / mid on axis %d do not follow from origin and size" % j
        if not _near(center[j], og[j] + sz[j] / 2, mag):
            return "center_point[%d] is not origin + size/2" % j
        if not _near(floor[j], og[j] + (0 if j == 1 else sz[j] / 2), mag):
            return "floor_point[%d] is not the centre of the min-y face" % j
        if not _near(ranges[2 * j], og[j], mag) or not _near(ranges[2 * j + 1], og[j] + sz[j], mag):
            return "ranges row %d is not [min, max]" % j
    if not _near(vol, sz[0] * sz[1] * sz[2], mag ** 3):
        return "volume is not width*height*depth"
    if not _near(area, 2 * (sz[0] * sz[1] + sz[1] * sz[2] + sz[0] * sz[2]), mag ** 2):
        return "surface_area is not 2(wh+hd+wd)"
    got = sorted(tuple(corners[3 * i:3 * i + 3]) for i in range(8))
    want = sorted((og[0] + a * sz[0], og[1] + b * sz[1], og[2] + cc * sz[2]) for a in (0, 1) for b in (0, 1) for cc in (0, 1))
    if any(not _near(g[j], w[j], mag) for g, w in zip(got, want) for j in range(3)):
        return "the eight corners are not the eight min/max combinations"
    for k in range(6):
        ref, nrm = planes[6 * k:6 * k + 3], planes[6 * k + 3:6 * k + 6]
        ax, is_max = k % 3, k >= 3
        want_n = [0, 0, 0]
        want_n[ax] = -1 if is_max else 1
        if [x for x in nrm] != want_n:
            return "%s normal %r does not point inward along its axis" % (PLANES[k], [float(x) for x in nrm])
        face = og[ax] + (sz[ax] if is_max else 0)
        if not _near(ref[ax], face, mag):
            return "%s does not pass through its face" % PLANES[k]
        for j in range(3):
            if j != ax and not (og[j] - TOL * mag <= ref[j] <= og[j] + sz[j] + TOL * mag):
                return "%s reference point lies outside its face" % PLANES[k]
    return None


def _from_points_oracle(c, o):
    if not o["args_unchanged"]:
        return "argument array was modified"
    ps = [_F(p) for p in c["points"]]
    og, sz = _F(o["origin"]), _F(o["size"])
    mag = max([abs(x) for p in ps for x in p])  # relative to the data, no floor at 1
    if c["kind"].endswith(FAR):
        # exactly representable far-away cloud: max - min is exact, judged relative to the size of the cloud
        mag = max(max(p[j] for p in ps) - min(p[j] for p in ps) for j in range(3))
    for j in range(3):
        lo, hi = min(p[j] for p in ps), max(p[j] for p in ps)
        if og[j] != lo:
            return "origin[%d]=%s is not the minimum %s" % (j, float(og[j]), float(lo))
        if sz[j] < 0 or abs(og[j] + sz[j] - hi) > 4 * Fr(2) ** -52 * mag:
            return "origin+size on axis %d is %s, not the maximum %s" % (j, float(og[j] + sz[j]), float(hi))
    if not all(o["contains_atol"]):
        return "an input point is not contained even with atol = 4 ulp"
    if c["kind"] == "from_points" and not all(o["contains_exact"]):
        return "an input point of an exactly representable cloud is not contained"
    if not o["bbox_same"]:
        return "Polyline.bounding_box differs from Box.from_points of its vertices"
    return None


def _contains_oracle(c, o):
    og, sz = _F(c["origin"]), _F(c["size"])
    for i, (p, atol) in enumerate(c["rows"]):
        p, atol = _F(p), Fr(atol)
        # the six inward signed distances, from the planes the implementation returned
        sds = []
        for ref, nrm in o["planes"]:
            ref, nrm = _F(ref), _F(nrm)
            sds.append(sum((p[j] - ref[j]) * nrm[j] for j in range(3)))
        want = all(sd >= -atol for sd in sds)
        if o["res"][i] != want:
            return "row %d: contains=%r but the inward signed distances to the six planes are %s with atol=%s" % (
                i, o["res"][i], [float(s) for s in sds], float(atol))
        direct = [p[j] - og[j] for j in range(3)] + [og[j] + sz[j] - p[j] for j in range(3)]
        if sds != direct or [Fr(x) for x in o["sds"][i]] != direct:
            return "row %d: plane signed distances are not the depths inside the box" % i
    return None


def _extent_oracle(c, o):
    ps = [_F(p) for p in c["points"]]
    k = len(ps)
    if o["d"] != o["d_only"]:
        return "ret_indices changes the returned distance"
    if not (0 <= o["i"] < k and 0 <= o["j"] < k):
        return "returned indices %d, %d out of range" % (o["i"], o["j"])
    d2 = Fr(o["d"]) ** 2

    def s2(a, b):
        return sum((x - y) ** 2 for x, y in zip(a, b))

    best = max(s2(a, b) for a in ps for b in ps)
    if abs(d2 - s2(ps[o["i"]], ps[o["j"]])) > TOL * max(best, Fr(1, 10 ** 300)) and d2 != s2(ps[o["i"]], ps[o["j"]]):
        return "returned distance %r is not the distance between points %d and %d" % (o["d"], o["i"], o["j"])
    if d2 < best * (1 - TOL):
        return "returned distance %r is smaller than the largest pairwise distance %r" % (o["d"], math.sqrt(float(best)))
    return None


def _percentile_oracle(c, o):
    ps = [_F(p) for p in c["points"]]
    ax = _F(c["axis"])
    n = len(ps)
    r = _F(o["point"])
    mag = max([abs(x) for p in ps for x in p] + [Fr(1, 2 ** 1000)])  # relative to the data, not floored at 1
    norm = Fr(math.sqrt(float(sum(x * x for x in ax))))
    u = [x / norm for x in ax]
    coords = sorted(sum(p[j] * u[j] for j in range(3)) for p in ps)
    vi = Fr(n - 1) * Fr(c["q"]) / 100
    lo = int(vi // 1)
    hi = min(lo + 1, n - 1)
    sel = coords[lo] + (coords[hi] - coords[lo]) * (vi - lo)
    cen = [sum(p[j] for p in ps) / n for j in range(3)]
    along = sum(r[j] * u[j] for j in range(3))
    tol = Fr(1, 10 ** 12) * mag if c["kind"].endswith(FAR) else 100 * TOL * mag
    if abs(along - sel) > tol:
        return "coordinate of the result along the axis is %s, the requested percentile of the coordinates is %s" % (float(along), float(sel))
    d = [r[j] - cen[j] for j in range(3)]
    t = sum(d[j] * u[j] for j in range(3))
    if any(abs(d[j] - t * u[j]) > tol for j in range(3)):
        return "the result is not on the line through the centroid along the axis"
    return None


EXPECT_RAISE = {"box_negative", "from_points_empty", "extent_too_few", "percentile_zero_axis", "percentile_empty",
                "percentile_bad_q"}
# theorems that only restate the shape of the model (reported separately by the driver)
DEFINITIONAL = ["C17_bounding_box_is_from_points"]


def oracle(c, o):
    kind = _base_kind(c)
    raised = isinstance(o, dict) and "raise" in o
    if kind in EXPECT_RAISE:
        if not raised:
            return "%s: expected ValueError, got a result" % kind
        return None if o["raise"] == "ValueError" else "%s: expected ValueError, got %s" % (kind, o["raise"])
    if kind == "percentile_tiny_axis" and raised:
        return "percentile rejects the non-zero axis %r: %s: %s" % (c["axis"], o["raise"], o.get("msg"))
    if raised:
        return "unexpected exception %s: %s" % (o["raise"], o.get("msg"))
    if kind == "bounding_box":
        if not c["points"]:
            return None if o["none"] else "bounding_box of an empty polyline is not None"
        if o["none"]:
            return "bounding_box of a non-empty polyline is None"
        if not o["same_as_from_points"]:
            return "Polyline.bounding_box differs from Box.from_points of its vertices"
        return _from_points_oracle(dict(c, kind="from_points"), dict(o, args_unchanged=True, contains_atol=[True], contains_exact=[True], bbox_same=True))
    if kind == "box":
        return _box_oracle(c, o)
    if kind.startswith("from_points"):
        return _from_points_oracle(c, o)
    if kind == "contains":
        return _contains_oracle(c, o)
    if kind == "extent":
        return _extent_oracle(c, o)
    return _percentile_oracle(c, o)


def classify(c, o, failure, disagrees):
    # known finding: vg.almost_zero's absolute threshold (1e-8) rejects genuine axes; matched on the call site, the input
    # class (non-zero axis with every |component| <= 1e-8) and the observed ValueError
    if disagrees:
        return None  # a model/implementation disagreement is never a known finding
    if (c["kind"] == "percentile_tiny_axis" and isinstance(o, dict) and o.get("raise") == "ValueError"
            and str(o.get("msg", "")).startswith("Axis must be non-zero")
            and any(c["axis"]) and all(abs(x) <= 1e-8 for x in c["axis"])):
        return "percentile_tiny_axis_rejected"
    return None
