"""Traced kernels shared by C01 and C02 (filled in below)."""


def kernels():
    return []
