"""Traced kernels shared by C01 and C02: the real slice_faces_plane on ONE symbolic face, once per corner pattern, and the
public wrapper slice_triangles_by_plane on three of them.

Concrete face table [[0, 1, 2]], symbolic vertices / plane.  The traced outputs are the returned vertex coordinates
(expressions) plus the returned faces and face mapping (concrete, compared fail-closed with a table computed here
independently of the code, and proved to be the model's result under the traced path condition)."""
import itertools

import numpy as np

from common import Kernel

REF = [0.5, -1.0, 0.25]
NRM = [0.5, 1.0, -2.0]
T1 = [4.0, -2.0, 0.0]   # NRM . T1 = 0
T2 = [0.0, 8.0, 4.0]    # NRM . T2 = 0
AB = [(1.0, 0.5), (-0.5, 1.0), (0.25, -0.75)]


def scenario(pattern, unused_equal=False):
    """three concrete corners realising the pattern (code convention: -1 front, 0 on, 1 behind)."""
    vs = []
    for i, s in enumerate(pattern):
        a, b = AB[i]
        # 'on' corners: exactly on the plane, or inside the 1e-8 band on either side (offset 2^-30 * |n|^2 = 4.9e-9)
        k = {-1: 0.5 + 0.25 * i, 0: [2.0 ** -30, 0.0, -2.0 ** -30][i], 1: -0.75 - 0.25 * i}[s]
        if unused_equal and s != 0:
            k = 0.5 if s == -1 else -0.75  # equal offsets: the denominator of the edge between them is exactly 0
        vs.append([REF[j] + a * T1[j] + b * T2[j] + k * NRM[j] for j in range(3)])
    return vs


def expected_tables(pattern, selected):
    """(number of returned vertices, faces, mapping) for the single face [0, 1, 2] — from the property's rules and
    the documented output layout, not from the code."""
    front = [i for i in range(3) if pattern[i] == -1]
    behind = [i for i in range(3) if pattern[i] == 1]
    if not selected or not behind:
        return 3, [[0, 1, 2]], [0]
    if not front:
        return 0, [], []
    if len(front) == 2:
        k = behind[0]
        b, c = (k + 1) % 3, (k + 2) % 3
        raw = [[b, c, 3], [b, 3, 4]]
        used = sorted({b, c, 3, 4})
        rank = {v: i for i, v in enumerate(used)}
        return 4, [[rank[i] for i in f] for f in raw], [0, 0]
    return 3, [[0, 1, 2]], [0]


def _lemma(pattern, selected, with_mask):
    nv, faces, mapping = expected_tables(pattern, selected)
    F = "[%s]" % "; ".join("mkface %d %d %d" % tuple(f) for f in faces)
    M = "[%s]" % "; ".join("%d%%nat" % i for i in mapping)
    fi = "None" if not with_mask else ("(Some [0%nat])" if selected else "(Some [])")
    return ("""Lemma {T}_ok : forall {vars} : R, {T}_path ROps {vars} ->
  exists vsout,
    slice_faces_plane ROps (merge_tol ROps) (patch_eps ROps) [V3 v0 v1 v2; V3 v3 v4 v5; V3 v6 v7 v8] [mkface 0 1 2]
      (V3 n0 n1 n2) (V3 r0 r1 r2) %s = Ok (MkOut vsout %s %s) /\\
    {T} ROps {vars} = flat_map vlist vsout.
Proof.
  intros {vars} Hpath. unfold {T}_path in Hpath. unfold nfrac in Hpath. rops. path_facts Hpath.
  unfold {T}. one_face_tie.
Qed.""" % (fi, F, M))


_DTYPE_ONLY_CALLS = {"all", "any", "zip", "isinstance", "len", "tuple", "list", "issubdtype", "dtype"}


def _holds_symbols(x):
    if isinstance(x, np.ndarray):
        return x.dtype == object
    if isinstance(x, (tuple, list)):
        return any(_holds_symbols(e) for e in x)
    return False


def _dtype_assert(test, operands):
    """A dtype-only assertion evaluated lazily: its own verdict when it holds; when it does not, it is waived iff one of the
    values it talks about is (or contains) one of the tracer's object arrays of symbols — a dtype cannot be asserted of those;
    output dtypes are compared by the correspondence check.  For ordinary arrays the assertion stays live."""
    try:
        if test():
            return True
    except Exception:
        pass
    for get in operands:
        try:
            if _holds_symbols(get()):
                return True
        except NameError:
            pass
    return False


def wrapper_with_lazy_dtype_asserts():
    """Fallback for tracing the public wrapper when one of its assertions cannot hold for symbolic arrays: the module's own
    source (re-read on every run) with every assertion that ONLY talks about dtypes (mentions `.dtype`, calls nothing but
    all / any / zip / isinstance / len / tuple / list / np.issubdtype / np.dtype) turned into `assert _dtype_assert(lambda: E, ...)`.
    An assertion that mentions dtype and does anything else is not understood: fail closed.  Everything else runs as written."""
    import ast
    import inspect

    import polliwog.plane._slicing as mod

    tree = ast.parse(inspect.getsource(mod))

    class Rewrite(ast.NodeTransformer):
        def visit_Assert(self, node):
            t = node.test
            if "dtype" not in ast.unparse(t):
                return node
            for sub in ast.walk(t):
                if isinstance(sub, ast.Call):
                    f = sub.func
                    name = f.id if isinstance(f, ast.Name) else (f.attr if isinstance(f, ast.Attribute) else None)
                    if name not in _DTYPE_ONLY_CALLS:
                        raise RuntimeError("assertion about dtypes that also calls %s in polliwog.plane._slicing: %s"
                                           % (ast.unparse(f), ast.unparse(t)))
            names = sorted({n.id for n in ast.walk(t) if isinstance(n, ast.Name) and isinstance(n.ctx, ast.Load)})
            getters = [ast.Lambda(args=ast.arguments(posonlyargs=[], args=[], kwonlyargs=[], kw_defaults=[], defaults=[]),
                                  body=ast.Name(id=n, ctx=ast.Load())) for n in names]
            node.test = ast.Call(
                func=ast.Name(id="_dtype_assert", ctx=ast.Load()),
                args=[ast.Lambda(args=ast.arguments(posonlyargs=[], args=[], kwonlyargs=[], kw_defaults=[], defaults=[]), body=t),
                      ast.List(elts=getters, ctx=ast.Load())], keywords=[])
            return node

    funcs = [Rewrite().visit(n) for n in tree.body if isinstance(n, ast.FunctionDef)]
    if not any(n.name == "slice_triangles_by_plane" for n in funcs):
        raise RuntimeError("slice_triangles_by_plane is no longer a plain function of polliwog.plane._slicing")
    g = dict(mod.__dict__)  # copied while the tracer's numpy shim is patched in, so the functions below see the shim
    g["_dtype_assert"] = _dtype_assert
    exec(compile(ast.fix_missing_locations(ast.Module(body=funcs, type_ignores=[])), mod.__file__, "exec"), g)
    return g["slice_triangles_by_plane"]


def traced_public_wrapper(*args, **kw):
    """The PUBLIC function, as imported, on the tracer's symbolic arrays (the tracer's numpy shim makes `x.dtype == np.float64`
    true for those).  Only if one of its assertions still fails on the symbolic arrays is the lazily-asserting copy used."""
    from polliwog.plane import slice_triangles_by_plane

    try:
        return slice_triangles_by_plane(*args, **kw)
    except AssertionError:
        return wrapper_with_lazy_dtype_asserts()(*args, **kw)


def _wrapper_lemma(pattern, selected, mask_coq):
    nv, faces, mapping = expected_tables(pattern, selected)
    F = "[%s]" % "; ".join("mkface %d %d %d" % tuple(f) for f in faces)
    M = "[%s]" % "; ".join("%d%%nat" % i for i in mapping)
    return ("""Lemma {T}_ok : forall {vars} : R, {T}_path ROps {vars} ->
  exists vsout,
    slice_triangles_by_plane ROps [V3 v0 v1 v2; V3 v3 v4 v5; V3 v6 v7 v8] [mkface 0 1 2]
      (V3 r0 r1 r2) (V3 n0 n1 n2) %s = Ok (MkOut vsout %s %s) /\\
    {T} ROps {vars} = flat_map vlist vsout.
Proof.
  intros {vars} Hpath. unfold {T}_path in Hpath. unfold nfrac in Hpath. rops. path_facts Hpath.
  unfold {T}. one_face_tie.
Qed.""" % (mask_coq, F, M))


def kernels():
    from polliwog.plane._trimesh_intersections import slice_faces_plane

    ks = []

    def add_wrapper(name, pattern, mask):
        selected = True if mask is None else bool(mask[0])
        nv, faces, mapping = expected_tables(pattern, selected)
        mask_arr = None if mask is None else np.array(mask)
        mask_coq = "None" if mask is None else "(Some [%s])" % ("true" if mask[0] else "false")

        def call(v, n, r, mask_arr=mask_arr):
            return traced_public_wrapper(v, np.array([[0, 1, 2]]), r, n, faces_to_slice=mask_arr, ret_face_mapping=True)

        ks.append(Kernel(
            name, {"v": scenario(pattern), "n": NRM, "r": REF}, call, _wrapper_lemma(pattern, selected, mask_coq),
            imports=[("PW.model", "M_slicing"), ("PW.proofs", "P_slicing_tie")],
            perturb=1e-12 if 0 in pattern else 1e-3, timeout=240,
            expect_structure={"tuple": [
                {"shape": [nv, 3], "data": ["e"] * (3 * nv)},
                {"shape": [len(faces), 3], "dtype": "int64", "data": [i for f in faces for i in f]},
                {"shape": [len(mapping)], "dtype": "int64", "data": list(mapping)}]}))

    def add(name, pattern, selected, with_mask, unused_equal=False):
        nv, faces, mapping = expected_tables(pattern, selected)
        mask = None if not with_mask else np.array([selected])

        def call(v, n, r, mask=mask):
            fi = None if mask is None else mask.nonzero()[0]
            return slice_faces_plane(vertices=v, faces=np.array([[0, 1, 2]]), plane_normal=n, plane_origin=r,
                                     face_index=fi, return_face_mapping=True)

        ks.append(Kernel(
            name, {"v": scenario(pattern, unused_equal), "n": NRM, "r": REF}, call, _lemma(pattern, selected, with_mask),
            imports=[("PW.model", "M_slicing"), ("PW.proofs", "P_slicing_tie")],
            perturb=1e-12 if (0 in pattern or unused_equal) else 1e-3, timeout=240,
            expect_structure={"tuple": [
                {"shape": [nv, 3], "data": ["e"] * (3 * nv)},
                {"shape": [len(faces), 3], "dtype": "int64", "data": [i for f in faces for i in f]},
                {"shape": [len(mapping)], "dtype": "int64", "data": list(mapping)}]}))

    nm = {-1: "f", 0: "o", 1: "b"}
    for pat in itertools.product([-1, 0, 1], repeat=3):
        tag = "".join(nm[s] for s in pat)
        add("slice_" + tag, pat, True, pat[0] == 0)          # no mask, or an explicit all-true mask
    # the `denom == 0` patch on the unused edge, taken the other way (both corners of that edge at the same offset)
    add("slice_bff_patch", (1, -1, -1), True, False, unused_equal=True)
    add("slice_fbb_patch", (-1, 1, 1), True, False, unused_equal=True)
    add("slice_bfb_patch", (1, -1, 1), True, False, unused_equal=True)
    # unselected faces are handed back whatever their pattern
    add("slice_unsel_bfo", (1, -1, 0), False, True)
    add("slice_unsel_bbb", (1, 1, 1), False, True)
    add("slice_unsel_ffb", (-1, -1, 1), False, True)
    # the public wrapper slice_triangles_by_plane (mask -> face indices), traced from its source minus the dtype assertions
    add_wrapper("wrapper_bff_mask", (1, -1, -1), [True])
    add_wrapper("wrapper_fob_nomask", (-1, 0, 1), None)
    add_wrapper("wrapper_fbb_unselected", (-1, 1, 1), [False])
    return ks
