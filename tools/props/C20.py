"""C20 — every operation is pure, elementwise over stacks, and strict about shapes.

Three clauses, three strengths (DESIGN.md section 4 / C20, assignment a10):

(1) SHAPE STRICTNESS — PROVED on contracts extracted from the source on every run.
    coq/model/M_shape.v models vg.shape.check / check_value and polliwog/_common/shape.py; coq/proofs/P_shape.v
    proves, for all shapes and contracts, that a contract (in the MODEL of the shape-check layer) succeeds iff every
    check's argument matches one of its patterns and that a failing check raises exactly ValueError.  tools/astextract.py (fail closed) regenerates
    build/C20/Contracts.v from $POLLIWOG_REPO on every run; `contracts_as_documented : extracted = expected`
    (golden copy coq/corr/C20_expected.v, reviewed against the docstrings) is re-checked; props/C20.v proves that
    every registered array argument reaches a shape check (C20_documented_arguments_are_checked -- "mentioned by
    a check", which is not yet "strict") and that, over a stated finite universe of shapes for all argument
    positions jointly, each callable's effective contract accepts EXACTLY the documented forms
    (C20_contracts_accept_exactly_documented_forms).  Per-callable strictness for ALL shapes is proved by a
    symbolic reading of the contract (P_shape_forms.accepts_iff_forms) for 58 of the 88 registered array-taking
    callables; 20 delegating callables have the all-shapes statement in contract terms only (documented forms:
    finite universe); 8 finite universe only; 2 exempt (C20_all_shapes_coverage pins these numbers).
"""
import itertools
import os
import random
import subprocess
import sys

import numpy as np

VERIF = os.path.dirname(os.path.dirname(os.path.dirname(os.path.abspath(__file__))))
if os.path.isdir(os.path.join(VERIF, ".deps")) and os.path.join(VERIF, ".deps") not in sys.path:
    sys.path.append(os.path.join(VERIF, ".deps"))  # jsonschema for Plane/Polyline.validate

import api_registry as A  # noqa: E402
import astextract  # noqa: E402
from common import Kernel, call_impl, exn_name  # noqa: E402

import warnings  # noqa: E402
warnings.filterwarnings("ignore", category=RuntimeWarning)   # degenerate probe values (division by zero -> nan) are fine

ID = "C20"
REPO = os.environ.get("POLLIWOG_REPO", "/repo")
N_CASES = {"quick": 2, "thorough": 4, "search": 2}   # = value seeds per probe; the probe family itself is fixed
SHARD = 150
EXTRA_TARGETS = ["corr/C20_expected.vo", "proofs/P_shape.vo", "proofs/P_shape_forms.vo", "proofs/P_shape_tables.vo"]
CASE_IMPORTS = [("PW.model", "M_shape"), ("PW.model", "M_inflection"), ("PW.model", "M_array"), ("PW.corr", "C20_expected")]
RULE = ("probe family derived from tools/api_registry.py: for every public callable (introspected; a callable "
        "without a registry entry fails the check) every documented form with k in {2,3}, and for every array "
        "argument position the mutations wrong trailing dimension / extra axis front / extra axis back / dropped "
        "axis / mismatched stack length; stacked-vs-row-by-row cases with k in {0,1,3}; direct probes of the shape "
        "helpers; 52 cases for the extra callables inflection_points / point_of_max_acceleration / find_repeats / "
        "find_changes (0..12 points, uniform exact and non-uniform spacing, straight lines, kinks, falling curves); "
        "values on dyadic grids from the seeded PRNG; non-trivial = the call returned (no exception); "
        "distinct by hash of the case")
TRUSTED = ["Coq 8.16.1 kernel, vm_compute (golden-contract equality, finite tables, correspondence evaluation)",
           "axioms (Print Assumptions of props/C20.v): the shape theorems use none; the `C20_x_` theorems about the extra "
           "callables are over Coq's Reals (ClassicalDedekindReals.sig_forall_dec, sig_not_dec, "
           "FunctionalExtensionality.functional_extensionality_dep, Classical_Prop.classic)",
           "extra callables: kernels run NumPy's own np.gradient code object with np.empty_like keeping dtype=object "
           "(tools/props/C20.py _object_gradient) through tools/symtrace.py; decisions of the inexact correspondence "
           "cases are compared only away from their thresholds (band 1e-6), exactly for uniform power-of-two spacing",
           "tools/astextract.py: fail-closed AST extraction of the shape checks (grammar in its docstring); what it "
           "cannot see: checks performed by callees (covered by the delegation table, validated by probing), value "
           "checks such as `if k < 1: raise ValueError`, and whether control reaches the checks through a raise",
           "coq/corr/C20_expected.v: golden contracts / delegation / documented-argument tables, hand-reviewed "
           "against the docstrings",
           "tools/api_registry.py: documented single/stacked forms, hand-written from the docstrings",
           "clause (1) shape strictness: the shape-check LAYER is proved for all shapes; per callable, `accepts exactly the "
           "documented forms` is proved over a stated finite shape universe (and for all k, m for two callables) and "
           "per callable (C20_all_shapes_coverage): 58 callables: `accepted iff a documented form` for ALL shapes and any receiver length (C20_accepts_iff_documented_form_all_shapes); 20 delegating callables: for all shapes only in CONTRACT terms (own symbolic forms and the callees' forms on the wired arguments, C20_delegating_accepts_iff_callee_forms_all_shapes; callees are covered / external / pass-through) and against their DOCUMENTED forms over the finite universe only; 8 callables: finite universe only (CheckSame / NeedsShape contracts and their delegators); 2 exempt even there (rodrigues_vector_to_rotation_matrix: refuted, known finding; cv2_rodrigues: oracle only); world_to_view's `up` is the one not-modelled (callable, argument) pair; everything else validated by probes; clause (2) stacked = row by row and clause (3) purity / determinism / "
           "rejection: VALIDATED on the probe family only",
           "NumPy, vg"]
ASSUMPTIONS = ["SPECIFICATION JUDGEMENT CALL: `one item against a stack` -- points (3,) with plane_equations (m,4) for "
               "signed_distance_to_plane / project_point_to_plane / mirror_point_across_plane, and points (3,) with "
               "reference_points_of_lines / vectors_along_lines (m,3) for project_point_to_line -- is NOT in the docstrings; "
               "the registry lists it as documented because the code admits it explicitly (`-1 if k is None else k`) and "
               "computes it row by row; read strictly, it is an undocumented accepted form",
               "per-callable strictness, exact numbers of the 88 registered array-taking callables -- 58 callables: `accepted iff a documented form` for ALL shapes and any receiver length (C20_accepts_iff_documented_form_all_shapes); 20 delegating callables: for all shapes only in CONTRACT terms (own symbolic forms and the callees' forms on the wired arguments, C20_delegating_accepts_iff_callee_forms_all_shapes; callees are covered / external / pass-through) and against their DOCUMENTED forms over the finite universe only; 8 callables: finite universe only (CheckSame / NeedsShape contracts and their delegators); 2 exempt even there (rodrigues_vector_to_rotation_matrix: refuted, known finding; cv2_rodrigues: oracle only); world_to_view's `up` is the one not-modelled (callable, argument) pair",
               "clause (1) is a proof about the shape-check layer (M_shape.v) applied to the contracts extracted from "
               "the source; that NumPy code after the checks does not reject or broadcast further is validated by "
               "probing, not proved",
               "clauses (2) and (3) are validated on sampled values (dyadic grids) for a fixed probe family of shapes; "
               "they are not theorems",
               "the builder methods of CompositeTransform / CoordinateManager (append_transform, translate, rotate, "
               "reorient, flip, *scale, convert_units, tag_as, __setattr__) change their receiver by design (C03/C04 "
               "model them as state machines); for them only the arguments are required to be unchanged",
               "rejection is required for ndarray arguments of a wrong shape; non-array arguments (None, lists, Python "
               "numbers) are outside the property text and only probed for the shape helpers themselves"]

# theorems that only pin the shape of the model (true of the model by unfolding); reported separately by the driver
DEFINITIONAL = ["C20_x_too_few_points", "C20_all_shapes_covered_have_rows", "C20_all_shapes_coverage",
                "C20_callee_forms_env_independent", "C20_delegate_callees_are_covered_external_or_passthrough",
                "C20_no_single_shape_check_shape_any"]   # unfoldings / table look-ups that pin coverage, not clauses

INT_KINDS = {"faces", "faces8", "insidx", "segidx", "breaks"}
BOOL_KINDS = {"mask", "facemask"}


# =============================================================================================================
# values
# =============================================================================================================
def g(rng, lo=-4, hi=4, d=2):
    return rng.randint(lo * d, hi * d) / d


def jit(rng, anchor, amp=0.25):
    return np.array([a + rng.randint(-2, 2) * amp / 2 for a in anchor], dtype=np.float64)


TRI_ANCHORS = {"tri0": (0.0, 0.0, 0.0), "tri1": (2.0, 0.0, 0.0), "tri2": (0.0, 2.0, 1.0)}
ANCHORS = {"pt0": (0.0, 0.0, 0.0), "campos": (0.5, 1.0, 5.0), "up": (0.0, 1.0, 0.0), "look": (0.0, 0.0, 1.0),
           "tiltpt": (1.0, 0.0, 1.0)}
ROTS = [[[1, 0, 0], [0, 1, 0], [0, 0, 1]], [[0, -1, 0], [1, 0, 0], [0, 0, 1]], [[0, 0, 1], [0, 1, 0], [-1, 0, 0]],
        [[1, 0, 0], [0, 0, -1], [0, 1, 0]], [[0, 1, 0], [0, 0, 1], [1, 0, 0]], [[-1, 0, 0], [0, -1, 0], [0, 0, 1]]]


def generic(kind, shape, rng):
    n = int(np.prod(shape)) if len(shape) else 1
    if kind in INT_KINDS:
        return np.array([rng.randint(0, 3) for _ in range(n)], dtype=np.int64).reshape(shape)
    if kind in BOOL_KINDS:
        return np.array([rng.random() < 0.5 for _ in range(n)], dtype=bool).reshape(shape)
    if kind in ("pos",):
        return np.array([rng.randint(1, 8) / 2 for _ in range(n)], dtype=np.float64).reshape(shape)
    if kind == "frac":
        return np.array([rng.randint(0, 8) / 8 for _ in range(n)], dtype=np.float64).reshape(shape)
    if kind == "angles":
        return np.array([rng.randint(-6, 6) * 15.0 for _ in range(n)], dtype=np.float64).reshape(shape)
    a = np.array([g(rng) for _ in range(n)], dtype=np.float64).reshape(shape)
    if kind in ("vec", "eq", "axis", "rodrigues", "up", "look") and a.ndim >= 1 and a.shape[-1] >= 1 and a.size:
        flat = a.reshape(-1, a.shape[-1])
        w = min(3, flat.shape[1])
        for row in flat:
            if not np.any(row[:w]):
                row[0] = 1.0
        a = flat.reshape(shape)
    return a


def build(kind, shape, rng, recv):
    """a value of the given kind and shape; structured (valid for the callable) when the shape allows it"""
    if shape == "number":
        return rng.randint(0, 8) / 8
    shape = tuple(shape)
    if kind in TRI_ANCHORS and shape == (3,):
        return jit(rng, TRI_ANCHORS[kind])
    if kind in ANCHORS and shape == (3,):
        return jit(rng, ANCHORS[kind])
    if kind in ("axis", "axis_x", "axis_y") and shape == (3,):
        a = np.zeros(3)
        i = {"axis_x": 0, "axis_y": 1}.get(kind, rng.randrange(3))
        a[i] = 1.0 if kind != "axis" else rng.choice([1.0, -1.0])
        return a
    if kind == "tri" and len(shape) >= 2 and shape[-2:] == (3, 3):
        k = int(np.prod(shape[:-2])) if len(shape) > 2 else 1
        out = np.zeros((k, 3, 3))
        for t in out:
            p0 = np.array([g(rng), g(rng), g(rng)])
            t[0] = p0
            t[1] = p0 + np.array([1 + rng.randint(0, 4) / 2, 0.0, rng.randint(-2, 2) / 2])
            t[2] = p0 + np.array([rng.randint(-2, 2) / 2, 1 + rng.randint(0, 4) / 2, rng.randint(-2, 2) / 2])
        return out.reshape(shape)
    if kind == "seg" and len(shape) == 3 and shape[1:] == (2, 3):
        out = np.zeros(shape)
        for s in out:
            s[0] = [g(rng), g(rng), g(rng)]
            s[1] = s[0] + generic("vec", (3,), rng)
        return out
    if kind == "mat4" and shape == (4, 4):
        m = np.eye(4)
        s = rng.choice([0.5, 2.0, 1.0])
        m[0, 0] = m[1, 1] = m[2, 2] = s
        m[:3, 3] = [g(rng), g(rng), g(rng)]
        return m
    if kind in ("rot3", "rodrigues") and shape == (3, 3):
        return np.array(rng.choice(ROTS), dtype=np.float64)
    if kind in ("rot3", "rodrigues") and shape == (3,):
        v = np.array([rng.randint(-4, 4) / 4 for _ in range(3)])
        if not v.any():
            v[1] = 0.5
        return v
    if kind in ("distinct", "curve", "cloud") and len(shape) == 2:
        k, n = shape
        out = np.zeros(shape)
        for i in range(k):
            for j in range(n):
                out[i, j] = (i * (1.0 if j == 0 else 0.5 * ((i * (j + 1)) % 3 - 1)) + (0.25 * j))
        if kind == "cloud":
            out = out + generic("pt", shape, rng) / 4
        return out
    if kind == "faces" and len(shape) == 2 and shape[1] == 3:
        perms = list(itertools.permutations(range(4), 3))
        return np.array([rng.choice(perms) for _ in range(shape[0])], dtype=np.int64).reshape(shape)
    if kind == "faces8":
        n = int(np.prod(shape)) if len(shape) else 1
        return np.array([rng.randint(0, 7) for _ in range(n)], dtype=np.int64).reshape(shape)
    if kind == "nearpoly" and recv is not None and hasattr(recv, "v") and len(shape) >= 1 and shape[-1] == 3:
        n = int(np.prod(shape[:-1])) if len(shape) > 1 else 1
        rows = []
        for j in range(n):
            i = rng.randrange(recv.num_v - 1)
            f = rng.randint(1, 15) / 16          # distinct interior parameters, exact in binary64
            off = np.array([rng.randint(-2, 2), rng.randint(-2, 2), rng.randint(-2, 2)]) / 16
            rows.append(recv.v[i] * (1 - f) + recv.v[i + 1] * f + off)
        return np.array(rows, dtype=np.float64).reshape(shape)
    if kind == "vertex" and shape == (3,) and recv is not None:
        return np.array(recv.v[1])
    if kind == "vertex2" and shape == (3,) and recv is not None:
        return np.array(recv.v[recv.num_v - 2])
    if kind == "insidx" and len(shape) == 1 and recv is not None:
        return np.array([rng.randint(0, recv.num_v - 1) for _ in range(shape[0])], dtype=np.int64)
    if kind == "segidx" and len(shape) == 1 and recv is not None:
        idx = list(range(recv.num_e))
        rng.shuffle(idx)
        return np.array(sorted(idx[: min(shape[0], len(idx))]) + [0] * max(0, shape[0] - len(idx)), dtype=np.int64)
    if kind == "breaks" and len(shape) == 1 and recv is not None:
        idx = list(range(1, recv.num_v - 1))
        rng.shuffle(idx)
        return np.array(sorted(idx[: min(shape[0], len(idx))]) + [recv.num_v - 2] * max(0, shape[0] - len(idx)), dtype=np.int64)
    return generic(kind, shape, rng)


POLY_V = np.array([[0.0, 0.0, 0.0], [1.0, 0.0, 0.0], [1.0, 1.0, 0.0], [0.5, 1.5, 0.5], [0.0, 1.0, 1.0], [-0.5, 0.5, 1.5],
                   [-1.0, 0.0, 1.0]])


def make_recv(kind, rng):
    import polliwog
    if kind is None:
        return None
    if kind == "plane":
        return polliwog.Plane(np.array([g(rng), g(rng), g(rng)]), build("axis", (3,), rng, None))
    if kind == "plane0":
        return polliwog.Plane(np.zeros(3), np.array([0.0, 0.0, 1.0]))
    if kind == "box":
        return polliwog.Box(np.array([g(rng), g(rng), g(rng)]), generic("pos", (3,), rng))
    if kind == "line":
        return polliwog.Line(np.array([g(rng), g(rng), g(rng)]), generic("vec", (3,), rng))
    if kind.startswith("polyline"):
        closed = {"polyline_open": False, "polyline_closed": True}.get(kind, rng.random() < 0.5)
        s = rng.choice([1.0, 2.0, 0.5])
        return polliwog.Polyline(POLY_V * s + np.array([g(rng), g(rng), g(rng)]), is_closed=closed)
    if kind == "applied":
        from polliwog.transform import apply_transform
        return apply_transform(build("mat4", (4, 4), rng, None))
    if kind == "ct":
        t = polliwog.CompositeTransform()
        t.translate(np.array([g(rng), g(rng), g(rng)]))
        t.uniform_scale(2.0)
        t.rotate(np.array(rng.choice(ROTS), dtype=np.float64))
        return t
    if kind == "cm":
        c = polliwog.CoordinateManager()
        c.tag_as("a")
        c.translate(np.array([g(rng), g(rng), g(rng)]))
        c.tag_as("b")
        c.uniform_scale(2.0)
        c.tag_as("c")
        c.a = generic("pt", (3, 3), rng)
        return c
    raise KeyError(kind)


# =============================================================================================================
# snapshots (purity / determinism)
# =============================================================================================================
def snap(x, depth=0):
    if depth > 6:
        return "deep"
    if isinstance(x, np.ndarray):
        return ("nd", str(x.dtype), x.shape, x.tobytes() if x.dtype != object else repr(x.tolist()), bool(x.flags.writeable))
    if isinstance(x, (np.generic,)):
        return ("sc", str(x.dtype), x.tobytes())
    if isinstance(x, float):
        return ("f", x.hex())
    if isinstance(x, (int, bool, str, type(None), complex)):
        return ("p", repr(x))
    if isinstance(x, (list, tuple)):
        return (type(x).__name__, tuple(snap(e, depth + 1) for e in x))
    if isinstance(x, dict):
        return ("d", tuple((repr(k), snap(v, depth + 1)) for k, v in sorted(x.items(), key=lambda kv: repr(kv[0]))))
    import types
    if isinstance(x, types.FunctionType):
        cl = x.__closure__ or ()
        return ("fn", x.__qualname__, tuple(snap(c.cell_contents, depth + 1) for c in cl))
    if isinstance(x, (types.BuiltinFunctionType, types.MethodType, type)):
        return ("fn", getattr(x, "__qualname__", "?"))
    d = getattr(type(x), "__dict__", None) and x.__dict__ if hasattr(type(x), "__mro__") and "__dict__" in dir(type(x)) else None
    if isinstance(d, dict):
        return (type(x).__name__, snap(dict(d), depth + 1))
    return ("r", repr(x))


# =============================================================================================================
# documented forms
# =============================================================================================================
def sym(d):
    """'k>=2' -> ('k', 2)"""
    if isinstance(d, str):
        if ">=" in d:
            n, m = d.split(">=")
            return n, int(m)
        return d, 0
    return None


def instantiate(form, kval, b0):
    out = {}
    for a, sh in form.items():
        if sh is None or sh == "number":
            out[a] = sh
            continue
        dims = []
        for d in sh:
            s = sym(d)
            if s is None:
                dims.append(int(d))
            elif s[0] in b0:
                dims.append(b0[s[0]])
            else:
                dims.append(max(kval, s[1]))
        out[a] = tuple(dims)
    return out


def in_forms(e, shapes, b0):
    """are these shapes one of the documented forms of e (symbols unified consistently, minimum sizes honoured)"""
    for form in e.forms:
        env, ok = dict(b0), True
        for a in e.params:
            fs, sh = form.get(a), shapes.get(a)
            if fs is None or fs == "number":
                ok = ok and (sh == fs)
                continue
            if sh is None or sh == "number" or len(sh) != len(fs):
                ok = False
                break
            for d, n in zip(fs, sh):
                s = sym(d)
                if s is None:
                    ok = ok and (n == d)
                else:
                    if s[0] in env:
                        ok = ok and env[s[0]] == n
                    else:
                        env[s[0]] = n
                    ok = ok and n >= s[1]
            if not ok:
                break
        if ok:
            return True
    return False


def mutations(shape):
    shape = tuple(shape)
    out = []
    out.append(("zero_d", ()))
    if len(shape) >= 1:
        out.append(("trailing", shape[:-1] + (shape[-1] + 1,)))
        if shape[-1] >= 1:
            out.append(("trailing_minus", shape[:-1] + (shape[-1] - 1,)))
        out.append(("dropped_axis", shape[:-1]))
        out.append(("length", (shape[0] + 1,) + shape[1:]))
        out.append(("dropped_first_axis", shape[1:]))
    out.append(("extra_axis_back", shape + (1,)))
    out.append(("extra_axis_front", (1,) + shape))
    return out


def linked_length_probes(form, kv, b0):
    users = {}
    for a, fs in form.items():
        if isinstance(fs, tuple):
            for i, d in enumerate(fs):
                if sym(d) is not None:
                    users.setdefault(sym(d)[0], []).append((a, i))
    out = []
    k = max(kv, 2)
    for name, us in users.items():
        linked = len({a for a, _ in us}) >= 2 or name in b0
        if not linked:
            continue
        base = instantiate(form, k, b0)
        for a0 in sorted({a for a, _ in us}):
            for this, others in ((1, None), (None, 1)):
                sh = {a: (list(v) if isinstance(v, tuple) else v) for a, v in base.items()}
                for a, i in us:
                    val = this if a == a0 else others
                    if val is not None:
                        sh[a][i] = val
                out.append({a: (tuple(v) if isinstance(v, list) else v) for a, v in sh.items()})
    return out


def recv_b0(e, seed):
    if e.b0 is None:
        return {}
    return e.b0(make_recv(e.recv, random.Random(seed)))


def probes_for(e, seeds, kvals):
    """list of cases for one registry entry"""
    cases, seen = [], set()

    nvar = max(1, len(e.variants))

    def emit(kind, shapes, seed):
        # documented forms are exercised under EVERY flag combination (variant); wrong shapes under the default one
        for vi in (range(nvar) if kind in ("valid", "noarray") else [0]):
            key = (tuple(sorted((a, s) for a, s in shapes.items())), seed, vi)
            if key in seen:
                continue
            seen.add(key)
            cases.append({"kind": kind if vi == 0 else kind + "_flags", "callable": e.public,
                          "shapes": {a: (list(s) if isinstance(s, tuple) else s) for a, s in shapes.items()},
                          "seed": seed, "variant": vi})

    for seed in seeds:
        b0 = recv_b0(e, seed)
        if not e.params:
            emit("noarray", {}, seed)
            continue
        for fi, form in enumerate(e.forms):
            for kv in kvals:
                base = instantiate(form, kv, b0)
                emit("valid", base, seed)
                for a in e.params:
                    if base.get(a) is None or base.get(a) == "number":
                        continue
                    for label, ms in mutations(base[a]):
                        sh = dict(base)
                        sh[a] = ms
                        emit("valid" if in_forms(e, sh, b0) else "wrong_" + label, sh, seed)
                # length-linked arguments (a symbol shared by >= 2 arguments, or with the receiver): a stack of
                # length 1 against stacks of length k >= 2 and the converse -- the one mismatch NumPy broadcasts
                for sh in linked_length_probes(form, kv, b0):
                    emit("valid" if in_forms(e, sh, b0) else "wrong_length_one", sh, seed)
        if e.stack:
            for kv in ([0] if e.stack.get("empty") else []) + [1, 3, 5]:
                form = e.forms[-1]
                base = instantiate({a: tuple(("k" if isinstance(d, str) else d) for d in s) if isinstance(s, tuple) else s
                                    for a, s in form.items()}, kv, b0)
                for vi in range(nvar):
                    for rep in range(1 if kv == 0 else STACK_REPS):
                        c = {"kind": ("stack_empty" if kv == 0 else "stack") + ("" if vi == 0 else "_flags"),
                             "callable": e.public,
                             "shapes": {a: (list(s) if isinstance(s, tuple) else s) for a, s in base.items()},
                             "seed": seed + 7919 * rep, "stack": True, "variant": vi}
                        cases.append(c)
    return cases


STACK_REPS = 2   # value seeds per stacked-vs-row-by-row comparison (rows must differ: generators give distinct rows)

HELPER_SHAPES = [None, "number", (), (3,), (4,), (2,), (0, 3), (1, 3), (2, 3), (2, 4), (3, 3), (2, 3, 3), (3, 2, 3), (2, 3, 1)]


def helper_cases():
    out = []
    for sh in HELPER_SHAPES:
        for h in ({"fn": "check", "pattern": [-1, 3]}, {"fn": "check", "pattern": [3]}, {"fn": "check_value", "pattern": [-1, 3, 3]},
                  {"fn": "check_shape_any", "patterns": [[3], [-1, 3]]}, {"fn": "check_shape_any", "patterns": [[4], [-1, 4]]}, {"fn": "check_shape_any", "patterns": [[-1, 3]]},
                  {"fn": "columnize", "pattern": [-1, 3]}, {"fn": "columnize", "pattern": [-1, 3, 3]},
                  {"fn": "columnize", "pattern": [-1]}):
            out.append({"kind": "helper", "helper": h, "shape": list(sh) if isinstance(sh, tuple) else sh})
    return out


# ---- extra callables: polyline._inflection_points and polyline._array ------------------------------------------
AXES = [([0.0, 1.0, 0.0], [1.0, 0.0, 0.0]), ([0.0, 0.0, 1.0], [0.0, 1.0, 0.0]), ([0.0, 2.0, 0.0], [0.5, 0.0, 0.0]),
        ([1.0, 0.0, 0.0], [0.0, 0.0, 1.0])]


def _curve(rng, n, exact, flavour):
    """n points with strictly increasing run coordinate (dyadic); exact: uniform power-of-two spacing"""
    rise_ax, run_ax = rng.choice(AXES)
    h = rng.choice([0.5, 1.0, 2.0, 0.25])
    x, xs = rng.randint(-8, 8) / 2, []
    for i in range(n):
        xs.append(x)
        x += h if exact else rng.choice([0.5, 1.0, 1.5, 2.0, 3.0, 0.25])
    if flavour == "line":                      # zeros in fd2 everywhere
        a, b = rng.randint(-4, 4) / 2, rng.randint(-4, 4) / 2
        ys = [a * t + b for t in xs]
    elif flavour == "falling":                 # no valid point: first differences negative
        ys, y = [], 4.0
        for i in range(n):
            ys.append(y)
            y -= rng.randint(1, 6) / 2
    elif flavour == "rising":
        ys, y = [], -4.0
        for i in range(n):
            ys.append(y)
            y += rng.randint(1, 8) / 2
    elif flavour == "kinked":                  # piecewise linear: exact zeros and ties in fd2
        ys, y, sl = [], 0.0, rng.randint(-3, 3) / 2
        for i in range(n):
            ys.append(y)
            if rng.random() < 0.35:
                sl = rng.randint(-4, 4) / 2
            y += sl * ((xs[i + 1] - xs[i]) if i + 1 < n else 1.0)
    else:
        ys = [rng.randint(-8, 8) / 2 for _ in range(n)]
    ri = [j for j in range(3) if run_ax[j] != 0][0]
    si = [j for j in range(3) if rise_ax[j] != 0][0]
    oi = [j for j in range(3) if j not in (ri, si)][0]
    pts = []
    for t, y in zip(xs, ys):
        p = [0.0, 0.0, 0.0]
        p[ri], p[si], p[oi] = t / run_ax[ri], y / rise_ax[si], rng.randint(-4, 4) / 2
        pts.append(p)
    return pts, rise_ax, run_ax


def _grad(xs, fs):
    """np.gradient(fs, xs), edge_order 1, in exact rationals (same formula as M_inflection.grad_at)"""
    n = len(xs)
    out = []
    for i in range(n):
        if i == 0:
            out.append((fs[1] - fs[0]) / (xs[1] - xs[0]))
        elif i == n - 1:
            out.append((fs[i] - fs[i - 1]) / (xs[i] - xs[i - 1]))
        else:
            d1, d2 = xs[i] - xs[i - 1], xs[i + 1] - xs[i]
            out.append(-d2 / (d1 * (d1 + d2)) * fs[i - 1] + (d2 - d1) / (d1 * d2) * fs[i] + d1 / (d2 * (d1 + d2)) * fs[i + 1])
    return out


def _base(c):
    return c.get("base", c["kind"])


def judged(c):
    """how much of an inflection / maxacc case K_C20.check_case really compares (mirrors its 1e-6 band):
    (decisions compared, decisions skipped) or None when the case is outside the model"""
    from fractions import Fraction as Fr
    pts = [[Fr(x) for x in p] for p in c["points"]]
    n = len(pts)
    if n < 2:
        return (1, 0)
    dot = lambda p, a: sum(x * Fr(y) for x, y in zip(p, a))
    xs, ys = [dot(p, c["run"]) for p in pts], [dot(p, c["rise"]) for p in pts]
    inc = all(a < b for a, b in zip(xs, xs[1:]))
    dec = all(a > b for a, b in zip(xs, xs[1:]))
    if not (inc or dec):
        return None
    d1 = _grad(xs, ys)
    d2 = _grad(xs, d1)
    band = Fr(1, 10 ** 6)
    if _base(c) == "inflection":
        far = sum(1 for i in range(n - 1) if c["exact"] or abs(d2[i] * d2[i + 1]) > band)
        return (far + 1, (n - 1) - far)
    valid = [0 < i < n - 1 and d1[i - 1] > 0 and d1[i + 1] > 0 for i in range(n)]
    cands = [i for i in range(n) if valid[i]]
    best = None if not cands else max(cands, key=lambda i: (d2[i], -i))
    clear = all(abs(v) > band for v in d1) and (best is None or all(j == best or abs(d2[best] - d2[j]) > band for j in cands))
    return (1, 0) if (c["exact"] or clear) else (0, 1)


def extra_cases(rng, reps):
    out = []
    for rep in range(reps):
        for kind in ("inflection", "maxacc"):
            for n, exact, fl in ((0, True, "wiggle"), (1, True, "wiggle"), (2, True, "rising"), (3, True, "wiggle"),
                                 (4, True, "line"), (5, True, "kinked"), (6, True, "kinked"), (7, True, "wiggle"),
                                 (8, True, "falling"), (6, True, "rising"), (9, True, "kinked"), (5, True, "wiggle"),
                                 (4, False, "wiggle"), (5, False, "wiggle"), (6, False, "rising"), (7, False, "wiggle"),
                                 (8, False, "falling"), (9, False, "wiggle"), (12, False, "wiggle"), (3, False, "rising")):
                pts, rise_ax, run_ax = _curve(rng, n, exact, fl)
                if rng.random() < 0.3:
                    pts = pts[::-1]          # the same curve traversed against the run axis (decreasing coordinates)
                case = {"kind": kind, "base": kind, "exact": exact, "flavour": fl, "points": pts, "rise": rise_ax, "run": run_ax}
                j = judged(case)
                # the evidence histogram shows how many cases K really judges: <kind> = every decision compared,
                # <kind>_partly_judged / _not_judged = decisions inside the 1e-6 band skipped, _outside_model = Ok None
                case["judged"] = j
                if j is None:
                    case["kind"] = kind + "_outside_model"
                elif j[1] != 0:
                    case["kind"] = kind + ("_partly_judged" if j[0] > 0 else "_not_judged")
                case["base"] = kind
                out.append(case)
        for wrap in (False, True):
            for n in (0, 1, 2, 3, 5, 8):
                arr = [float(rng.randint(0, 2)) for _ in range(n)]
                out.append({"kind": "find", "base": "find", "arr": arr, "wrap": wrap})
    return out


def run_extra(c):
    from polliwog.polyline import inflection_points, point_of_max_acceleration
    from polliwog.polyline._array import find_changes, find_repeats
    if _base(c) == "find":
        arr = np.array(c["arr"], dtype=np.float64)
        before = arr.copy()

        def go():
            rep, chg = find_repeats(arr, wrap=c["wrap"]), find_changes(arr, wrap=c["wrap"])
            return {"outcome": "ok", "rep": [bool(x) for x in rep], "chg": [bool(x) for x in chg],
                    "args_unchanged": bool(np.array_equal(before, arr)),
                    "deterministic": [bool(x) for x in find_repeats(arr, wrap=c["wrap"])] == [bool(x) for x in rep]}
        return call_impl(go)
    pts = np.array(c["points"], dtype=np.float64).reshape(-1, 3)
    rise, run = np.array(c["rise"]), np.array(c["run"])
    before = (pts.copy(), rise.copy(), run.copy())
    fn = inflection_points if _base(c) == "inflection" else point_of_max_acceleration

    def rows_to_indices(rows):
        idx = []
        for r in np.asarray(rows).reshape(-1, 3):
            hits = [i for i in range(len(pts)) if np.array_equal(pts[i], r)]
            idx.append(hits[0] if len(hits) == 1 else -1)
        return idx

    def go():
        r1 = fn(pts, rise, run)
        r2 = fn(pts, rise, run)
        o = {"outcome": "ok", "args_unchanged": all(np.array_equal(a, b) for a, b in zip(before, (pts, rise, run))),
             "deterministic": snap(r1) == snap(r2)}
        if _base(c) == "inflection":
            o["indices"] = rows_to_indices(r1)
        else:
            o["index"] = None if r1 is None else rows_to_indices(r1)[0]
        return o
    return call_impl(go)


def coq_extra(c, o):
    from common import coq_bool, coq_list, coq_nat, q, qv
    if _base(c) == "find":
        if "raise" in o:
            return "CFind [] false [true] []"   # no call of find_* is expected to raise: make the case fail
        return "CFind %s %s %s %s" % (coq_list(q(x) for x in c["arr"]), coq_bool(c["wrap"]),
                                      coq_list(coq_bool(b) for b in o["rep"]), coq_list(coq_bool(b) for b in o["chg"]))
    pts = coq_list(qv(p) for p in c["points"])
    head = "%s %s %s %s %s" % ("CInflection" if _base(c) == "inflection" else "CMaxAcc", coq_bool(c["exact"]), pts,
                               qv(c["rise"]), qv(c["run"]))
    if "raise" in o:
        known = {"ValueError", "IndexError", "KeyError", "AttributeError", "TypeError", "AssertionError", "ZeroDivisionError"}
        return "%s (Raise %s)" % (head, o["raise"] if o["raise"] in known else "OtherError")
    if _base(c) == "inflection":
        return "%s (Ok %s)" % (head, coq_list(coq_nat(i) for i in o["indices"]))
    return "%s (Ok %s)" % (head, "None" if o["index"] is None else "(Some %s)" % coq_nat(o["index"]))


def oracle_extra(c, o):
    if "raise" in o:
        # fewer than two points: point_of_max_acceleration raises ValueError; inflection_points fails inside
        # np.gradient with IndexError (mirrored by the model; the property text does not speak about it)
        if _base(c) == "maxacc" and len(c["points"]) < 2 and o["raise"] == "ValueError":
            return None
        if _base(c) == "inflection" and len(c["points"]) < 2 and o["raise"] in ("IndexError", "ValueError"):
            return None
        return "%s raised %s: %s" % (_base(c), o["raise"], o.get("msg"))
    if _base(c) != "find" and len(c["points"]) < 2:
        return "%s accepted fewer than two points" % _base(c)
    if not o["args_unchanged"]:
        return "%s modified an array argument" % _base(c)
    if not o["deterministic"]:
        return "%s called twice gave different results" % _base(c)
    if _base(c) == "inflection":
        idx = o["indices"]
        if any(i < 0 for i in idx):
            return "inflection_points returned a row that is not an input row"
        if idx != sorted(set(idx)) or (idx and idx[-1] >= len(c["points"]) - 1):
            return "inflection_points rows are not increasing input rows before the last one: %r" % idx
    elif _base(c) == "maxacc":
        i = o["index"]
        if i is not None and not (0 < i < len(c["points"]) - 1):
            return "point_of_max_acceleration returned row %r, which is not an interior input row" % i
    else:
        n = len(c["arr"])
        if len(o["rep"]) != n or len(o["chg"]) != n:
            return "find_repeats / find_changes: output length %d differs from input length %d" % (len(o["rep"]), n)
        if c["wrap"]:
            if any(a == b for a, b in zip(o["rep"], o["chg"])):
                return "find_changes is not the negation of find_repeats"
        elif o["rep"][0] or o["chg"][0] or any(a == b for a, b in zip(o["rep"][1:], o["chg"][1:])):
            return "find_repeats / find_changes (no wrap): first entry not False or not complementary afterwards"
    return None


EXTRA_KINDS = ("inflection", "maxacc", "find")


def gen_cases(rng, n, tier):
    miss = A.missing()
    if miss:
        raise RuntimeError("public callables without a registry entry (fail closed): %s" % miss)
    seeds = [rng.randrange(1 << 30) for _ in range(max(1, n))]
    kvals = [2] if tier == "quick" else [2, 3]
    cases = helper_cases() + extra_cases(random.Random(rng.randrange(1 << 30)), 1 if tier != "thorough" else 4)
    for e in A.R:
        cases.extend(probes_for(e, seeds, kvals))
    return cases


# =============================================================================================================
# running the implementation
# =============================================================================================================
def build_args(e, shapes, rng, recv):
    args = {}
    for a, kind in e.params.items():
        sh = shapes.get(a)
        if sh is None:
            continue
        args[a] = build(kind, sh if sh == "number" else tuple(sh), rng, recv)
    return args


def do_call(e, recv, args, variant=0):
    kw = dict(args)
    kw.update(e.kwargs)
    if e.variants:
        kw.update(e.variants[variant])
    if e.call is not None:
        return e.call(recv, kw)
    mod, _, name = e.qual.rpartition(".")
    import importlib
    pub_mod, pub_name = e.public.split(".")
    fn = getattr(importlib.import_module("polliwog." + pub_mod), pub_name)
    return fn(**kw)


def same(a, b, rtol):
    """row comparison for the stacked clause"""
    if isinstance(a, tuple) or isinstance(b, tuple):
        return isinstance(a, tuple) and isinstance(b, tuple) and len(a) == len(b) and all(same(x, y, rtol) for x, y in zip(a, b))
    if a is None or b is None:
        return a is None and b is None
    a, b = np.asarray(a), np.asarray(b)
    if a.shape != b.shape:
        return False
    if a.dtype.kind in "fc" or b.dtype.kind in "fc":
        if rtol:
            return bool(np.allclose(a, b, rtol=1e-12, atol=1e-12, equal_nan=True))
        return bool(np.array_equal(a, b, equal_nan=True))
    return bool(np.array_equal(a, b))


def row_of(res, i):
    if isinstance(res, tuple):
        return tuple(row_of(r, i) for r in res)
    return res[i]


def run_helper(c):
    from polliwog._common.shape import check_shape_any, columnize
    from vg.compat import v2 as vg
    sh = c["shape"]
    arr = None if sh is None else (0.5 if sh == "number" else np.zeros(tuple(sh)))
    h = c["helper"]

    def go():
        if h["fn"] == "check":
            arr_local = arr  # noqa: F841
            vg.shape.check({"x": arr}, "x", tuple(h["pattern"]))
        elif h["fn"] == "check_value":
            vg.shape.check_value(arr, tuple(h["pattern"]), name="x")
        elif h["fn"] == "check_shape_any":
            check_shape_any(arr, *[tuple(p) for p in h["patterns"]], name="x")
        else:
            columnize(arr, tuple(h["pattern"]), name="x")
        return {"outcome": "ok"}

    return call_impl(go)


def run_impl(c):
    if c["kind"] == "helper":
        return run_helper(c)
    if _base(c) in EXTRA_KINDS:
        return run_extra(c)
    e = A.BY_PUBLIC[c["callable"]]

    def setup():
        rng = random.Random(c["seed"])
        recv = make_recv(e.recv, rng)
        args = build_args(e, c["shapes"], rng, recv)
        return recv, args

    recv, args = setup()
    obs_inputs = {a: ({"shape": list(v.shape), "dtype": str(v.dtype), "hex": [float(x).hex() for x in v.reshape(-1)[:64]]}
                      if isinstance(v, np.ndarray) and v.dtype.kind == "f" else
                      ({"shape": list(v.shape), "dtype": str(v.dtype), "values": v.reshape(-1)[:64].tolist()}
                       if isinstance(v, np.ndarray) else v)) for a, v in args.items()}
    before_args = snap(args)
    before_recv = snap(recv)
    obs = {}
    vi = c.get("variant", 0)
    if e.variants:
        obs["flags"] = {k: (list(v) if isinstance(v, tuple) else v) for k, v in e.variants[vi].items()}
    try:
        r1 = do_call(e, recv, args, vi)
        obs["outcome"] = "ok"
    except Exception as ex:  # noqa
        r1 = None
        obs["outcome"] = exn_name(ex)
        obs["raise"] = exn_name(ex)
        obs["msg"] = str(ex)[:160]
    obs["inputs"] = obs_inputs   # the concrete arguments (exact hex floats), rebuilt deterministically from the seed
    obs["args_unchanged"] = snap(args) == before_args
    obs["recv_unchanged"] = True if e.mutator else (snap(recv) == before_recv)
    # determinism: the same call again (fresh, identically built inputs for the state-changing builders)
    # state carried between calls: the same call again ON THE SAME OBJECT, then the other flag combinations on the
    # same object, then the first call once more -- every answer is compared with a FRESH object's answer
    if obs["outcome"] == "ok":
        try:
            s1 = snap(r1)
            recv2, args2 = setup()
            fresh = snap(do_call(e, recv2, args2, vi))
            if e.mutator:
                obs["deterministic"] = s1 == fresh
            else:
                r2 = do_call(e, recv, args, vi)
                ok = (s1 == snap(r2) == fresh)
                why = None if ok else "the second identical call on the same object differs from the first / from a fresh object"
                if ok and e.recv is not None and e.variants:
                    for vj in range(len(e.variants)):
                        if vj == vi:
                            continue
                        rf, af = setup()
                        try:
                            want = snap(do_call(e, rf, af, vj))
                        except Exception:  # noqa
                            continue
                        got = snap(do_call(e, recv, args, vj))
                        if got != want:
                            ok, why = False, ("after the call with flags %r, the call with flags %r on the same object differs "
                                              "from a fresh object's answer" % (e.variants[vi], e.variants[vj]))
                            break
                    if ok and snap(do_call(e, recv, args, vi)) != fresh:
                        ok, why = False, "after calls with other flags the original call on the same object gives a different answer"
                    if snap(recv) != before_recv:
                        obs["recv_unchanged"] = False
                obs["deterministic"] = ok
                if why:
                    obs["msg"] = why
        except Exception as ex:  # noqa
            obs["deterministic"] = False
            obs["msg"] = "repeated call raised %s: %s" % (exn_name(ex), str(ex)[:100])
    # stacked = row by row
    if c.get("stack") and obs["outcome"] == "ok":
        st = e.stack
        k = None
        for a in st["args"]:
            sh = c["shapes"].get(a)
            if sh is not None and sh != "number":
                k = sh[0]
                break
        rows_ok, detail = True, None
        try:
            if k == 0:
                flat = r1 if not isinstance(r1, tuple) else r1[0]
                rows_ok = hasattr(flat, "shape") and np.asarray(flat).shape[0] == 0
                if not rows_ok:
                    detail = "empty stack did not give an empty result"
            else:
                for i in range(k):
                    ai = {}
                    for a, v in args.items():
                        stacked_here = a in st["args"] and isinstance(v, np.ndarray) and v.ndim >= 1 and v.shape[0] == k \
                            and tuple(c["shapes"][a]) != tuple(single_shape(e, a))
                        if stacked_here:
                            if st["single"]:
                                ai[a] = float(v[i]) if st.get("scalar_single") else np.array(v[i])
                            else:
                                ai[a] = np.array(v[i:i + 1])
                        else:
                            ai[a] = v
                    ri = do_call(e, recv, ai, vi)
                    if not st["single"]:
                        ri = row_of(ri, 0)
                    if not same(row_of(r1, i), ri, st.get("rtol", False)):
                        rows_ok, detail = False, "row %d of the stacked result differs from the result for that item alone" % i
                        break
        except Exception as ex:  # noqa
            rows_ok, detail = False, "row-by-row evaluation raised %s: %s" % (exn_name(ex), str(ex)[:100])
        obs["rows_ok"] = rows_ok
        obs["rows_detail"] = detail
    # results must not share state that outlives the call: overwrite, in place, every writeable array the first call
    # returned, then put the same question to a FRESH receiver with freshly built arguments.  (Only state outside the
    # receiver and the arguments -- module constants, memoised results -- can make that answer change; an accessor that
    # hands out the receiver's own array is not judged here.)
    if obs["outcome"] == "ok" and obs.get("deterministic") and not e.mutator:
        try:
            rf, af = setup()
            want = snap(do_call(e, rf, af, vi))
            for a in _result_arrays(r1):
                if a.flags.writeable and a.size:
                    try:
                        a[...] = 7
                    except Exception:  # noqa
                        pass
            rf, af = setup()
            if snap(do_call(e, rf, af, vi)) != want:
                obs["deterministic"] = False
                obs["msg"] = ("after the caller overwrote an earlier result in place, a fresh object given the same arguments "
                              "answers differently (results share state that outlives the call)")
        except Exception as ex:  # noqa
            obs["deterministic"] = False
            obs["msg"] = "call after overwriting an earlier result raised %s: %s" % (exn_name(ex), str(ex)[:100])
    return obs


def _result_arrays(x, depth=0):
    if isinstance(x, np.ndarray):
        return [x]
    if isinstance(x, (list, tuple)) and depth < 4:
        return [a for y in x for a in _result_arrays(y, depth + 1)]
    return []


def single_shape(e, a):
    sh = e.forms[0].get(a)
    if sh is None or sh == "number":
        return ("?",)
    return tuple(sh)


# =============================================================================================================
# Coq terms
# =============================================================================================================
def coq_shape(sh):
    return "[%s]" % "; ".join("%d%%nat" % d for d in sh)


def coq_argv(sh):
    if sh is None:
        return "ANone"
    if sh == "number":
        return "ANumber"
    return "(AArr %s)" % coq_shape(sh)


def coq_outcome(o):
    out = o.get("outcome") if isinstance(o, dict) else None
    if "raise" in o and out is None:
        out = o["raise"]
    if out == "ok":
        return "OAccept"
    known = {"ValueError", "IndexError", "KeyError", "AttributeError", "NotImplementedError", "TypeError",
             "AssertionError", "LinAlgError", "ZeroDivisionError"}
    return "(ORaise %s)" % (out if out in known else "OtherError")


def coq_dim(d):
    return "DAny" if d == -1 else "DInt %d%%nat" % d


def coq_pat(p):
    return "[%s]" % "; ".join(coq_dim(d) for d in p)


def coq_case(c, o):
    import re
    return re.sub(r'("[^"]*")', r'\1%string', _coq_case(c, o))


def _coq_case(c, o):
    if _base(c) in EXTRA_KINDS:
        return coq_extra(c, o)
    if c["kind"] == "helper":
        h = c["helper"]
        if h["fn"] in ("check", "check_value"):
            chk = 'Check "x" %s None' % coq_pat(h["pattern"])
        elif h["fn"] == "check_shape_any":
            chk = 'CheckAny "x" [%s] None' % "; ".join(coq_pat(p) for p in h["patterns"])
        else:
            chk = 'Columnize "x" %s' % coq_pat(h["pattern"])
        return 'CHelper (%s) [] [("x", %s)] %s' % (chk, coq_argv(c["shape"]), coq_outcome(o))
    e = A.BY_PUBLIC[c["callable"]]
    if not e.model or any(c["shapes"].get(a) is not None for a in e.unmodelled):
        return 'CNoModel "%s"' % e.qual
    b0 = recv_b0(e, c["seed"])
    b0t = "[%s]" % "; ".join('("%s", Some %d%%nat)' % (k, v) for k, v in sorted(b0.items()))
    args = "[%s]" % "; ".join('("%s", %s)' % (a, coq_argv(c["shapes"].get(a))) for a in e.params if a not in e.unmodelled)
    return 'CProbe "%s" %s %s %s' % (e.qual, b0t, args, coq_outcome(o))


# =============================================================================================================
# oracle: the property text on the implementation's own behaviour
# =============================================================================================================
def oracle(c, o):
    if c["kind"] == "helper":
        return None
    if _base(c) in EXTRA_KINDS:
        return oracle_extra(c, o)
    e = A.BY_PUBLIC[c["callable"]]
    if not o.get("args_unchanged", True):
        return "%s modified an array argument" % e.public
    if not o.get("recv_unchanged", True):
        return "%s modified the object it was called on" % e.public
    if o.get("deterministic") is False:
        return "%s called twice with the same arguments gave different results (%s)" % (e.public, o.get("msg", ""))
    shapes = {a: (tuple(s) if isinstance(s, list) else s) for a, s in c["shapes"].items()}
    ok_form = in_forms(e, shapes, recv_b0(e, c["seed"])) if e.params else True
    if ok_form and o["outcome"] != "ok":
        return "%s rejected a documented form %s with %s: %s" % (e.public, c["shapes"], o["outcome"], o.get("msg"))
    if not ok_form and o["outcome"] != "ValueError":
        what = "accepted it" if o["outcome"] == "ok" else "raised %s" % o["outcome"]
        return "%s: shapes %s are not a documented form, but the call %s instead of raising ValueError" % (
            e.public, c["shapes"], what)
    if c.get("stack") and o.get("rows_ok") is False:
        return "%s: %s" % (e.public, o.get("rows_detail"))
    return None


def classify(c, o, failure, disagrees):
    if disagrees:
        return None   # a model / implementation disagreement is never a known finding
    if _base(c) == "find" and failure and "output length" in failure and not c["arr"] and not c["wrap"]:
        return "polyline._array.find:empty_nowrap_length"
    if c["kind"] == "helper" or _base(c) in EXTRA_KINDS or not failure:
        return None
    e = A.BY_PUBLIC[c["callable"]]
    if "not a documented form" in failure:
        # the listed Rodrigues finding is exactly: an array with THREE elements whose shape is not (3,), (3,1), (1,3)
        # was ACCEPTED (and, where the callable is modelled, the model predicts that acceptance).  Anything else on
        # those callables -- other sizes accepted, another exception class, a model/implementation disagreement --
        # gets a key that is not a known finding and is reported.
        if e.public in ("transform.rodrigues_vector_to_rotation_matrix", "transform.cv2_rodrigues"):
            sh = c["shapes"].get("r")
            size = int(np.prod(sh)) if isinstance(sh, list) else None
            listed = (o.get("outcome") == "ok" and size == 3 and tuple(sh) not in ((3,), (3, 1), (1, 3))
                      and not disagrees)
            return "%s:%s" % (e.public, "off_contract_not_rejected" if listed else "other_off_contract_behaviour")
        return "%s:off_contract_not_rejected" % e.public
    if "differs from the result for that item alone" in failure or "empty stack" in failure or "row-by-row" in failure:
        return "%s:stack_rows" % e.public
    return None


# =============================================================================================================
# extraction hook and the golden-contract tie
# =============================================================================================================
def coq_tables(defs=("delegation", "documented_args", "external_contracts", "not_modelled", "documented_forms")):
    """Coq text of the delegation and documented-argument tables generated from the registry"""
    rows = []
    for e in sorted(A.R, key=lambda e: e.qual):
        ds = A.effective_delegs(e)
        if not ds:
            continue
        dt = []
        for callee, w in ds:
            ws = []
            for k, src in w.items():
                if isinstance(src, tuple):
                    ws.append('("%s", Const (%s))' % (k, src[1]))
                else:
                    ws.append('("%s", FromArg "%s")' % (k, src))
            dt.append('MkDelegate "%s" [%s]' % (callee, "; ".join(ws)))
        rows.append('  ("%s", [\n     %s])' % (e.qual, ";\n     ".join(dt)))
    doc = []
    for e in sorted(A.R, key=lambda e: e.qual):
        if e.params:
            doc.append('  ("%s", [%s])' % (e.qual, "; ".join('"%s"' % a for a in e.params if a not in e.unmodelled)))
    def fsh(sh):
        if sh is None:
            return "FNone"
        if sh == "number":
            return "FNumber"
        return "FArr [%s]" % "; ".join(('FSym "%s"' % sym(d)[0]) if isinstance(d, str) else "FInt %d" % d for d in sh)
    frm = []
    for e in sorted(A.R, key=lambda e: e.qual):
        if e.params:
            fs = []
            for f in e.forms:   # forms projected on the modelled parameters (duplicates removed)
                t = "[%s]" % "; ".join('("%s", %s)' % (a, fsh(f.get(a))) for a in e.params if a not in e.unmodelled)
                if t not in fs:
                    fs.append(t)
            frm.append('  ("%s", [\n     %s])' % (e.qual, ";\n     ".join(fs)))
    ext = ";\n".join('  ("%s", [%s])' % (n, "; ".join(cs)) for n, cs in A.EXTERNAL)
    unm = "; ".join('"%s"' % e.qual for e in sorted(A.R, key=lambda e: e.qual) if e.params and not e.model)
    unma = "; ".join('("%s", "%s")' % (e.qual, a) for e in sorted(A.R, key=lambda e: e.qual) for a in sorted(e.unmodelled))
    return ("Definition %s : list (string * list delegate) := [\n%s\n].\n\n"
            "Definition %s : list (string * list string) := [\n%s\n].\n\n"
            "(* checks performed outside polliwog (vg), hand-written from site-packages/vg/core.py *)\n"
            "Definition %s : contracts := [\n%s\n].\n\n"
            "(* callables whose acceptance logic is not a sequence of shape checks (judged by the oracle only) *)\n"
            "Definition %s : list string := [%s].\n\n"
            "(* (callable, array parameter) pairs that are rejected by something else than a shape check (world_to_view's `up`:\n"
            "   by vg.cross / np.array); the callable is modelled with that parameter ignored, the tables below omit it, and\n"
            "   probes that pass it are judged by the oracle only *)\n"
            "Definition not_modelled_args : list (string * string) := [%s].\n\n"
            "(* the documented single / stacked forms of every registered array-taking callable (arguments in the order of\n"
            "   documented_args; length symbols shared between arguments; minimum sizes are value checks and omitted) *)\n"
            "Definition %s : list (string * list form) := [\n%s\n].\n"
            % (defs[0], ";\n".join(rows), defs[1], ";\n".join(doc), defs[2], ext, defs[3], unm, unma, defs[4], ";\n".join(frm)))


def pre_build(bdir):
    miss = A.missing()
    if miss:
        raise RuntimeError("public callables without a registry entry (fail closed): %s" % miss)
    unreg = A.unregistered_parameters()
    if unreg:
        raise RuntimeError("parameters of public callables registered neither as array nor as non-array "
                           "(fail closed): %s" % unreg)
    astextract.write_contracts(REPO, os.path.join(bdir, "Contracts.v"))
    with open(os.path.join(bdir, "Registry.v"), "w") as f:
        f.write("(* generated from tools/api_registry.py -- do not edit *)\nFrom Coq Require Import List String.\n"
                "From PW.model Require Import M_shape.\nImport ListNotations.\nLocal Open Scope string_scope.\n\n")
        f.write(coq_tables(("gen_delegation", "gen_documented_args", "gen_external_contracts", "gen_not_modelled",
                            "gen_documented_forms")).replace("Definition not_modelled_args", "Definition gen_not_modelled_args"))
    for fn in ("Contracts.v", "Registry.v"):
        p = subprocess.run(["timeout", "120", "coqc", "-w", "-all", "-Q", os.path.join(VERIF, "coq"), "PW", "-Q", bdir, "Gen",
                            os.path.join(bdir, fn)], stdout=subprocess.PIPE, stderr=subprocess.STDOUT, text=True)
        if p.returncode != 0:
            raise RuntimeError("%s does not compile:\n%s" % (fn, p.stdout[-1500:]))


# ---- traced kernels for the extra callables ------------------------------------------------------------------------
# np.gradient allocates its output with dtype float64 whenever the input dtype is not inexact, so the tracer's object
# arrays cannot pass through it unchanged.  The kernels therefore run NumPy's OWN gradient code object (same
# bytecode, same globals) with a single substitution: `np.empty_like(f, dtype=...)` keeps dtype=object for object
# arrays.  Nothing of the formula is re-implemented here.
def _object_gradient():
    import types
    real = np.gradient.__wrapped__

    class _NpObj:
        def __getattr__(self, k):
            return getattr(np, k)

        @staticmethod
        def empty_like(f, dtype=None, **kw):
            if getattr(f, "dtype", None) == object:
                return np.empty_like(f)
            return np.empty_like(f, dtype=dtype, **kw)

    g = dict(real.__globals__)
    g["np"] = _NpObj()
    fn = types.FunctionType(real.__code__, g, "gradient", real.__defaults__, real.__closure__)
    fn.__kwdefaults__ = real.__kwdefaults__
    return fn


class _GradProxy:
    def __init__(self, inner, grad):
        self._inner, self._grad = inner, grad

    def __getattr__(self, k):
        return self._grad if k == "gradient" else getattr(self._inner, k)


def _with_object_gradient(fname):
    grad = _object_gradient()

    def call(p, u, r):
        import polliwog.polyline._inflection_points as M
        orig = M.np
        M.np = _GradProxy(orig, grad)
        try:
            return getattr(M, fname)(p, u, r)
        finally:
            M.np = orig
    return call


INFL_SCENARIOS = {
    4: [[0.0, 0.0, 0.0], [1.0, 1.0, 0.5], [2.5, 0.5, 0.0], [3.0, 2.0, 1.0]],
    5: [[0.0, 0.0, 0.0], [1.0, 2.0, 0.5], [2.5, 2.5, 0.0], [3.0, 1.0, 1.0], [5.0, 4.0, 0.5]],
}
UNFOLD = ("cbv -[Rplus Rminus Rmult Rdiv Ropp Rinv Rleb Rltb Reqb IZR]")


def extra_kernels():
    ks = []
    for n, pts in INFL_SCENARIOS.items():
        P = "[%s]" % "; ".join("V3 p%d p%d p%d" % (3 * i, 3 * i + 1, 3 * i + 2) for i in range(n))
        for fname, short in (("inflection_points", "infl"), ("point_of_max_acceleration", "maxacc")):
            call = _with_object_gradient(fname)
            res = call(np.array(pts), np.array([0.0, 1.0, 0.0]), np.array([1.0, 0.0, 0.0]))
            parr = np.array(pts)
            if short == "infl":
                idx = [[i for i in range(n) if np.array_equal(parr[i], row)][0] for row in res]
                model = "inflection_indices ROps %s (V3 u0 u1 u2) (V3 r0 r1 r2) = [%s]" % (P, "; ".join("%d%%nat" % i for i in idx))
                rows = idx
                struct = {"shape": [len(idx), 3], "data": ["e"] * (3 * len(idx))}
            else:
                i = None if res is None else [i for i in range(n) if np.array_equal(parr[i], res)][0]
                model = "max_acceleration_index ROps %s (V3 u0 u1 u2) (V3 r0 r1 r2) = %s" % (P, "None" if i is None else "Some %d%%nat" % i)
                rows = [] if i is None else [i]
                struct = None if i is None else {"shape": [3], "data": ["e"] * 3}
            outs = "[%s]" % "; ".join("p%d" % (3 * i + j) for i in rows for j in range(3))
            lemma = ("Lemma {T}_ok : forall {vars} : R, {T}_path ROps {vars} ->\n  %s /\\\n  {T} ROps {vars} = %s.\n"
                     "Proof. intros {vars} Hpath. unfold {T}_path in Hpath; rops. split; [|reflexivity].\n"
                     "  %s; rops.\n"
                     "  (* every comparison the model makes is, term for term, one the code decided: rewrite with the path *)\n"
                     "  repeat match type of Hpath with _ /\\ _ => let H := fresh \"Hp\" in destruct Hpath as [H Hpath]; try rewrite H end.\n"
                     "  reflexivity. Qed." % (model, outs, UNFOLD))
            ks.append(Kernel("%s%d" % (short, n), {"p": pts, "u": [0.0, 1.0, 0.0], "r": [1.0, 0.0, 0.0]}, call, lemma,
                             imports=[("PW.model", "M_inflection")], expect_structure=struct, perturb=1e-6, timeout=240))
    return ks


def kernels():
    return contract_kernels() + extra_kernels()


def contract_kernels():
    lemma = """(* the contracts as they are in the source now are the reviewed golden contracts *)
Definition differing : list string :=
  map fst (filter (fun nc => negb (contract_eqb (snd nc) (contract_of expected (fst nc)))) extracted) ++
  map fst (filter (fun nc => negb (contract_eqb (snd nc) (contract_of extracted (fst nc)))) expected).
Eval vm_compute in differing.
Lemma contracts_as_documented : extracted = expected.
Proof. apply (dec_true (contracts_eq_dec extracted expected)). vm_compute. reflexivity. Qed.
(* the delegation / documented-argument tables generated from tools/api_registry.py are the committed ones *)
Lemma registry_tables_as_committed :
  gen_delegation = delegation /\\ gen_documented_args = documented_args /\\
  gen_external_contracts = external_contracts /\\ gen_not_modelled = not_modelled /\\
  gen_documented_forms = documented_forms /\\ gen_not_modelled_args = not_modelled_args.
Proof. repeat split; vm_compute; reflexivity. Qed."""
    return [Kernel("contracts", {}, lambda: None, lemma,
                   imports=[("Coq", "String"), ("PW.model", "M_shape"), ("PW.proofs", "P_shape"), ("PW.corr", "C20_expected"), ("Gen", "Contracts"),
                            ("Gen", "Registry")], validate_n=0, timeout=120)]


def golden_text():
    """text of coq/corr/C20_expected.v for the tree at $POLLIWOG_REPO (for a maintainer to REVIEW and commit;
    never written by a check)"""
    c = astextract.extract(REPO)
    body = astextract.coq_contracts(c, "expected")
    body = body.replace("(* generated by tools/astextract.py -- do not edit *)\n", "")
    head = ("(* GOLDEN shape contracts of polliwog (C20): what every function / method of every non-test module checks\n"
            "   directly, in program order, as reviewed against the documented single / stacked forms of each docstring.\n"
            "   Produced with `python tools/props/C20.py golden` on /repo after the fix commits 41f0cd6 (euler), e40d90b\n"
            "   (intersect_lines / intersect_2d_lines), 0ead1a8 (Plane point selection / line_segment_xsections), 647303a\n"
            "   (slice_triangles_by_plane mask length), 529236b (subdivide_segment(s)), 5ca020b (Polyline.aligned_along_subsegment,\n"
            "   with_segments_bisected; later 9cca2eb), then reviewed by hand.  Every check re-extracts the contracts from the source and proves\n"
            "   `extracted = expected` (build/C20/Traced_contracts.v); a deleted or weakened check breaks that lemma.\n"
            "   `delegation` says which callee performs the checks for callables that do none themselves (each row is\n"
            "   validated by probing on every run); `documented_args` lists the array parameters each public callable\n"
            "   documents.  Both are mirrored from tools/api_registry.py and re-compared on every run. *)\n")
    return head + body + "\n" + coq_tables() + SPEC_TAIL


SPEC_TAIL = r"""
(* ---- specification vocabulary over these tables, used by the statements in props/C20.v ------------------------ *)
Definition all_contracts : contracts := (expected ++ external_contracts)%list.

(* every array argument a public callable documents reaches a shape check: of the callable itself, or of the callee it
   hands the argument to (delegation table).  NOTE: "reaches a check" -- not "the accepted shapes are the documented ones" *)
Definition strict_row (na : string * list string) : bool :=
  mem (fst na) not_modelled || forallb (covered all_contracts delegation (fst na)) (snd na).

Definition sd_name := "polliwog.plane._plane_functions.signed_distance_to_plane".
Definition cp_name := "polliwog.segment._segment_functions.closest_point_of_line_segment".
Definition rv_name := "polliwog.transform._rodrigues.rodrigues_vector_to_rotation_matrix".
(* documented: "a 3x1 or 1x3 Rodrigues vector" (and the plain 3-vector) *)
Definition rv_documented : list shape := [[3]; [3; 1]; [1; 3]].
Definition off_contract (doc : list shape) (s : shape) : Prop := ~ In s doc.

(* "accepts exactly the documented forms" is decided over the finite universe M_shape.universe, for all argument
   positions jointly; receiver-dependent lengths are fixed (a polyline with 6 edges).  Exempt: the callables that are
   not a sequence of shape checks, and the Rodrigues vector (known finding: flattened before the check). *)
Definition forms_b0 : benv := [("self.num_e", Some 6)].
Definition forms_exempt : list string := (rv_name :: not_modelled)%list.
Definition names_of (n : string) : list string := match assoc documented_args n with Some l => l | None => [] end.
Definition forms_row (nf : string * list form) : bool :=
  mem (fst nf) forms_exempt || forms_agree all_contracts delegation forms_b0 (fst nf) (names_of (fst nf)) (snd nf).

(* ALL-SHAPES strictness: a callable is covered when it has no delegation row, its own golden contract is in the normal
   form M_shape.nf_ok, and the canonical forms computed symbolically from the contract (forms_of_contract) are, as a
   set, the canonical forms of its documented forms. *)
Definition forms_ext : list string := map fst forms_b0.
Definition has_delegates (name : string) : bool :=
  match assoc delegation name with Some (_ :: _) => true | _ => false end.
Definition cdim_eq_dec (x y : cdim) : {x = y} + {x <> y}.
Proof. decide equality; try apply PeanoNat.Nat.eq_dec; apply string_dec. Defined.
Definition cshape_eq_dec (x y : cshape) : {x = y} + {x <> y}.
Proof. decide equality. apply (list_eq_dec cdim_eq_dec). Defined.
Definition cform_eq_dec : forall x y : cform, {x = y} + {x <> y}.
Proof. apply list_eq_dec. intros [a s] [a' s']. destruct (string_dec a a') as [->|H]; [|right; congruence].
  destruct (cshape_eq_dec s s') as [->|H]; [left; reflexivity|right; congruence]. Defined.
Definition cform_mem (f : cform) (l : list cform) : bool := existsb (fun g => if cform_eq_dec f g then true else false) l.
Definition all_shapes_row (nf : string * list form) : bool :=
  let c := contract_of all_contracts (fst nf) in
  let fs := forms_of_contract c (senv_of forms_b0) in
  let ds := map (canon forms_ext) (snd nf) in
  negb (has_delegates (fst nf)) && forallb nf_ok c &&
  forallb (fun f => cform_mem f ds) fs && forallb (fun f => cform_mem f fs) ds.
(* delegating callables: acceptance = own symbolic forms /\ every delegate's symbolic forms on the WIRED arguments *)
Definition delegates_list (name : string) : list delegate := match assoc delegation name with Some ds => ds | None => [] end.
Definition deleg_forms_ok (ds : list delegate) (args : aenv) : bool :=
  forallb (fun d => in_cforms [] (forms_of_contract (contract_of all_contracts (callee d)) []) (wire (wiring d) args)) ds.
Definition delegating_row (name : string) : bool :=
  has_delegates name && forallb nf_ok (contract_of all_contracts name) &&
  forallb (fun d => forallb nf_ok (contract_of all_contracts (callee d))) (delegates_list name).
Definition all_shapes_via_delegates : list string := filter delegating_row (map fst documented_forms).
(* status of a delegate's callee: itself covered for all shapes, an external (vg) contract, or a pass-through delegator
   with no checks of its own (its own delegates are listed as further rows of the caller) *)
Definition callee_status_ok (d : delegate) : bool :=
  mem (callee d) (map fst (filter all_shapes_row documented_forms)) || mem (callee d) (map fst external_contracts) ||
  match contract_of all_contracts (callee d) with [] => true | _ => false end.
Definition all_shapes_covered : list string := map fst (filter all_shapes_row documented_forms).
Definition all_shapes_not_covered : list string := map fst (filter (fun nf => negb (all_shapes_row nf)) documented_forms).
"""


if __name__ == "__main__":
    if len(sys.argv) > 1 and sys.argv[1] == "golden":
        sys.stdout.write(golden_text())

# added with seeded rounds 6-7 (DESIGN 8.6)
RULE = RULE + '; result-state probe: every writeable array a call returned is overwritten and the call repeated on a fresh receiver with fresh arguments'
